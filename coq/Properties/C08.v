(** Property C08 — the reserved [metador_*] namespace is invisible and untouchable for
    users.  This file holds only the property theorems; each is closed by [exact] of a lemma
    proved in [Toc/LayoutProofs.v] / [Toc/UserViewProofs.v] and followed by
    [Print Assumptions]. *)
From Coq Require Import List String Bool NArith.
From MV Require Import Toc.Layout Toc.LayoutProofs Toc.UserView Toc.UserViewProofs.
Import ListNotations.
Local Open Scope string_scope.

(** *** String level ([container/utils.py]) *)

(** A path is internal iff one of its ["/"]-separated segments starts with [metador_]
    (relative, absolute and nested paths alike). *)
Theorem C08_internal_iff_segment : forall p,
  is_internal_path p = existsb (starts_with "metador_") (segs_of p).
Proof. exact internal_iff_segment. Qed.
Print Assumptions C08_internal_iff_segment.

(** The node path is recovered from its metadata directory path ... *)
Theorem C08_meta_path_roundtrip : forall p is_dataset,
  node_path_ok p is_dataset ->
  to_data_node_path (to_meta_base_path p is_dataset) = p.
Proof. exact meta_path_roundtrip. Qed.
Print Assumptions C08_meta_path_roundtrip.

(** ... that path is always internal and recognised as a metadata directory ... *)
Theorem C08_meta_path_internal : forall p is_dataset,
  is_internal_path (to_meta_base_path p is_dataset) = true.
Proof. exact meta_path_internal. Qed.
Print Assumptions C08_meta_path_internal.

Theorem C08_meta_path_is_base : forall p is_dataset,
  is_meta_base_path (to_meta_base_path p is_dataset) = true.
Proof. exact meta_path_is_base. Qed.
Print Assumptions C08_meta_path_is_base.

(** ... and no two nodes (nor a group and a dataset of one name) share it. *)
Theorem C08_meta_path_inj : forall p d q e,
  node_path_ok p d -> node_path_ok q e ->
  to_meta_base_path p d = to_meta_base_path q e -> p = q /\ d = e.
Proof. exact meta_path_inj. Qed.
Print Assumptions C08_meta_path_inj.

(** On h5py node names the string functions agree with the segment-level layout used by
    the state model. *)
Theorem C08_meta_base_of_name : forall p is_dataset,
  good_segs p -> (is_dataset = true -> p <> []) ->
  to_meta_base_path (name_of p) is_dataset = name_of (meta_dir_of p is_dataset).
Proof. exact meta_base_of_name. Qed.
Print Assumptions C08_meta_base_of_name.

(** *** State level ([container/wrappers.py], [container/interface.py]) *)

(** Every operation of the protocol, in every state, given a path argument that is or
    contains a reserved segment (as group, source, destination or name; relative, absolute
    or nested) is refused and leaves the whole state unchanged. *)
Theorem C08_reserved_refused : forall st o,
  op_reserved o = true -> exists r, c_step st o = (st, r) /\ r <> ROk.
Proof. exact reserved_refused. Qed.
Print Assumptions C08_reserved_refused.

Theorem C08_reserved_segment_refused : forall st o,
  (exists p s, In p (c_paths o) /\ In s (segs_of p) /\ starts_with "metador_" s = true) ->
  exists r, c_step st o = (st, r) /\ r <> ROk.
Proof. exact reserved_segment_refused. Qed.
Print Assumptions C08_reserved_segment_refused.

(** For all histories mixing data and metadata operations, from any state: the user view
    equals the plain tree run over the user operations alone. *)
Theorem C08_user_view_from : forall ops st,
  user_view (raw (c_run st ops)) = u_run (user_view (raw st)) (user_ops ops).
Proof. exact user_view_run. Qed.
Print Assumptions C08_user_view_from.

Theorem C08_user_view : forall ops,
  user_view (raw (c_run init_st ops)) = u_run (user_view init_raw) (user_ops ops).
Proof. exact user_view_run_init. Qed.
Print Assumptions C08_user_view.

(** Attaching and detaching metadata never changes the user view. *)
Theorem C08_metadata_invisible : forall st o,
  (match o with CAttach _ _ _ _ | CDetach _ _ => True | _ => False end) ->
  user_view (raw (fst (c_step st o))) = user_view (raw st).
Proof. exact metadata_invisible. Qed.
Print Assumptions C08_metadata_invisible.

(** Listings are functions of the user view and never show a reserved name. *)
Theorem C08_keys_view : forall st c, c_keys st c = t_keys (user_view (raw st)) c.
Proof. exact c_keys_view. Qed.
Print Assumptions C08_keys_view.

Theorem C08_len_view : forall st c,
  c_len st c = List.length (t_keys (user_view (raw st)) c).
Proof. exact c_len_view. Qed.
Print Assumptions C08_len_view.

Theorem C08_visit_view : forall st c, c_visit st c = t_visit (user_view (raw st)) c.
Proof. exact c_visit_view. Qed.
Print Assumptions C08_visit_view.

Theorem C08_contains_view : forall st c p,
  is_internal_path p = false -> has_reserved c = false ->
  c_contains st c p = Some (t_has (user_view (raw st)) (resolve c p)).
Proof. exact contains_view. Qed.
Print Assumptions C08_contains_view.

Theorem C08_contains_reserved : forall st c p,
  is_internal_path p = true -> c_contains st c p = None.
Proof. exact contains_reserved. Qed.
Print Assumptions C08_contains_reserved.

Theorem C08_keys_hide : forall st c k, In k (c_keys st c) -> reserved_seg k = false.
Proof. exact keys_hide. Qed.
Print Assumptions C08_keys_hide.

Theorem C08_reversed_hide : forall st c k, In k (c_reversed st c) -> reserved_seg k = false.
Proof. exact reversed_hide. Qed.
Print Assumptions C08_reversed_hide.

Theorem C08_visit_hide : forall st c r, In r (c_visit st c) -> has_reserved r = false.
Proof. exact visit_hide. Qed.
Print Assumptions C08_visit_hide.

Theorem C08_view_no_reserved : forall T p o,
  In (p, o) (user_view T) -> has_reserved p = false.
Proof. exact user_view_no_reserved. Qed.
Print Assumptions C08_view_no_reserved.

(** *** The pinned tree's rules violate the property *)

(** [copy(src, group, name="metador_...")]: refused with [ValueError], but a node with a
    reserved name has been created. *)
Theorem C08_copy_name_pinned_refuted :
  exists st o, op_reserved o = true /\ fst (c_step_pinned st o) <> st /\
               exists p o', In (p, o') (raw (fst (c_step_pinned st o))) /\
                            t_has (raw st) p = false /\ has_reserved p = true.
Proof. exact copy_name_pinned_refuted. Qed.
Print Assumptions C08_copy_name_pinned_refuted.

(** [reversed(group)] lists reserved names. *)
Theorem C08_reversed_pinned_refuted :
  exists st c k, In k (c_reversed_pinned st c) /\ reserved_seg k = true.
Proof. exact reversed_pinned_refuted. Qed.
Print Assumptions C08_reversed_pinned_refuted.

(** *** Non-vacuity *)

Example ex_forms :
  map is_internal_path
      ["metador_x"; "a/metador_meta_b"; "/metador_container/links"; "/a/b/metador_meta_";
       "./metador_x"; "a//metador_x"; "a/xmetador_"; "metadorx"; "/a/b"; ""]
  = [true; true; true; true; true; true; false; false; false; false].
Proof. reflexivity. Qed.

Example ex_roundtrip :
  (to_meta_base_path "/" false, to_meta_base_path "/a/b" false, to_meta_base_path "/a/b" true,
   to_meta_base_path "x" true, to_data_node_path "/a/metador_meta_b",
   to_data_node_path "/a/b/metador_meta_", to_data_node_path "/metador_meta_")
  = ("/metador_meta_", "/a/b/metador_meta_", "/a/metador_meta_b", "metador_meta_x", "/a/b",
     "/a/b", "/").
Proof. reflexivity. Qed.

Definition ex_hist : list cop :=
  [CCreateGroup "/" "a/b"; CSetItem "/a" "d" "i:5";
   CAttach "/a/d" "core.person__0.1.0" "metador-core__0.1.2" "{}";
   CAttach "/a" "core.person__0.1.0" "metador-core__0.1.2" "{}";
   CCreateGroup "/" "metador_x"; CCopy "/" "a" "c" false; CMove "/a" "d" "/e"].

(** The history has effects, the reserved path is refused, the bookkeeping is there ... *)
Example ex_hist_view :
  map fst (user_view (raw (c_run init_st ex_hist)))
  = [[]; ["a"]; ["a"; "b"]; ["e"]; ["c"]; ["c"; "b"]; ["c"; "d"]].
Proof. vm_compute. reflexivity. Qed.

Example ex_hist_bookkeeping :
  List.length (raw (c_run init_st ex_hist)) = 30%nat /\
  t_has (raw (c_run init_st ex_hist)) ["metador_meta_e"] = true /\
  t_has (raw (c_run init_st ex_hist)) ["c"; "metador_meta_d"] = true.
Proof. vm_compute. auto. Qed.

Example ex_refused :
  snd (c_step (c_run init_st ex_hist) (CMove "/" "e" "c/metador_meta_q")) = RGuard /\
  snd (c_step (c_run init_st ex_hist) (CGet "/" "/metador_container/links")) = RGuard /\
  snd (c_step (c_run init_st ex_hist) (CCopyInto "/" "e" "/c" (Some "metador_y") false)) = RGuard /\
  snd (c_step (c_run init_st ex_hist) (CCopyInto "/" "e" "/c" (Some "y") false)) = ROk.
Proof. vm_compute. auto. Qed.

Example ex_listing :
  c_keys (c_run init_st ex_hist) [] = ["a"; "e"; "c"] /\
  t_keys (raw (c_run init_st ex_hist)) [] = ["metador_container"; "a"; "e"; "metador_meta_e"; "c"].
Proof. vm_compute. auto. Qed.
