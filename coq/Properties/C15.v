(** Property C15 — node restrictions cannot be escaped by navigating the container.
    This file holds only the property theorems; each is closed by [exact] of a lemma
    proved in [Toc/AclProofs.v] and followed by [Print Assumptions]. *)
From Coq Require Import List String Bool.
From MV Require Import Base.Sx Toc.Acl Toc.AclProofs.
Import ListNotations.
Local Open Scope string_scope.
Local Open Scope list_scope.

(** Every navigation primitive ([[]], get, parent, file, items, values, visititems,
    create/require results, query results, restrict, and -- under the DEMANDED rule --
    [.node] / [.node.file] / [.node.parent] of the items of meta.values() / meta.items())
    yields flags that include the flags of the node it was applied to ...
    All closure theorems below quantify over chains of these primitives, [PMeta] included. *)
Theorem C15_flags_monotone : forall t n p t' n',
  nav1 t n p = NOk t' n' -> f_le (nfl n) (nfl n') = true.
Proof. exact nav1_flags_monotone. Qed.
Print Assumptions C15_flags_monotone.

(** ... hence so does every chain, of any length. *)
Theorem C15_flags_monotone_chain : forall ch t n t' n',
  nav t n ch = NOk t' n' -> f_le (nfl n) (nfl n') = true.
Proof. exact nav_flags_monotone. Qed.
Print Assumptions C15_flags_monotone_chain.

(** read_only: every node reachable by any chain is read_only, the chain itself has not
    changed the tree, and every mutating operation on the reached node is stopped by a
    guard before the raw layer ([raw], arbitrary) is called: the state is unchanged. *)
Theorem C15_ro_closed : forall (S : Type) (raw : S -> path -> op -> S) (s : S) ch t start t' n,
  ro (nfl start) = true -> nav t start ch = NOk t' n ->
  ro (nfl n) = true /\ t' = t /\
  forall o, mutating o = true ->
    exec raw s n o = (s, guard n o) /\ guard n o <> Passed /\
    (applicable n o = true -> guard n o = Refused).
Proof. exact @ro_closed. Qed.
Print Assumptions C15_ro_closed.

(** skel_only: no operation on any reachable node yields dataset contents, attribute
    values or metadata objects. *)
Theorem C15_so_closed : forall ch t start t' n,
  so (nfl start) = true -> nav t start ch = NOk t' n ->
  so (nfl n) = true /\
  forall o, revealing o = true ->
    guard n o <> Passed /\ (applicable n o = true -> guard n o = Refused).
Proof. exact so_closed. Qed.
Print Assumptions C15_so_closed.

(** local_only: every reachable node lies at or below the local root; [file], absolute
    lookups / creations, [parent] at a local root and every operation with an absolute
    path are refused. *)
Theorem C15_lo_closed : forall ch t start t' n,
  lo (nfl start) = true -> nstack start = [] -> nav t start ch = NOk t' n ->
  lo (nfl n) = true /\ is_prefix (npath start) (npath n) = true /\
  nav1 t' n PFile = NRefused /\
  (nstack n = [] -> nav1 t' n PParent = NRefused) /\
  (forall a, pabs a = true ->
     not_ok (nav1 t' n (PGetItem a)) /\ not_ok (nav1 t' n (PGet a)) /\
     forall c, not_ok (nav1 t' n (PCreate c a))) /\
  (forall o, upward o = true ->
     guard n o <> Passed /\ (applicable n o = true -> guard n o = Refused)).
Proof. exact lo_closed. Qed.
Print Assumptions C15_lo_closed.

(** The same for a start node that already has local parents (all at or below [R]). *)
Theorem C15_lo_closed_gen : forall ch R t start t' n,
  local_inv R start -> nav t start ch = NOk t' n ->
  lo (nfl n) = true /\ is_prefix R (npath n) = true /\
  nav1 t' n PFile = NRefused /\
  (nstack n = [] -> nav1 t' n PParent = NRefused) /\
  (forall a, pabs a = true ->
     not_ok (nav1 t' n (PGetItem a)) /\ not_ok (nav1 t' n (PGet a)) /\
     forall c, not_ok (nav1 t' n (PCreate c a))) /\
  (forall o, upward o = true ->
     guard n o <> Passed /\ (applicable n o = true -> guard n o = Refused)).
Proof. exact lo_closed_gen. Qed.
Print Assumptions C15_lo_closed_gen.

(** On a group node the refusal of absolute paths is a refusal proper (not an error). *)
Theorem C15_lo_refusals : forall t n,
  lo (nfl n) = true ->
  nav1 t n PFile = NRefused /\
  (nstack n = [] -> nav1 t n PParent = NRefused) /\
  (forall a, pabs a = true ->
     not_ok (nav1 t n (PGetItem a)) /\ not_ok (nav1 t n (PGet a)) /\
     forall c, not_ok (nav1 t n (PCreate c a))) /\
  (forall a, pabs a = true -> nkind n = KGroup ->
     nav1 t n (PGetItem a) = NRefused /\ nav1 t n (PGet a) = NRefused /\
     forall c, nav1 t n (PCreate c a) = NRefused).
Proof. exact lo_refusals. Qed.
Print Assumptions C15_lo_refusals.

(** Whether an operation is refused depends on the kind and the flags of the node only. *)
Theorem C15_guard_local : forall n m o,
  nkind n = nkind m -> nfl n = nfl m -> guard n o = guard m o.
Proof. exact guard_local. Qed.
Print Assumptions C15_guard_local.

(** Restrictions can be added but never removed. *)
Theorem C15_restrict_only_adds : forall f n,
  f_le (nfl n) (nfl (restrict f n)) = true /\ f_le f (nfl (restrict f n)) = true /\
  npath (restrict f n) = npath n /\ nkind (restrict f n) = nkind n.
Proof. exact restrict_only_adds. Qed.
Print Assumptions C15_restrict_only_adds.

(** The pinned rules for [file] and for [parent] below a local root violate the
    property (kept beside the repaired rules, DESIGN 2.3). *)
Theorem C15_pinned_file_refuted :
  exists t start ch t' n,
    ro (nfl start) = true /\ nav_pinned f_none t start ch = NOk t' n /\
    ro (nfl n) = false /\ guard n (OGrp GCreateGroup (mkP false ["x"])) = Passed.
Proof. exact pinned_file_refuted. Qed.
Print Assumptions C15_pinned_file_refuted.

Theorem C15_pinned_parent_refuted :
  exists t start ch t' n,
    ro (nfl start) = true /\ nav_pinned f_none t start ch = NOk t' n /\
    ro (nfl n) = false /\ guard n (OGrp GCreateGroup (mkP false ["x"])) = Passed.
Proof. exact pinned_parent_refuted. Qed.
Print Assumptions C15_pinned_parent_refuted.

Theorem C15_pinned_so_chain_refuted :
  exists t start ch t' n,
    lo (nfl start) = true /\ nstack start = [] /\
    nav_pinned f_none t start ch = NOk t' n /\
    exists m, nav_pinned f_none t start (removelast ch) = NOk t' m /\
              so (nfl m) = true /\ so (nfl n) = false.
Proof. exact pinned_so_chain_refuted. Qed.
Print Assumptions C15_pinned_so_chain_refuted.

(** Metadata listings.  The code hands out the raw objects of the driver (rule
    [nav_meta_pinned], recorded known finding); that rule violates the property: *)
Theorem C15_pinned_meta_node_refuted :
  exists t start,
    ro (nfl start) = true /\
    (exists t' n, nav1_pinned_meta t start (PMeta HNode) = NOk t' n /\
                  ro (nfl n) = false /\ guard n ODsWrite = Passed /\ guard n (OAttr ASetItem) = Passed) /\
    (exists t' n, nav1_pinned_meta t start (PMeta HFile) = NOk t' n /\
                  guard n (OGrp GCreateGroup (mkP false ["x"])) = Passed) /\
    (exists t' n, nav1_pinned_meta t start (PMeta HParent) = NOk t' n /\
                  guard n (OGrp GCreateGroup (mkP false ["x"])) = Passed).
Proof. exact pinned_meta_ro_refuted. Qed.
Print Assumptions C15_pinned_meta_node_refuted.

Theorem C15_pinned_meta_node_lo_refuted :
  exists t start t' n,
    lo (nfl start) = true /\ nstack start = [] /\
    nav1_pinned_meta t start (PMeta HFile) = NOk t' n /\
    is_prefix (npath start) (npath n) = false /\ lo (nfl n) = false /\
    exists t'' m, nav1 t' n (PGetItem (mkP true ["top"])) = NOk t'' m.
Proof. exact pinned_meta_lo_refuted. Qed.
Print Assumptions C15_pinned_meta_node_lo_refuted.

(** The demanded rule: only the object node itself is handed out, with the owner's flags,
    as a local root of its own ([file] and [parent] are refused on it). *)
Theorem C15_meta_demanded : forall t n h t' m,
  nav_meta t n h = NOk t' m ->
  h = HNode /\ t' = t /\ npath m = npath n /\ f_le (nfl n) (nfl m) = true /\
  lo (nfl m) = true /\ nstack m = [].
Proof. exact meta_demanded. Qed.
Print Assumptions C15_meta_demanded.

(** Both rules refuse a listing exactly under skel_only and yield nothing without objects. *)
Theorem C15_meta_rules_same_refusals : forall t n h,
  (nav_meta_pinned t n h = NRefused <-> so (nfl n) = true) /\
  (so (nfl n) = true -> nav_meta t n h = NRefused) /\
  (so (nfl n) = false -> has_objs t (npath n) = false ->
     nav_meta t n h = NErr /\ nav_meta_pinned t n h = NErr).
Proof. exact meta_rules_same_refusals. Qed.
Print Assumptions C15_meta_rules_same_refusals.

(** ** Non-vacuity: concrete chains that do reach nodes, and operations that are
    applicable to them. *)

Definition all_flags : flags := mkF true true true.
Definition g_start (f : flags) : node := mkN ["g"] KGroup f [].

(** A chain of length 5 from a fully restricted [/g]: down by lookup, up by parent, down
    by a visit callback, to the query result [/g/h/d]. *)
Example ex_chain_reaches :
  nav demo_tree (g_start all_flags)
      [PGetItem (mkP false ["h"]); PParent; PVisit ["h"; "d"]; PParent; PQuery ["g"; "h"; "d"]]
  = NOk demo_tree
        (mkN ["g"; "h"; "d"] KDataset all_flags [mkFr ["g"] all_flags]).
Proof. vm_compute. reflexivity. Qed.

(** On that node the mutating and revealing dataset operations are applicable and refused. *)
Example ex_ops_refused :
  let n := mkN ["g"; "h"; "d"] KDataset all_flags [mkFr ["g"] all_flags] in
  map (guard n) [ODsWrite; ODsRead; ODsMember "resize"; OAttr ASetItem; OAttr AGetItem;
                 OAttr (AMethod "update" true); OAttr (AMethod "items" true);
                 OMeta MSetItem; OMeta MDelItem; OMeta MGet; OMeta MKeys; OAttr AContains]
  = [Refused; Refused; Refused; Refused; Refused; Refused; Refused;
     Refused; Refused; Refused; Passed; Passed].
Proof. vm_compute. reflexivity. Qed.

(** Without flags the same operations pass (the guards are not constantly [Refused]) and a
    creating step changes the tree. *)
Example ex_unrestricted_passes :
  let n := mkN ["g"; "h"; "d"] KDataset f_none [] in
  map (guard n) [ODsWrite; ODsRead; OAttr ASetItem; OMeta MSetItem] = [Passed; Passed; Passed; Passed].
Proof. vm_compute. reflexivity. Qed.

Example ex_create_changes_tree :
  nav demo_tree (g_start f_none) [PCreate CreateGroup (mkP false ["new"; "sub"])]
  = NOk (demo_tree ++ [mkE ["g"; "new"] KGroup false false; mkE ["g"; "new"; "sub"] KGroup false false])
        (mkN ["g"; "new"; "sub"] KGroup f_none []).
Proof. vm_compute. reflexivity. Qed.

(** read_only reaches the container and the root through [file] and [parent] with the
    flag intact; local_only refuses both at the local root and hands out the local root
    (joined with later restrictions) from below. *)
Example ex_ro_file_parent :
  nav demo_tree (g_start (mkF true false false)) [PFile; PGetItem (mkP true ["top"]); PParent]
  = NOk demo_tree (mkN [] KGroup (mkF true false false) []).
Proof. vm_compute. reflexivity. Qed.

Example ex_lo_parent_joined :
  nav demo_tree (g_start (mkF false true false))
      [PGetItem (mkP false ["h"; "d"]); PRestrict (mkF false false true); PParent]
  = NOk demo_tree (mkN ["g"] KGroup (mkF false true true) []).
Proof. vm_compute. reflexivity. Qed.

Example ex_lo_refused :
  map (nav1 demo_tree (g_start (mkF false true false)))
      [PParent; PFile; PGetItem (mkP true ["top"]); PCreate RequireGroup (mkP true ["g"])]
  = [NRefused; NRefused; NRefused; NRefused].
Proof. vm_compute. reflexivity. Qed.

(** A chain through a metadata listing under the demanded rule: the object node of [/g] is
    read_only + local_only, dataset write and attribute write on it are refused, and nothing
    leads up from it. *)
Example ex_meta_demanded :
  nav demo_tree (g_start (mkF true false false)) [PGetItem (mkP false ["h"]); PParent; PMeta HNode]
  = NOk demo_tree (mkN ["g"] KDataset (mkF true true false) []) /\
  map (guard (mkN ["g"] KDataset (mkF true true false) [])) [ODsWrite; OAttr ASetItem; ODsRead]
  = [Refused; Refused; Passed] /\
  map (nav1 demo_tree (g_start (mkF true false false))) [PMeta HFile; PMeta HParent]
  = [NRefused; NRefused].
Proof. vm_compute. repeat split. Qed.

Example ex_copy_nodes :
  map (fun f => guard (g_start f) OCopyNodes)
      [f_none; mkF true false false; mkF false true false; mkF false false true]
  = [Passed; Refused; Passed; Passed].
Proof. vm_compute. reflexivity. Qed.
