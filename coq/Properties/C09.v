(** Property C09 — containers behave identically on plain HDF5 and on IH5 records.
    This file holds only the property theorems; each is closed by [exact] of a lemma proved
    in [IH5/ClientProofs.v] and followed by [Print Assumptions].

    Model: [IH5/Client.v] on top of [IH5/Overlay.v].  A *client* is any deterministic program
    over the H5GroupLike protocol: a function from the answers received so far to the next
    request (a write operation of [Overlay.op] or a read: node lookup, membership, child and
    attribute listing, visit, value).  [trace_t] runs it against one plain tree, [trace_m]
    against the overlay stack with patch boundaries (commit_patch + create_patch, with or
    without close and reopen in between) placed by an arbitrary schedule [bs].  The container
    layer of [wrappers.py]/[interface.py] is such a client: it reaches the file only through
    the protocol, so its user-visible data, attributes, metadata objects (stored as datasets)
    and query results (computed from listings and visits) are functions of the trace. *)
From stdpp Require Import gmap strings list sorting.
From MV Require Import IH5.Overlay IH5.OverlayProofs IH5.Client IH5.ClientProofs.

(** The child / attribute listing computed as [IH5InnerNode._children] does it (candidate
    keys of the containers above the creation index, newest-sighting walk per key, markers
    dropped) is the listing of the plain tree. *)
Theorem C09_children_equiv : forall R T (p : path) (a : bool),
  Sim R T -> m_children R p a = t_children T p a.
Proof. exact children_equiv. Qed.
Print Assumptions C09_children_equiv.

(** The listing shows exactly the children present in the plain tree, each once, in
    alphabetical order. *)
Theorem C09_keys_listing : forall R T (p : path) (a : bool) ks,
  Sim R T -> m_children R p a = Some ks ->
  let l := ssort (elements ks) in
  NoDup l /\ Sorted sle l /\ forall k, k ∈ l <-> is_Some (T !! ((a, k) :: p)).
Proof. exact keys_listing. Qed.
Print Assumptions C09_keys_listing.

(** The visit ([visititems] as the depth-first walk over [_children]) shows exactly the nodes
    below the start group that are visible in the overlay, with their kinds and values. *)
Theorem C09_visit_exact : forall R T (p x : path) e, Sim R T ->
  (x, e) ∈ m_visit_go (S (size (viewmap R))) R p <->
  exists r, r <> [] /\ is_node_path r = true /\ x = r ++ p /\ vget R x = Some e.
Proof. exact visit_exact. Qed.
Print Assumptions C09_visit_exact.

(** Every read request (lookup, membership, listings, visit, value) has the same answer. *)
Theorem C09_read_equiv : forall R T, Sim R T -> forall rq, read_m R rq = read_t T rq.
Proof. exact read_equiv. Qed.
Print Assumptions C09_read_equiv.

(** Any client, any boundary schedule, any number of steps: the same trace of result classes
    and answers on the overlay as on the plain tree. *)
Theorem C09_driver_equiv : forall (prog : client) (bs : nat -> bool) (n : nat),
  trace_m prog bs n = trace_t prog n.
Proof. exact driver_equiv. Qed.
Print Assumptions C09_driver_equiv.

(** ... and the same user-visible state afterwards: the simulation relation of C01 holds, the
    view is the plain tree, every further read is answered identically. *)
Theorem C09_driver_state : forall (prog : client) (bs : nat -> bool) (n : nat),
  Sim (state_m prog bs n) (state_t prog n).
Proof. exact driver_state_sim. Qed.
Print Assumptions C09_driver_state.

Theorem C09_driver_view : forall (prog : client) (bs : nat -> bool) (n : nat),
  viewmap (state_m prog bs n) = state_t prog n /\
  forall rq, read_m (state_m prog bs n) rq = read_t (state_t prog n) rq.
Proof. exact driver_view_equiv. Qed.
Print Assumptions C09_driver_view.

(** Whatever a layer on top computes from the answers (user-visible data, attributes,
    metadata objects, query results) is equal on both drivers. *)
Theorem C09_layer_equiv : forall {X} (f : list obs -> X) (prog : client) (bs : nat -> bool) (n : nat),
  f (trace_m prog bs n) = f (trace_t prog n).
Proof. exact @layer_equiv. Qed.
Print Assumptions C09_layer_equiv.

(** Where patch boundaries and reopen points fall is unobservable for any client. *)
Theorem C09_schedule_unobservable : forall (prog : client) (bs bs' : nat -> bool) (n : nat),
  trace_m prog bs n = trace_m prog bs' n /\
  viewmap (state_m prog bs n) = viewmap (state_m prog bs' n).
Proof. exact schedule_unobservable. Qed.
Print Assumptions C09_schedule_unobservable.

(** Non-vacuity: an adaptive client (its requests depend on the answers: the same program
    takes the create branch on an empty record and the delete / re-create / clean-up branch
    on a prepared one) run with a boundary before every request (10 containers) and with none
    (1 container). *)
Example C09_witness_adaptive :
  trace_m (after prep1 (ensure_client "i:7")) every 10 =
    [AWrite true; AWrite true; AWrite true;
     AEntry (Some (TData "i:2")); AWrite true; AWrite true;
     ANames (Some ["x"; "y"]); AWrite true;
     AVisit (Some [(pa, TGroup); (pax, TData "i:7")])]%string
  /\ trace_m (ensure_client "i:7") every 10 =
    [AEntry None; AWrite true; ANames (Some ["x"]);
     AVisit (Some [(pa, TGroup); (pax, TData "i:7")])]%string
  /\ length (state_m (after prep1 (ensure_client "i:7")) every 10) = 10
  /\ length (state_m (after prep1 (ensure_client "i:7")) never 10) = 1.
Proof. exact witness_adaptive. Qed.
