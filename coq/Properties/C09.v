(** Property C09 — containers behave identically on plain HDF5 and on IH5 records.
    This file holds only the property theorems; each is closed by [exact] of a lemma proved
    in [IH5/ClientProofs.v] and followed by [Print Assumptions].

    Model: [IH5/Client.v] on top of [IH5/Overlay.v].  A *client* is any deterministic program
    over the H5GroupLike protocol: a function from the answers received so far to the next
    request (a write operation of [Overlay.op] or a read: node lookup, membership, child and
    attribute listing, visit, value).  [trace_t] runs it against one plain tree, [trace_m]
    against the overlay stack with patch boundaries (commit_patch + create_patch, with or
    without close and reopen in between) placed by an arbitrary schedule [bs].  The container
    layer of [wrappers.py]/[interface.py] is such a client: it reaches the file only through
    the protocol, so its user-visible data, attributes, metadata objects (stored as datasets)
    and query results (computed from listings and visits) are functions of the trace. *)
From stdpp Require Import gmap strings list sorting.
From MV Require Import IH5.Overlay IH5.OverlayProofs IH5.Client IH5.ClientProofs.
From MV Require Import Bridge.PlainTree Bridge.PlainTreeProofs.
From MV Require Toc.UserView.

(** The child / attribute listing computed as [IH5InnerNode._children] does it (candidate
    keys of the containers above the creation index, newest-sighting walk per key, markers
    dropped) is the listing of the plain tree. *)
Theorem C09_children_equiv : forall R T (p : path) (a : bool),
  Sim R T -> m_children R p a = t_children T p a.
Proof. exact children_equiv. Qed.
Print Assumptions C09_children_equiv.

(** The listing shows exactly the children present in the plain tree, each once, in
    alphabetical order. *)
Theorem C09_keys_listing : forall R T (p : path) (a : bool) ks,
  Sim R T -> m_children R p a = Some ks ->
  let l := ssort (elements ks) in
  NoDup l /\ Sorted sle l /\ forall k, k ∈ l <-> is_Some (T !! ((a, k) :: p)).
Proof. exact keys_listing. Qed.
Print Assumptions C09_keys_listing.

(** The visit ([visititems] as the depth-first walk over [_children]) shows exactly the nodes
    below the start group that are visible in the overlay, with their kinds and values. *)
Theorem C09_visit_exact : forall R T (p x : path) e, Sim R T ->
  (x, e) ∈ m_visit_go (S (size (viewmap R))) R p <->
  exists r, r <> [] /\ is_node_path r = true /\ x = r ++ p /\ vget R x = Some e.
Proof. exact visit_exact. Qed.
Print Assumptions C09_visit_exact.

(** Every read request (lookup, membership, listings, visit, value) has the same answer. *)
Theorem C09_read_equiv : forall R T, Sim R T -> forall rq, read_m R rq = read_t T rq.
Proof. exact read_equiv. Qed.
Print Assumptions C09_read_equiv.

(** Any client, any boundary schedule, any number of steps: the same trace of result classes
    and answers on the overlay as on the plain tree. *)
Theorem C09_driver_equiv : forall (prog : client) (bs : nat -> bool) (n : nat),
  trace_m prog bs n = trace_t prog n.
Proof. exact driver_equiv. Qed.
Print Assumptions C09_driver_equiv.

(** ... and the same user-visible state afterwards: the simulation relation of C01 holds, the
    view is the plain tree, every further read is answered identically. *)
Theorem C09_driver_state : forall (prog : client) (bs : nat -> bool) (n : nat),
  Sim (state_m prog bs n) (state_t prog n).
Proof. exact driver_state_sim. Qed.
Print Assumptions C09_driver_state.

Theorem C09_driver_view : forall (prog : client) (bs : nat -> bool) (n : nat),
  viewmap (state_m prog bs n) = state_t prog n /\
  forall rq, read_m (state_m prog bs n) rq = read_t (state_t prog n) rq.
Proof. exact driver_view_equiv. Qed.
Print Assumptions C09_driver_view.

(** Whatever a layer on top computes from the answers (user-visible data, attributes,
    metadata objects, query results) is equal on both drivers. *)
Theorem C09_layer_equiv : forall {X} (f : list obs -> X) (prog : client) (bs : nat -> bool) (n : nat),
  f (trace_m prog bs n) = f (trace_t prog n).
Proof. exact @layer_equiv. Qed.
Print Assumptions C09_layer_equiv.

(** Where patch boundaries and reopen points fall is unobservable for any client. *)
Theorem C09_schedule_unobservable : forall (prog : client) (bs bs' : nat -> bool) (n : nat),
  trace_m prog bs n = trace_m prog bs' n /\
  viewmap (state_m prog bs n) = viewmap (state_m prog bs' n).
Proof. exact schedule_unobservable. Qed.
Print Assumptions C09_schedule_unobservable.

(** Non-vacuity: an adaptive client (its requests depend on the answers: the same program
    takes the create branch on an empty record and the delete / re-create / clean-up branch
    on a prepared one) run with a boundary before every request (10 containers) and with none
    (1 container). *)
Example C09_witness_adaptive :
  trace_m (after prep1 (ensure_client "i:7")) every 10 =
    [AWrite true; AWrite true; AWrite true;
     AEntry (Some (TData "i:2")); AWrite true; AWrite true;
     ANames (Some ["x"; "y"]); AWrite true;
     AVisit (Some [(pa, TGroup); (pax, TData "i:7")])]%string
  /\ trace_m (ensure_client "i:7") every 10 =
    [AEntry None; AWrite true; ANames (Some ["x"]);
     AVisit (Some [(pa, TGroup); (pax, TData "i:7")])]%string
  /\ length (state_m (after prep1 (ensure_client "i:7")) every 10) = 10
  /\ length (state_m (after prep1 (ensure_client "i:7")) never 10) = 1.
Proof. exact witness_adaptive. Qed.

(** ** The bridge to the container model family

    The container theorems (C06, C07, C08, C15, C20) are proved over the plain tree of
    [Toc/UserView.v] (association list keyed by forward paths, attribute lists inside the
    objects; [u_step], [u_run]); the theorems above are stated over the plain tree of
    [IH5/Overlay.v] (finite map keyed by reversed paths with flagged attribute segments;
    [t_step], [run_t]).  [Bridge/PlainTree.v] defines the abstraction [abs] from the first to
    the second, the translation [conv] of operations and the common fragment ([common]: the
    group objects of the call exist, the IH5 deletion-marker value is not written as data --
    copies strictly below their own source included, both models graft a snapshot; [conv] is
    undefined for the two
    ensure-style requests require_group / require_dataset).  The theorems below make
    "what is proved over the plain tree holds for the IH5 driver by C09" precise. *)

(** [abs] is faithful: reading [abs U] at a reversed flagged path is reading [U] at the forward
    path it stands for (kind and value of the node, or the value of the attribute). *)
Theorem C09_bridge_abs_lookup : forall (U : UserView.tree) (q : path), abs U !! q = look U q.
Proof. exact abs_lookup. Qed.
Print Assumptions C09_bridge_abs_lookup.

(** One step of every operation kind of the common fragment (create_group with intermediate
    groups, create dataset, delete, attribute set / delete, copy, move; successful or
    refused): the specification tree of the overlay does to [abs U] exactly what the
    association-list model does to [U], with the same result class. *)
Theorem C09_bridge_step : forall (U : UserView.tree) (o : UserView.uop) (o' : op),
  wf U -> common U o = true -> conv o = Some o' ->
  t_step (abs U) o' = (abs (UserView.u_step U o).1, (UserView.u_step U o).2).
Proof. exact bridge_step. Qed.
Print Assumptions C09_bridge_step.

(** Whole operation lists from the empty tree; the association-list tree stays well-formed. *)
Theorem C09_bridge_run : forall ops : list UserView.uop,
  common_run u_init ops = true ->
  run_t (omap conv ops) = abs (UserView.u_run u_init ops) /\ wf (UserView.u_run u_init ops).
Proof. exact bridge_run. Qed.
Print Assumptions C09_bridge_run.

(** Composition with C01: an IH5 history with patch boundaries at arbitrary positions whose
    operations are those of [uops] shows [abs] of the association-list model's tree. *)
Theorem C09_bridge_overlay_view : forall (mops : list op) (uops : list UserView.uop),
  common_run u_init uops = true -> strip_bnd mops = omap conv uops ->
  viewmap (run_m mops) = abs (UserView.u_run u_init uops) /\
  forall p, vget (run_m mops) p = tget (abs (UserView.u_run u_init uops)) p.
Proof. exact bridge_overlay_view. Qed.
Print Assumptions C09_bridge_overlay_view.

(** Composition with [C09_driver_view]: any client of the protocol (the container layer is
    one), any boundary / reopen schedule: if the raw write requests it issued are the
    operation list [uops] of the association-list model, the IH5 overlay view is [abs] of that
    model's tree and every read request is answered from it. *)
Theorem C09_bridge_driver_view :
  forall (prog : client) (bs : nat -> bool) (n : nat) (uops : list UserView.uop),
  common_run u_init uops = true -> strip_bnd (writes prog n) = omap conv uops ->
  viewmap (state_m prog bs n) = abs (UserView.u_run u_init uops) /\
  forall rq, read_m (state_m prog bs n) rq = read_t (abs (UserView.u_run u_init uops)) rq.
Proof. exact bridge_driver_view. Qed.
Print Assumptions C09_bridge_driver_view.

(** Non-vacuity: a 12-step history through every operation kind (with group-object
    receivers, attributes on the root, a group and a dataset, copy and move of groups with
    attributes below, three refusals) lies in the common fragment; run with three patch
    boundaries through the overlay (4 containers) it shows [abs] of the association-list
    tree, which has 9 entries. *)
Example C09_bridge_witness :
  common_run u_init demo_uops = true /\
  strip_bnd demo_mops = omap conv demo_uops /\
  length (run_m demo_mops) = 4 /\
  classes u_init demo_uops =
    [true; true; true; true; true; true; true; true; true; false; false; false] /\
  viewmap (run_m demo_mops) = abs (UserView.u_run u_init demo_uops) /\
  map_to_list (abs (UserView.u_run u_init demo_uops)) =
    [([(false, "a")], TGroup); ([(true, "m"); (false, "a")], TData "e:");
     ([(false, "x"); (false, "a")], TData "i:1");
     ([(true, "k"); (false, "x"); (false, "a")], TData "i:2");
     ([(false, "c")], TGroup); ([(false, "d"); (false, "c")], TGroup);
     ([(false, "b"); (false, "d"); (false, "c")], TGroup);
     ([(false, "e")], TGroup); ([(true, "r")], TData "i:3")]%string.
Proof. exact bridge_witness. Qed.
