(** Property C16 — plugin references order, match and resolve by semantic version.
    This file holds only the property theorems; each is closed by [exact] of a lemma
    proved in [Util/PluginRefProofs.v] and followed by [Print Assumptions]. *)
From Coq Require Import List String NArith Bool Sorted Permutation.
From MV Require Import Base.Cmp Util.PluginRef Util.PluginRefProofs.
Import ListNotations.

(** [>=] is a total order consistent with [==] ... *)
Theorem C16_ge_refl : forall a, r_ge a a = true.
Proof. exact ge_refl. Qed.
Print Assumptions C16_ge_refl.

Theorem C16_ge_antisym : forall a b, r_ge a b = true -> r_ge b a = true -> r_eq a b = true.
Proof. exact ge_antisym. Qed.
Print Assumptions C16_ge_antisym.

Theorem C16_ge_trans : forall a b c, r_ge a b = true -> r_ge b c = true -> r_ge a c = true.
Proof. exact ge_trans. Qed.
Print Assumptions C16_ge_trans.

Theorem C16_ge_total : forall a b, r_ge a b = true \/ r_ge b a = true.
Proof. exact ge_total. Qed.
Print Assumptions C16_ge_total.

(** ... it is the lexicographic order on (group, name, version) ... *)
Theorem C16_ge_lex : forall a b,
  r_ge a b = match scmp (rgroup a) (rgroup b) with
             | Lt => false | Gt => true
             | Eq => match scmp (rname a) (rname b) with
                     | Lt => false | Gt => true
                     | Eq => match vcmp (rver a) (rver b) with Lt => false | _ => true end
                     end
             end.
Proof. exact ge_lex. Qed.
Print Assumptions C16_ge_lex.

(** ... the operators Python derives from it agree with each other ... *)
Theorem C16_ops_consistent : forall a b,
  r_le a b = r_ge b a /\ r_gt a b = r_lt b a /\ r_lt a b = negb (r_ge a b) /\
  r_ne a b = negb (r_eq a b) /\ (r_ge a b = r_gt a b || r_eq a b) /\
  (r_eq a b = r_ge a b && r_le a b).
Proof. exact ops_consistent. Qed.
Print Assumptions C16_ops_consistent.

Theorem C16_trichotomy : forall a b,
  (r_lt a b = true /\ r_eq a b = false /\ r_gt a b = false) \/
  (r_lt a b = false /\ r_eq a b = true /\ r_gt a b = false) \/
  (r_lt a b = false /\ r_eq a b = false /\ r_gt a b = true).
Proof. exact trichotomy. Qed.
Print Assumptions C16_trichotomy.

(** ... and equality is structural and implies equal hashes. *)
Theorem C16_eq_iff : forall a b, r_eq a b = true <-> a = b.
Proof. exact r_eq_iff. Qed.
Print Assumptions C16_eq_iff.

Theorem C16_eq_hash : forall (H : Type) (h : _ -> H) a b,
  r_eq a b = true -> r_hash h a = r_hash h b.
Proof. exact @eq_hash. Qed.
Print Assumptions C16_eq_hash.

(** [supports]: group, name, major equal and minor not smaller — exactly. *)
Theorem C16_supports_spec : forall a b,
  supports a b = true <->
  rgroup a = rgroup b /\ rname a = rname b /\
  vmajor (rver a) = vmajor (rver b) /\ (vminor (rver b) <= vminor (rver a))%N.
Proof. exact supports_spec. Qed.
Print Assumptions C16_supports_spec.

(** Any registration order, any number of versions: ascending and complete. *)
Theorem C16_versions_sorted_complete : forall rs g n,
  StronglySorted le_rel (versions (register_all rs) g n None) /\
  Permutation (versions (register_all rs) g n None) (filter (named n) rs).
Proof. exact versions_sorted_complete. Qed.
Print Assumptions C16_versions_sorted_complete.

(** [resolve] = newest registered version supporting the request, or none. *)
Theorem C16_resolve_newest : forall rs g n v,
  match resolve (register_all rs) g n (Some v) with
  | Some r => In r rs /\ rname r = n /\ supports r (mkref g n v) = true /\
              forall r', In r' rs -> rname r' = n -> supports r' (mkref g n v) = true -> le_rel r' r
  | None => forall r', In r' rs -> rname r' = n -> supports r' (mkref g n v) = false
  end.
Proof. exact resolve_newest. Qed.
Print Assumptions C16_resolve_newest.

Theorem C16_resolve_latest : forall rs g n,
  match resolve (register_all rs) g n None with
  | Some r => In r rs /\ rname r = n /\ forall r', In r' rs -> rname r' = n -> le_rel r' r
  | None => forall r', In r' rs -> rname r' <> n
  end.
Proof. exact resolve_latest. Qed.
Print Assumptions C16_resolve_latest.

(** A class handle obtained without a version cannot be used as a base. *)
Theorem C16_undef_not_subclassable : forall bases,
  In (get_handle false) bases -> subclass bases = None.
Proof. exact undef_not_subclassable. Qed.
Print Assumptions C16_undef_not_subclassable.

(** Non-vacuity: three versions registered out of order. *)
Example C16_nonvacuous :
  let rs := [mkref "g" "aa" (1,(2,0)); mkref "g" "aa" (2,(0,0)); mkref "g" "aa" (1,(0,5))]%N in
  resolve (register_all rs) "g" "aa" (Some (1,(1,0))%N) = Some (mkref "g" "aa" (1,(2,0))%N) /\
  resolve (register_all rs) "g" "aa" None = Some (mkref "g" "aa" (2,(0,0))%N) /\
  resolve (register_all rs) "g" "aa" (Some (3,(0,0))%N) = None.
Proof. vm_compute. repeat split. Qed.
