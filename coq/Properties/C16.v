(** Property C16 — plugin references order, match and resolve by semantic version.
    This file holds only the property theorems; each is closed by [exact] of a lemma
    proved in [Util/PluginRefProofs.v] and followed by [Print Assumptions]. *)
From Coq Require Import List String NArith Bool Sorted Permutation.
From MV Require Import Base.Cmp Util.PluginRef Util.PluginRefProofs.
From MV Require Import Util.EpName Util.EpNameProofs.
Import ListNotations.

(** [>=] is a total order consistent with [==] ... *)
Theorem C16_ge_refl : forall a, r_ge a a = true.
Proof. exact ge_refl. Qed.
Print Assumptions C16_ge_refl.

Theorem C16_ge_antisym : forall a b, r_ge a b = true -> r_ge b a = true -> r_eq a b = true.
Proof. exact ge_antisym. Qed.
Print Assumptions C16_ge_antisym.

Theorem C16_ge_trans : forall a b c, r_ge a b = true -> r_ge b c = true -> r_ge a c = true.
Proof. exact ge_trans. Qed.
Print Assumptions C16_ge_trans.

Theorem C16_ge_total : forall a b, r_ge a b = true \/ r_ge b a = true.
Proof. exact ge_total. Qed.
Print Assumptions C16_ge_total.

(** ... it is the lexicographic order on (group, name, version) ... *)
Theorem C16_ge_lex : forall a b,
  r_ge a b = match scmp (rgroup a) (rgroup b) with
             | Lt => false | Gt => true
             | Eq => match scmp (rname a) (rname b) with
                     | Lt => false | Gt => true
                     | Eq => match vcmp (rver a) (rver b) with Lt => false | _ => true end
                     end
             end.
Proof. exact ge_lex. Qed.
Print Assumptions C16_ge_lex.

(** ... the operators Python derives from it agree with each other ... *)
Theorem C16_ops_consistent : forall a b,
  r_le a b = r_ge b a /\ r_gt a b = r_lt b a /\ r_lt a b = negb (r_ge a b) /\
  r_ne a b = negb (r_eq a b) /\ (r_ge a b = r_gt a b || r_eq a b) /\
  (r_eq a b = r_ge a b && r_le a b).
Proof. exact ops_consistent. Qed.
Print Assumptions C16_ops_consistent.

Theorem C16_trichotomy : forall a b,
  (r_lt a b = true /\ r_eq a b = false /\ r_gt a b = false) \/
  (r_lt a b = false /\ r_eq a b = true /\ r_gt a b = false) \/
  (r_lt a b = false /\ r_eq a b = false /\ r_gt a b = true).
Proof. exact trichotomy. Qed.
Print Assumptions C16_trichotomy.

(** ... and equality is structural and implies equal hashes. *)
Theorem C16_eq_iff : forall a b, r_eq a b = true <-> a = b.
Proof. exact r_eq_iff. Qed.
Print Assumptions C16_eq_iff.

Theorem C16_eq_hash : forall (H : Type) (h : _ -> H) a b,
  r_eq a b = true -> r_hash h a = r_hash h b.
Proof. exact @eq_hash. Qed.
Print Assumptions C16_eq_hash.

(** [supports]: group, name, major equal and minor not smaller — exactly. *)
Theorem C16_supports_spec : forall a b,
  supports a b = true <->
  rgroup a = rgroup b /\ rname a = rname b /\
  vmajor (rver a) = vmajor (rver b) /\ (vminor (rver b) <= vminor (rver a))%N.
Proof. exact supports_spec. Qed.
Print Assumptions C16_supports_spec.

(** Any registration order, any number of versions: ascending and complete. *)
Theorem C16_versions_sorted_complete : forall rs g n,
  StronglySorted le_rel (versions (register_all rs) g n None) /\
  Permutation (versions (register_all rs) g n None) (filter (named n) rs).
Proof. exact versions_sorted_complete. Qed.
Print Assumptions C16_versions_sorted_complete.

(** [resolve] = newest registered version supporting the request, or none. *)
Theorem C16_resolve_newest : forall rs g n v,
  match resolve (register_all rs) g n (Some v) with
  | Some r => In r rs /\ rname r = n /\ supports r (mkref g n v) = true /\
              forall r', In r' rs -> rname r' = n -> supports r' (mkref g n v) = true -> le_rel r' r
  | None => forall r', In r' rs -> rname r' = n -> supports r' (mkref g n v) = false
  end.
Proof. exact resolve_newest. Qed.
Print Assumptions C16_resolve_newest.

Theorem C16_resolve_latest : forall rs g n,
  match resolve (register_all rs) g n None with
  | Some r => In r rs /\ rname r = n /\ forall r', In r' rs -> rname r' = n -> le_rel r' r
  | None => forall r', In r' rs -> rname r' <> n
  end.
Proof. exact resolve_latest. Qed.
Print Assumptions C16_resolve_latest.

(** A class handle obtained without a version cannot be used as a base. *)
Theorem C16_undef_not_subclassable : forall bases,
  In (get_handle false) bases -> subclass bases = None.
Proof. exact undef_not_subclassable. Qed.
Print Assumptions C16_undef_not_subclassable.

(** Non-vacuity: three versions registered out of order. *)
Example C16_nonvacuous :
  let rs := [mkref "g" "aa" (1,(2,0)); mkref "g" "aa" (2,(0,0)); mkref "g" "aa" (1,(0,5))]%N in
  resolve (register_all rs) "g" "aa" (Some (1,(1,0))%N) = Some (mkref "g" "aa" (1,(2,0))%N) /\
  resolve (register_all rs) "g" "aa" None = Some (mkref "g" "aa" (2,(0,0))%N) /\
  resolve (register_all rs) "g" "aa" (Some (3,(0,0))%N) = None.
Proof. vm_compute. repeat split. Qed.

(** ** Entry-point names convert to (name, version) and back without loss
    ([plugin/types.py]; model [Util/EpName.v]: the regular expressions of the source as
    terms, [valid_qualname]/[valid_semver]/[valid_epname] = [re.fullmatch] on them). *)
Local Open Scope string_scope.

(** The matcher decides the standard language of a regular expression. *)
Theorem C16_fullmatch_spec : forall s r, matchb r s = true <-> Matches r s.
Proof. exact matchb_spec. Qed.
Print Assumptions C16_fullmatch_spec.

(** For ALL valid qualified names and ALL versions (unbounded numerals): decode after encode. *)
Theorem C16_epname_roundtrip : forall n v,
  valid_qualname n = true -> from_ep_name (to_ep_name n v) = Some (n, v).
Proof. exact epname_roundtrip. Qed.
Print Assumptions C16_epname_roundtrip.

(** The literal transcription of the source (split at "__", [SemVerStr] validation, split at
    ".", [int]) is the same function as [from_ep_name], on every string incl. refusals ... *)
Theorem C16_from_ep_name_py_equiv : forall s, from_ep_name_py s = from_ep_name s.
Proof. exact from_ep_name_py_equiv. Qed.
Print Assumptions C16_from_ep_name_py_equiv.

(** ... so the round trip holds for it too. *)
Theorem C16_epname_roundtrip_py : forall n v,
  valid_qualname n = true -> from_ep_name_py (to_ep_name n v) = Some (n, v).
Proof. exact epname_roundtrip_py. Qed.
Print Assumptions C16_epname_roundtrip_py.

(** [to_ep_name] (with its [EPName(...)] validation) succeeds exactly on valid qualified
    names, whatever the version; its result is always a valid entry-point name. *)
Theorem C16_epname_valid : forall n v, valid_epname (to_ep_name n v) = valid_qualname n.
Proof. exact epname_valid. Qed.
Print Assumptions C16_epname_valid.

Theorem C16_to_ep_name_py_spec : forall n v,
  to_ep_name_py n v = if valid_qualname n then Some (to_ep_name n v) else None.
Proof. exact to_ep_name_py_spec. Qed.
Print Assumptions C16_to_ep_name_py_spec.

(** Encoding is injective on valid names. *)
Theorem C16_epname_inj : forall n v n' v',
  valid_qualname n = true -> valid_qualname n' = true ->
  to_ep_name n v = to_ep_name n' v' -> n = n' /\ v = v'.
Proof. exact epname_inj. Qed.
Print Assumptions C16_epname_inj.

(** The name rule once more, as an explicit automaton ([qstep]: letter, letter-or-digit, then
    letters/digits each optionally preceded by one "_" or "-"; "." starts the next part). *)
Theorem C16_qualname_automaton : forall n, valid_qualname n = qrun QStart n.
Proof. exact valid_qualname_automaton. Qed.
Print Assumptions C16_qualname_automaton.

(** A valid qualified name never contains "__" and never ends in "_" (every "_" is followed
    by another character that is not "_"): the separator cannot be confused. *)
Theorem C16_qualname_no_separator : forall n, valid_qualname n = true -> us_ok n = true.
Proof. exact valid_qualname_us_ok. Qed.
Print Assumptions C16_qualname_no_separator.

(** Every valid entry-point name decodes, and to a valid qualified name. *)
Theorem C16_epname_decodes : forall s,
  valid_epname s = true ->
  exists n v, from_ep_name s = Some (n, v) /\ valid_qualname n = true.
Proof. exact epname_decodes. Qed.
Print Assumptions C16_epname_decodes.

(** Encode after decode: gives the string back exactly when the three numerals of its
    version part are canonical ("0" or no leading zero) ... *)
Theorem C16_epname_inverse : forall s n v,
  from_ep_name s = Some (n, v) -> (to_ep_name n v = s <-> canon_epname s = true).
Proof. exact epname_inverse. Qed.
Print Assumptions C16_epname_inverse.

(** ... and not in general: [EP_NAME_REGEX] admits leading zeros, which decoding drops. *)
Theorem C16_epname_inverse_noncanonical_refuted :
  exists s n v, valid_epname s = true /\ from_ep_name s = Some (n, v) /\ to_ep_name n v <> s.
Proof. exact epname_inverse_noncanonical_refuted. Qed.
Print Assumptions C16_epname_inverse_noncanonical_refuted.

(** Version strings: [to_semver_str] output is a [SemVerStr] and parses back. *)
Theorem C16_semver_roundtrip : forall v,
  valid_semver (semver_str v) = true /\
  from_semver_str (semver_str v) = [Some (fst v); Some (fst (snd v)); Some (snd (snd v))] /\
  parse_semver (semver_str v) = Some v.
Proof. exact semver_roundtrip. Qed.
Print Assumptions C16_semver_roundtrip.

(** A version string is valid iff it splits at "." into exactly three non-empty digit strings. *)
Theorem C16_semver_spec : forall p,
  valid_semver p = true <->
  exists a b c, split_dot p "" = [a; b; c] /\
                digits1 a = true /\ digits1 b = true /\ digits1 c = true.
Proof. exact valid_semver_spec. Qed.
Print Assumptions C16_semver_spec.

(** Non-vacuity of the codec theorems: the name rules of the source, refusals, big numerals. *)
Example C16_qualname_examples :
  map valid_qualname ["aa"; "a0"; "aa.bb"; "a1_b.cc-d"; "core.file"; "x1_2-3.yy"] =
    [true; true; true; true; true; true] /\
  map valid_qualname [""; "a"; "aa.b"; "a_b"; "ab_"; "ab__cd"; "a-_b"; "AA"; "1a"; "aa."; ".aa"; "aa..bb"; "aa bb"] =
    [false; false; false; false; false; false; false; false; false; false; false; false; false].
Proof. vm_compute. split; reflexivity. Qed.

Example C16_from_ep_name_examples :
  from_ep_name "ab-c_d.e0__10.18446744073709551616.3" = Some ("ab-c_d.e0", (10, (18446744073709551616, 3)))%N /\
  from_ep_name "aa__01.002.3" = Some ("aa", (1, (2, 3)))%N /\
  from_ep_name "AA__1.2.3" = Some ("AA", (1, (2, 3)))%N /\
  map from_ep_name ["aa"; "aa__"; "aa__1.2"; "aa__1.2.3.4"; "aa__1..3"; "aa__1.2.x"; "aa__1.2.3__";
                    "aa__bb__1.2.3"; "aa___1.2.3"; "aa____1.2.3"; "aa__+1.2.3"; "aa__1.2.3 "] =
    [None; None; None; None; None; None; None; None; None; None; None; None] /\
  to_ep_name "aa.bb" (10, (0, 123456789012345678901234567890))%N = "aa.bb__10.0.123456789012345678901234567890" /\
  to_ep_name_py "ab_" (1, (2, 3))%N = None /\
  from_ep_name (to_ep_name "ab_" (1, (2, 3))%N) = None /\
  from_ep_name (to_ep_name "ab__cd" (1, (2, 3))%N) = None.
Proof. vm_compute. repeat split. Qed.
