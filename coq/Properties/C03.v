(** Property C03 — closing and reopening a record reproduces exactly the same view; open
    modes follow the [h5py.File] contract lifted to records.
    This file holds only the property theorems; each is closed by [exact] of a lemma
    proved in [Rec/NamesProofs.v] or [Rec/ModesProofs.v] and followed by
    [Print Assumptions]. *)
From Coq Require Import List String Ascii NArith Bool Permutation.
From MV Require Import Rec.Names Rec.NamesProofs Rec.Modes Rec.ModesProofs Rec.ReachProofs.
Import ListNotations.
Local Open Scope string_scope.

(** ** File discovery is syntactic and exact *)

(** For all names over [A-Za-z0-9-] and every patch suffix: a container file is found for
    exactly the record it is named after (foo / foo2 / foo-bar / fo never collide). *)
Theorem C03_find_files_exact : forall n m k,
  valid_name n = true -> valid_name m = true ->
  (matches n (file_of m k) = true <-> n = m).
Proof. exact find_files_exact. Qed.
Print Assumptions C03_find_files_exact.

(** The same for any suffix starting outside the alphabet ("NAME[.p.*]?.ih5"). *)
Theorem C03_find_files_exact_any_suffix : forall n m c x,
  valid_name n = true -> valid_name m = true -> name_char c = false ->
  (matches n (m ++ String c x) = true <-> n = m /\ ends_with file_ext (String c x) = true).
Proof. exact matches_exact_gen. Qed.
Print Assumptions C03_find_files_exact_any_suffix.

(** [find_files] on a directory of record files returns exactly the files of that record. *)
Theorem C03_find_files_dir : forall n (mks : list (string * option N)),
  valid_name n = true -> Forall (fun mk => valid_name (fst mk) = true) mks ->
  find_files n (map (fun mk => file_of (fst mk) (snd mk)) mks)
  = Some (map (fun mk => file_of (fst mk) (snd mk)) (filter (fun mk => String.eqb (fst mk) n) mks)).
Proof. exact find_files_dir. Qed.
Print Assumptions C03_find_files_dir.

(** [list_records] returns exactly the names that have files, each once. *)
Theorem C03_list_records_exact : forall (mks : list (string * option N)) n,
  Forall (fun mk => valid_name (fst mk) = true) mks ->
  (In n (list_records (map (fun mk => file_of (fst mk) (snd mk)) mks)) <-> In n (map fst mks)).
Proof. exact list_records_exact. Qed.
Print Assumptions C03_list_records_exact.

Theorem C03_list_records_NoDup : forall dir, NoDup (list_records dir).
Proof. exact list_records_NoDup. Qed.
Print Assumptions C03_list_records_NoDup.

Theorem C03_list_records_find_files : forall (mks : list (string * option N)) n,
  Forall (fun mk => valid_name (fst mk) = true) mks -> valid_name n = true ->
  let dir := map (fun mk => file_of (fst mk) (snd mk)) mks in
  (In n (list_records dir) <-> exists fs, find_files n dir = Some fs /\ fs <> []).
Proof. exact list_records_find_files. Qed.
Print Assumptions C03_list_records_find_files.

(** The name the next patch file is derived from is the record's name. *)
Theorem C03_infer_name_file_of : forall m k, valid_name m = true -> infer_name (file_of m k) = m.
Proof. exact infer_name_file_of. Qed.
Print Assumptions C03_infer_name_file_of.

(** The pinned validity check ([re.match("^[..]+$")], which tolerates a final newline)
    admits a name whose file is found for another record. *)
Theorem C03_valid_name_pinned_refuted :
  exists n m, valid_name_pinned n = true /\ valid_name m = true /\ n <> m /\
              matches m (file_of n None) = true.
Proof. exact valid_name_pinned_refuted. Qed.
Print Assumptions C03_valid_name_pinned_refuted.

(** ** The mode table: 6 modes x 5 on-disk situations, for arbitrary record contents *)

Theorem C03_mode_table_absent : forall (P : Type) (empty : P) n (d : list (file P)) r u,
  valid_name n = true -> classify n d = SAbsent ->
  open_mode empty MR (ByName n) d r u = Refused ENotFound d /\
  open_mode empty MRp (ByName n) d r u = Refused ENotFound d /\
  open_mode empty MA (ByName n) d r u = Opened (created empty n d r u) /\
  open_mode empty MW (ByName n) d r u = Opened (created empty n d r u) /\
  open_mode empty MWm (ByName n) d r u = Opened (created empty n d r u) /\
  open_mode empty MX (ByName n) d r u = Opened (created empty n d r u).
Proof. exact @table_absent. Qed.
Print Assumptions C03_mode_table_absent.

(** Rows "uncommitted base" and "uncommitted patch". *)
Theorem C03_mode_table_uncommitted : forall (P : Type) (empty : P) n (d : list (file P)) r u,
  valid_name n = true -> classify n d = SUBase \/ classify n d = SUPatch ->
  open_mode empty MR (ByName n) d r u = Opened (opened_ro n d) /\
  open_mode empty MRp (ByName n) d r u = Opened (opened_rw n d) /\
  open_mode empty MA (ByName n) d r u = Opened (opened_rw n d) /\
  open_mode empty MW (ByName n) d r u = Opened (created empty n (others n d) r u) /\
  open_mode empty MWm (ByName n) d r u = Refused EExists d /\
  open_mode empty MX (ByName n) d r u = Refused EExists d.
Proof. exact @table_uncommitted. Qed.
Print Assumptions C03_mode_table_uncommitted.

(** Rows "committed base" and "patched". *)
Theorem C03_mode_table_committed : forall (P : Type) (empty : P) n (d : list (file P)) r u,
  valid_name n = true -> classify n d = SCBase \/ classify n d = SPatched ->
  open_mode empty MR (ByName n) d r u = Opened (opened_ro n d) /\
  (next_patch_free n d = true ->
     open_mode empty MRp (ByName n) d r u = Opened (opened_new empty n d u) /\
     open_mode empty MA (ByName n) d r u = Opened (opened_new empty n d u)) /\
  open_mode empty MW (ByName n) d r u = Opened (created empty n (others n d) r u) /\
  open_mode empty MWm (ByName n) d r u = Refused EExists d /\
  open_mode empty MX (ByName n) d r u = Refused EExists d.
Proof. exact @table_committed. Qed.
Print Assumptions C03_mode_table_committed.

(** What the states named in the table are: same directory (as a set of files) for the
    non-creating opens, one more uncommitted file for a new patch, all files of the record
    replaced by one fresh base for 'w'. *)
Theorem C03_mode_table_states : forall (P : Type) (empty : P) n (d : list (file P)) r u,
  Permutation d (dir_of (opened_ro n d)) /\ Permutation d (dir_of (opened_rw n d)) /\
  view (opened_rw n d) = view (opened_ro n d) /\
  view (opened_ro n d) = map fpay (sort_desc (files_of n d)) /\
  (sort_desc (files_of n d) <> [] ->
     view (opened_new empty n d u) = empty :: view (opened_ro n d) /\
     exists f, Permutation (f :: d) (dir_of (opened_new empty n d u)) /\ fcommitted f = false) /\
  dir_of (created empty n (others n d) r u) = (others n d ++ [fresh_base empty n r u])%list /\
  view (created empty n (others n d) r u) = [empty].
Proof. exact @table_states. Qed.
Print Assumptions C03_mode_table_states.

(** ** 'r' is strictly read-only *)

Theorem C03_r_is_readonly : forall (P : Type) (empty : P) t (d : list (file P)) r u s ops,
  open_mode empty MR t d r u = Opened s ->
  dir_of (run empty ops s) = dir_of s /\ view (run empty ops s) = view s.
Proof. exact @r_is_readonly. Qed.
Print Assumptions C03_r_is_readonly.

Theorem C03_r_opens_without_change : forall (P : Type) (empty : P) n (d : list (file P)) r u s,
  open_mode empty MR (ByName n) d r u = Opened s ->
  rest s = others n d /\ mine s = sort_desc (files_of n d) /\ Permutation d (dir_of s).
Proof. exact @open_r_dir. Qed.
Print Assumptions C03_r_opens_without_change.

Theorem C03_r_refuses_steps : forall (P : Type) (empty : P) t (d : list (file P)) r u s o,
  open_mode empty MR t d r u = Opened s -> (forall c, o <> OClose c) ->
  snd (step empty o s) <> Ok.
Proof. exact @r_refuses_steps. Qed.
Print Assumptions C03_r_refuses_steps.

(** ** 'x' / 'w-' refuse an existing record, nothing touched; 'w' replaces everything *)

Theorem C03_x_refuses_existing : forall (P : Type) (empty : P) n (d : list (file P)) r u,
  valid_name n = true -> has_name (base_filename n) d = true ->
  open_mode empty MX (ByName n) d r u = Refused EExists d /\
  open_mode empty MWm (ByName n) d r u = Refused EExists d.
Proof. exact @x_refuses_existing. Qed.
Print Assumptions C03_x_refuses_existing.

Theorem C03_w_replaces_all : forall (P : Type) (empty : P) n (d : list (file P)) r u,
  valid_name n = true ->
  has_name (base_filename n) d = true \/ files_of n d = [] ->
  exists s, open_mode empty MW (ByName n) d r u = Opened s /\
    files_of n (dir_of s) = [fresh_base empty n r u] /\
    others n (dir_of s) = others n d /\
    view s = [empty] /\ writable s = true.
Proof. exact @w_replaces_all. Qed.
Print Assumptions C03_w_replaces_all.

(** ** Close and reopen: the identical view *)

(** By name, whether or not the pending patch was committed by [close]. *)
Theorem C03_reopen_view : forall (P : Type) (empty : P) (s : state P) c r u,
  wf s ->
  exists s', open_mode empty MR (ByName (hname s)) (dir_of (fst (close c s))) r u = Opened s' /\
    view s' = view s /\ dir_of s' = dir_of (fst (close c s)) /\
    writable s' = false /\ patching s' = false.
Proof. exact @reopen_view. Qed.
Print Assumptions C03_reopen_view.

(** By explicit file list, in every order. *)
Theorem C03_reopen_view_list : forall (P : Type) (empty : P) (s : state P) c r u l,
  wf s -> NoDup (map fname (dir_of s)) -> Permutation l (map fname (mine s)) ->
  exists s', open_mode empty MR (ByList l) (dir_of (fst (close c s))) r u = Opened s' /\
    view s' = view s /\ writable s' = false /\ patching s' = false.
Proof. exact @reopen_view_list. Qed.
Print Assumptions C03_reopen_view_list.

(** The order of the file list never matters, for any mode and any directory. *)
Theorem C03_open_perm : forall (P : Type) (empty : P) m l l' (d : list (file P)) r u,
  Permutation l l' ->
  open_mode empty m (ByList l) d r u = open_mode empty m (ByList l') d r u.
Proof. exact @open_perm. Qed.
Print Assumptions C03_open_perm.

(** The same at the level of [_open]: the files themselves in any order (sorting by
    [patch_index] with the distinctness the chain check enforces is order-independent). *)
Theorem C03_open_files_perm : forall (P : Type) (empty : P) m (sel sel' oth d : list (file P)) u,
  Permutation sel sel' ->
  open_existing empty m sel oth d u = open_existing empty m sel' oth d u.
Proof. exact @open_existing_perm. Qed.
Print Assumptions C03_open_files_perm.

(** The hypothesis [wf] of the reopen theorems holds for every handle opened by name in a
    directory of standard file names, and after any sequence of steps with fresh ids. *)
Theorem C03_wf_open : forall (P : Type) (empty : P) m n (d : list (file P)) r u s,
  valid_name n = true ->
  (has_name (base_filename n) d = true \/ files_of n d = []) ->
  Forall (fun f => matches n (fname f) = true -> infer_name (fname f) = n) d ->
  ~ In u (map fid (files_of n d)) ->
  open_mode empty m (ByName n) d r u = Opened s -> wf s /\ hname s = n.
Proof. exact @wf_open. Qed.
Print Assumptions C03_wf_open.

Theorem C03_wf_run : forall (P : Type) (empty : P) ops (s : state P),
  wf s ->
  NoDup (flat_map new_id ops) ->
  (forall u, In u (flat_map new_id ops) -> ~ In u (map fid (mine s))) ->
  wf (run empty ops s).
Proof. exact @wf_run. Qed.
Print Assumptions C03_wf_run.

(** ** [discard_patch] returns to the last commit *)

Theorem C03_discard_restores : forall (P : Type) (empty : P) u (s s1 : state P) gs,
  create_patch empty u s = (s1, Ok) ->
  exists s3, discard_patch (run empty (map (@OWrite P) gs) s1) = (s3, Ok) /\
    view s3 = view s /\ dir_of s3 = dir_of s /\ writable s3 = false /\
    mine s3 = mine s /\ rest s3 = rest s.
Proof. exact @discard_restores. Qed.
Print Assumptions C03_discard_restores.

(** ** Reachable directories: the premises above are invariants

    [reach L c]: configuration [c] (a directory or an open handle) arises from the empty
    directory by opens by name in any mode with any ids, any steps, forgetting the handle
    at any time; [L] lists the names for which a record was created. *)

(** Name-index coherence: the files of record [n] are named [std_name n (fidx f)], their
    indices form an initial segment without repetition, file names are pairwise distinct;
    hence the next patch name is free and a patch never exists without its base. *)
Theorem C03_names_coherent : forall (P : Type) (empty : P) L (d : list (file P)) n,
  reach empty L (CDir d) -> valid_name n = true ->
  (forall f, In f (files_of n d) -> fname f = std_name n (fidx f)) /\
  (forall f j, In f (files_of n d) -> (j <= fidx f)%N ->
     exists g, In g (files_of n d) /\ fidx g = j /\ fname g = std_name n j) /\
  NoDup (map fidx (files_of n d)) /\ NoDup (map fname d) /\
  next_patch_free n d = true /\
  (has_name (base_filename n) d = true \/ files_of n d = []).
Proof. exact @names_coherent. Qed.
Print Assumptions C03_names_coherent.

(** Rows "committed base" / "patched" without the premise, for reachable directories. *)
Theorem C03_mode_table_committed_reachable : forall (P : Type) (empty : P) L n (d : list (file P)) r u,
  reach empty L (CDir d) -> valid_name n = true -> classify n d = SCBase \/ classify n d = SPatched ->
  open_mode empty MR (ByName n) d r u = Opened (opened_ro n d) /\
  open_mode empty MRp (ByName n) d r u = Opened (opened_new empty n d u) /\
  open_mode empty MA (ByName n) d r u = Opened (opened_new empty n d u) /\
  open_mode empty MW (ByName n) d r u = Opened (created empty n (others n d) r u) /\
  open_mode empty MWm (ByName n) d r u = Refused EExists d /\
  open_mode empty MX (ByName n) d r u = Refused EExists d.
Proof. exact @table_committed_reachable. Qed.
Print Assumptions C03_mode_table_committed_reachable.

Theorem C03_w_replaces_all_reachable : forall (P : Type) (empty : P) L n (d : list (file P)) r u,
  reach empty L (CDir d) -> valid_name n = true ->
  exists s, open_mode empty MW (ByName n) d r u = Opened s /\
    files_of n (dir_of s) = [fresh_base empty n r u] /\
    others n (dir_of s) = others n d /\
    view s = [empty] /\ writable s = true.
Proof. exact @w_replaces_all_reachable. Qed.
Print Assumptions C03_w_replaces_all_reachable.

(** After arbitrary histories [list_records] lists exactly the created records, and
    [find_files] is non-empty exactly for them. *)
Theorem C03_list_records_reachable : forall (P : Type) (empty : P) L (d : list (file P)) n,
  reach empty L (CDir d) -> (In n (list_records (map fname d)) <-> In n L).
Proof. exact @list_records_reachable. Qed.
Print Assumptions C03_list_records_reachable.

Theorem C03_find_files_reachable : forall (P : Type) (empty : P) L (d : list (file P)) n,
  reach empty L (CDir d) -> valid_name n = true -> (files_of n d <> [] <-> In n L).
Proof. exact @find_files_reachable. Qed.
Print Assumptions C03_find_files_reachable.

(** A refused open leaves the very same directory (so [reach] needs no rule for it). *)
Theorem C03_refused_same_dir : forall (P : Type) (empty : P) m n (d : list (file P)) r u e d',
  open_mode empty m (ByName n) d r u = Refused e d' -> d' = d.
Proof. exact @refused_same_dir. Qed.
Print Assumptions C03_refused_same_dir.

(** ** Non-vacuity *)

Local Open Scope N_scope.

Definition ex_dir : list (file (list string)) :=
  [ mkfile "foo.p1.ih5" 7 1 11 (Some 10) false ["c"];
    mkfile "foo2.ih5" 8 0 20 None true ["x"];
    mkfile "foo.ih5" 7 0 10 None true ["a"; "b"];
    mkfile "foo-bar.ih5" 9 0 30 None false [];
    mkfile "fo.ih5" 6 0 40 None true ["y"];
    mkfile "fo.p1.ih5" 6 1 41 (Some 40) true ["z"] ].

Example ex_classify :
  classify "foo" ex_dir = SUPatch /\ classify "foo2" ex_dir = SCBase /\
  classify "foo-bar" ex_dir = SUBase /\ classify "fo" ex_dir = SPatched /\
  classify "bar" ex_dir = SAbsent /\ next_patch_free "fo" ex_dir = true.
Proof. vm_compute. repeat split. Qed.

Example ex_files_of :
  map fname (files_of "foo" ex_dir) = ["foo.p1.ih5"; "foo.ih5"] /\
  map fname (files_of "fo" ex_dir) = ["fo.ih5"; "fo.p1.ih5"] /\
  list_records (map fname ex_dir) = ["foo2"; "foo"; "foo-bar"; "fo"].
Proof. vm_compute. repeat split. Qed.

(** Open 'r+' on the patched record "fo": a third container appears; write, discard,
    close, reopen by the permuted list: the committed view. *)
Example ex_session :
  match open_mode (@nil string) MRp (ByName "fo") ex_dir 0 42 with
  | Opened s =>
      view s = [[]; ["z"]; ["y"]] /\
      let s2 := run [] [OWrite (cons "w"); ODiscard; OClose true] s in
      match open_mode [] MR (ByList ["fo.p1.ih5"; "fo.ih5"]) (dir_of s2) 0 0 with
      | Opened s' => view s' = [["z"]; ["y"]] /\ dir_of s' = dir_of s2
      | Refused _ _ => False
      end
  | Refused _ _ => False
  end.
Proof. vm_compute. repeat split. Qed.

Example ex_x_refuses :
  open_mode (@nil string) MX (ByName "foo") ex_dir 0 0 = Refused EExists ex_dir /\
  open_mode (@nil string) MR (ByName "bar") ex_dir 0 0 = Refused ENotFound ex_dir.
Proof. vm_compute. repeat split. Qed.

(** A reachable directory: create "foo", commit, patch it, commit; create "fo". *)
Example ex_reach : exists L (d : list (file (list string))),
  reach [] L (CDir d) /\ classify "foo" d = SPatched /\ classify "fo" d = SCBase /\
  list_records (map fname d) = ["foo"; "fo"]%string /\ (forall n, In n L <-> n = "fo" \/ n = "foo")%string.
Proof.
  pose proof (R_nil (@nil string)) as H.
  pose proof (reach_open_result [] _ _ MW "foo"%string 1 10 H) as H1. vm_compute in H1.
  pose proof (R_step [] _ _ (OWrite (cons "a"%string)) H1) as H2.
  pose proof (R_drop [] _ _ (R_step [] _ _ (OClose true) H2)) as H3. vm_compute in H3.
  pose proof (reach_open_result [] _ _ MRp "foo"%string 0 11 H3) as H4. vm_compute in H4.
  pose proof (R_step [] _ _ (OWrite (cons "b"%string)) H4) as H5.
  pose proof (R_drop [] _ _ (R_step [] _ _ (OClose true) H5)) as H6. vm_compute in H6.
  pose proof (reach_open_result [] _ _ MX "fo"%string 3 30 H6) as H7. vm_compute in H7.
  pose proof (R_drop [] _ _ (R_step [] _ _ (OClose true) H7)) as H8. vm_compute in H8.
  eexists. eexists. split; [exact H8|].
  split; [vm_compute; reflexivity|]. split; [vm_compute; reflexivity|]. split; [vm_compute; reflexivity|].
  intros n. simpl. intuition (subst; auto).
Qed.
