(** Property C05 — merge materialises the overlay view and continues the patch chain.
    Only property theorems, each closed by [exact] of a lemma of [IH5/MergeProofs.v] /
    [IH5/MergeChainProofs.v] and followed by [Print Assumptions].  Model: [IH5/Merge.v] over
    [IH5/Overlay.v] (containers, read path [status]/[vget], write path [m_step]; invariant
    [Inv] and simulation [Sim] of [IH5/OverlayProofs.v], property C01) and [Rec/Chain.v]
    (user blocks, files, [chain_ok], property C04). *)
From stdpp Require Import gmap strings list.
From MV Require Import IH5.Overlay IH5.OverlayProofs IH5.Stub IH5.StubProofs.
From MV Require Import IH5.Merge IH5.MergeProofs IH5.MergePatchProofs.
From MV Require Rec.Chain IH5.MergeChainProofs.

(** ** The merged tree *)

(** The merged record (one base container) shows the overlay view of the source: equality of
    the whole view, at every path. *)
Theorem C05_merge_view : forall R, Inv R -> forall p, vget (m_merge R) p = vget R p.
Proof. exact merge_view. Qed.
Print Assumptions C05_merge_view.

(** It is a well-formed record, simulated by the same plain tree as the source. *)
Theorem C05_merge_sim : forall R T, Sim R T -> Sim (m_merge R) T.
Proof. exact merge_sim. Qed.
Print Assumptions C05_merge_sim.

(** [m_merge R] is what the code builds: folding [create_group] / [create_dataset] /
    attribute assignment over ANY enumeration of the view in which parents come first (the
    pre-order walk of [visititems], the level order [visit] of the model, ...) on an empty
    record yields exactly the container [export T]. *)
Theorem C05_build_any_order : forall (T : tree) (l : list (path * tentry)),
  treeish T -> attrs_data T -> l ≡ₚ map_to_list T -> pfirst [] l ->
  build l = Some [(0, export T)].
Proof. exact build_any_order. Qed.
Print Assumptions C05_build_any_order.

Theorem C05_build_eq : forall R, Inv R -> attrs_data (viewmap R) ->
  m_merge_build R = Some (m_merge R).
Proof. exact build_eq. Qed.
Print Assumptions C05_build_eq.

(** ... in particular for every record produced by a history of operations. *)
Theorem C05_build_eq_run : forall ops, m_merge_build (run_m ops) = Some (m_merge (run_m ops)).
Proof. exact build_eq_run. Qed.
Print Assumptions C05_build_eq_run.

(** The walk of the code itself: [preorder] enumerates the view root-first in ascending order,
    attributes of a node before its children, a name before its extensions (the order of
    [visititems] with the attribute copies of [h5_copy_from_to]); it is parents-first, so the
    construction in exactly that order yields the merged container. *)
Theorem C05_preorder_parents_first : forall T, treeish T -> pfirst [] (preorder T).
Proof. exact preorder_pfirst. Qed.
Print Assumptions C05_preorder_parents_first.

Theorem C05_build_preorder : forall R, Inv R -> attrs_data (viewmap R) ->
  m_merge_preorder R = Some (m_merge R).
Proof. exact build_preorder. Qed.
Print Assumptions C05_build_preorder.

Theorem C05_build_preorder_run : forall ops,
  m_merge_preorder (run_m ops) = Some (m_merge (run_m ops)).
Proof. exact build_preorder_run. Qed.
Print Assumptions C05_build_preorder_run.

(** ** Continuing the patch chain: trees *)

(** Every later patch container [P] — arbitrary content, provided it is a legal newest
    container of the source, [Inv ((n, P) :: R)], which every container written through the
    overlay is ([C01_step_refines]) — gives the same view, at every path, when it is stacked
    on the merged container (where it becomes container [k >= 1]; the code numbers containers
    by position in the index-sorted file list, so [k = 1]) as on the source (where it is
    container [n]).  Without the premise the statement is false: a virtual group of [P] over a
    deletion marker of [R] is invisible on the source and visible on the merged container. *)
Theorem C05_merge_continues : forall (n k : nat) (P : cont) (R : stack),
  Inv ((n, P) :: R) -> R <> [] -> 0 < k ->
  forall p, vget ((k, P) :: m_merge R) p = vget ((n, P) :: R) p.
Proof. exact merge_continues. Qed.
Print Assumptions C05_merge_continues.

(** The merged container with that patch is again a well-formed record (so the statement
    iterates over any number of further patches). *)
Theorem C05_merge_continues_inv : forall (n k : nat) (P : cont) (R : stack),
  Inv ((n, P) :: R) -> R <> [] -> 0 < k -> Inv ((k, P) :: m_merge R).
Proof. exact merge_continues_inv. Qed.
Print Assumptions C05_merge_continues_inv.

(** Patches given as operation lists: performing the same operations after a boundary on the
    source and on the merged record gives the same view and the same outcome of any further
    operation. *)
Theorem C05_ops_continue : forall R T ops, Sim R T ->
  let Rs := mfold (m_boundary R) ops in
  let Rm := mfold (m_boundary (m_merge R)) ops in
  (forall p, vget Rm p = vget Rs p) /\ viewmap Rm = viewmap Rs /\
  (forall o, (m_step Rm o).2 = (m_step Rs o).2).
Proof. exact ops_continue. Qed.
Print Assumptions C05_ops_continue.

(** The patch file itself: the operations (no boundary among them) produce one container [P]
    on top of the unchanged source; transplanted onto the merged container as container 1 it
    shows the same view as on the source, as re-doing the operations on the merged record, and
    as the plain tree after the operations. *)
Theorem C05_patch_transplant : forall R T ops,
  Sim R T -> Forall (fun o => o <> OBoundary) ops ->
  exists P, mfold (m_boundary R) ops = (S (top_idx R), P) :: R /\
    (forall p, vget ((1, P) :: m_merge R) p = vget ((S (top_idx R), P) :: R) p) /\
    (forall p, vget ((1, P) :: m_merge R) p = vget (mfold (m_boundary (m_merge R)) ops) p) /\
    (forall p, vget ((1, P) :: m_merge R) p = tget (tfold T ops) p).
Proof. exact patch_transplant. Qed.
Print Assumptions C05_patch_transplant.

(** The written patch container depends on the record only through its view: for two records
    simulated by the same plain tree, with equal newest containers and the same patch status,
    every operation other than a boundary — copy and move included, which read values through
    the view — leaves equal newest containers. *)
Theorem C05_m_step_top_depends_on_view : forall Ra Rb T o,
  Sim Ra T -> Sim Rb T -> top_cont Ra = top_cont Rb -> is_patch Ra = is_patch Rb -> nb_op o ->
  top_cont (m_step Ra o).1 = top_cont (m_step Rb o).1.
Proof. exact step_top_view. Qed.
Print Assumptions C05_m_step_top_depends_on_view.

Theorem C05_patch_depends_on_view : forall R1 R2 ops,
  Inv R1 -> Inv R2 -> (forall p, vget R2 p = vget R1 p) -> Forall nb_op ops ->
  patch_on R1 ops = patch_on R2 ops /\
  results_from (m_boundary R1) ops = results_from (m_boundary R2) ops.
Proof. exact patch_depends_on_view. Qed.
Print Assumptions C05_patch_depends_on_view.

(** Hence the patch FILE produced on the source is the patch file one would produce on the
    merged record: the same boundary-free operation list run after a boundary on the merged
    record and on the source writes the identical container [patch_on R ops] (as container 1
    resp. [S (top_idx R)]; the container content carries no index), with identical outcomes of
    all operations. *)
Theorem C05_patch_container_identical : forall R ops,
  Inv R -> Forall nb_op ops ->
  patch_on (m_merge R) ops = patch_on R ops /\
  results_from (m_boundary (m_merge R)) ops = results_from (m_boundary R) ops /\
  run_from (m_boundary (m_merge R)) ops = (1, patch_on R ops) :: m_merge R /\
  run_from (m_boundary R) ops = (S (top_idx R), patch_on R ops) :: R.
Proof. exact patch_container_identical. Qed.
Print Assumptions C05_patch_container_identical.

(** ** Continuing the patch chain: user blocks *)

Import Chain MergeChainProofs.

(** The merged block identifies the same record at the same patch state: record id, patch
    index, patch id and manifest extension of the newest source container [n], [prev_patch] of
    the oldest [b], the fresh digest [d] as hash, and the newest manifest beside it. *)
Theorem C05_merged_identity : forall d c f,
  merged_file d c = Some f ->
  exists b r l n, c = b :: r /\ c = l ++ [n] /\
    frec f = frec n /\ fidx f = fidx n /\ fpid f = fpid n /\ fext f = fext n /\
    fprev f = fprev b /\ fhash f = Some d /\ dig f = d /\ mf f = mf n.
Proof. exact merged_identity. Qed.
Print Assumptions C05_merged_identity.

(** If the source files followed by a further patch file are accepted as a record (C04's
    [chain_ok]), so are the merged file and that patch file; and the merged file alone. *)
Theorem C05_merged_chain : forall mfm bl d c fP f,
  merged_file d c = Some f -> chain_ok mfm bl (c ++ [fP]) -> chain_ok mfm bl [f; fP].
Proof. exact merged_chain. Qed.
Print Assumptions C05_merged_chain.

Theorem C05_merged_alone_ok : forall mfm bl d c f,
  merged_file d c = Some f -> chain_ok mfm bl c -> chain_ok mfm bl [f].
Proof. exact merged_alone_ok. Qed.
Print Assumptions C05_merged_alone_ok.

(** ** Frame and refusal *)

(** A successful merge returns the source state (stack, files with their user blocks,
    writable flag) unchanged and produces [m_merge] of its stack. *)
Theorem C05_merge_frame : forall mfm d S S' M f,
  merge_files mfm d S = MOk S' M f -> S' = S /\ M = m_merge (rs_stack S).
Proof. exact merge_frame. Qed.
Print Assumptions C05_merge_frame.

(** Writable record, or (manifest-aware class) a stub among the containers: refused, nothing
    produced. *)
Theorem C05_merge_refused : forall mfm d S,
  rs_writable S = true \/ (mfm = true /\ exists f, In f (rs_files S) /\ stub_marked f = true) ->
  forall S' M f, merge_files mfm d S <> MOk S' M f.
Proof. exact merge_refused. Qed.
Print Assumptions C05_merge_refused.

(** Otherwise it succeeds. *)
Theorem C05_merge_accepts : forall mfm d S,
  rs_writable S = false -> rs_files S <> [] -> (mfm = true -> Forall not_stub (rs_files S)) ->
  exists f, merged_file d (rs_files S) = Some f /\
            merge_files mfm d S = MOk S (m_merge (rs_stack S)) f.
Proof. exact merge_accepts. Qed.
Print Assumptions C05_merge_accepts.

(** The pinned code ([self._set_ublock(-1, ub)] in [merge_files]) changes the source state. *)
Theorem C05_merge_pinned_refuted :
  exists mfm d S S' M f, merge_files_pinned mfm d S = MOk S' M f /\ rs_files S' <> rs_files S.
Proof. exact merge_pinned_refuted. Qed.
Print Assumptions C05_merge_pinned_refuted.

(** ** Refused operations before the merge *)

(** Operations the record refuses ([rstep] = [None]: commit / discard without a writable
    container or through a read-only handle, create_patch through a read-only handle or with a
    writable container, writes without a writable container or refused by the overlay) leave the
    record state unchanged, hence also the result of a following merge. *)
Theorem C05_refused_ops_frame : forall mfm ro (S : rstate) (ops : list rop),
  Forall (fun o => rstep mfm ro S o = None) ops ->
  rrun mfm ro S ops = S /\ forall d, merge_files mfm d (rrun mfm ro S ops) = merge_files mfm d S.
Proof. exact refused_ops_frame. Qed.
Print Assumptions C05_refused_ops_frame.

(** On a committed record every operation except create_patch is refused; through a
    read-only handle create_patch too. *)
Theorem C05_committed_refuses : forall mfm ro (S : rstate) (o : rop),
  rs_writable S = false -> (forall p, o = RCreate p -> ro = true) -> rstep mfm ro S o = None.
Proof. exact committed_refuses. Qed.
Print Assumptions C05_committed_refuses.

(** create_patch, any writes, discard_patch: the same state again. *)
Theorem C05_create_discard_frame : forall mfm (S : rstate) (p : N) (ws : list op),
  rs_writable S = false -> rs_files S <> [] -> Forall (fun o => o <> OBoundary) ws ->
  rrun mfm false S (RCreate p :: map RWrite ws ++ [RDiscard]) = S.
Proof. exact create_discard_frame. Qed.
Print Assumptions C05_create_discard_frame.

(** The pinned [IH5MFRecord.commit_patch] (shallow copy of the user block, manifest link written
    into the shared [ub_exts] before the checks): after a refused commit the merge produces a
    file that is not accepted as a record; with the state left unchanged it is. *)
Theorem C05_refused_commit_pinned_refuted :
  exists S o S' M f,
    checks true false (rs_files S) = None /\ rstep true false S o = None /\
    merge_files true 200 (rapply_pinned true false S o) = MOk S' M f /\
    checks true false [f] <> None /\
    (exists S2 M2 f2, merge_files true 200 (rapply true false S o) = MOk S2 M2 f2 /\
                      checks true false [f2] = None).
Proof. exact refused_commit_pinned_refuted. Qed.
Print Assumptions C05_refused_commit_pinned_refuted.

(** ** Non-vacuity *)

(** The three-container history of C01 (replace-then-touch): merge, then a follow-up patch that
    deletes, re-creates and touches — views agree on source and merged container, and the
    premises of the theorems hold. *)
Definition ex_follow : list op :=
  [ ODel [(false, "a")]; OData [(false, "n"); (false, "a")] "i:9";
    OAttrSet [] "k" "i:1" ]%string.

Example C05_witness :
  let R := run_m witness_ops in
  let Rs := mfold (m_boundary R) ex_follow in
  let P := match Rs with (_, c) :: _ => c | [] => ∅ end in
  length R = 3 /\ Sim R (run_t witness_ops) /\
  Forall (fun o => o <> OBoundary) ex_follow /\
  vget (m_merge R) [(false, "touch"); (false, "a")]%string = Some (TData "i:3"%string) /\
  vget (m_merge R) [(false, "old"); (false, "a")]%string = None /\
  m_merge_build R = Some (m_merge R) /\
  length Rs = 4 /\ tail Rs = R /\
  vget ((1, P) :: m_merge R) [(false, "n"); (false, "a")]%string = Some (TData "i:9"%string) /\
  vget ((1, P) :: m_merge R) [(false, "touch"); (false, "a")]%string = None /\
  vget ((1, P) :: m_merge R) [(true, "k")]%string = Some (TData "i:1"%string).
Proof.
  cbv zeta. split; [by vm_compute|]. split; [apply run_refines|].
  split; [repeat constructor; discriminate|].
  split; [by vm_compute|]. split; [by vm_compute|]. split; [apply build_eq_run|].
  split; [by vm_compute|].
  split; [apply (fold_base ex_follow); repeat constructor; discriminate|].
  split; [by vm_compute|]. split; by vm_compute.
Qed.

(** The walk visits attributes first, "run1" before "run10", parents before children. *)
Example C05_preorder_witness :
  (preorder (run_t [ OData [(false, "x"); (false, "run10"); (false, "data")] "i:1";
                     OGroup [(false, "run1"); (false, "data")];
                     OAttrSet [(false, "data")] "k" "i:2"; OAttrSet [] "z" "i:3";
                     OData [(false, "b")] "i:4" ]%string)).*1
  = [ [(true, "z")]; [(false, "b")]; [(false, "data")]; [(true, "k"); (false, "data")];
      [(false, "run1"); (false, "data")]; [(false, "run10"); (false, "data")];
      [(false, "x"); (false, "run10"); (false, "data")] ]%string.
Proof. exact preorder_example. Qed.

(** A follow-up with a copy and a move (operations that read values): identical patch
    containers on source and merged record, non-empty. *)
Example C05_patch_identical_witness :
  let R := run_m witness_ops in
  let ops := [ OCopy [(false, "a")] [(false, "c")]; OMove [(false, "c")] [(false, "m"); (false, "a")];
               ODel [(false, "touch"); (false, "a")] ]%string in
  Forall nb_op ops /\
  results_from (m_boundary R) ops = [true; true; true] /\
  patch_on (m_merge R) ops = patch_on R ops /\
  size (patch_on R ops) = 5.
Proof.
  cbv zeta. split; [repeat constructor|]. split; [by vm_compute|]. split.
  - apply patch_container_identical; [apply transparent|repeat constructor].
  - by vm_compute.
Qed.

(** A coherent two-file record with a follow-up patch file: premises of [C05_merged_chain]. *)
Example C05_chain_witness :
  let f0 := MkFile (MkUb 1 0 10 None (Some 100%N) None) 100 None in
  let f1 := MkFile (MkUb 1 1 11 (Some 10%N) (Some 101%N) None) 101 None in
  let fP := MkFile (MkUb 1 2 12 (Some 11%N) (Some 102%N) None) 102 None in
  checks false false [f0; f1; fP] = None /\
  exists f, merged_file 200 [f0; f1] = Some f /\ checks false false [f; fP] = None /\
            merge_files false 200 (MkRs [] [f0; f1] false) = MOk (MkRs [] [f0; f1] false) (m_merge []) f /\
            merge_files false 200 (MkRs [] [f0; f1] true) = MRefusedWritable.
Proof. cbv zeta. split; [by vm_compute|]. eexists. repeat split; by vm_compute. Qed.
