(** Property C18 — directory diffs are exact and safely ordered.
    This file holds only the property theorems; each is closed by [exact] of a lemma
    proved in [Util/DiffProofs.v] and followed by [Print Assumptions]. *)
From Coq Require Import List String Bool.
From MV Require Import Base.Cmp Util.Diff Util.DiffProofs.
Import ListNotations.
Local Open Scope string_scope.

(** No difference is reported exactly when the two snapshots are equal. *)
Theorem C18_compare_none_iff : forall a b,
  canone a = true -> canone b = true -> (is_empty (dirdiff a b) = true <-> a = b).
Proof. exact is_empty_iff. Qed.
Print Assumptions C18_compare_none_iff.
