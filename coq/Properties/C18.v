(** Property C18 — directory diffs are exact and safely ordered.
    This file holds only the property theorems; each is closed by [exact] of a lemma
    proved in [Util/DiffProofs.v], [Util/DiffProofs2.v], [Util/DiffProofs3.v] or [Util/DiffProofs4.v] and followed by
    [Print Assumptions]; the [Example]s show that the statements are not vacuous. *)
From Coq Require Import List String Bool.
From MV Require Import Base.Cmp Util.Diff Util.DiffProofs Util.DiffProofs2 Util.DiffProofs3 Util.DiffProofs4.
From MV Require Util.DirHash Util.DirHashProofs Util.PackerDetect.
Import ListNotations.
Local Open Scope string_scope.
Local Open Scope list_scope.

(** No difference is reported exactly when the two snapshots are equal. *)
Theorem C18_compare_none_iff : forall a b,
  canone a = true -> canone b = true -> (is_empty (dirdiff a b) = true <-> a = b).
Proof. exact is_empty_iff. Qed.
Print Assumptions C18_compare_none_iff.

(** Soundness and completeness of the listing: a path is reported iff the entries of the
    two snapshots at that path differ (so no unchanged path is reported and no changed path
    is missed); every reported node carries the old and the new entry of its path and the
    status added / removed / modified that these determine; no path is reported twice. *)
Theorem C18_reported_iff : forall a b, canone a = true -> canone b = true ->
  (forall q, (exists n, In n (listing (dirdiff a b)) /\ npath n = q) <-> osub a q <> osub b q) /\
  (forall n, In n (listing (dirdiff a b)) ->
     nprev n = osub a (npath n) /\ ncurr n = osub b (npath n) /\
     nstatus n = match osub a (npath n), osub b (npath n) with
                 | None, _ => Added
                 | Some _, None => Removed
                 | Some _, Some _ => Modified
                 end) /\
  NoDup (map npath (listing (dirdiff a b))).
Proof. exact reported_iff. Qed.
Print Assumptions C18_reported_iff.

(** Safe order: every reported node other than the root has its parent's own entry in the
    listing; a removed node stands before that entry and an added node after it (positions
    in [nodes()]).  Nothing is assumed about the kind of the parent's change, so this covers
    file <-> directory replacements, whose entry is "modified". *)
Theorem C18_order_safe : forall a b, canone a = true -> canone b = true ->
  forall n k pp, In n (listing (dirdiff a b)) -> npath n = pp ++ [k] ->
  exists j m, nth_error (listing (dirdiff a b)) j = Some m /\ npath m = pp /\
    forall i, nth_error (listing (dirdiff a b)) i = Some n ->
      (nstatus n = Removed -> i < j) /\ (nstatus n = Added -> j < i).
Proof. exact order_safe. Qed.
Print Assumptions C18_order_safe.

(** [get] agrees with the listing: it returns the listed node with that path, and [None]
    (status "unchanged") exactly for the paths at which the snapshots agree, absent paths
    included. *)
Theorem C18_get_agrees : forall a b, canone a = true -> canone b = true ->
  forall q,
    get (dirdiff a b) q = find (fun n => path_eqb (npath n) q) (listing (dirdiff a b)) /\
    (get (dirdiff a b) q = None <-> osub a q = osub b q) /\
    (forall n, get (dirdiff a b) q = Some n ->
       In n (listing (dirdiff a b)) /\ npath n = q /\ nprev n = osub a q /\ ncurr n = osub b q).
Proof. exact get_agrees. Qed.
Print Assumptions C18_get_agrees.

(** Consuming the listing in order, one shallow file-system step per node ([apply1]: unlink
    a file or [rmdir] an *empty* directory; create a file, or [mkdir] an empty directory, at a
    free location below an *existing* directory; replace a file or an empty directory; a step
    whose precondition fails is refused), is never refused and turns the old snapshot into the
    new one.  Hence every removal happens before its parent is removed or replaced, and every
    addition after its parent exists. *)
Theorem C18_script_correct : forall a b, canone a = true -> canone b = true ->
  run_script (listing (dirdiff a b)) a = Some b.
Proof. exact script_correct. Qed.
Print Assumptions C18_script_correct.

(** [annotate(base_dir)], a third view of the same listing ([t] = the directory as it is on
    disk now; the code's [{}] for an empty diff is modelled as it is, so the two coverage
    clauses carry [is_empty = false]): for a non-empty diff the keys are exactly the paths that
    changed plus the paths existing in [t]; in particular every path of the new snapshot is a
    key when the directory is the new snapshot; no key occurs twice (the association list is a
    faithful dict); and every value is what [get] returns for its key. *)
Theorem C18_annotate_covers : forall a b t,
  canone a = true -> canone b = true -> canone t = true ->
  (is_empty (dirdiff a b) = false ->
     forall q, In q (map fst (annotate (dirdiff a b) t)) <->
               osub a q <> osub b q \/ (q <> [] /\ osub t q <> None)) /\
  (is_empty (dirdiff a b) = false ->
     forall q, osub b q <> None -> In q (map fst (annotate (dirdiff a b) b))) /\
  NoDup (map fst (annotate (dirdiff a b) t)) /\
  (forall q v, In (q, v) (annotate (dirdiff a b) t) -> v = get (dirdiff a b) q).
Proof. exact annotate_covers. Qed.
Print Assumptions C18_annotate_covers.

(** The order a packer relies on: the items of [annotate] are the listed nodes in [nodes()]
    order followed by node-less entries; a loop over the items that skips the [None] entries
    therefore sees exactly the listing, and performing one shallow step per entry is never
    refused and turns the old snapshot into the new one. *)
Theorem C18_annotate_order : forall a b t, canone a = true -> canone b = true ->
  (exists rest, annotate (dirdiff a b) t =
                map (fun n => (npath n, Some n)) (listing (dirdiff a b)) ++
                map (fun p => (p, None)) rest) /\
  ann_script (annotate (dirdiff a b) t) = listing (dirdiff a b) /\
  run_script (ann_script (annotate (dirdiff a b) t)) a = Some b.
Proof. exact annotate_order. Qed.
Print Assumptions C18_annotate_order.

(** [prev_type] / [curr_type] of a reported node are the kinds of the old / new entry of its
    path; with non-empty leaf strings, "no previous type" means added and "no current type"
    means removed. *)
Theorem C18_node_types : forall a b, canone a = true -> canone b = true ->
  forall n, In n (listing (dirdiff a b)) ->
    type_of (nprev n) = type_of (osub a (npath n)) /\
    type_of (ncurr n) = type_of (osub b (npath n)) /\
    (leafoke a = true -> (type_of (nprev n) = None <-> nstatus n = Added)) /\
    (leafoke b = true -> (type_of (ncurr n) = None <-> nstatus n = Removed)).
Proof. exact node_types. Qed.
Print Assumptions C18_node_types.

(** ** C18 + C19: the packer's change detection.

    [PGPacker._prepare] / [check_dir_diff] compute [dir_hashsums] of the source directory and
    compare with the stored table by [DirDiff.compare]; they update iff the diff is non-empty.
    [DirHash.dir_hashsums] is C19's model, [PackerDetect.hs_to_dtree] reads its result as the
    nested dict [DirDiff.compare] consumes (digest and ["symlink:..."] strings are both leaves).
    Under C19's premises (a streaming hash whose one-shot digest is injective on the compared
    payloads): the packer sees "no change" exactly when the two directories have equal content
    (names, file bytes, normalised in-directory link targets, sub-directories) ... *)
Theorem C18_C19_change_detected :
  forall (state : Type) (init : state) (upd : state -> DirHash.bytes -> state)
         (fin : state -> DirHash.digest),
    (forall s x y, upd (upd s x) y = upd s (x ++ y)) ->
    (forall s, upd s [] = s) ->
    (forall x y, DirHash.oneshot state init upd fin x = DirHash.oneshot state init upd fin y -> x = y) ->
    forall n al a b ha hb,
      n > 0 -> DirHash.canonb a = true -> DirHash.canonb b = true ->
      DirHash.no_outsideb a = true -> DirHash.no_outsideb b = true ->
      DirHash.dir_hashsums state init upd fin n al a = Some ha ->
      DirHash.dir_hashsums state init upd fin n al b = Some hb ->
      (is_empty (dirdiff (Some (PackerDetect.hs_to_dtree ha)) (Some (PackerDetect.hs_to_dtree hb))) = true
       <-> a = b).
Proof. exact PackerDetect.change_detected. Qed.
Print Assumptions C18_C19_change_detected.

(** ... and a path is reported by the diff of the two tables iff the entries of the two
    directories at that path differ (missing on one side, different kind, different bytes,
    different link target, or directories with different content). *)
Theorem C18_C19_changed_paths :
  forall (state : Type) (init : state) (upd : state -> DirHash.bytes -> state)
         (fin : state -> DirHash.digest),
    (forall s x y, upd (upd s x) y = upd s (x ++ y)) ->
    (forall s, upd s [] = s) ->
    (forall x y, DirHash.oneshot state init upd fin x = DirHash.oneshot state init upd fin y -> x = y) ->
    forall n al a b ha hb,
      n > 0 -> DirHash.canonb a = true -> DirHash.canonb b = true ->
      DirHash.no_outsideb a = true -> DirHash.no_outsideb b = true ->
      DirHash.dir_hashsums state init upd fin n al a = Some ha ->
      DirHash.dir_hashsums state init upd fin n al b = Some hb ->
      forall q,
        (exists nd, In nd (listing (dirdiff (Some (PackerDetect.hs_to_dtree ha))
                                            (Some (PackerDetect.hs_to_dtree hb)))) /\ npath nd = q)
        <-> DirHash.tlookup a q <> DirHash.tlookup b q.
Proof. exact PackerDetect.changed_paths. Qed.
Print Assumptions C18_C19_changed_paths.

(** ** Non-vacuity: a pair with a removed directory, a file -> directory replacement,
    an unchanged file and an added directory. *)

Example ex_prev : ent :=
  Some (D [("a", D [("x", Lf "sha256:00"); ("y", Lf "sha256:01")]);
           ("b", Lf "sha256:00"); ("c", Lf "sha256:00")]).
Example ex_curr : ent :=
  Some (D [("b", D [("z", Lf "symlink:a")]); ("c", Lf "sha256:00");
           ("d", D [("e", Lf "sha256:01")])]).

Example ex_canonical : canone ex_prev = true /\ canone ex_curr = true.
Proof. split; reflexivity. Qed.

Example ex_not_empty : is_empty (dirdiff ex_prev ex_curr) = false /\
                       is_empty (dirdiff ex_prev ex_prev) = true.
Proof. split; reflexivity. Qed.

(** removed children first, then the replaced file followed by what is new inside it, then
    the root's own entry, then the added directory followed by its content; [c] is absent *)
Example ex_listing :
  map (fun n => (npath n, nstatus n)) (listing (dirdiff ex_prev ex_curr)) =
  [(["a"; "x"], Removed); (["a"; "y"], Removed); (["a"], Removed);
   (["b"], Modified); (["b"; "z"], Added);
   ([], Modified);
   (["d"], Added); (["d"; "e"], Added)].
Proof. vm_compute. reflexivity. Qed.

Example ex_entries :
  option_map (fun n => (nprev n, ncurr n)) (get (dirdiff ex_prev ex_curr) ["b"]) =
  Some (Some (Lf "sha256:00"), Some (D [("z", Lf "symlink:a")])).
Proof. vm_compute. reflexivity. Qed.

Example ex_get :
  option_map npath (get (dirdiff ex_prev ex_curr) ["a"; "y"]) = Some ["a"; "y"] /\
  get (dirdiff ex_prev ex_curr) ["c"] = None /\
  get (dirdiff ex_prev ex_curr) ["a"; "zz"] = None /\
  get (dirdiff ex_prev ex_curr) ["zz"; "a"] = None.
Proof. vm_compute. repeat split; reflexivity. Qed.

(** the consumer is discriminating: the same steps in reverse order are refused (the first
    one would create [d/e] before [d] exists), and so is the listing with the parents moved
    to the front *)
Example ex_script :
  run_script (listing (dirdiff ex_prev ex_curr)) ex_prev = Some ex_curr /\
  run_script (rev (listing (dirdiff ex_prev ex_curr))) ex_prev = None /\
  run_script (filter (fun n => Nat.leb (List.length (npath n)) 1) (listing (dirdiff ex_prev ex_curr)))
             ex_prev = None.
Proof. vm_compute. repeat split; reflexivity. Qed.

(** [annotate] on the new snapshot: the eight nodes in listing order, then the unchanged file
    [c]; on an empty diff the code (and the model) returns nothing. *)
Example ex_annotate :
  map (fun kv => (fst kv, dstatus (snd kv))) (annotate (dirdiff ex_prev ex_curr) ex_curr) =
  [(["a"; "x"], Removed); (["a"; "y"], Removed); (["a"], Removed);
   (["b"], Modified); (["b"; "z"], Added); ([], Modified);
   (["d"], Added); (["d"; "e"], Added); (["c"], Unchanged)] /\
  annotate (dirdiff ex_prev ex_prev) ex_prev = [].
Proof. vm_compute. split; reflexivity. Qed.

Example ex_types :
  map (fun n => (type_of (nprev n), type_of (ncurr n))) (listing (dirdiff ex_prev ex_curr)) =
  [(Some TFile, None); (Some TFile, None); (Some TDir, None);
   (Some TFile, Some TDir); (None, Some TSym); (Some TDir, Some TDir);
   (None, Some TDir); (None, Some TFile)] /\
  leafoke ex_prev = true /\ leafoke ex_curr = true.
Proof. vm_compute. repeat split; reflexivity. Qed.

(** the composition on two directories (runner instance of the hash: digest = content): one
    byte of [a] edited, a link retargeted, a file replaced by a link to an equal file, an
    empty directory added; [x] is untouched and not reported *)
Example ex_detect :
  let fs c tg g := DirHash.Dir
     [("a", DirHash.File (list_ascii_of_string c));
      ("d", DirHash.Dir [("l", DirHash.Link (DirHash.In_ tg)); ("x", DirHash.File (list_ascii_of_string "same"))]);
      ("g", g); ("x", DirHash.File (list_ascii_of_string "same"))] in
  let t0 := fs "hello" ["x"] (DirHash.File (list_ascii_of_string "same")) in
  let t1 := fs "hellp" ["d"; "x"] (DirHash.Link (DirHash.In_ ["x"])) in
  let h t := option_map PackerDetect.hs_to_dtree (DirHash.dir_hashsums_id 4 DirHash.Sha256 t) in
  DirHash.canonb t0 = true /\ DirHash.canonb t1 = true /\
  DirHash.no_outsideb t0 = true /\ DirHash.no_outsideb t1 = true /\
  is_empty (dirdiff (h t0) (h t0)) = true /\ is_empty (dirdiff (h t0) (h t1)) = false /\
  map (fun n => (npath n, nstatus n)) (listing (dirdiff (h t0) (h t1))) =
  [(["a"], Modified); (["d"; "l"], Modified); (["d"], Modified); (["g"], Modified); ([], Modified)].
Proof. vm_compute. repeat split; reflexivity. Qed.
