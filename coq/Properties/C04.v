(** Property C04 — only coherent, untampered file sets open as a record.
    This file holds only the property theorems; each is closed by [exact] of a lemma
    proved in [Rec/ChainProofs.v] and followed by [Print Assumptions].

    [open_check mfm bl fs]: the model of [IH5Record(fs, 'r')] ([mfm = false]) or
    [IH5MFRecord(fs, 'r')] ([mfm = true]), with [allow_baseless = bl]; [None] = refused. *)
From Coq Require Import List NArith Bool Permutation.
From MV Require Import Rec.Chain Rec.ChainProofs.
Import ListNotations.
Local Open Scope N_scope.

(** A file set is accepted exactly when it is coherent: one base, a gap-free chain of
    patches of the same record with distinct patch ids and strictly increasing indices,
    committed payloads equal to what was hashed (the newest may be uncommitted), and for
    the manifest-aware class a matching manifest of the newest container. *)
Theorem C04_accept_iff : forall mfm bl fs,
  open_check mfm bl fs <> None <-> coherent mfm bl fs.
Proof. exact accept_iff. Qed.
Print Assumptions C04_accept_iff.

(** What is opened is that chain, in chain order. *)
Theorem C04_accept_chain : forall mfm bl fs c,
  open_check mfm bl fs = Some c <-> Permutation c fs /\ chain_ok mfm bl c.
Proof. exact accept_chain. Qed.
Print Assumptions C04_accept_chain.

(** The order in which the files are listed is irrelevant. *)
Theorem C04_perm : forall mfm bl fs fs',
  Permutation fs fs' -> open_check mfm bl fs = open_check mfm bl fs'.
Proof. exact open_perm. Qed.
Print Assumptions C04_perm.

(** *** Fault classes *)

(** A committed container whose payload digest differs from the recorded one. *)
Theorem C04_payload_mismatch : forall mfm bl fs f h,
  In f fs -> fhash f = Some h -> h <> dig f -> open_check mfm bl fs = None.
Proof. exact payload_mismatch_refused. Qed.
Print Assumptions C04_payload_mismatch.

(** ... hence, for a collision-free hash [H], any change of a committed payload
    ([p0] was hashed at commit, [p] is on disk now). *)
Theorem C04_payload_change : forall (payload : Type) (H : payload -> N),
  (forall a b, H a = H b -> a = b) ->
  forall mfm bl fs f p0 p,
  In f fs -> fhash f = Some (H p0) -> dig f = H p -> p <> p0 ->
  open_check mfm bl fs = None.
Proof. exact payload_change_refused. Qed.
Print Assumptions C04_payload_change.

(** ... and conversely every committed payload of an accepted set is the committed one. *)
Theorem C04_accepted_payload_exact : forall (payload : Type) (H : payload -> N),
  (forall a b, H a = H b -> a = b) ->
  forall mfm bl fs f p0 p,
  open_check mfm bl fs <> None ->
  In f fs -> fhash f = Some (H p0) -> dig f = H p -> p = p0.
Proof. exact accepted_payload_exact. Qed.
Print Assumptions C04_accepted_payload_exact.

(** Removal of a container that has a predecessor and a successor. *)
Theorem C04_remove_inner : forall mfm bl c l1 x l2 fs,
  chain_ok mfm bl c -> c = l1 ++ x :: l2 -> l1 <> [] -> l2 <> [] ->
  Permutation fs (l1 ++ l2) -> forall mfm' bl', open_check mfm' bl' fs = None.
Proof. exact remove_inner_refused. Qed.
Print Assumptions C04_remove_inner.

(** Removal of the base. *)
Theorem C04_remove_base : forall mfm b ps fs,
  chain_ok mfm false (b :: ps) -> Permutation fs ps ->
  forall mfm', open_check mfm' false fs = None.
Proof. exact remove_base_refused. Qed.
Print Assumptions C04_remove_base.

(** No base at all. *)
Theorem C04_missing_base : forall mfm fs,
  (forall f, In f fs -> fprev f <> None) -> open_check mfm false fs = None.
Proof. exact missing_base_refused. Qed.
Print Assumptions C04_missing_base.

(** A container whose predecessor is not in the set (gap). *)
Theorem C04_dangling_prev : forall mfm fs y q,
  In y fs -> fprev y = Some q -> (forall f, In f fs -> fpid f <> q) ->
  open_check mfm false fs = None.
Proof. exact dangling_prev_refused. Qed.
Print Assumptions C04_dangling_prev.

(** Containers of two different records. *)
Theorem C04_foreign : forall mfm bl fs f g,
  In f fs -> In g fs -> frec f <> frec g -> open_check mfm bl fs = None.
Proof. exact foreign_refused. Qed.
Print Assumptions C04_foreign.

(** Two containers continuing the same state (fork), two bases, or the same container
    twice. *)
Theorem C04_fork : forall mfm fs,
  ~ NoDup (map fprev fs) -> open_check mfm false fs = None.
Proof. exact fork_refused. Qed.
Print Assumptions C04_fork.

(** Substitution of a non-final container by one with another patch id (of another
    record or of a fork). *)
Theorem C04_substitute : forall mfm c l1 x y l2 x' fs,
  chain_ok mfm false c -> c = l1 ++ x :: y :: l2 -> fpid x' <> fpid x ->
  Permutation fs (l1 ++ x' :: y :: l2) -> forall mfm', open_check mfm' false fs = None.
Proof. exact substitute_refused. Qed.
Print Assumptions C04_substitute.

(** Substitution of the newest container by one that does not continue its predecessor. *)
Theorem C04_substitute_last : forall mfm c l1 p x x' fs,
  chain_ok mfm false c -> c = l1 ++ [p; x] ->
  fprev x' <> Some (fpid p) \/ frec x' <> frec p ->
  Permutation fs (l1 ++ [p; x']) -> forall mfm', open_check mfm' false fs = None.
Proof. exact substitute_last_refused. Qed.
Print Assumptions C04_substitute_last.

(** Duplicated patch uuid. *)
Theorem C04_dup_pid : forall mfm bl fs,
  ~ NoDup (map fpid fs) -> open_check mfm bl fs = None.
Proof. exact dup_pid_refused. Qed.
Print Assumptions C04_dup_pid.

(** Manifest of the newest container missing, or with another digest. *)
Theorem C04_manifest : forall bl fs n e,
  In n fs -> (forall f, In f fs -> fidx f <= fidx n) -> fext n = Some e ->
  (forall i, mf n <> Some (i, mf_hash e)) -> open_check true bl fs = None.
Proof. exact manifest_refused. Qed.
Print Assumptions C04_manifest.

(** ... hence, for a collision-free hash, any edit of that manifest. *)
Theorem C04_manifest_change : forall (manifest : Type) (Hm mid : manifest -> N),
  (forall a b, Hm a = Hm b -> a = b) ->
  forall bl fs n e m0 m,
  In n fs -> (forall f, In f fs -> fidx f <= fidx n) -> fext n = Some e ->
  mf_hash e = Hm m0 -> mf n = Some (mid m, Hm m) -> m <> m0 ->
  open_check true bl fs = None.
Proof. exact manifest_change_refused. Qed.
Print Assumptions C04_manifest_change.

(** ... and an accepted set has exactly the committed manifest (so the uuid comparison
    the code leaves out is implied). *)
Theorem C04_accepted_manifest_exact : forall (manifest : Type) (Hm mid : manifest -> N),
  (forall a b, Hm a = Hm b -> a = b) ->
  forall bl fs n e m0 m,
  open_check true bl fs <> None ->
  In n fs -> (forall f, In f fs -> fidx f <= fidx n) -> fext n = Some e ->
  mf_hash e = Hm m0 -> mf_id e = mid m0 -> mf n = Some (mid m, Hm m) ->
  m = m0 /\ mid m = mf_id e.
Proof. exact accepted_manifest_exact. Qed.
Print Assumptions C04_accepted_manifest_exact.

(** *** The removal that is not a fault *)

(** Dropping the newest containers of a coherent set leaves a coherent set (for the
    manifest-aware class: provided the manifest of the container that becomes the newest
    is intact). *)
Theorem C04_prefix_ok : forall mfm bl fs keep drop,
  coherent mfm bl fs -> Permutation fs (keep ++ drop) -> keep <> [] ->
  (forall k d, In k keep -> In d drop -> fidx k < fidx d) ->
  (mfm = true -> forall k, In k keep -> mf_ok k) ->
  coherent mfm bl keep.
Proof. exact prefix_ok. Qed.
Print Assumptions C04_prefix_ok.

(** *** Non-vacuity *)

(** record 1: base 10, patches 11, 12 (12 uncommitted); record 2: base 20;
    fork of record 1 after 11: patch 13. Digests 100+, manifests (id 7x, digest 8x). *)
Definition b1 := MkFile (MkUb 1 0 10 None (Some 100) (Some (MkExt false 70 80))) 100 (Some (70, 80)).
Definition p1 := MkFile (MkUb 1 1 11 (Some 10) (Some 101) (Some (MkExt false 71 81))) 101 (Some (71, 81)).
Definition p2 := MkFile (MkUb 1 2 12 (Some 11) None None) 102 None.
Definition p2c := MkFile (MkUb 1 2 12 (Some 11) (Some 102) (Some (MkExt false 72 82))) 102 (Some (72, 82)).
Definition b2 := MkFile (MkUb 2 0 20 None (Some 200) None) 200 None.
Definition q2 := MkFile (MkUb 1 2 13 (Some 11) (Some 103) None) 103 None.
Definition tamper (f : file) := MkFile (ub f) (dig f + 1000) (mf f).
Definition nomf (f : file) := MkFile (ub f) (dig f) None.
Definition badmf (f : file) := MkFile (ub f) (dig f) (Some (72, 999)).

Example C04_nonvacuous_accept :
  open_check false false [p2; b1; p1] = Some [b1; p1; p2] /\
  open_check true false [p1; p2c; b1] = Some [b1; p1; p2c] /\
  open_check true false [b1; p1] = Some [b1; p1] /\
  open_check false false [b1; p1; q2] = Some [b1; p1; q2] /\
  open_check false true [p1; p2] = Some [p1; p2] /\
  coherent true false [p2c; p1; b1].
Proof. split; [|split; [|split; [|split; [|split]]]]; try (vm_compute; reflexivity).
  apply accept_iff. vm_compute. discriminate. Qed.

Example C04_nonvacuous_refuse :
  open_res false false [b1; tamper p1; p2] = inl (EHashMismatch, 1) /\
  open_res false false [b1; p2] = inl (EPrevMismatch, 1) /\
  open_res false false [p1; p2] = inl (EBasePrev, 0) /\
  open_res false false [b1; b2] = inl (ERecord, 1) /\
  open_res false false [b1; p1; p2; q2] = inl (EHashMissing, 2) /\
  open_res false false [b1; p1; q2; p2] = inl (EIndex, 3) /\
  open_res false false [b1; p1; p1] = inl (EIndex, 2).
Proof. vm_compute. repeat split. Qed.

Example C04_nonvacuous_manifest :
  open_res true false [b1; p1; nomf p2c] = inl (EMfMissing, 2) /\
  open_res true false [b1; p1; badmf p2c] = inl (EMfHash, 2) /\
  open_res true false [b1; nomf p1; p2c] = inr [b1; nomf p1; p2c] /\
  open_res false false [b1; p1; nomf p2c] = inr [b1; p1; nomf p2c].
Proof. vm_compute. repeat split. Qed.
