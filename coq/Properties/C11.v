(** Property C11 — a crash while patching never damages what was committed.
    This file holds only the property theorems; each is closed by [exact] of a lemma
    proved in [Rec/CrashProofs.v] and followed by [Print Assumptions].

    Vocabulary ([Rec/Crash.v]): [C] is a committed record ([good]: a chain, every container
    committed and untampered, manifests in place) or no record at all ([good0]: [C = []];
    the first round then creates the BASE container); [rs] a history of rounds
    [create_patch; writes; commit_patch] of [IH5Record] ([mfm = false]) or [IH5MFRecord]
    ([mfm = true]); [expand mfm C rs] its file-system micro-steps in program order;
    [crash_state mfm C rs n] the directory after the first [n] micro-steps (every torn
    state of a user-block write is a micro-step of its own); [committed_at] the containers
    committed by the rounds completed within [n] steps, [next_committed_at] the committed
    containers the round in progress would produce; [open_dir] = load all user blocks,
    then C04's [open_check]. *)
From Coq Require Import List String Ascii NArith Bool Permutation.
From MV Require Import Rec.Chain Rec.ChainProofs Rec.Crash Rec.CrashProofs.
From MV Require Import Rec.JsonGrammar Rec.JsonGrammarProofs.
Import ListNotations.

(** *** Directory level *)

(** After any prefix of the micro-steps the committed containers (user block, payload
    digest, sidecar) are what they were. *)
Theorem C11_crash_frame : forall mfm C rs n,
  good0 mfm C -> hist_ok mfm C rs ->
  firstn (List.length (committed_at mfm C rs n)) (crash_state mfm C rs n)
  = entries (committed_at mfm C rs n).
Proof. exact crash_frame. Qed.
Print Assumptions C11_crash_frame.

(** On their own they open, as the last committed chain (when anything is committed: while
    the base container is being created there is no committed state). *)
Theorem C11_committed_opens : forall mfm C rs n,
  good0 mfm C -> hist_ok mfm C rs -> committed_at mfm C rs n <> [] ->
  open_dir mfm (firstn (List.length (committed_at mfm C rs n)) (crash_state mfm C rs n))
  = Some (committed_at mfm C rs n).
Proof. exact crash_committed_opens. Qed.
Print Assumptions C11_committed_opens.

(** ... in particular for every patching history of an existing record. *)
Theorem C11_committed_opens_patching : forall mfm C rs n,
  good mfm C -> hist_ok mfm C rs ->
  open_dir mfm (firstn (List.length (committed_at mfm C rs n)) (crash_state mfm C rs n))
  = Some (committed_at mfm C rs n).
Proof. exact crash_committed_opens_good. Qed.
Print Assumptions C11_committed_opens_patching.

(** The whole set: refused; or accepted as committed containers + one more whose user
    block says "uncommitted"; or the last committed state; or the committed state the
    round in progress produces.  With [C = []] this covers the creation of the base
    container: [K = []] until the first commit is complete, so the outcomes are refused /
    absent, an uncommitted base, the committed base. *)
Theorem C11_trichotomy : forall mfm C rs n,
  good0 mfm C -> hist_ok mfm C rs ->
  let K := committed_at mfm C rs n in
  let s := crash_state mfm C rs n in
  open_dir mfm s = None \/
  (exists f, open_dir mfm s = Some (K ++ [f]) /\ fhash f = None) \/
  open_dir mfm s = Some K \/
  open_dir mfm s = Some (next_committed_at mfm C rs n).
Proof. exact crash_trichotomy. Qed.
Print Assumptions C11_trichotomy.

(** Never accepted as committed with a state that was not written. *)
Theorem C11_no_phantom : forall mfm C rs n c,
  good0 mfm C -> hist_ok mfm C rs ->
  open_dir mfm (crash_state mfm C rs n) = Some c -> fhash (lastf c) <> None ->
  c = committed_at mfm C rs n \/ c = next_committed_at mfm C rs n.
Proof. exact crash_no_phantom. Qed.
Print Assumptions C11_no_phantom.

(** Whenever the whole set opens, what it opens as extends the committed containers, and
    those are coherent on their own — by C04's [prefix_ok] (dropping the newest containers
    is not a fault). *)
Theorem C11_committed_coherent : forall mfm C rs n c,
  good0 mfm C -> hist_ok mfm C rs -> committed_at mfm C rs n <> [] ->
  open_dir mfm (crash_state mfm C rs n) = Some c ->
  exists drop, Permutation c (committed_at mfm C rs n ++ drop) /\
               coherent mfm false (committed_at mfm C rs n).
Proof. exact crash_committed_coherent. Qed.
Print Assumptions C11_committed_coherent.

(** Reader class different from the writer class ([mfr]: who opens; [mfw]: who wrote),
    for records both classes accept: same outcomes, the fully committed new state being
    recognised up to the sidecar files (a plain reader does not look at them: it accepts the
    new container as soon as its user block is complete, before the manifest exists). *)
Theorem C11_trichotomy_cross : forall mfr mfw C rs n,
  good0 true C -> hist_ok mfw C rs ->
  let K := committed_at mfw C rs n in
  let s := crash_state mfw C rs n in
  open_dir mfr s = None \/
  (exists f, open_dir mfr s = Some (K ++ [f]) /\ fhash f = None) \/
  open_dir mfr s = Some K \/
  (exists c, open_dir mfr s = Some c /\ map core c = map core (next_committed_at mfw C rs n)).
Proof. exact crash_trichotomy_x. Qed.
Print Assumptions C11_trichotomy_cross.

(** A round that runs to its end leaves exactly the committed new state. *)
Theorem C11_round_complete : forall mfm C r,
  round_ok mfm C r ->
  exec (entries C) (round_steps mfm C r) = entries (C ++ [final_file mfm C r]).
Proof. exact round_exec. Qed.
Print Assumptions C11_round_complete.

(** *** Byte level: the torn user-block write *)

(** Up to the end of the common prefix of the two blocks nothing has changed. *)
Theorem C11_torn_common_prefix : forall k old new,
  k <= lcp new old -> torn k old new = old.
Proof. exact torn_le_lcp. Qed.
Print Assumptions C11_torn_common_prefix.

Theorem C11_torn_full : forall k old new,
  List.length new <= k -> torn k old new = new ++ skipn k old.
Proof. exact torn_full. Qed.
Print Assumptions C11_torn_full.

(** The commit's write.  Old block: [head ++ pre ++ "null, ""ub_exts"": {}}" ++ NUL^m];
    written bytes: [head ++ pre ++ quote hsh rest ++ NUL], where [pre] ends just after the
    colon of [hdf5_hashsum], [hsh] is at least 19 plain characters, every strict prefix of
    the new text fails the necessary condition, and the new text fits into the block.
    For EVERY [k]: up to the end of [pre] the block loads as the old one; from there to
    the end of the new text it does not load (FULL classification: positions inside the
    old text are covered, not only those beyond it); from the end of the new text on it
    loads as the new one.  [loads] stands for [json.loads] + [parse_obj]; all that is
    assumed of it is that what it accepts satisfies [json_nec]. *)
Theorem C11_commit_torn_classes : forall (pre hsh rest : bytes) (m d : nat) (sk : bool),
  ~ In nl pre -> ~ In nul pre ->
  forallb plainb hsh = true -> 19 <= List.length hsh ->
  ~ In nl rest -> ~ In nul rest ->
  List.length (c_nt pre hsh rest) < List.length (c_ot pre) + m ->
  List.length (c_nt pre hsh rest) < 1011 ->
  scan st0 pre = Some (MkS d false false sk KColon false) ->
  tightb (c_nt pre hsh rest) = true ->
  forall loads : bytes -> option ublock,
  (forall t u, loads t = Some u -> json_nec t = true) ->
  forall k u1, loads (c_nt pre hsh rest) = Some u1 ->
  (k <= 13 + List.length pre ->
   parse_block loads (torn k (c_old pre m) (c_new pre hsh rest))
   = parse_block loads (c_old pre m)) /\
  (13 + List.length pre < k -> k < 13 + List.length (c_nt pre hsh rest) ->
   parse_block loads (torn k (c_old pre m) (c_new pre hsh rest)) = None) /\
  (13 + List.length (c_nt pre hsh rest) <= k ->
   parse_block loads (torn k (c_old pre m) (c_new pre hsh rest)) = Some u1).
Proof. exact commit_torn_classes. Qed.
Print Assumptions C11_commit_torn_classes.

(** The three pieces without the loader: (a) the old block itself; (b) inside the old
    text: a text that fails the necessary condition (unterminated string literal, or a
    colon after a member value); (c) beyond the old text: a strict prefix of the new text
    followed by the old padding; (d) the new text. *)
Theorem C11_commit_torn_old : forall (pre hsh rest : bytes) (m : nat),
  19 <= List.length hsh ->
  List.length (c_nt pre hsh rest) < List.length (c_ot pre) + m ->
  List.length (c_nt pre hsh rest) < 1011 ->
  forall k, k <= 13 + List.length pre ->
  torn k (c_old pre m) (c_new pre hsh rest) = c_old pre m.
Proof. exact commit_torn_old. Qed.
Print Assumptions C11_commit_torn_old.

Theorem C11_commit_torn_between : forall (pre hsh rest : bytes) (m d : nat) (sk : bool),
  ~ In nl pre -> ~ In nul pre ->
  forallb plainb hsh = true -> 19 <= List.length hsh ->
  List.length (c_nt pre hsh rest) < List.length (c_ot pre) + m ->
  List.length (c_nt pre hsh rest) < 1011 ->
  scan st0 pre = Some (MkS d false false sk KColon false) ->
  forall k, 13 + List.length pre < k -> k < 13 + List.length pre + 20 ->
  exists t, block_text (torn k (c_old pre m) (c_new pre hsh rest)) = Some t /\
            json_nec t = false.
Proof. exact commit_torn_between. Qed.
Print Assumptions C11_commit_torn_between.

Theorem C11_commit_torn_beyond : forall (pre hsh rest : bytes) (m : nat),
  ~ In nl pre -> ~ In nul pre ->
  forallb plainb hsh = true -> 19 <= List.length hsh ->
  ~ In nl rest -> ~ In nul rest ->
  List.length (c_nt pre hsh rest) < List.length (c_ot pre) + m ->
  List.length (c_nt pre hsh rest) < 1011 ->
  tightb (c_nt pre hsh rest) = true ->
  forall k, 13 + List.length pre + 20 <= k -> k < 13 + List.length (c_nt pre hsh rest) ->
  block_text (torn k (c_old pre m) (c_new pre hsh rest))
  = Some (firstn (k - 13) (c_nt pre hsh rest)) /\
  json_nec (firstn (k - 13) (c_nt pre hsh rest)) = false.
Proof. exact commit_torn_beyond. Qed.
Print Assumptions C11_commit_torn_beyond.

Theorem C11_commit_torn_new : forall (pre hsh rest : bytes) (m : nat),
  ~ In nl pre -> ~ In nul pre ->
  forallb plainb hsh = true -> 19 <= List.length hsh ->
  ~ In nl rest -> ~ In nul rest ->
  List.length (c_nt pre hsh rest) < List.length (c_ot pre) + m ->
  List.length (c_nt pre hsh rest) < 1011 ->
  forall k, 13 + List.length (c_nt pre hsh rest) <= k ->
  block_text (torn k (c_old pre m) (c_new pre hsh rest)) = Some (c_nt pre hsh rest).
Proof. exact commit_torn_new. Qed.
Print Assumptions C11_commit_torn_new.

(** The first write of a user block, over the zeroed block of a fresh container: nothing
    loads before the whole text is there. *)
Theorem C11_create_torn : forall (t : bytes) (M : nat),
  ~ In nl t -> ~ In nul t -> List.length t < 1011 -> 13 + List.length t < M ->
  tightb t = true ->
  forall loads : bytes -> option ublock,
  (forall x u, loads x = Some u -> json_nec x = true) ->
  forall u0, loads t = Some u0 ->
  tears_ok None u0 (tears_of (parse_block loads) (z_old M) (z_new t)).
Proof. exact create_tears_ok. Qed.
Print Assumptions C11_create_torn.

(** Link of the two levels: the torn states of both user-block writes of a round, taken
    from the bytes, satisfy the side condition [tears_ok] that [hist_ok] asks for. *)
Theorem C11_round_tears_from_bytes : forall mfm C r pre hsh rest m d sk t M loads,
  ~ In nl pre -> ~ In nul pre -> forallb plainb hsh = true -> 19 <= List.length hsh ->
  ~ In nl rest -> ~ In nul rest ->
  List.length (c_nt pre hsh rest) < List.length (c_ot pre) + m ->
  List.length (c_nt pre hsh rest) < 1011 ->
  scan st0 pre = Some (MkS d false false sk KColon false) ->
  tightb (c_nt pre hsh rest) = true ->
  ~ In nl t -> ~ In nul t -> List.length t < 1011 -> 13 + List.length t < M -> tightb t = true ->
  (forall x u, loads x = Some u -> json_nec x = true) ->
  loads t = Some (round_u0 C r) ->
  parse_block loads (c_old pre m) = Some (round_u0 C r) ->
  loads (c_nt pre hsh rest) = Some (round_u1 mfm C r) ->
  r_tears1 r = tears_of (parse_block loads) (z_old M) (z_new t) ->
  r_tears2 r = tears_of (parse_block loads) (c_old pre m) (c_new pre hsh rest) ->
  tears_ok None (round_u0 C r) (r_tears1 r) /\
  tears_ok (Some (round_u0 C r)) (round_u1 mfm C r) (r_tears2 r).
Proof. exact round_tears_from_bytes. Qed.
Print Assumptions C11_round_tears_from_bytes.

(** *** The encoder: the side conditions are properties of the text the code writes

    [encode_ub] prints a user block the way [IH5UserBlock.json()] does (the check compares
    it byte for byte with every real block it meets).  For well-formed field texts (UUIDs
    and hashsums without quote, backslash, NUL, newline) every strict prefix of the text
    fails the necessary condition, and the common prefix of the two blocks of a commit ends
    at depth 1 just after a colon. *)
Theorem C11_encode_tight : forall u h e,
  wf_head u -> wf_opt h -> wf_ext e -> tightb (encode_ub u h e) = true.
Proof. exact encode_tight. Qed.
Print Assumptions C11_encode_tight.

Theorem C11_enc_pre_state : forall u, wf_head u ->
  scan st0 (enc_pre u) = Some (MkS 1 false false false KColon false).
Proof. exact enc_pre_state. Qed.
Print Assumptions C11_enc_pre_state.

(** Hence the full classification of the torn commit write for the blocks [encode_ub]
    produces, with no premise about the texts left: well-formed fields, a hashsum of at
    least 19 characters (["sha256:" + 64 hex] has 71), the new text fits the block. *)
Theorem C11_commit_torn_classes_enc : forall u h e m (loads : bytes -> option ublock),
  wf_head u -> forallb plainb h = true -> 19 <= List.length h -> wf_ext e ->
  let ot := encode_ub u None None in
  let nt := encode_ub u (Some h) e in
  let old := head1024 ++ ot ++ repeat nul m in
  let new := head1024 ++ nt ++ [nul] in
  List.length nt < List.length ot + m -> List.length nt < 1011 ->
  (forall t x, loads t = Some x -> json_nec t = true) ->
  forall k u1, loads nt = Some u1 ->
  (k <= 13 + List.length (enc_pre u) ->
   parse_block loads (torn k old new) = parse_block loads old) /\
  (13 + List.length (enc_pre u) < k -> k < 13 + List.length nt ->
   parse_block loads (torn k old new) = None) /\
  (13 + List.length nt <= k -> parse_block loads (torn k old new) = Some u1).
Proof. exact commit_torn_classes_enc. Qed.
Print Assumptions C11_commit_torn_classes_enc.

Theorem C11_create_torn_enc : forall u M (loads : bytes -> option ublock),
  wf_head u ->
  let t := encode_ub u None None in
  List.length t < 1011 -> 13 + List.length t < M ->
  (forall x y, loads x = Some y -> json_nec x = true) ->
  forall u0, loads t = Some u0 ->
  tears_ok None u0 (tears_of (parse_block loads) (z_old M) (z_new t)).
Proof. exact create_tears_enc. Qed.
Print Assumptions C11_create_torn_enc.

(** The executable classification the runner applies to real blocks is sound for any
    loader that respects the necessary condition (for ANY pair of blocks, no shape
    assumed); [TUnknown] makes no claim. *)
Theorem C11_classify_sound : forall loads : bytes -> option ublock,
  (forall t u, loads t = Some u -> json_nec t = true) ->
  forall k old new,
  match classify k old new with
  | TOld => parse_block loads (torn k old new) = parse_block loads old
  | TNew => parse_block loads (torn k old new)
            = parse_block loads (torn (List.length new) old new)
  | TBad => parse_block loads (torn k old new) = None
  | TUnknown => True
  end.
Proof. exact classify_sound. Qed.
Print Assumptions C11_classify_sound.

(** *** The necessary condition is a theorem about the JSON grammar

    [Json] / [JsonStruct] ([Rec/JsonGrammar.v]): the text grammar of RFC 8259 (values,
    objects with string keys, arrays, strings with escapes, numbers, literals, insignificant
    white space); [JsonStruct]: the top-level value is an object or an array.  Every such
    text satisfies [json_nec] — terminated string literals, balanced brackets closed at the
    end, only white space after the value, no colon after a member-value string.  (A scalar
    at top level, which [Json] allows, passes the scan alive but is not "accepting": the
    loader of a user block needs an object, [parse_obj] refuses anything else.) *)
Theorem C11_json_grammar_nec : forall t, JsonStruct t -> json_nec t = true.
Proof. exact json_struct_nec. Qed.
Print Assumptions C11_json_grammar_nec.

Theorem C11_json_alive : forall t, Json t -> exists s, scan st0 t = Some s.
Proof. exact json_alive. Qed.
Print Assumptions C11_json_alive.

(** The executable recogniser the check runs against the real [json.loads] is sound for
    the grammar. *)
Theorem C11_json_okb_sound : forall t, json_okb t = true -> Json t.
Proof. exact json_okb_sound. Qed.
Print Assumptions C11_json_okb_sound.

Theorem C11_json_objb_sound : forall t, json_objb t = true -> JsonStruct t.
Proof. exact json_objb_sound. Qed.
Print Assumptions C11_json_objb_sound.

(** Hence the classification of the torn commit write holds for EVERY loader that accepts
    only RFC 8259 texts with an object (or array) at top level: that is the only premise
    left about [json.loads] + [parse_obj].  (Python's [json.loads] also takes [NaN] /
    [Infinity] / [-Infinity]; they need a capital [N] or [I], which no user-block text
    contains — [no_NI] is evaluated on every text the check meets.) *)
Theorem C11_commit_torn_classes_rfc : forall (loads : bytes -> option ublock),
  (forall t u, loads t = Some u -> JsonStruct t) ->
  forall u h e m,
  wf_head u -> forallb plainb h = true -> 19 <= List.length h -> wf_ext e ->
  let ot := encode_ub u None None in
  let nt := encode_ub u (Some h) e in
  let old := head1024 ++ ot ++ repeat nul m in
  let new := head1024 ++ nt ++ [nul] in
  List.length nt < List.length ot + m -> List.length nt < 1011 ->
  forall k u1, loads nt = Some u1 ->
  (k <= 13 + List.length (enc_pre u) ->
   parse_block loads (torn k old new) = parse_block loads old) /\
  (13 + List.length (enc_pre u) < k -> k < 13 + List.length nt ->
   parse_block loads (torn k old new) = None) /\
  (13 + List.length nt <= k -> parse_block loads (torn k old new) = Some u1).
Proof. exact commit_torn_classes_rfc. Qed.
Print Assumptions C11_commit_torn_classes_rfc.

Theorem C11_create_torn_rfc : forall (loads : bytes -> option ublock),
  (forall t u, loads t = Some u -> JsonStruct t) ->
  forall u M, wf_head u ->
  let t := encode_ub u None None in
  List.length t < 1011 -> 13 + List.length t < M ->
  forall u0, loads t = Some u0 ->
  tears_ok None u0 (tears_of (parse_block loads) (z_old M) (z_new t)).
Proof. exact create_tears_rfc. Qed.
Print Assumptions C11_create_torn_rfc.

Theorem C11_classify_sound_rfc : forall (loads : bytes -> option ublock),
  (forall t u, loads t = Some u -> JsonStruct t) ->
  forall k old new,
  match classify k old new with
  | TOld => parse_block loads (torn k old new) = parse_block loads old
  | TNew => parse_block loads (torn k old new)
            = parse_block loads (torn (List.length new) old new)
  | TBad => parse_block loads (torn k old new) = None
  | TUnknown => True
  end.
Proof. exact classify_sound_rfc. Qed.
Print Assumptions C11_classify_sound_rfc.

(** *** Non-vacuity *)

Local Open Scope N_scope.

(** A committed base (with manifest) and one round; plain and manifest-aware. *)
Definition xb := MkFile (MkUb 1 0 10 None (Some 100) (Some (MkExt false 70 80))) 100 (Some (70, 80)).
Definition xr (u0 u1 : ublock) := MkRound 1 11 50 [None; None] [51; 52] 53 [Some u0; None; Some u1] 71 81 [(0, 90)].
Definition xu0 := round_u0 [xb] (MkRound 1 11 50 [] [] 53 [] 71 81 []).
Definition xr_plain := xr xu0 (round_u1 false [xb] (MkRound 1 11 50 [] [] 53 [] 71 81 [])).
Definition xr_mf := xr xu0 (round_u1 true [xb] (MkRound 1 11 50 [] [] 53 [] 71 81 [])).

Definition classes (mfm : bool) (r : round) : list (option (nat * bool)) :=
  map (fun n => match open_dir mfm (crash_state mfm [xb] [r] n) with
                | None => None
                | Some c => Some (List.length c, is_some (fhash (lastf c)))
                end) (seq 0 (S (List.length (expand mfm [xb] [r])))).

Example C11_nonvacuous_plain :
  classes false xr_plain =
  [Some (1, true);                       (* nothing happened *)
   None; None; None;                     (* new file, torn first block *)
   Some (2, false);                      (* create_patch done *)
   Some (2, false); Some (2, false); Some (2, false);   (* writes, close *)
   Some (2, false); None; Some (2, true);                (* torn commit block: old, unreadable, new *)
   Some (2, true)]%nat.
Proof. vm_compute. reflexivity. Qed.

Example C11_nonvacuous_mf :
  classes true xr_mf =
  [Some (1, true); None; None; None; Some (2, false);
   Some (2, false); Some (2, false); Some (2, false);
   Some (2, false); None;
   None;                                 (* new block complete in a torn state, manifest missing *)
   None;                                 (* new block written, manifest missing *)
   None;                                 (* manifest partially written *)
   Some (2, true)]%nat.
Proof. vm_compute. reflexivity. Qed.

(** Base creation: nothing committed, a base round (record 1, container 10) of the
    manifest-aware class, then a patch round. *)
Definition xbase0 := MkRound 1 10 50 [] [] 60 [] 70 80 [].
Definition xbase := MkRound 1 10 50 [None] [55] 60
  [Some (round_u0 [] xbase0); None; Some (round_u1 true [] xbase0)] 70 80 [(0, 91)].
Definition xbase_plain := MkRound 1 10 50 [None] [55] 60
  [Some (round_u0 [] xbase0); None; Some (round_u1 false [] xbase0)] 70 80 [].
Definition xC1 := [final_file true [] xbase].
Definition xr2_0 := MkRound 1 11 50 [] [] 53 [] 71 81 [].
Definition xr_mf2 := MkRound 1 11 50 [None] [51] 53
  [Some (round_u0 xC1 xr2_0); Some (round_u1 true xC1 xr2_0)] 71 81 [].

Definition classes0 (mfr mfw : bool) (rs : list round) : list (option (nat * bool)) :=
  map (fun n => match open_dir mfr (crash_state mfw [] rs n) with
                | None => None
                | Some c => Some (List.length c, is_some (fhash (lastf c)))
                end) (seq 0 (S (List.length (expand mfw [] rs)))).

Example C11_nonvacuous_base :
  classes0 true true [xbase; xr_mf2] =
  [None;                                  (* no record *)
   None; None;                            (* file created, zeroed / torn first block *)
   Some (1, false); Some (1, false); Some (1, false);   (* uncommitted base; write; close *)
   Some (1, false); None; None; None; None;   (* torn commit block; block done, manifest missing / partial *)
   Some (1, true);                        (* committed base *)
   None; None; Some (2, false); Some (2, false); Some (2, false);
   Some (2, false); None; None; Some (2, true)]%nat
  /\ classes0 false false [xbase_plain] =
  [None; None; None; Some (1, false); Some (1, false); Some (1, false);
   Some (1, false); None; Some (1, true); Some (1, true)]%nat.
Proof. vm_compute. split; reflexivity. Qed.

(** A plain reader on what the manifest-aware writer leaves: the new container counts as
    committed as soon as its user block is complete. *)
Example C11_nonvacuous_cross :
  classes0 false true [xbase] =
  [None; None; None; Some (1, false); Some (1, false); Some (1, false);
   Some (1, false); None; Some (1, true); Some (1, true); Some (1, true); Some (1, true)]%nat.
Proof. vm_compute. reflexivity. Qed.

Example C11_nonvacuous_hyps :
  good false [xb] /\ good true [xb] /\ hist_ok false [xb] [xr_plain] /\ hist_ok true [xb] [xr_mf] /\
  good0 true [] /\ hist_ok true [] [xbase; xr_mf2] /\ hist_ok false [] [xbase_plain].
Proof.
  assert (G : forall mfm, good mfm [xb]).
  { intros mfm. split; [|split].
    - apply checks_spec. destruct mfm; vm_compute; reflexivity.
    - repeat constructor.
    - intros _. constructor; [|constructor]. intros e [= <-]. exists 70. reflexivity. }
  split; [apply G|]. split; [apply G|].
  split; [split; [round_ok_tac | exact I]|].
  split; [split; [round_ok_tac | exact I]|].
  split; [left; reflexivity|].
  split; [split; [round_ok_tac | split; [round_ok_tac | exact I]]|].
  split; [round_ok_tac | exact I].
Qed.

(** A real pair of blocks (record of the probe in DESIGN.md): old up to and including byte
    211, unreadable 212..299, new from 300. *)
Local Open Scope string_scope.
Definition x_pre : bytes := B "{""record_uuid"": ""bb71730e-bde1-11f1-bfe2-02fc00000001"", ""patch_index"": 1, ""patch_uuid"": ""cc71730e-bde1-11f1-bfe2-02fc00000001"", ""prev_patch"": ""bb71730e-bde1-11f1-bfe2-02fc00000001"", ""hdf5_hashsum"": ".
Definition x_hsh : bytes := B "sha256:13a2bb8ea295947e24ac755b3af12ba94974b508ce3d46fa5ce0e850f55f83c8".
Definition x_rest : bytes := B """, ""ub_exts"": {}}".
Definition x_head := MkHead (B "bb71730e-bde1-11f1-bfe2-02fc00000001") 1
  (B "cc71730e-bde1-11f1-bfe2-02fc00000001") (Some (B "bb71730e-bde1-11f1-bfe2-02fc00000001")).
Definition x_old := c_old x_pre 793.
Definition x_new := c_new x_pre x_hsh x_rest.

Definition boundaries (old new : bytes) : list (nat * tclass) :=
  (fix go (prev : option tclass) (ks : list nat) : list (nat * tclass) :=
     match ks with
     | [] => []
     | k :: r =>
         let c := classify k old new in
         match prev, c with
         | Some TOld, TOld | Some TNew, TNew | Some TBad, TBad | Some TUnknown, TUnknown => go (Some c) r
         | _, _ => (k, c) :: go (Some c) r
         end
     end) None (seq 0 (S (List.length new))).

Example C11_nonvacuous_bytes :
  List.length x_old = 1024%nat /\
  boundaries x_old x_new = [(0, TOld); (212, TBad); (300, TNew)]%nat /\
  tightb (c_nt x_pre x_hsh x_rest) = true /\
  scan st0 x_pre = Some (MkS 1 false false false KColon false) /\
  forallb plainb x_hsh = true /\
  enc_pre x_head = x_pre /\
  (head1024 ++ encode_ub x_head None None ++ repeat nul 793)%list = x_old /\
  (head1024 ++ encode_ub x_head (Some x_hsh) None ++ [nul])%list = x_new /\
  string_of_list_ascii
    (encode_ub (MkHead (B "r") 0 (B "p") None) (Some (B "h")) (Some (false, B "m", B "s"))) =
  "{""record_uuid"": ""r"", ""patch_index"": 0, ""patch_uuid"": ""p"", ""prev_patch"": null, ""hdf5_hashsum"": ""h"", ""ub_exts"": {""ih5mf_v01"": {""is_stub_container"": false, ""manifest_uuid"": ""m"", ""manifest_hashsum"": ""s""}}}".
Proof. vm_compute. repeat split. Qed.

(** The grammar is inhabited by the user-block texts, and the recogniser separates the
    torn texts of the example above. *)
Example C11_nonvacuous_json :
  JsonStruct (encode_ub x_head (Some x_hsh) None) /\
  JsonStruct (encode_ub x_head None (Some (false, B "m", B "s"))) /\
  map (fun s => (json_okb (B s), json_nec (B s)))
      ["{}"; " { ""a"" : [true, null, -1.5e+3, ""x\u00e9\n""] } "; "[1,]"; "{""a"": ""b"": 1}";
       "{""a"":1} x"; "null"; "{""a"": ""sha256:ab_exts"": {}}"; "{""a"": ""sha25""ub_exts"": {}}"]
  = [(true, true); (true, true); (false, true); (false, false);
     (false, false); (true, false); (false, false); (false, false)].
Proof.
  split; [apply json_objb_sound; vm_compute; reflexivity|].
  split; [apply json_objb_sound; vm_compute; reflexivity|].
  vm_compute. reflexivity.
Qed.
