(** Property C11 — a crash while patching never damages what was committed.
    This file holds only the property theorems; each is closed by [exact] of a lemma
    proved in [Rec/CrashProofs.v] and followed by [Print Assumptions].

    Vocabulary ([Rec/Crash.v]): [C] is a committed record ([good]: a chain, every container
    committed and untampered, manifests in place); [rs] a history of rounds
    [create_patch; writes; commit_patch] of [IH5Record] ([mfm = false]) or [IH5MFRecord]
    ([mfm = true]); [expand mfm C rs] its file-system micro-steps in program order;
    [crash_state mfm C rs n] the directory after the first [n] micro-steps (every torn
    state of a user-block write is a micro-step of its own); [committed_at] the containers
    committed by the rounds completed within [n] steps, [next_committed_at] the committed
    containers the round in progress would produce; [open_dir] = load all user blocks,
    then C04's [open_check]. *)
From Coq Require Import List String Ascii NArith Bool Permutation.
From MV Require Import Rec.Chain Rec.ChainProofs Rec.Crash Rec.CrashProofs.
Import ListNotations.

(** *** Directory level *)

(** After any prefix of the micro-steps the committed containers (user block, payload
    digest, sidecar) are what they were. *)
Theorem C11_crash_frame : forall mfm C rs n,
  good mfm C -> hist_ok mfm C rs ->
  firstn (List.length (committed_at mfm C rs n)) (crash_state mfm C rs n)
  = entries (committed_at mfm C rs n).
Proof. exact crash_frame. Qed.
Print Assumptions C11_crash_frame.

(** On their own they open, as the last committed chain. *)
Theorem C11_committed_opens : forall mfm C rs n,
  good mfm C -> hist_ok mfm C rs ->
  open_dir mfm (firstn (List.length (committed_at mfm C rs n)) (crash_state mfm C rs n))
  = Some (committed_at mfm C rs n).
Proof. exact crash_committed_opens. Qed.
Print Assumptions C11_committed_opens.

(** The whole set: refused; or accepted as committed containers + one more whose user
    block says "uncommitted"; or the last committed state; or the committed state the
    round in progress produces. *)
Theorem C11_trichotomy : forall mfm C rs n,
  good mfm C -> hist_ok mfm C rs ->
  let K := committed_at mfm C rs n in
  let s := crash_state mfm C rs n in
  open_dir mfm s = None \/
  (exists f, open_dir mfm s = Some (K ++ [f]) /\ fhash f = None) \/
  open_dir mfm s = Some K \/
  open_dir mfm s = Some (next_committed_at mfm C rs n).
Proof. exact crash_trichotomy. Qed.
Print Assumptions C11_trichotomy.

(** Never accepted as committed with a state that was not written. *)
Theorem C11_no_phantom : forall mfm C rs n c,
  good mfm C -> hist_ok mfm C rs ->
  open_dir mfm (crash_state mfm C rs n) = Some c -> fhash (lastf c) <> None ->
  c = committed_at mfm C rs n \/ c = next_committed_at mfm C rs n.
Proof. exact crash_no_phantom. Qed.
Print Assumptions C11_no_phantom.

(** Whenever the whole set opens, what it opens as extends the committed containers, and
    those are coherent on their own — by C04's [prefix_ok] (dropping the newest containers
    is not a fault). *)
Theorem C11_committed_coherent : forall mfm C rs n c,
  good mfm C -> hist_ok mfm C rs ->
  open_dir mfm (crash_state mfm C rs n) = Some c ->
  exists drop, Permutation c (committed_at mfm C rs n ++ drop) /\
               coherent mfm false (committed_at mfm C rs n).
Proof. exact crash_committed_coherent. Qed.
Print Assumptions C11_committed_coherent.

(** A round that runs to its end leaves exactly the committed new state. *)
Theorem C11_round_complete : forall mfm C r,
  round_ok mfm C r ->
  exec (entries C) (round_steps mfm C r) = entries (C ++ [final_file mfm C r]).
Proof. exact round_exec. Qed.
Print Assumptions C11_round_complete.

(** *** Byte level: the torn user-block write *)

(** Up to the end of the common prefix of the two blocks nothing has changed. *)
Theorem C11_torn_common_prefix : forall k old new,
  k <= lcp new old -> torn k old new = old.
Proof. exact torn_le_lcp. Qed.
Print Assumptions C11_torn_common_prefix.

Theorem C11_torn_full : forall k old new,
  List.length new <= k -> torn k old new = new ++ skipn k old.
Proof. exact torn_full. Qed.
Print Assumptions C11_torn_full.

(** The commit's write.  Old block: [head ++ pre ++ "null, ""ub_exts"": {}}" ++ NUL^m];
    written bytes: [head ++ pre ++ quote hsh rest ++ NUL], where [pre] ends just after the
    colon of [hdf5_hashsum], [hsh] is at least 19 plain characters, every strict prefix of
    the new text fails the necessary condition, and the new text fits into the block.
    For EVERY [k]: up to the end of [pre] the block loads as the old one; from there to
    the end of the new text it does not load (FULL classification: positions inside the
    old text are covered, not only those beyond it); from the end of the new text on it
    loads as the new one.  [loads] stands for [json.loads] + [parse_obj]; all that is
    assumed of it is that what it accepts satisfies [json_nec]. *)
Theorem C11_commit_torn_classes : forall (pre hsh rest : bytes) (m d : nat) (sk : bool),
  ~ In nl pre -> ~ In nul pre ->
  forallb plainb hsh = true -> 19 <= List.length hsh ->
  ~ In nl rest -> ~ In nul rest ->
  List.length (c_nt pre hsh rest) < List.length (c_ot pre) + m ->
  List.length (c_nt pre hsh rest) < 1011 ->
  scan st0 pre = Some (MkS d false false sk KColon false) ->
  tightb (c_nt pre hsh rest) = true ->
  forall loads : bytes -> option ublock,
  (forall t u, loads t = Some u -> json_nec t = true) ->
  forall k u1, loads (c_nt pre hsh rest) = Some u1 ->
  (k <= 13 + List.length pre ->
   parse_block loads (torn k (c_old pre m) (c_new pre hsh rest))
   = parse_block loads (c_old pre m)) /\
  (13 + List.length pre < k -> k < 13 + List.length (c_nt pre hsh rest) ->
   parse_block loads (torn k (c_old pre m) (c_new pre hsh rest)) = None) /\
  (13 + List.length (c_nt pre hsh rest) <= k ->
   parse_block loads (torn k (c_old pre m) (c_new pre hsh rest)) = Some u1).
Proof. exact commit_torn_classes. Qed.
Print Assumptions C11_commit_torn_classes.

(** The three pieces without the loader: (a) the old block itself; (b) inside the old
    text: a text that fails the necessary condition (unterminated string literal, or a
    colon after a member value); (c) beyond the old text: a strict prefix of the new text
    followed by the old padding; (d) the new text. *)
Theorem C11_commit_torn_old : forall (pre hsh rest : bytes) (m : nat),
  19 <= List.length hsh ->
  List.length (c_nt pre hsh rest) < List.length (c_ot pre) + m ->
  List.length (c_nt pre hsh rest) < 1011 ->
  forall k, k <= 13 + List.length pre ->
  torn k (c_old pre m) (c_new pre hsh rest) = c_old pre m.
Proof. exact commit_torn_old. Qed.
Print Assumptions C11_commit_torn_old.

Theorem C11_commit_torn_between : forall (pre hsh rest : bytes) (m d : nat) (sk : bool),
  ~ In nl pre -> ~ In nul pre ->
  forallb plainb hsh = true -> 19 <= List.length hsh ->
  List.length (c_nt pre hsh rest) < List.length (c_ot pre) + m ->
  List.length (c_nt pre hsh rest) < 1011 ->
  scan st0 pre = Some (MkS d false false sk KColon false) ->
  forall k, 13 + List.length pre < k -> k < 13 + List.length pre + 20 ->
  exists t, block_text (torn k (c_old pre m) (c_new pre hsh rest)) = Some t /\
            json_nec t = false.
Proof. exact commit_torn_between. Qed.
Print Assumptions C11_commit_torn_between.

Theorem C11_commit_torn_beyond : forall (pre hsh rest : bytes) (m : nat),
  ~ In nl pre -> ~ In nul pre ->
  forallb plainb hsh = true -> 19 <= List.length hsh ->
  ~ In nl rest -> ~ In nul rest ->
  List.length (c_nt pre hsh rest) < List.length (c_ot pre) + m ->
  List.length (c_nt pre hsh rest) < 1011 ->
  tightb (c_nt pre hsh rest) = true ->
  forall k, 13 + List.length pre + 20 <= k -> k < 13 + List.length (c_nt pre hsh rest) ->
  block_text (torn k (c_old pre m) (c_new pre hsh rest))
  = Some (firstn (k - 13) (c_nt pre hsh rest)) /\
  json_nec (firstn (k - 13) (c_nt pre hsh rest)) = false.
Proof. exact commit_torn_beyond. Qed.
Print Assumptions C11_commit_torn_beyond.

Theorem C11_commit_torn_new : forall (pre hsh rest : bytes) (m : nat),
  ~ In nl pre -> ~ In nul pre ->
  forallb plainb hsh = true -> 19 <= List.length hsh ->
  ~ In nl rest -> ~ In nul rest ->
  List.length (c_nt pre hsh rest) < List.length (c_ot pre) + m ->
  List.length (c_nt pre hsh rest) < 1011 ->
  forall k, 13 + List.length (c_nt pre hsh rest) <= k ->
  block_text (torn k (c_old pre m) (c_new pre hsh rest)) = Some (c_nt pre hsh rest).
Proof. exact commit_torn_new. Qed.
Print Assumptions C11_commit_torn_new.

(** The first write of a user block, over the zeroed block of a fresh container: nothing
    loads before the whole text is there. *)
Theorem C11_create_torn : forall (t : bytes) (M : nat),
  ~ In nl t -> ~ In nul t -> List.length t < 1011 -> 13 + List.length t < M ->
  tightb t = true ->
  forall loads : bytes -> option ublock,
  (forall x u, loads x = Some u -> json_nec x = true) ->
  forall u0, loads t = Some u0 ->
  tears_ok None u0 (tears_of (parse_block loads) (z_old M) (z_new t)).
Proof. exact create_tears_ok. Qed.
Print Assumptions C11_create_torn.

(** Link of the two levels: the torn states of both user-block writes of a round, taken
    from the bytes, satisfy the side condition [tears_ok] that [hist_ok] asks for. *)
Theorem C11_round_tears_from_bytes : forall mfm C r pre hsh rest m d sk t M loads,
  ~ In nl pre -> ~ In nul pre -> forallb plainb hsh = true -> 19 <= List.length hsh ->
  ~ In nl rest -> ~ In nul rest ->
  List.length (c_nt pre hsh rest) < List.length (c_ot pre) + m ->
  List.length (c_nt pre hsh rest) < 1011 ->
  scan st0 pre = Some (MkS d false false sk KColon false) ->
  tightb (c_nt pre hsh rest) = true ->
  ~ In nl t -> ~ In nul t -> List.length t < 1011 -> 13 + List.length t < M -> tightb t = true ->
  (forall x u, loads x = Some u -> json_nec x = true) ->
  loads t = Some (round_u0 C r) ->
  parse_block loads (c_old pre m) = Some (round_u0 C r) ->
  loads (c_nt pre hsh rest) = Some (round_u1 mfm C r) ->
  r_tears1 r = tears_of (parse_block loads) (z_old M) (z_new t) ->
  r_tears2 r = tears_of (parse_block loads) (c_old pre m) (c_new pre hsh rest) ->
  tears_ok None (round_u0 C r) (r_tears1 r) /\
  tears_ok (Some (round_u0 C r)) (round_u1 mfm C r) (r_tears2 r).
Proof. exact round_tears_from_bytes. Qed.
Print Assumptions C11_round_tears_from_bytes.

(** The executable classification the runner applies to real blocks is sound for any
    loader that respects the necessary condition (for ANY pair of blocks, no shape
    assumed); [TUnknown] makes no claim. *)
Theorem C11_classify_sound : forall loads : bytes -> option ublock,
  (forall t u, loads t = Some u -> json_nec t = true) ->
  forall k old new,
  match classify k old new with
  | TOld => parse_block loads (torn k old new) = parse_block loads old
  | TNew => parse_block loads (torn k old new)
            = parse_block loads (torn (List.length new) old new)
  | TBad => parse_block loads (torn k old new) = None
  | TUnknown => True
  end.
Proof. exact classify_sound. Qed.
Print Assumptions C11_classify_sound.

(** *** Non-vacuity *)

Local Open Scope N_scope.

(** A committed base (with manifest) and one round; plain and manifest-aware. *)
Definition xb := MkFile (MkUb 1 0 10 None (Some 100) (Some (MkExt false 70 80))) 100 (Some (70, 80)).
Definition xr (u0 u1 : ublock) := MkRound 11 50 [None; None] [51; 52] 53 [Some u0; None; Some u1] 71 81 [(0, 90)].
Definition xu0 := round_u0 [xb] (MkRound 11 50 [] [] 53 [] 71 81 []).
Definition xr_plain := xr xu0 (round_u1 false [xb] (MkRound 11 50 [] [] 53 [] 71 81 [])).
Definition xr_mf := xr xu0 (round_u1 true [xb] (MkRound 11 50 [] [] 53 [] 71 81 [])).

Definition classes (mfm : bool) (r : round) : list (option (nat * bool)) :=
  map (fun n => match open_dir mfm (crash_state mfm [xb] [r] n) with
                | None => None
                | Some c => Some (List.length c, is_some (fhash (lastf c)))
                end) (seq 0 (S (List.length (expand mfm [xb] [r])))).

Example C11_nonvacuous_plain :
  classes false xr_plain =
  [Some (1, true);                       (* nothing happened *)
   None; None; None;                     (* new file, torn first block *)
   Some (2, false);                      (* create_patch done *)
   Some (2, false); Some (2, false); Some (2, false);   (* writes, close *)
   Some (2, false); None; Some (2, true);                (* torn commit block: old, unreadable, new *)
   Some (2, true)]%nat.
Proof. vm_compute. reflexivity. Qed.

Example C11_nonvacuous_mf :
  classes true xr_mf =
  [Some (1, true); None; None; None; Some (2, false);
   Some (2, false); Some (2, false); Some (2, false);
   Some (2, false); None;
   None;                                 (* new block complete in a torn state, manifest missing *)
   None;                                 (* new block written, manifest missing *)
   None;                                 (* manifest partially written *)
   Some (2, true)]%nat.
Proof. vm_compute. reflexivity. Qed.

Example C11_nonvacuous_hyps :
  good false [xb] /\ good true [xb] /\ hist_ok false [xb] [xr_plain] /\ hist_ok true [xb] [xr_mf].
Proof.
  assert (G : forall mfm, good mfm [xb]).
  { intros mfm. split; [|split].
    - apply checks_spec. destruct mfm; vm_compute; reflexivity.
    - repeat constructor.
    - intros _. constructor; [|constructor]. intros e [= <-]. exists 70. reflexivity. }
  split; [apply G|]. split; [apply G|].
  split; (split; [|exact I]); (split; [intros [H|[]]; discriminate|]);
    (split; [repeat constructor; auto|]); (split; [repeat constructor; auto|]);
    repeat constructor; discriminate.
Qed.

(** A real pair of blocks (record of the probe in DESIGN.md): old up to and including byte
    211, unreadable 212..299, new from 300. *)
Local Open Scope string_scope.
Definition x_pre : bytes := B "{""record_uuid"": ""bb71730e-bde1-11f1-bfe2-02fc00000001"", ""patch_index"": 1, ""patch_uuid"": ""cc71730e-bde1-11f1-bfe2-02fc00000001"", ""prev_patch"": ""bb71730e-bde1-11f1-bfe2-02fc00000001"", ""hdf5_hashsum"": ".
Definition x_hsh : bytes := B "sha256:13a2bb8ea295947e24ac755b3af12ba94974b508ce3d46fa5ce0e850f55f83c8".
Definition x_rest : bytes := B """, ""ub_exts"": {}}".
Definition x_old := c_old x_pre 793.
Definition x_new := c_new x_pre x_hsh x_rest.

Definition boundaries (old new : bytes) : list (nat * tclass) :=
  (fix go (prev : option tclass) (ks : list nat) : list (nat * tclass) :=
     match ks with
     | [] => []
     | k :: r =>
         let c := classify k old new in
         match prev, c with
         | Some TOld, TOld | Some TNew, TNew | Some TBad, TBad | Some TUnknown, TUnknown => go (Some c) r
         | _, _ => (k, c) :: go (Some c) r
         end
     end) None (seq 0 (S (List.length new))).

Example C11_nonvacuous_bytes :
  List.length x_old = 1024%nat /\
  boundaries x_old x_new = [(0, TOld); (212, TBad); (300, TNew)]%nat /\
  tightb (c_nt x_pre x_hsh x_rest) = true /\
  scan st0 x_pre = Some (MkS 1 false false false KColon false) /\
  forallb plainb x_hsh = true.
Proof. vm_compute. repeat split. Qed.
