(** Property C13 — every child-schema instance is a valid parent-schema instance.
    This file holds only the property theorems; each is closed by [exact] of a lemma
    proved in [Schema/SubtypeProofs.v] and followed by [Print Assumptions].

    Premises that speak about the world outside the model are explicit:
    - [conforming pred W]: the schema classes [W] used as nested field types conform to
      the classes they derive from (established for a checked child by
      [C13_checked_child] / [C13_checked_child_ancestors]);
    - [wf pred W t]: every phantom class occurring in t has a predicate that rejects
      blank strings and implies the predicates of its base classes; every nested schema
      class is in [W];
    - [safe_pair a b]: no plain (non-strict) [bool] in a, and no plain [str] in b unless
      the string literals of a are non-blank.  Inside the property's grammar (strict
      primitives) it always holds: [C13_subtype_sound_grammar]. *)
From Coq Require Import List String NArith ZArith Bool.
From MV Require Import Base.Sx Schema.Subtype Schema.SubtypeProofs Schema.SubtypeComplete.
Import ListNotations.
Local Open Scope string_scope.

(** What [is_subtype] admits, the parent field accepts: value-wise ... *)
Theorem C13_subtype_sound : forall pred W, conforming pred W ->
  forall a b, wf pred W a -> wf pred W b -> safe_pair a b = true ->
  subtype pred a b = true ->
  forall j, accepts pred a j = true -> accepts pred b j = true.
Proof. exact subtype_sound. Qed.
Print Assumptions C13_subtype_sound.

(** ... for hints with an Annotated wrapper ... *)
Theorem C13_subtype_hint_sound : forall pred W, conforming pred W ->
  forall (a b : hint), wf pred W (snd a) -> wf pred W (snd b) -> safe_pair (snd a) (snd b) = true ->
  subtype_hint pred a b = true ->
  forall j, accepts pred (snd a) j = true -> accepts pred (snd b) j = true.
Proof. exact subtype_hint_sound. Qed.
Print Assumptions C13_subtype_hint_sound.

(** ... and in the property's own terms, on the property's grammar: whatever a field of
    the child type serialises to, a field of the parent type accepts. *)
Theorem C13_subtype_sound_grammar : forall pred W, conforming pred W ->
  forall a b, wf pred W a -> wf pred W b -> strict_ty a = true -> strict_ty b = true ->
  subtype pred a b = true ->
  forall d, nf pred a d = true -> accepts pred b d = true.
Proof. exact subtype_sound_strict. Qed.
Print Assumptions C13_subtype_sound_grammar.

(** Serialised forms are accepted again by the type that produced them. *)
Theorem C13_dump_reparses : forall pred t d, nf pred t d = true -> accepts pred t d = true.
Proof. exact nf_accepts. Qed.
Print Assumptions C13_dump_reparses.

(** A value the child type accepts and the parent type rejects makes the check refuse.
    (The statement planned as [C13_refuses_partial] "on the fragment where subtype is
    complete" is this contrapositive of soundness; it needs no completeness and holds on
    the whole fragment where soundness holds, i.e. under [wf] and [safe_pair].) *)
Theorem C13_refuses : forall pred W, conforming pred W ->
  forall a b, wf pred W a -> wf pred W b -> safe_pair a b = true ->
  (exists j, accepts pred a j = true /\ accepts pred b j = false) ->
  subtype pred a b = false.
Proof. exact subtype_refuses. Qed.
Print Assumptions C13_refuses.

(** A child class that passes class creation, the decorators and [check_overrides]:
    every JSON object it accepts is accepted by the parent, except for the fields named
    in [@override] — new fields only when the parent does not forbid extra fields,
    re-typed fields by [C13_subtype_sound], constants never as a new field below a
    parent that forbids extra fields. *)
Theorem C13_checked_child : forall pred W, conforming pred W ->
  forall p c,
  check_child pred p c = true ->
  NoDup (map fst (s_hints p)) ->
  (forall n, In n (c_newconsts c) -> has_key n (s_hints p) = false) ->
  overrides_ok pred W p c ->
  forall j, accepts pred (obj_of (child_schema p c)) j = true ->
            accepts_except pred (c_declared c) (obj_of p) j = true.
Proof. exact checked_child_sound. Qed.
Print Assumptions C13_checked_child.

(** Without declared overrides: the serialised child instance is accepted by the parent
    and by every class of the world the parent derives from. *)
Theorem C13_checked_child_ancestors : forall pred W, conforming pred W ->
  forall p c,
  check_child pred p c = true -> c_declared c = [] ->
  NoDup (map fst (s_hints p)) ->
  (forall n, In n (c_newconsts c) -> has_key n (s_hints p) = false) ->
  overrides_ok pred W p c ->
  W (obj_of p) ->
  forall ca ea fa, W (TObj ca ea fa) -> chain_le (s_chain p) ca = true ->
  forall d, nf pred (obj_of (child_schema p c)) d = true ->
            accepts pred (obj_of p) d = true /\ accepts pred (TObj ca ea fa) d = true.
Proof. exact checked_child_ancestors. Qed.
Print Assumptions C13_checked_child_ancestors.

(** Inheritance chains of any length (plugin or not at each level): a chain passes
    exactly when each class passes against its immediate base ... *)
Theorem C13_chain_passes_iff_links : forall pred cs p,
  check_chain pred p cs = true <->
  (forall k, k < List.length cs ->
     check_child pred (leaf_schema p (firstn k cs)) (nth k cs (mkchild 0 EAllow [] [] [])) = true).
Proof. exact check_chain_links. Qed.
Print Assumptions C13_chain_passes_iff_links.

(** ... and then whatever the last class accepts (so, by [C13_dump_reparses], whatever it
    serialises) is accepted by every class of the chain up to the root. *)
Theorem C13_checked_chain : forall pred W, conforming pred W ->
  forall cs p,
  check_chain pred p cs = true -> chain_ok pred W p cs ->
  forall j, accepts pred (obj_of (leaf_schema p cs)) j = true ->
  forall s, In s (chain_schemas p cs) -> accepts pred (obj_of s) j = true.
Proof. exact checked_chain_sound. Qed.
Print Assumptions C13_checked_chain.

(** On a fragment the check DECIDES inclusion.  [frag]: a strict primitive, a Literal,
    None, or a flat Union/Optional of those.  [frag_pair a b]: both in [frag], the Literal
    wrapper agrees at top level ([is_lit]), and literals never face strict primitives of
    the same JSON family ([apart]).  Completeness ... *)
Theorem C13_subtype_complete_fragment : forall pred a b,
  frag_pair a b = true ->
  (forall j, accepts pred a j = true -> accepts pred b j = true) ->
  subtype pred a b = true.
Proof. exact subtype_complete_fragment. Qed.
Print Assumptions C13_subtype_complete_fragment.

(** ... and with soundness, the property's second sentence as an equivalence there:
    an undeclared override is refused iff its type admits a value the parent type rejects
    (the witness is found among the finitely many candidates [cands a]). *)
Theorem C13_refused_iff_witness_fragment : forall pred a b,
  frag_pair a b = true ->
  (subtype pred a b = false <->
   exists j, accepts pred a j = true /\ accepts pred b j = false).
Proof. exact refused_iff_witness_fragment. Qed.
Print Assumptions C13_refused_iff_witness_fragment.

(** Outside [frag_pair] the check is conservative; each condition of [frag_pair] is
    needed: these four overrides admit no value the parent rejects, and are refused. *)
Theorem C13_incomplete_witness_literal_wrapper :
  (let a := TLit [LStr "a"] in let b := TOpt (TLit [LStr "a"]) in
   frag a = true /\ frag b = true /\ apart a b = true /\ subtype nopred a b = false /\
   cle nopred a b = true) /\
  (forall j, accepts nopred (TLit [LStr "a"]) j = true ->
             accepts nopred (TOpt (TLit [LStr "a"])) j = true).
Proof. exact (conj incomplete_literal_wrapper incl_literal_wrapper). Qed.
Print Assumptions C13_incomplete_witness_literal_wrapper.

Theorem C13_incomplete_witness_strlit_strictstr :
  (let a := TOpt (TLit [LStr "a"]) in let b := TOpt (TPrim true KStr) in
   frag a = true /\ frag b = true /\ is_lit a = is_lit b /\ apart a b = false /\
   subtype nopred a b = false) /\
  (forall j, accepts nopred (TOpt (TLit [LStr "a"])) j = true ->
             accepts nopred (TOpt (TPrim true KStr)) j = true).
Proof. exact (conj incomplete_strlit_strictstr incl_strlit_strictstr). Qed.
Print Assumptions C13_incomplete_witness_strlit_strictstr.

Theorem C13_incomplete_witness_bool_literals :
  (let a := TOpt (TPrim true KBool) in let b := TOpt (TLit [LBool true; LBool false]) in
   frag a = true /\ frag b = true /\ is_lit a = is_lit b /\ apart a b = false /\
   subtype nopred a b = false) /\
  (forall j, accepts nopred (TOpt (TPrim true KBool)) j = true ->
             accepts nopred (TOpt (TLit [LBool true; LBool false])) j = true).
Proof. exact (conj incomplete_bool_literals incl_bool_literals). Qed.
Print Assumptions C13_incomplete_witness_bool_literals.

Theorem C13_incomplete_witness_numlit_prims :
  (forall j, accepts nopred (TOpt (TLit [LInt 5])) j = true ->
             accepts nopred (TUnion [TPrim true KInt; TPrim true KFloat; TNone]) j = true) /\
  subtype nopred (TOpt (TLit [LInt 5])) (TUnion [TPrim true KInt; TPrim true KFloat; TNone]) = false.
Proof. exact (conj incl_numlit_prims (proj1 (proj2 (proj2 (proj2 (proj2 incomplete_numlit_prims)))))). Qed.
Print Assumptions C13_incomplete_witness_numlit_prims.

(** A world built class by class — every added class has a present base, a new class id,
    passes [check_child] against its base without declared overrides, and uses only
    already present classes as nested types of overridden fields — is conforming: this
    discharges the premise [conforming pred W] of the theorems above for worlds built in
    registration order. *)
Theorem C13_world_checked : forall pred steps,
  steps_ok pred [] steps -> conforming pred (W_of (build [] steps)).
Proof. exact world_checked. Qed.
Print Assumptions C13_world_checked.

Theorem C13_world_ancestors : forall pred steps s q,
  steps_ok pred [] steps -> In s (build [] steps) -> In q (s_chain s) ->
  exists s', In s' (build [] steps) /\ (exists r, s_chain s' = q :: r) /\
    forall d, nf pred (obj_of s) d = true -> accepts pred (obj_of s') d = true.
Proof. exact world_ancestors. Qed.
Print Assumptions C13_world_ancestors.

(** The premises cannot be dropped, and the pinned class-level check is too weak. *)
Theorem C13_unsafe_pair_refuted :
  exists pred a b j,
    subtype pred a b = true /\ nf pred a j = true /\ accepts pred a j = true /\
    accepts pred b j = false /\ safe_pair a b = false.
Proof. exact subtype_unsafe_refuted. Qed.
Print Assumptions C13_unsafe_pair_refuted.

Theorem C13_phantom_narrowing_refuted :
  exists pred a b j,
    subtype pred a b = true /\ safe_pair a b = true /\
    accepts pred a j = true /\ accepts pred b j = false.
Proof. exact phantom_narrowing_needed_refuted. Qed.
Print Assumptions C13_phantom_narrowing_refuted.

Theorem C13_check_child_pinned_refuted :
  exists pred p c j,
    check_child_pinned pred p c = true /\ c_declared c = [] /\
    nf pred (obj_of (child_schema p c)) j = true /\
    accepts pred (obj_of (child_schema p c)) j = true /\
    accepts pred (obj_of p) j = false /\
    check_child pred p c = false.
Proof. exact check_child_pinned_refuted. Qed.
Print Assumptions C13_check_child_pinned_refuted.

(** Non-vacuity: a phantom chain NonEmpty(0) <- Mime(1), a parent and a checked child. *)
Definition ex_pred (p : N) (s : string) : bool :=
  negb (blank s) && (N.eqb p 0 || String.eqb s "a/b").

Example C13_nonvacuous_types :
  let a := TUnion [TPhantom [1; 0]%N; TLit [LStr "x"]; TNone] in
  let b := TUnion [TPrim true KInt; TPhantom [0]%N; TNone] in
  subtype ex_pred a b = true /\ safe_pair a b = true /\ strict_ty a = true /\ strict_ty b = true /\
  accepts ex_pred a (JStr "a/b") = true /\ accepts ex_pred b (JStr "a/b") = true /\
  subtype ex_pred b a = false /\
  subtype ex_pred (TList (TPrim true KBool)) (TList (TPrim false KInt)) = true /\
  subtype ex_pred (TLit [LInt 1]) (TPrim false KInt) = false.
Proof. vm_compute. repeat split. Qed.

Example C13_nonvacuous_world : conforming ex_pred (fun _ => False).
Proof. intros c1 e1 f1 c2 e2 f2 H. destruct H. Qed.

(** Root -> Middle (re-types x to a non-subtype) -> Leaf (does not touch x): refused,
    and indeed the leaf accepts an object the root rejects. *)
Example C13_nonvacuous_chain :
  let root := mkschema [1%N] EAllow [("x", (false, TPrim true KInt))] [] in
  let good := mkchild 2%N EAllow [("x", (false, TLit [LInt 1]))] [] [] in
  let bad := mkchild 2%N EAllow [("x", (false, TPrim true KStr))] [] [] in
  let leaf := mkchild 3%N EAllow [("z", (false, TOpt (TPrim true KInt)))] [] [] in
  let j := JObj [("x", JStr "abc")] in
  check_chain ex_pred root [bad; leaf] = false /\
  check_child ex_pred (child_schema root bad) leaf = true /\
  accepts ex_pred (obj_of (leaf_schema root [bad; leaf])) j = true /\
  accepts ex_pred (obj_of root) j = false /\
  check_chain ex_pred root [mkchild 2%N EAllow [] [] []; leaf] = true /\
  List.length (chain_schemas root [bad; leaf]) = 3.
Proof. vm_compute. repeat split. Qed.

Example C13_nonvacuous_child :
  let p := mkschema [1%N] EAllow
             [("name", (false, TOpt (TPhantom [0%N]))); ("n", (true, TPrim true KInt))] [] in
  let c := mkchild 2%N EAllow [("name", (false, TPhantom [1; 0]%N)); ("extra", (false, TPrim true KStr))]
             [] ["@type"] in
  let j := JObj [("name", JStr "a/b"); ("n", JInt 3); ("extra", JStr "e"); ("@type", JStr "T")] in
  check_child ex_pred p c = true /\
  accepts ex_pred (obj_of (child_schema p c)) j = true /\
  accepts ex_pred (obj_of p) j = true /\
  accepts ex_pred (obj_of (child_schema p c)) (JObj [("n", JInt 3)]) = false /\
  check_child ex_pred p (mkchild 2%N EAllow [("n", (true, TPrim true KStr))] [] []) = false /\
  check_child ex_pred p (mkchild 2%N EAllow [("n", (true, TPrim true KStr))] ["n"] []) = true.
Proof. vm_compute. repeat split. Qed.

(** Non-vacuity of the fragment: the check decides these pairs. *)
Example C13_nonvacuous_fragment :
  let a := TOpt (TLit [LStr "a"]) in
  let b := TOpt (TLit [LStr "a"; LStr "b"]) in
  let c := TUnion [TPrim true KInt; TPrim true KStr; TNone] in
  frag_pair a b = true /\ subtype ex_pred a b = true /\
  frag_pair b a = true /\ subtype ex_pred b a = false /\
  frag_pair (TPrim true KInt) c = true /\ subtype ex_pred (TPrim true KInt) c = true /\
  frag_pair c (TOpt (TPrim true KInt)) = true /\ subtype ex_pred c (TOpt (TPrim true KInt)) = false /\
  cands c = [JInt 0; JStr "a"; JNull].
Proof. vm_compute. repeat split. Qed.

(** Non-vacuity of the world construction: a root and a class narrowing its field. *)
Example C13_nonvacuous_world_steps :
  let root := mkschema [1%N] EAllow [("x", (false, TOpt (TPrim true KInt)))] [] in
  let c := mkchild 2%N EAllow [("x", (false, TPrim true KInt))] [] [] in
  steps_ok ex_pred [] [SRoot root; SDerive root c] /\
  List.length (build [] [SRoot root; SDerive root c]) = 2.
Proof.
  cbv zeta. split; [|reflexivity]. simpl. split.
  - exists 1%N. split; auto. intros s [].
  - split; auto. split; [now left|]. split.
    + intros s [E|[]]; subst; simpl. intros [H|[]]; discriminate.
    + split; [vm_compute; reflexivity|].
      split; [reflexivity|]. split.
      * simpl. constructor; [intros []|constructor].
      * split; [intros n []|].
        intros n h hp [E|[]] [E2|[]]. inversion E; inversion E2; subst. simpl.
        split; [constructor|]. split; [|reflexivity].
        constructor. repeat constructor.
Qed.
