(** Property C01 — the IH5 overlay is transparent: patch boundaries are unobservable.
    This file holds only the property theorems; each is closed by [exact] of a lemma proved
    in [IH5/OverlayProofs.v] and followed by [Print Assumptions].

    Model: [IH5/Overlay.v].  A record is a stack of containers (newest first), [status] is the
    read path of [overlay.py] (successive child lookup, newest non-virtual sighting decides),
    [m_step] the write path (only the newest container is rewritten), [t_step] the same
    operation on one plain tree, [OBoundary] = commit_patch + create_patch.

    [C01_transparent] is the full statement: every operation kind (create_group,
    create_dataset, delete, attribute set / delete, copy — also into the own subtree —, move)
    with boundaries in any number at arbitrary positions of the history. *)
From stdpp Require Import gmap strings list.
From MV Require Import IH5.Overlay IH5.OverlayProofs.

(** An empty container on top (a fresh patch) changes the status of no path. *)
Theorem C01_boundary_invisible : forall (n : nat) (R : stack) (p : path),
  status ((n, ∅) :: R) p = status R p.
Proof. exact boundary_invisible. Qed.
Print Assumptions C01_boundary_invisible.

(** Child resolution ignores everything older than the newest non-virtual sighting. *)
Theorem C01_scan_shadow :
  forall (newer older older' : stack) (i : nat) (c : cont) (p : path) (e : rentry),
  c !! p = Some e -> e <> RGroup false ->
  scan (newer ++ (i, c) :: older) p = scan (newer ++ (i, c) :: older') p.
Proof. exact scan_shadow. Qed.
Print Assumptions C01_scan_shadow.

(** No resurrection: once container [i] holds a non-virtual entry (dataset, overwrite group or
    deletion marker) at [q], the status of [q] and of every path below it does not depend on
    the containers older than [i], whatever newer containers add. *)
Theorem C01_no_resurrection :
  forall (newer older older' : stack) (i : nat) (c : cont) (s : seg) (par : path) (e : rentry),
  c !! (s :: par) = Some e -> e <> RGroup false ->
  Forall (fun ic => i <= ic.1) newer -> idx_lt i older -> idx_lt i older' ->
  status (newer ++ (i, c) :: older) par = status (newer ++ (i, c) :: older') par ->
  forall x, (s :: par) `suffix_of` x ->
    status (newer ++ (i, c) :: older) x = status (newer ++ (i, c) :: older') x /\
    forall lb ex, status (newer ++ (i, c) :: older) x = Some (lb, ex) -> i <= lb.
Proof. exact status_shadow. Qed.
Print Assumptions C01_no_resurrection.

(** Per-operation refinement: under the simulation relation [Sim R T] (invariant [Inv R], the
    view of [R] equals [T] at every path, no root key in [T]) the overlay operation and the
    plain-tree operation fail together or succeed together and re-establish [Sim] — equality
    of the whole trees, so the frame condition is included. *)
Theorem C01_create_group_refines : forall R T (q : path),
  Sim R T -> is_node_path q = true -> refines (m_create_group R q) (t_create_group T q).
Proof. exact create_group_refines. Qed.
Print Assumptions C01_create_group_refines.

Theorem C01_set_data_refines : forall R T (q : path) v,
  Sim R T -> is_node_path q = true -> refines (m_set_data R q v) (t_set_data T q v).
Proof. exact set_data_refines. Qed.
Print Assumptions C01_set_data_refines.

Theorem C01_delete_refines : forall R T (q : path),
  Sim R T -> refines (m_delete R q) (t_delete T q).
Proof. exact delete_refines. Qed.
Print Assumptions C01_delete_refines.

Theorem C01_attr_set_refines : forall R T (p : path) k v,
  Sim R T -> is_node_path p = true -> refines (m_attr_set R p k v) (t_attr_set T p k v).
Proof. exact attr_set_refines. Qed.
Print Assumptions C01_attr_set_refines.

Theorem C01_attr_del_refines : forall R T (p : path) k,
  Sim R T -> refines (m_attr_del R p k) (t_attr_del T p k).
Proof. exact attr_del_refines. Qed.
Print Assumptions C01_attr_del_refines.

(** Status-level form of the delete step, for every path at once. *)
Theorem C01_delete_status : forall (R : stack) (q : path),
  Inv R -> is_Some (status R q) -> q <> [] ->
  exists R', m_delete R q = Some R' /\ Inv R' /\ tail R' = tail R /\ top_idx R' = top_idx R /\
    forall x, status R' x = if decide (q `suffix_of` x) then None else status R x.
Proof. exact delete_core. Qed.
Print Assumptions C01_delete_status.

Theorem C01_copy_refines : forall R T (src dst : path),
  Sim R T -> is_node_path src = true -> is_node_path dst = true ->
  refines (m_copy R src dst) (t_copy T src dst).
Proof. exact copy_refines. Qed.
Print Assumptions C01_copy_refines.

Theorem C01_move_refines : forall R T (src dst : path),
  Sim R T -> is_node_path src = true -> is_node_path dst = true ->
  refines (m_move R src dst) (t_move T src dst).
Proof. exact move_refines. Qed.
Print Assumptions C01_move_refines.

(** One step of any operation (a boundary included): same result class, [Sim] kept. *)
Theorem C01_step_refines : forall R T o,
  Sim R T ->
  Sim (m_step R o).1 (t_step T o).1 /\ (m_step R o).2 = (t_step T o).2.
Proof. exact step_refines. Qed.
Print Assumptions C01_step_refines.

(** Transparency for every finite history with boundaries at arbitrary positions (they are
    elements of [ops]; the specification ignores them): the invariant holds, the view equals
    the plain tree at every path and as a finite map, and every further operation succeeds or
    fails exactly as on the plain tree. *)
Theorem C01_transparent : forall ops,
  Inv (run_m ops) /\
  (forall p, vget (run_m ops) p = tget (run_t ops) p) /\
  viewmap (run_m ops) = run_t ops /\
  (forall o, (m_step (run_m ops) o).2 = (t_step (run_t ops) o).2).
Proof. exact transparent. Qed.
Print Assumptions C01_transparent.

(** Two histories that differ only in where (and how many) boundaries are placed give the
    same view and the same outcome for any next operation. *)
Theorem C01_boundaries_unobservable : forall ops1 ops2,
  strip_bnd ops1 = strip_bnd ops2 ->
  viewmap (run_m ops1) = viewmap (run_m ops2) /\
  (forall o, (m_step (run_m ops1) o).2 = (m_step (run_m ops2) o).2).
Proof. exact boundaries_unobservable. Qed.
Print Assumptions C01_boundaries_unobservable.

(** The child-resolution rule of the pinned code (virtual flag never reset, [scan_pinned]) is
    not transparent: replaced content comes back. *)
Theorem C01_pinned_rule_refuted :
  exists ops p, Forall basic_op ops /\ vget_pinned (run_m ops) p <> tget (run_t ops) p.
Proof. exact scan_pinned_refuted. Qed.
Print Assumptions C01_pinned_rule_refuted.

(** Non-vacuity: a three-container history meeting the hypotheses, with a non-trivial view. *)
Example C01_witness :
  Forall basic_op witness_ops /\ length (run_m witness_ops) = 3 /\
  vget (run_m witness_ops) [(false, "old"); (false, "a")]%string = None /\
  vget (run_m witness_ops) [(false, "touch"); (false, "a")]%string = Some (TData "i:3"%string).
Proof. split; [repeat constructor|]. vm_compute. done. Qed.

Example C01_sim_init : Sim m_init ∅.
Proof. exact init_sim. Qed.
