(** Property C02 — committed IH5 containers are never modified again.
    This file holds only the property theorems; each is closed by [exact] of a lemma proved
    in [Rec/FrozenProofs.v] and followed by [Print Assumptions]; [Example]s for
    non-vacuity.

    Model: [Rec/Frozen.v] over [Rec/Modes.v].  A world is a directory of container files
    (with at most one open handle of class IH5Record or IH5MFRecord), the table of manifest
    sidecars, and a second directory that receives merge results.  [run ops w] performs any
    sequence of: open (six modes, by name or by explicit list, either class), reads,
    [create_patch], overlay writes, [discard_patch], [commit_patch], [merge_files] (into
    the same or the other directory), [create_stub] (into the same or the other directory),
    [close] (with or without commit), giving up the handle, [delete_files].  [safe_for ops nm]: no operation of [ops] is an open in mode
    'w' of, or [delete_files] on, a record the file name [nm] belongs to — the two
    explicitly truncating operations.  [good w]: file names are pairwise distinct and a
    pending patch of the open handle is its newest file and uncommitted; it holds in the
    empty directory and is preserved by every step.

    The byte-level content of a file is in the model its name, the user-block fields, the
    payload and the manifest link; that the running code rewrites no byte is observed by
    the SHA-256 monitor of harness/props/c02.py. *)
From Coq Require Import List String NArith Bool.
From MV Require Import Rec.Names Rec.Modes Rec.Frozen Rec.FrozenProofs Rec.FrozenChain.
From MV Require Rec.Chain.
Import ListNotations.
Local Open Scope string_scope.

(** The invariant holds initially and after every sequence of operations — including the
    truncating ones. *)
Theorem C02_invariant : forall (P : Type) (empty : P) (mergepay : list P -> P) ops (w : world P),
  good w -> good (run empty mergepay ops w).
Proof. exact (fun P empty mergepay ops w H => proj1 (@run_spec P empty mergepay ops w H)). Qed.
Print Assumptions C02_invariant.

Theorem C02_invariant_initially : forall (P : Type), good (@empty_world P).
Proof. exact @good_empty. Qed.
Print Assumptions C02_invariant_initially.

(** Once committed, a container stays in the directory with every field and its payload
    unchanged, it is what its name denotes, and its manifest sidecar is what it was — for
    every sequence of operations, on either record of the directory, that does not truncate
    the record of that file. *)
Theorem C02_committed_frozen : forall (P : Type) (empty : P) (mergepay : list P -> P) ops (w : world P) f,
  good w -> In f (wdir w) -> fcommitted f = true -> safe_for ops (fname f) ->
  In f (wdir (run empty mergepay ops w)) /\
  file_at (fname f) (wdir (run empty mergepay ops w)) = Some f /\
  side_of (fname f) (hsides (run empty mergepay ops w)) = side_of (fname f) (hsides w).
Proof. exact @committed_frozen. Qed.
Print Assumptions C02_committed_frozen.

(** For every world that arises from the empty directory the invariant need not be assumed. *)
Theorem C02_committed_frozen_reachable : forall (P : Type) (empty : P) (mergepay : list P -> P) before after f,
  let w := run empty mergepay before (@empty_world P) in
  In f (wdir w) -> fcommitted f = true -> safe_for after (fname f) ->
  In f (wdir (run empty mergepay after w)) /\
  file_at (fname f) (wdir (run empty mergepay after w)) = Some f /\
  side_of (fname f) (hsides (run empty mergepay after w)) = side_of (fname f) (hsides w).
Proof. exact @committed_frozen_reachable. Qed.
Print Assumptions C02_committed_frozen_reachable.

(** What a merge wrote into another directory stays, unconditionally. *)
Theorem C02_merge_target_frozen : forall (P : Type) (empty : P) (mergepay : list P -> P) ops (w : world P) f,
  good w -> In f (other w) ->
  In f (other (run empty mergepay ops w)) /\
  file_at (fname f) (other (run empty mergepay ops w)) = Some f /\
  side_of (fname f) (osides (run empty mergepay ops w)) = side_of (fname f) (osides w).
Proof. exact @other_frozen. Qed.
Print Assumptions C02_merge_target_frozen.

(** A single step: what it keeps (the statement the induction rests on). *)
Theorem C02_step : forall (P : Type) (empty : P) (mergepay : list P -> P) o (w : world P),
  good w ->
  good (fst (step empty mergepay o w)) /\
  frel (fun nm => touches o nm = false) w (fst (step empty mergepay o w)).
Proof. exact @step_spec. Qed.
Print Assumptions C02_step.

(** Any set of committed files, named by an explicit list, opens read-only after the
    operations exactly as it did before them: same files, same view, or the same refusal —
    with either class (the manifest clause of IH5MFRecord included). *)
Theorem C02_snapshot_still_valid : forall (P : Type) (empty : P) (mergepay : list P -> P)
    ops (w : world P) mf l r u r' u',
  good w ->
  (forall nm, In nm l -> exists f, file_at nm (wdir w) = Some f /\ fcommitted f = true /\ safe_for ops nm) ->
  same_open (open_cls empty mf MR (ByList l) (wdir w) (hsides w) r u)
            (open_cls empty mf MR (ByList l) (wdir (run empty mergepay ops w))
                      (hsides (run empty mergepay ops w)) r' u').
Proof. exact @snapshot_still_valid. Qed.
Print Assumptions C02_snapshot_still_valid.

(** The files of a handle with a coherent chain do open, and show the handle's view. *)
Theorem C02_snapshot_opens : forall (P : Type) (empty : P) (w : world P) h r u,
  good w -> here w = POpen h -> chain_ok (mine (hs h)) = true ->
  (hmf h = true -> forall nw ol, mine (hs h) = nw :: ol -> mf_check (hsides w) nw = true) ->
  exists s', open_cls empty (hmf h) MR (ByList (map fname (mine (hs h)))) (wdir w) (hsides w) r u = Opened s' /\
             mine s' = mine (hs h) /\ view s' = view (hs h) /\ writable s' = false /\ patching s' = false.
Proof. exact @snapshot_opens. Qed.
Print Assumptions C02_snapshot_opens.

(** The second sentence of the property: the set of files of the record right after a
    commit remains, after ANY later operations that do not truncate that record, a valid
    record (it opens, with the class that committed it) showing the state at that commit. *)
Theorem C02_snapshot_after_commit : forall (P : Type) (empty : P) (mergepay : list P -> P)
    m (w : world P) h w1 ops r u,
  good w -> here w = POpen h -> chain_ok (mine (hs h)) = true ->
  step empty mergepay (FCommit m) w = (w1, Ok) ->
  exists h1, here w1 = POpen h1 /\
    let l := map fname (mine (hs h1)) in
    (forall nm, In nm l -> safe_for ops nm) ->
    exists s', open_cls empty (hmf h1) MR (ByList l) (wdir (run empty mergepay ops w1))
                        (hsides (run empty mergepay ops w1)) r u = Opened s' /\
               mine s' = mine (hs h1) /\ view s' = view (hs h1) /\
               map fst (view s') = map fst (view (hs h)).
Proof. exact @snapshot_after_commit. Qed.
Print Assumptions C02_snapshot_after_commit.

(** The same for every world that arises from the empty directory when every [uuid1()]
    call returns an id that no file of the directory carries ([fresh_run]): no assumption
    about the world is left.  [h]: the handle before the commit, [h1]: after it. *)
Theorem C02_snapshot_reachable : forall (P : Type) (empty : P) (mergepay : list P -> P)
    before m after (w1 : world P) r u,
  fresh_run empty mergepay before (@empty_world P) ->
  step empty mergepay (FCommit m) (run empty mergepay before (@empty_world P)) = (w1, Ok) ->
  exists h h1, here (run empty mergepay before (@empty_world P)) = POpen h /\ here w1 = POpen h1 /\
    let l := map fname (mine (hs h1)) in
    (forall nm, In nm l -> safe_for after nm) ->
    exists s', open_cls empty (hmf h1) MR (ByList l) (wdir (run empty mergepay after w1))
                        (hsides (run empty mergepay after w1)) r u = Opened s' /\
               mine s' = mine (hs h1) /\ view s' = view (hs h1) /\
               map fst (view s') = map fst (view (hs h)).
Proof. exact @snapshot_reachable. Qed.
Print Assumptions C02_snapshot_reachable.

(** With fresh uuids the files of every handle form a coherent chain (what [_open] checks),
    after any sequence of operations. *)
Theorem C02_chains_stay_coherent : forall (P : Type) (empty : P) (mergepay : list P -> P) ops (w : world P),
  ginv w -> fresh_run empty mergepay ops w -> ginv (run empty mergepay ops w).
Proof. exact @run_ginv. Qed.
Print Assumptions C02_chains_stay_coherent.

(** ** The same in the vocabulary of C04 ([Rec/Chain.v])

    [abs_file H Hm sd f]: the container [f] (with the sidecar table [sd] of its directory)
    as a file of the chain model — [hdf5_hashsum] present iff committed and equal to the
    digest [H] of the payload on disk, manifest link (with its stub mark) and sidecar with
    digests [Hm].  [stub_free l]: only containers without predecessor carry a stub mark. *)

(** A chain that passes the checks of the handle model is coherent in the sense of C04's
    declarative specification. *)
Theorem C02_chain_is_coherent : forall (P : Type) (H : P -> N) (Hm : N -> N) mfm sd (l : list (file (@cont P))),
  chain_ok l = true -> stub_free l ->
  (mfm = true -> forall nw ol, l = nw :: ol -> mf_check sd nw = true) ->
  Chain.coherent mfm false (map (abs_file H Hm sd) l).
Proof. exact @coherent_abs. Qed.
Print Assumptions C02_chain_is_coherent.

(** The file set of the record right after a commit is coherent; after any later
    non-truncating operations all its files are still in the directory, its abstraction is
    literally the same, hence it is still coherent and [open_check] still accepts it. *)
Theorem C02_snapshot_coherent : forall (P : Type) (empty : P) (mergepay : list P -> P)
    (H : P -> N) (Hm : N -> N) m (w : world P) h w1 ops,
  good w -> here w = POpen h -> chain_ok (mine (hs h)) = true ->
  step empty mergepay (FCommit m) w = (w1, Ok) -> stub_free (wdir w1) ->
  exists h1, here w1 = POpen h1 /\
    let S := mine (hs h1) in
    Chain.coherent (hmf h1) false (map (abs_file H Hm (hsides w1)) S) /\
    ((forall f, In f S -> safe_for ops (fname f)) ->
     let w' := run empty mergepay ops w1 in
     incl S (wdir w') /\
     map (abs_file H Hm (hsides w')) S = map (abs_file H Hm (hsides w1)) S /\
     Chain.coherent (hmf h1) false (map (abs_file H Hm (hsides w')) S) /\
     Chain.open_check (hmf h1) false (map (abs_file H Hm (hsides w')) S) <> None).
Proof. exact @snapshot_coherent. Qed.
Print Assumptions C02_snapshot_coherent.

(** Every older part of a chain is coherent as well (by [C04_prefix_ok]): the file sets of
    ALL earlier commits of a record are valid records. *)
Theorem C02_older_part_coherent : forall (P : Type) (H : P -> N) (Hm : N -> N) mfm sd
    (newer older : list (file (@cont P))),
  chain_ok (newer ++ older) = true -> stub_free (newer ++ older) -> older <> [] ->
  (mfm = true -> forall nw ol, (newer ++ older)%list = nw :: ol -> mf_check sd nw = true) ->
  (mfm = true -> forall k, In k older -> mf_check sd k = true) ->
  Chain.coherent mfm false (map (abs_file H Hm sd) older).
Proof. exact @older_part_coherent. Qed.
Print Assumptions C02_older_part_coherent.

(** The exclusion is necessary: [delete_files] (which mode 'w' calls) removes committed
    files of the record it addresses. *)
Theorem C02_truncation_is_excluded_for_a_reason : forall (P : Type) (empty : P) (mergepay : list P -> P)
    n (d : list (file (@cont P))) sd o os f,
  valid_name n = true -> In f d -> matches n (fname f) = true ->
  ~ In f (wdir (fst (step empty mergepay (FDelete n) (mkworld (PDir d) sd o os)))).
Proof. exact @delete_removes. Qed.
Print Assumptions C02_truncation_is_excluded_for_a_reason.

(** ** Non-vacuity: a concrete history on tokens *)

Definition tok (t : string) : fop pay := FWrite (fun p : pay => (p ++ [t])%list).
Definition xrun := run (@nil string) merge_tokens.

(** IH5MFRecord "foo": base with tk1, committed; patch with tk2, committed (by close). *)
Definition build : list (fop pay) :=
  [FOpen true MX (ByName "foo") 1 2; tok "tk1"; FCommit 3; FCreatePatch 4; tok "tk2";
   FClose true 5; FDrop].

(** Everything the property lists, none of it truncating "foo": reads, a discarded patch, a
    committed patch, merges into both directories, reopening in r / r+ / a by name and by
    list with either class, a patch left pending, work on the prefix-related record "foo2",
    and mode 'w' on that OTHER record. *)
Definition later : list (fop pay) :=
  [FOpen false MR (ByName "foo") 10 11; FRead; tok "no"; FCommit 12; FMerge false "foo2" 13;
   FMerge true "foo" 14; FMerge true "foo" 15; FClose true 16; FDrop;
   FOpen true MRp (ByName "foo") 20 21; tok "tk3"; FDiscard; FCreatePatch 22; tok "tk4"; FCommit 23;
   FClose true 24; FDrop;
   FOpen true MA (ByList ["foo.p1.ih5"; "foo.ih5"; "foo.p2.ih5"]) 30 31; tok "tk5"; FClose false 32; FDrop;
   FOpen false MA (ByName "foo2") 40 41; tok "tk6"; FClose true 42; FDrop;
   FOpen true MW (ByName "foo2") 50 51; tok "tk7"; FClose true 52; FDrop;
   FOpen true MRp (ByName "foo") 60 61; tok "tk8"].

Example build_result :
  map (fun f => (fname f, fcommitted f, fpay f)) (wdir (xrun build empty_world))
  = [("foo.p1.ih5", true, (["tk2"], Some (5%N, false))); ("foo.ih5", true, (["tk1"], Some (3%N, false)))]
  /\ hsides (xrun build empty_world) = [("foo.p1.ih5", 5%N); ("foo.ih5", 3%N)].
Proof. vm_compute. split; reflexivity. Qed.

Example later_is_safe : forall nm, In nm ["foo.ih5"; "foo.p1.ih5"] -> safe_for later nm.
Proof.
  intros nm [E|[E|[]]]; subst nm; unfold safe_for, later;
    repeat (constructor; [vm_compute; reflexivity|]); constructor.
Qed.

(** The later history really does things: new files appear, one patch is pending, "foo2"
    was replaced, both directories hold merge results ... *)
Example later_result :
  map (fun f => (fname f, fcommitted f)) (wdir (xrun later (xrun build empty_world)))
  = [("foo2.ih5", true); ("foo.p3.ih5", false); ("foo.p2.ih5", true); ("foo.p1.ih5", true); ("foo.ih5", true)]
  /\ map (fun f => (fname f, fst (fpay f))) (other (xrun later (xrun build empty_world)))
     = [("foo.ih5", ["tk1"; "tk2"])].
Proof. vm_compute. split; reflexivity. Qed.

(** ... and the two committed files and their sidecars are exactly what they were. *)
Example later_keeps_committed :
  forall nm, In nm ["foo.ih5"; "foo.p1.ih5"] ->
  file_at nm (wdir (xrun later (xrun build empty_world))) = file_at nm (wdir (xrun build empty_world))
  /\ file_at nm (wdir (xrun build empty_world)) <> None
  /\ side_of nm (hsides (xrun later (xrun build empty_world))) = side_of nm (hsides (xrun build empty_world)).
Proof. intros nm [E|[E|[]]]; subst nm; vm_compute; (split; [reflexivity|split; [discriminate|reflexivity]]). Qed.

(** The ids of the concrete history are fresh in the sense of [fresh_run]. *)
Example build_later_fresh : fresh_run (@nil string) merge_tokens (build ++ later) empty_world.
Proof. vm_compute. repeat split; intros H; repeat (destruct H as [H|H]; [discriminate H|]); exact H. Qed.

(** The snapshot of the build still opens with IH5MFRecord and shows tk2 over tk1. *)
Example later_snapshot_opens :
  match open_cls (@nil string) true MR (ByList ["foo.ih5"; "foo.p1.ih5"])
                 (wdir (xrun later (xrun build empty_world))) (hsides (xrun later (xrun build empty_world))) 0 0 with
  | Opened s => map fst (view s) = [["tk2"]; ["tk1"]]
  | Refused _ _ => False
  end.
Proof. vm_compute. reflexivity. Qed.

(** In C04's terms: the two files of the build, taken from the LATER directory, are accepted
    by [open_check] (digest functions: length of the token list, manifest id + 100). *)
Example later_snapshot_accepted :
  let w := xrun later (xrun build empty_world) in
  match file_at "foo.ih5" (wdir w), file_at "foo.p1.ih5" (wdir w) with
  | Some b, Some p =>
      option_map (map Chain.fpid)
        (Chain.open_check true false
           (map (abs_file (fun t : pay => N.of_nat (List.length t)) (fun m => m + 100)%N (hsides w)) [p; b]))
      = Some [2%N; 4%N]
  | _, _ => False
  end.
Proof. vm_compute. reflexivity. Qed.

(** [create_stub] from the manifest beside "foo.p1.ih5", into the same and into the other
    directory: two new committed files (record id, index and patch id of "foo.p1.ih5", no
    predecessor, skeleton of tk1 + tk2, fresh manifests 90 / 91); the files of "foo" and their
    sidecars are what they were; a second stub of the same name is refused. *)
Definition stubs : list (fop pay) :=
  [FStub false "foo-stub" "foo.p1.ih5" 90; FStub true "foo" "foo.p1.ih5" 91;
   FStub false "foo-stub" "foo.ih5" 92; FStub false "nomf" "foo.p7.ih5" 93;
   FOpen true MRp (ByName "foo-stub") 94 95; tok "tk9"; FClose true 96; FDrop].

Example stubs_result :
  let w := xrun stubs (xrun build empty_world) in
  map (fun f => (fname f, frec f, fidx f, fid f, fprev f, fcommitted f, fpay f))
      (filter (fun f => negb (matches "foo" (fname f))) (wdir w))
  = [("foo-stub.p2.ih5", 1%N, 2%N, 95%N, Some 4%N, true, (["tk9"], Some (96%N, false)));
     ("foo-stub.ih5", 1%N, 1%N, 4%N, None, true, (["tk1"; "tk2"], Some (90%N, true)))]
  /\ map (fun f => (fname f, fst (fpay f))) (other w) = [("foo.ih5", ["tk1"; "tk2"])].
Proof. vm_compute. split; reflexivity. Qed.

Example stubs_keep_committed :
  forall nm, In nm ["foo.ih5"; "foo.p1.ih5"] ->
  file_at nm (wdir (xrun stubs (xrun build empty_world))) = file_at nm (wdir (xrun build empty_world))
  /\ side_of nm (hsides (xrun stubs (xrun build empty_world))) = side_of nm (hsides (xrun build empty_world))
  /\ safe_for stubs nm.
Proof.
  intros nm [E|[E|[]]]; subst nm; (split; [vm_compute; reflexivity|split; [vm_compute; reflexivity|]]);
    unfold safe_for, stubs; repeat (constructor; [vm_compute; reflexivity|]); constructor.
Qed.

(** Mode 'w' on the record itself is what the hypothesis excludes — and it does destroy. *)
Example w_is_not_safe : ~ safe_for [FOpen false MW (ByName "foo") 70 71 : fop pay] "foo.ih5".
Proof. intros H. inversion H as [|o l Ht _]. vm_compute in Ht. discriminate. Qed.

Example w_destroys :
  file_at "foo.p1.ih5" (wdir (xrun [FOpen false MW (ByName "foo") 70 71] (xrun build empty_world))) = None.
Proof. vm_compute. reflexivity. Qed.
