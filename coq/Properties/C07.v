(** Property C07 — metadata comes back as stored and queries are exact.
    This file holds only the property theorems; each is closed by [exact] of a lemma proved
    in [Toc/QueryProofs.v] and followed by [Print Assumptions]. *)
From Coq Require Import List String NArith Bool.
From MV Require Import Util.PluginRef Toc.Query Toc.QueryProofs.
Import ListNotations.
Local Open Scope string_scope.

(** The environment's parent paths mean "ancestor-or-self along the parent pointers", and
    parent chains are acyclic. *)
Theorem C07_ppath_is_ancestry : forall e, env_wf e -> forall r a, In a (ppath e r) <-> Anc e r a.
Proof. exact ppath_Anc. Qed.
Print Assumptions C07_ppath_is_ancestry.

Theorem C07_env_acyclic : forall e, env_wf e -> forall r a, Anc e r a -> Anc e a r -> a = r.
Proof. exact Anc_acyclic. Qed.
Print Assumptions C07_env_acyclic.

(** The invariant (tree shape, one object per schema name and node, used schemas = schemas of
    stored objects, and the container-local parents/children maps agree with [env] on every
    used schema: [toc_ok]) holds initially and is kept by every operation, refused or not. *)
Theorem C07_inv_init : forall e, inv e init_state.
Proof. exact inv_init. Qed.
Print Assumptions C07_inv_init.

Theorem C07_inv_step : forall e st o, env_wf e -> inv e st -> inv e (fst (step e st o)).
Proof. exact inv_step. Qed.
Print Assumptions C07_inv_step.

Theorem C07_inv_reachable : forall e ops, env_wf e -> inv e (run e ops).
Proof. exact inv_run. Qed.
Print Assumptions C07_inv_reachable.

(** An attached object is returned by [get] -- requested by its release and by its name. *)
Theorem C07_get_set : forall e st p s v val vf st',
  env_wf e -> inv e st -> attach e st p s v val vf = (st', ROk) ->
  exists r, let o := mkmobj r (s_next st) val in
    fst r = s /\ eresolve e s v = Some r /\ stored st' p o /\
    get e st' p s (Some (snd r)) = GFound o r /\ get e st' p s None = GFound o r.
Proof. exact get_set. Qed.
Print Assumptions C07_get_set.

(** ... in every state, for every stored object ... *)
Theorem C07_get_own : forall e st p ob, inv e st -> stored st p ob ->
  exists cls, get e st p (oname ob) (Some (snd (m_ref ob))) = GFound ob cls /\
              fst cls = oname ob /\ supports (to_ref cls) (to_ref (m_ref ob)) = true.
Proof. exact get_own. Qed.
Print Assumptions C07_get_own.

(** ... and it stays so under every later operation that does not delete it or its node
    (a move renames the node). *)
Theorem C07_get_stable : forall e st o p ob,
  env_wf e -> inv e st -> stored st p ob -> keeps o p ob ->
  exists cls, get e (fst (step e st o)) (moved o st p) (oname ob) (Some (snd (m_ref ob))) = GFound ob cls /\
              fst cls = oname ob /\ supports (to_ref cls) (to_ref (m_ref ob)) = true.
Proof. exact get_stable. Qed.
Print Assumptions C07_get_stable.

Theorem C07_stored_stable : forall e st o p ob,
  env_wf e -> inv e st -> stored st p ob -> keeps o p ob ->
  stored (fst (step e st o)) (moved o st p) ob.
Proof. exact stored_step. Qed.
Print Assumptions C07_stored_stable.

(** At most one object per schema and node: a second attach is refused, state unchanged. *)
Theorem C07_one_per_schema : forall e st p ob v val vf,
  stored st p ob -> attach e st p (oname ob) v val vf = (st, RRef WExists).
Proof. exact one_per_schema. Qed.
Print Assumptions C07_one_per_schema.

Theorem C07_one_per_schema_state : forall e st p o1 o2,
  inv e st -> stored st p o1 -> stored st p o2 -> oname o1 = oname o2 -> o1 = o2.
Proof. exact one_per_schema_state. Qed.
Print Assumptions C07_one_per_schema_state.

(** Unknown schemas / versions and auxiliary schemas are refused, state unchanged. *)
Theorem C07_aux_or_unknown_refused : forall e st p s v val vf,
  (eresolve e s v = None \/
   exists r i, eresolve e s v = Some r /\ env_get e r = Some i /\ s_aux i = true) ->
  exists w, attach e st p s v val vf = (st, RRef w).
Proof. exact aux_or_unknown_refused. Qed.
Print Assumptions C07_aux_or_unknown_refused.

(** Requested by any ancestor release [a] of the stored object's schema, [get] returns a
    stored object carrying [a] -- that object when it is the only one -- viewed through a
    release of [a]'s schema that supports [a]. *)
Theorem C07_parent_view : forall e st p ob a,
  env_wf e -> inv e st -> stored st p ob -> In a (ppath e (m_ref ob)) ->
  exists ob' cls, get e st p (fst a) (Some (snd a)) = GFound ob' cls /\ stored st p ob' /\
    carries e (fst a) (Some (snd a)) ob' = true /\ fst cls = fst a /\
    supports (to_ref cls) (to_ref a) = true /\
    ((forall o2, stored st p o2 -> carries e (fst a) (Some (snd a)) o2 = true -> o2 = ob) -> ob' = ob).
Proof. exact parent_view. Qed.
Print Assumptions C07_parent_view.

(** Requested by schema name only: something is returned whenever an ancestor has that name,
    and the view is through a release supporting the release the object was stored as. *)
Theorem C07_parent_view_by_name : forall e st p ob a,
  env_wf e -> inv e st -> stored st p ob -> In a (ppath e (m_ref ob)) ->
  exists ob' cls, get e st p (fst a) None = GFound ob' cls.
Proof. exact parent_view_by_name. Qed.
Print Assumptions C07_parent_view_by_name.

Theorem C07_view_release : forall e st p s ob' cls,
  env_wf e -> inv e st -> get e st p s None = GFound ob' cls ->
  stored st p ob' /\
  exists a, In a (ppath e (m_ref ob')) /\ fst a = s /\ fst cls = s /\
            supports (to_ref cls) (to_ref a) = true.
Proof. exact view_release. Qed.
Print Assumptions C07_view_release.

(** Queries are exact: same nodes as the brute-force specification, no duplicates.
    (The invariant [inv] includes the agreement of the container-local maps with [env];
    [env_wf] is needed to establish [inv], not here.) *)
Theorem C07_query_exact : forall e st start s v, inv e st ->
  (forall p, In p (query st start s v) <-> In p (brute e st start s v)) /\
  NoDup (query st start s v) /\ NoDup (brute e st start s v).
Proof. exact query_exact. Qed.
Print Assumptions C07_query_exact.

Theorem C07_contains_exact : forall e st nd s v, inv e st -> In nd (s_nodes st) ->
  ncontains (s_toc st) s v nd = existsb (carries e s v) (n_meta nd).
Proof. exact ncontains_spec. Qed.
Print Assumptions C07_contains_exact.

(** The pinned incremental maintenance of the children map does not reproduce the map a
    re-opened container builds ... *)
Theorem C07_index_not_rebuilt_refuted :
  exists e ops x y, env_wf e /\
    let t := s_toc (run e ops) in
    smem y (aget (t_chi t) x) = true /\
    smem y (aget (t_chi (toc_rebuild e (t_used t))) x) = false.
Proof. exact index_not_rebuilt_refuted. Qed.
Print Assumptions C07_index_not_rebuilt_refuted.

(** ... but no query, membership test or read can tell the live container from the
    re-opened one. *)
Theorem C07_reopen_same_answers : forall e st,
  env_wf e -> inv e st ->
  let st' := fst (step e st OReopen) in
  (forall start s v, query st' start s v = query st start s v) /\
  (forall p s v, get_all e st' p s v = get_all e st p s v) /\
  (forall nd s v, In nd (s_nodes st) -> ncontains (s_toc st') s v nd = ncontains (s_toc st) s v nd).
Proof. exact reopen_same. Qed.
Print Assumptions C07_reopen_same_answers.

(** The pinned [get] violates the parent-view part: it raises for an auxiliary parent schema,
    and by name it presents an object through a release that does not support the stored one. *)
Theorem C07_get_pinned_aux_refuted :
  exists e ops p s v o cls, env_wf e /\
    get e (run e ops) p s v = GFound o cls /\ get_pinned e (run e ops) p s v = GErr WAux.
Proof. exact get_pinned_aux_refuted. Qed.
Print Assumptions C07_get_pinned_aux_refuted.

Theorem C07_get_pinned_release_refuted :
  exists e ops p s o cls, env_wf e /\
    get_pinned e (run e ops) p s None = GFound o cls /\
    forallb (fun a => negb (String.eqb (fst a) s && supports (to_ref cls) (to_ref a))) (ppath e (m_ref o)) = true.
Proof. exact get_pinned_release_refuted. Qed.
Print Assumptions C07_get_pinned_release_refuted.

(** Non-vacuity: a reachable state with three schema levels in use; a query by the root
    schema finds the nodes carrying descendants, a version-restricted one only compatible ones. *)
Definition ex_ops : list op :=
  [OMk [] "g" true; OMk ["g"] "d" false; OMk [] "h" true;
   OAttach ["g"] "cc" (Some v100) "c" ex_all; OAttach ["g"; "d"] "bb" (Some v100) "b" ex_all;
   OAttach ["h"] "aa" (Some (2, (0, 0))%N) "a2" ex_all; OAttach ["h"] "dd" None "d" ex_all;
   OCopy ["g"] ["h"] "k" false; OMove ["g"; "d"] [] "m"].

Example C07_ex_query_root :
  query (run ex_env ex_ops) [] "aa" None = [["g"]; ["m"]; ["h"]; ["h"; "k"]; ["h"; "k"; "d"]]
  /\ brute ex_env (run ex_env ex_ops) [] "aa" None = [["g"]; ["m"]; ["h"]; ["h"; "k"]; ["h"; "k"; "d"]].
Proof. split; vm_compute; reflexivity. Qed.

Example C07_ex_query_version :
  query (run ex_env ex_ops) ["h"] "aa" (Some v100) = [["h"; "k"]; ["h"; "k"; "d"]]
  /\ query (run ex_env ex_ops) ["h"] "xx" None = [["h"]]
  /\ query (run ex_env ex_ops) ["m"] "bb" None = [["m"]].
Proof. repeat split; vm_compute; reflexivity. Qed.

Example C07_ex_get :
  get ex_env (run ex_env ex_ops) ["h"] "xx" None
    = GFound (mkmobj ("dd", v100) 3%N "d") ("xx", v100)
  /\ get ex_env (run ex_env ex_ops) ["g"] "aa" None
    = GFound (mkmobj ("cc", v100) 0%N "c") ("aa", v100)
  /\ get ex_env (run ex_env ex_ops) ["h"] "aa" (Some v100) = GNone.
Proof. repeat split; vm_compute; reflexivity. Qed.

Example C07_ex_refusals :
  snd (step ex_env (run ex_env ex_ops) (OAttach ["h"] "aa" (Some v100) "x" ex_all)) = RRef WExists
  /\ snd (step ex_env (run ex_env ex_ops) (OAttach ["g"] "xx" None "x" ex_all)) = RRef WAux
  /\ snd (step ex_env (run ex_env ex_ops) (OAttach ["g"] "zz" None "x" ex_all)) = RRef WUnknown
  /\ snd (step ex_env (run ex_env ex_ops) (OAttach ["g"] "aa" (Some (3, (0, 0))%N) "x" ex_all)) = RRef WUnknown.
Proof. repeat split; vm_compute; reflexivity. Qed.

(** Non-vacuity for group move / copy with descendants: [g/d] carries an object; [g] is moved
    to [h] and a new [g/d] is created; the fresh node holds nothing, the object is at [h/d];
    a copy has an equal object under a fresh uuid. *)
Definition ex_ops_mv : list op :=
  [OMk [] "g" true; OMk ["g"] "d" false; OAttach ["g"; "d"] "bb" (Some v100) "b" ex_all;
   OMove ["g"] [] "h"; OMk [] "g" true; OMk ["g"] "d" true; OCopy ["h"] ["g"; "d"] "k" false].

Example C07_ex_group_move_recreate :
  let st := run ex_env ex_ops_mv in
  get ex_env st ["g"; "d"] "bb" None = GNone
  /\ get ex_env st ["h"; "d"] "aa" None = GFound (mkmobj ("bb", v100) 0%N "b") ("aa", v100)
  /\ get ex_env st ["g"; "d"; "k"; "d"] "bb" None = GFound (mkmobj ("bb", v100) 1%N "b") ("bb", v100)
  /\ query st [] "aa" None = [["h"; "d"]; ["g"; "d"; "k"; "d"]]
  /\ query st ["g"] "bb" None = [["g"; "d"; "k"; "d"]]
  /\ snd (step ex_env st (OAttach ["g"; "d"] "bb" (Some v100) "x" ex_all)) = ROk
  /\ snd (step ex_env st (ODetach ["g"; "d"] "bb")) = RRef WNoObj
  /\ moved (OMove ["h"] [] "m") st ["h"; "d"] = ["m"; "d"].
Proof. repeat split; vm_compute; reflexivity. Qed.
