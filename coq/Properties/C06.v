(** Property C06 — the container TOC and the attached metadata objects stay in exact
    one-to-one sync.  This file holds only the property theorems; each is closed by [exact]
    of a lemma proved in [Toc/SyncProofs.v] and followed by [Print Assumptions]. *)
From Coq Require Import List String Bool NArith.
From MV Require Import Base.Sx Toc.Layout Toc.UserView Toc.Sync Toc.SyncProofs.
Import ListNotations.
Local Open Scope string_scope.

(** A freshly initialised container is in sync, in every environment. *)
Theorem C06_sync_init : forall E, Sync E init_ss.
Proof. exact sync_init. Qed.
Print Assumptions C06_sync_init.
