(** Property C06 — the container TOC and the attached metadata objects stay in exact
    one-to-one sync.  This file holds only the property theorems; each is closed by [exact]
    of a lemma proved in [Toc/SyncProofs.v], [Toc/SyncMoveCopy.v] or [Toc/SyncCopyMeta.v] and
    followed by [Print Assumptions].

    [env_ok E] (a premise, checked by the harness for the environment it registers): schema
    entry-point names contain no ["="], are not reserved, parent paths are duplicate-free,
    end in the schema itself and are prefix-closed. *)
From Coq Require Import List String Bool NArith.
From MV Require Import Base.Sx Toc.Layout Toc.UserView Toc.Sync Toc.SyncProofs Toc.SyncMoveCopy
  Toc.SyncCopyMeta.
Import ListNotations.
Local Open Scope string_scope.
Local Open Scope list_scope.

(** *** Initial state *)

(** A freshly initialised container is in sync, in every environment. *)
Theorem C06_sync_init : forall E, Sync E init_ss.
Proof. exact sync_init. Qed.
Print Assumptions C06_sync_init.

(** *** One operation

    Full statement demanded (and proved, for EVERY operation, without premise):
      [forall E st o, env_ok E = true -> Sync E st -> Sync E (fst (s_step E st o))].
    Attach / detach with every refusal, delete (datasets and whole groups), MOVE of datasets
    (sidecar follows) and of groups (links relinked), COPY without metadata, COPY WITH metadata
    of datasets (sidecar copied) and groups, plain and into a group object -- the copied
    objects get fresh uuids and links ([reuuid_region]; followed with a pending-set invariant
    in [Toc/SyncCopyMeta.v]) --, the late failure of copying a dataset that has no metadata,
    every refused call, data operations, reopen, patch boundary. *)

Theorem C06_sync_step : forall E st o,
  env_ok E = true -> Sync E st -> Sync E (fst (s_step E st o)).
Proof. exact sync_step_all. Qed.
Print Assumptions C06_sync_step.

(** Any operation that does not return [ROk] -- refused, or the late failure of copying a
    dataset without metadata -- keeps the state in sync ... *)
Theorem C06_sync_step_not_ok : forall E st o,
  env_ok E = true -> Sync E st -> snd (s_step E st o) <> ROk -> Sync E (fst (s_step E st o)).
Proof. exact sync_step_meta_copy_not_ok. Qed.
Print Assumptions C06_sync_step_not_ok.

(** ... and a refused one ([RGuard], [RFail]) leaves the raw tree untouched. *)
Theorem C06_sync_step_refused : forall E st o,
  env_ok E = true -> Sync E st -> refused (snd (s_step E st o)) = true ->
  Sync E (fst (s_step E st o)) /\ raw (cs (fst (s_step E st o))) = raw (cs st).
Proof. exact sync_step_refused. Qed.
Print Assumptions C06_sync_step_refused.

(** The file part of a move (dataset or group), unconditionally. *)
Theorem C06_move_file_part : forall E st cwd s d, Sync E st -> RawStep E st (CMove cwd s d).
Proof. exact raw_step_move. Qed.
Print Assumptions C06_move_file_part.

(** The file part of a copy -- with or without metadata, of a dataset or a group, plain or
    into a group object, successful or not. *)
Theorem C06_copy_file_part : forall E st co,
  env_ok E = true -> Sync E st ->
  match co with CCopy _ _ _ _ | CCopyInto _ _ _ _ _ => True | _ => False end ->
  RawStep E st co.
Proof. exact raw_step_copy_all. Qed.
Print Assumptions C06_copy_file_part.

(** The re-uuid fold itself: a tree in sync plus a structure-preserving copy [rho S] of some
    of its entries into a free region, run through [reuuid_region], is in sync again. *)
Theorem C06_reuuid_fold : forall E B n pr rho S region,
  env_ok E = true -> SyncRaw E B n pr -> CopyOk B rho S region ->
  SyncRaw E (fst (reuuid_region (B ++ tmap rho S) n pr region))
          (snd (reuuid_region (B ++ tmap rho S) n pr region)) pr.
Proof. exact reuuid_sync. Qed.
Print Assumptions C06_reuuid_fold.

(** The executable checker of the file part is sound. *)
Theorem C06_checker_sound : forall E T n pr, syncb_raw E T n pr = true -> SyncRaw E T n pr.
Proof. exact syncb_raw_sound. Qed.
Print Assumptions C06_checker_sound.

(** *** Histories *)

(** Every state reached by any history from a state in sync is in sync. *)
Theorem C06_all_reachable : forall E ops st,
  env_ok E = true -> Sync E st -> Sync E (s_run E st ops).
Proof. exact sync_run_all. Qed.
Print Assumptions C06_all_reachable.

Theorem C06_all_reachable_from_init : forall E ops,
  env_ok E = true -> Sync E (s_run E init_ss ops).
Proof. exact sync_reachable. Qed.
Print Assumptions C06_all_reachable_from_init.

(** *** Reopening: the index rebuilt from disk is the one maintained incrementally
    (extensionally, as Python compares dicts and sets). *)
Theorem C06_reopen_same : forall E st,
  env_ok E = true -> Sync E st -> ix_same (load E (raw (cs st))) (mem st).
Proof. exact reopen_same. Qed.
Print Assumptions C06_reopen_same.

(** *** What [Sync] means (links <-> objects is a bijection with equal uuid and schema, uuids
    are unique, schema / package records exactly for the schemas in use, no empty groups) *)

Theorem C06_object_has_link : forall E st, Sync E st -> forall q,
  In q (objs (raw (cs st))) ->
  exists a, t_get (raw (cs st)) (link_path (sch q) (uid q)) = Some (mkobj (KData (name_of q)) a).
Proof. exact ch_obj_link. Qed.
Print Assumptions C06_object_has_link.

Theorem C06_link_has_object : forall E st, Sync E st -> forall s u,
  t_has (raw (cs st)) (link_path s u) = true ->
  exists q a, In q (objs (raw (cs st))) /\ sch q = s /\ uid q = u /\
              t_get (raw (cs st)) (link_path s u) = Some (mkobj (KData (name_of q)) a).
Proof. exact ch_link_obj. Qed.
Print Assumptions C06_link_has_object.

Theorem C06_uuid_unique : forall E st, Sync E st -> forall q1 q2,
  In q1 (objs (raw (cs st))) -> In q2 (objs (raw (cs st))) -> uid q1 = uid q2 -> q1 = q2.
Proof. exact ch_uuid_unique. Qed.
Print Assumptions C06_uuid_unique.

Theorem C06_schema_record_iff_used : forall E st, Sync E st -> forall s,
  t_has (raw (cs st)) (schema_path s) = true <-> exists q, In q (objs (raw (cs st))) /\ sch q = s.
Proof. exact ch_schema. Qed.
Print Assumptions C06_schema_record_iff_used.

Theorem C06_schema_record_complete : forall E st, Sync E st -> forall s,
  t_has (raw (cs st)) (schema_path s) = true ->
  t_has (raw (cs st)) (schema_path s ++ ["jsonschema.json"]) = true /\
  t_has (raw (cs st)) (schema_path s ++ ["compat"]) = true /\
  t_has (raw (cs st)) (linkgrp_path s) = true /\
  t_has (raw (cs st)) (package_path (pkg_of E s)) = true.
Proof. exact ch_schema_complete. Qed.
Print Assumptions C06_schema_record_complete.

Theorem C06_package_record_iff_used : forall E st, Sync E st -> forall p,
  t_has (raw (cs st)) (package_path p) = true <->
  exists q, In q (objs (raw (cs st))) /\ pkg_of E (sch q) = p.
Proof. exact ch_package. Qed.
Print Assumptions C06_package_record_iff_used.

Theorem C06_no_empty_groups : forall E st, Sync E st ->
  (t_has (raw (cs st)) links_segs = true -> objs (raw (cs st)) <> []) /\
  (t_has (raw (cs st)) schemas_segs = true -> objs (raw (cs st)) <> []) /\
  (t_has (raw (cs st)) packages_segs = true -> objs (raw (cs st)) <> []) /\
  (forall s, t_has (raw (cs st)) (linkgrp_path s) = true ->
             exists u, t_has (raw (cs st)) (link_path s u) = true).
Proof. exact ch_dirs_nonempty. Qed.
Print Assumptions C06_no_empty_groups.

(** A metadata directory belongs to an existing node of the matching kind and is not empty. *)
Theorem C06_meta_dir : forall E st, Sync E st -> forall d m x,
  has_reserved d = false -> meta_seg m = true -> t_get (raw (cs st)) (d ++ [m]) = Some x ->
  owner_ok (raw (cs st)) d m = true /\ has_children (raw (cs st)) (d ++ [m]) = true.
Proof. exact ch_meta_dir. Qed.
Print Assumptions C06_meta_dir.

(** *** Non-vacuity and the pinned rules *)

(** A reachable state that is in sync and carries metadata. *)
Example C06_example :
  Sync E0 (s_run E0 init_ss ops_chain) /\
  t_has (raw (cs (s_run E0 init_ss ops_chain))) (link_path "c06.cc__0.1.0" "u1") = true.
Proof. exact example_in_sync. Qed.

(** Move of a dataset and of a group, copy without metadata (plain and into a group), delete,
    reopen: no premise. *)
Example C06_example_move_copy :
  Sync E0 (s_run E0 init_ss ops_move_copy) /\
  t_has (raw (cs (s_run E0 init_ss ops_move_copy))) (link_path "c06.bb__0.1.0" "u0") = true.
Proof. exact example_move_copy. Qed.

(** A history that also copies WITH metadata; the file part of those steps discharged by the
    verified checker. *)
Example C06_example_heavy : Sync E0 (s_run E0 init_ss ops_heavy).
Proof. exact example_heavy_in_sync. Qed.

(** Copies WITH metadata of a group, of a dataset with sidecar, into a group object (with and
    without a name), then move, delete, reopen: every call succeeds, no premise, no checker;
    six objects are attached at the end and nine uuids were handed out. *)
Example C06_example_copy_meta :
  Sync E0 (s_run E0 init_ss ops_copy_meta) /\
  List.length (objs (raw (cs (s_run E0 init_ss ops_copy_meta)))) = 6 /\
  next_id (cs (s_run E0 init_ss ops_copy_meta)) = 9%N.
Proof. exact example_copy_meta. Qed.

(** Copies of a group to places strictly below the group itself (with and without metadata, and
    into its own sub-group object): a snapshot of the source is grafted, every call succeeds,
    the state stays in sync. *)
Example C06_example_self_copy :
  Sync E0 (s_run E0 init_ss ops_self_copy) /\
  t_has (raw (cs (s_run E0 init_ss ops_self_copy))) ["g"; "b"; "c"; "h"; "metador_meta_"] = true /\
  t_has (raw (cs (s_run E0 init_ss ops_self_copy))) ["g"; "b"; "c"; "b"] = false /\
  t_has (raw (cs (s_run E0 init_ss ops_self_copy))) ["g"; "h"; "again"; "metador_meta_"] = true /\
  t_has (raw (cs (s_run E0 init_ss ops_self_copy))) ["g"; "h"; "k"; "b"; "c"; "x"] = true /\
  t_has (raw (cs (s_run E0 init_ss ops_self_copy))) ["g"; "h"; "k"; "metador_meta_"] = false.
Proof. exact example_self_copy. Qed.

(** Pinned [_set_raw] (object stored before [register]): a failing schema export leaves an
    object without link -- not in sync. *)
Theorem C06_attach_pinned_refuted :
  exists E st o, env_ok E = true /\ Sync E st /\ ~ Sync E (fst (s_step_pinned E st o)).
Proof. exact attach_pinned_refuted. Qed.
Print Assumptions C06_attach_pinned_refuted.

(** Pinned [_update_parents_children(ref, None)] / [_unregister]: the incremental index
    differs from the rebuilt one. *)
Theorem C06_children_pinned_refuted :
  exists E ops, env_ok E = true /\
    ~ ix_same (load E (raw (cs (s_run_pinned E init_ss ops)))) (mem (s_run_pinned E init_ss ops)).
Proof. exact children_pinned_refuted. Qed.
Print Assumptions C06_children_pinned_refuted.

Theorem C06_used_pinned_refuted :
  exists E ops, env_ok E = true /\
    ~ ix_same (load E (raw (cs (s_run_pinned E init_ss ops)))) (mem (s_run_pinned E init_ss ops)).
Proof. exact used_pinned_refuted. Qed.
Print Assumptions C06_used_pinned_refuted.
