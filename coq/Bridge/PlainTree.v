(** * Bridge between the two hand-written plain-tree models (definitions only).

    The development holds two independent models of "a single plain HDF5-like tree under
    the h5py group protocol":
    - [IH5/Overlay.v] [tree] (a [gmap] keyed by *reversed* paths, attributes as flagged
      path segments) with [t_step]/[run_t]: the specification tree of C01/C05/C09/C10/C17;
    - [Toc/UserView.v] [tree] (an association list keyed by *forward* paths, attributes as
      a list inside each object) with [u_apply]/[u_step]/[u_run]: the tree below the
      container model of C06/C07/C08/C15/C20.

    This file defines the abstraction [abs] from the second to the first, the translation
    [conv] of operations on the common fragment, and the side conditions under which the
    two step functions are claimed to agree.  The lemmas are in [Bridge/PlainTreeProofs.v];
    [Bridge/BridgeRun.v] runs both models side by side for the differential check. *)
From stdpp Require Import gmap strings list.
From MV Require Import IH5.Overlay IH5.Client.
From MV Require Toc.UserView.

(** A forward node path as a reversed path of child segments. *)
Definition rpath (p : UserView.path) : path := rev (map (λ k : string, (false, k)) p).

Definition abs_kind (k : UserView.kind) : tentry :=
  match k with UserView.KGroup => TGroup | UserView.KData v => TData v end.

(** The entries an object at forward path [p] stands for: the node itself (the root is not
    stored in the overlay model's tree) and one flagged leaf per attribute. *)
Definition abs_obj (p : UserView.path) (o : option UserView.obj) : list (path * tentry) :=
  match o with
  | None => []
  | Some o =>
      match p with [] => [] | _ => [(rpath p, abs_kind (UserView.okind o))] end ++
      map (λ kv : string * string, ((true, kv.1) :: rpath p, TData kv.2)) (UserView.oattrs o)
  end.

(** The abstraction.  Lookups in the association-list model are first-match
    ([UserView.t_get] is a [find]), so every key stands for the object [t_get] returns
    for it; on a tree without duplicate keys this is the entry's own object. *)
Definition abs (T : UserView.tree) : tree :=
  list_to_map (concat (map (λ e : UserView.entry, abs_obj e.1 (UserView.t_get T e.1)) T)).

(** Operations of the common fragment. *)
Definition conv_body (b : UserView.ubody) : option op :=
  match b with
  | UserView.UCreateGroup q => Some (OGroup (rpath q))
  | UserView.UCreateDataset q v => Some (OData (rpath q) v)
  | UserView.UDelete q => Some (ODel (rpath q))
  | UserView.UMove s d => Some (OMove (rpath s) (rpath d))
  | UserView.UCopy s d => Some (OCopy (rpath s) (rpath d))
  | UserView.UAttrSet q k v => Some (OAttrSet (rpath q) k v)
  | UserView.UAttrDel q k => Some (OAttrDel (rpath q) k)
  | UserView.URequireGroup _ | UserView.URequireDataset _ _ => None
  end.

Definition conv (o : UserView.uop) : option op := conv_body o.2.

(** Side conditions of the common fragment, beyond [conv] being defined:
    - the group objects the call goes through exist (otherwise no request reaches the file);
    - the IH5 deletion-marker value is not written as data ([Overlay.t_step] refuses it,
      the association-list model does not know it).
    A copy strictly below its own source ([copy a a/b/c]) IS part of the fragment: both models
    graft a snapshot of the source taken before the intermediate groups are created, as plain
    HDF5 does. *)
Definition body_side (b : UserView.ubody) : bool :=
  match b with
  | UserView.UCreateDataset _ v | UserView.UAttrSet _ _ v => negb (is_del_value v)
  | _ => true
  end.

Definition common (T : UserView.tree) (o : UserView.uop) : bool :=
  forallb (λ c, UserView.is_group (UserView.t_get T c)) o.1 && body_side o.2.

(** Well-formedness of an association-list tree: the root is a group, and every other
    entry lies directly below a group. *)
Definition wf (T : UserView.tree) : Prop :=
  UserView.is_group (UserView.t_get T []) = true ∧
  ∀ p s, UserView.t_has T (p ++ [s]) = true → UserView.is_group (UserView.t_get T p) = true.

Definition u_init : UserView.tree := [([], UserView.new_group)].

(** A whole operation list stays in the common fragment (the condition on the group objects
    depends on the tree reached). *)
Fixpoint common_run (U : UserView.tree) (ops : list UserView.uop) : bool :=
  match ops with
  | [] => true
  | o :: r => common U o && bool_decide (is_Some (conv o)) && common_run (UserView.u_step U o).1 r
  end.

(** The write requests a client of the protocol ([IH5/Client.v]) issued during its first [n]
    steps against the plain tree. *)
Fixpoint writes (prog : client) (n : nat) : list op :=
  match n with
  | 0 => []
  | S k => writes prog k ++ match prog (trace_t prog k) with Some (Write o) => [o] | _ => [] end
  end.

(** ** Non-vacuity: a history through every operation kind (intermediate groups, attributes on
    a group and on a dataset, copy and move of a group with attributes below, refusals), with
    receivers; the same history with patch boundaries through the overlay. *)
Definition demo_uops : list UserView.uop :=
  [([], UserView.UCreateGroup ["a"; "b"]);
   ([[]; ["a"]], UserView.UCreateDataset ["a"; "x"] "i:1");
   ([["a"]], UserView.UAttrSet ["a"; "x"] "k" "i:2");
   ([], UserView.UAttrSet ["a"] "m" "e:");
   ([], UserView.UAttrSet [] "r" "i:3");
   ([], UserView.UCopy ["a"] ["c"; "d"]);
   ([], UserView.UMove ["a"; "b"] ["e"]);
   ([], UserView.UAttrDel ["c"; "d"] "m");
   ([], UserView.UDelete ["c"; "d"; "x"]);
   ([], UserView.UCreateGroup ["a"]);
   ([], UserView.UCopy ["nope"] ["z"]);
   ([], UserView.UMove ["e"] ["a"; "x"; "below-a-dataset"])]%string.

Definition demo_mops : list op :=
  match omap conv demo_uops with
  | o1 :: o2 :: o3 :: o4 :: rest => o1 :: OBoundary :: o2 :: o3 :: OBoundary :: o4 :: OBoundary :: rest
  | l => l
  end.

Fixpoint classes (U : UserView.tree) (ops : list UserView.uop) : list bool :=
  match ops with
  | [] => []
  | o :: r => (UserView.u_step U o).2 :: classes (UserView.u_step U o).1 r
  end.

