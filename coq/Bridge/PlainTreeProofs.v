(** * The two plain-tree models are the same tree (lemmas for [Bridge/PlainTree.v]).

    [look U q] reads the association-list tree [U] at a reversed flagged path [q] the way
    the overlay model's tree is read; [abs_lookup]: [abs U !! q = look U q].  A step of the
    association-list model and the [conv]erted step of the overlay model's tree preserve
    [Rep U T := ∀ q, T !! q = look U q], and [Rep U T] says [T = abs U]. *)
From stdpp Require Import gmap strings list.
From MV Require Import IH5.Overlay IH5.OverlayProofs IH5.Client IH5.ClientProofs Bridge.PlainTree.
From MV Require Toc.UserView Toc.UserViewProofs Toc.SyncProofs.

Notation upath := UserView.path.
Notation utree := UserView.tree.
Notation uget := UserView.t_get.
Notation uhas := UserView.t_has.
Notation uobj := UserView.obj.

(** ** Forward and reversed paths *)

Definition fwd (q : path) : upath := rev (map snd q).
Global Arguments fwd : simpl never.
Global Arguments rpath : simpl never.
Global Arguments is_node_path : simpl never.

Lemma rpath_app (a b : upath) : rpath (a ++ b) = rpath b ++ rpath a.
Proof. unfold rpath. by rewrite map_app, rev_app_distr. Qed.

Lemma rpath_snoc (a : upath) k : rpath (a ++ [k]) = (false, k) :: rpath a.
Proof. by rewrite rpath_app. Qed.

Lemma fwd_cons s (q : path) : fwd (s :: q) = fwd q ++ [s.2].
Proof. done. Qed.

Lemma fwd_app (a b : path) : fwd (a ++ b) = fwd b ++ fwd a.
Proof. unfold fwd. by rewrite map_app, rev_app_distr. Qed.

Lemma fwd_rpath (p : upath) : fwd (rpath p) = p.
Proof.
  unfold fwd, rpath. rewrite map_rev, rev_involutive, map_map. cbn. apply map_id.
Qed.

Lemma node_rpath (p : upath) : is_node_path (rpath p) = true.
Proof.
  unfold is_node_path, rpath. apply forallb_forall. intros x Hx.
  apply in_rev, in_map_iff in Hx as (k & <- & _). done.
Qed.

Lemma node_cons b k (r : path) : is_node_path ((b, k) :: r) = negb b && is_node_path r.
Proof. done. Qed.

Lemma rpath_fwd (q : path) : is_node_path q = true → rpath (fwd q) = q.
Proof.
  induction q as [|[b k] q IH]; [done|]. intros H. rewrite node_cons in H.
  apply andb_prop in H as [Hb Hq]. destruct b; [done|].
  rewrite fwd_cons, rpath_snoc, IH; done.
Qed.

Lemma rpath_inj (a b : upath) : rpath a = rpath b → a = b.
Proof. intros H. by rewrite <- (fwd_rpath a), H, fwd_rpath. Qed.

Lemma rpath_nil (p : upath) : rpath p = [] ↔ p = [].
Proof. split; [|by intros ->]. intros H. apply rpath_inj. by rewrite H. Qed.

Lemma node_not_attr (p : upath) k (r : path) : rpath p ≠ (true, k) :: r.
Proof.
  intros H. pose proof (node_rpath p) as N. rewrite H in N. done.
Qed.

(** ** Reading an association-list tree at a reversed flagged path *)

Definition aget (l : list (string * string)) (k : string) : option string :=
  snd <$> List.find (λ kv : string * string, String.eqb kv.1 k) l.

Definition owner (q : path) : option upath :=
  match q with
  | [] => None
  | (true, _) :: r => if is_node_path r then Some (fwd r) else None
  | (false, _) :: r => if is_node_path r then Some (fwd q) else None
  end.

Definition ent (o : uobj) (q : path) : option tentry :=
  match q with
  | (true, k) :: _ => TData <$> aget (UserView.oattrs o) k
  | _ => Some (abs_kind (UserView.okind o))
  end.

Definition look (U : utree) (q : path) : option tentry :=
  match owner q with
  | None => None
  | Some p => match uget U p with Some o => ent o q | None => None end
  end.

Definition Rep (U : utree) (T : tree) : Prop := ∀ q, T !! q = look U q.

Lemma owner_node (p : upath) : p ≠ [] → owner (rpath p) = Some p.
Proof.
  intros Hp. destruct (rpath p) as [|[b k] r] eqn:E.
  - by apply rpath_nil in E.
  - pose proof (node_rpath p) as N. rewrite E, node_cons in N.
    apply andb_prop in N as [Hb Hr]. destruct b; [done|]. cbn [owner]. rewrite Hr.
    by rewrite <- E, fwd_rpath.
Qed.

Lemma owner_attr (p : upath) k : owner ((true, k) :: rpath p) = Some p.
Proof. cbn. by rewrite node_rpath, fwd_rpath. Qed.

(** Shape of a path with a given owner. *)
Lemma owner_Some (q : path) (p : upath) :
  owner q = Some p → (q = rpath p ∧ p ≠ []) ∨ ∃ k, q = (true, k) :: rpath p.
Proof.
  destruct q as [|[[] k] r]; cbn; [done| |].
  - destruct (is_node_path r) eqn:N; [|done]. intros [= <-]. right. exists k.
    by rewrite rpath_fwd.
  - destruct (is_node_path r) eqn:N; [|done]. intros [= <-]. left.
    rewrite fwd_cons, rpath_snoc, rpath_fwd by done. split; [done|]. by destruct (fwd r).
Qed.

Lemma look_node U (p : upath) : p ≠ [] →
  look U (rpath p) = (λ o, abs_kind (UserView.okind o)) <$> uget U p.
Proof.
  intros Hp. unfold look. rewrite owner_node by done.
  destruct (uget U p) as [o|]; [|done]. cbn.
  destruct (rpath p) as [|[[] k] r] eqn:E; try done.
  by apply node_not_attr in E.
Qed.

Lemma look_attr U (p : upath) k :
  look U ((true, k) :: rpath p) =
  match uget U p with Some o => TData <$> aget (UserView.oattrs o) k | None => None end.
Proof. unfold look. by rewrite owner_attr. Qed.

Lemma look_nil U : look U [] = None.
Proof. done. Qed.

(** ** [abs] is read by [look] *)

Lemma attrs_lookup (rp : path) (l : list (string * string)) (q : path) :
  (list_to_map (map (λ kv : string * string, ((true, kv.1) :: rp, TData kv.2)) l) : tree) !! q =
  match q with
  | (true, k) :: r => if decide (r = rp) then TData <$> aget l k else None
  | _ => None
  end.
Proof.
  induction l as [|[k0 v0] l IH]; cbn [map list_to_map foldr].
  - rewrite lookup_empty. destruct q as [|[[] ?] ?]; try done. by destruct (decide _).
  - cbn. destruct (decide (q = (true, k0) :: rp)) as [->|Hne].
    + rewrite lookup_insert. rewrite decide_True by done. unfold aget. cbn.
      by rewrite String.eqb_refl.
    + rewrite lookup_insert_ne by done. rewrite IH.
      destruct q as [|[[] k] r]; try done. destruct (decide (r = rp)) as [->|]; [|done].
      unfold aget. cbn. destruct (String.eqb k0 k) eqn:E; [|done].
      apply String.eqb_eq in E. by subst.
Qed.

Lemma abs_obj_lookup (p : upath) (o : uobj) (q : path) :
  (list_to_map (abs_obj p (Some o)) : tree) !! q =
  if decide (owner q = Some p) then ent o q else None.
Proof.
  unfold abs_obj. rewrite list_to_map_app, lookup_union, attrs_lookup.
  destruct (decide (owner q = Some p)) as [Ho|Ho].
  - destruct (owner_Some q p Ho) as [[-> Hp]|[k ->]].
    + destruct p as [|x p]; [done|]. cbn [list_to_map foldr]. rewrite lookup_insert.
      destruct (rpath (x :: p)) as [|[[] k] r] eqn:E; try done.
      by apply node_not_attr in E.
    + assert ((list_to_map (match p with [] => [] | _ => [(rpath p, abs_kind (UserView.okind o))] end) : tree)
                !! ((true, k) :: rpath p) = None) as ->.
      { destruct p; [done|]. cbn [list_to_map foldr]. rewrite lookup_insert_ne; [done|].
        apply node_not_attr. }
      rewrite decide_True by done. cbn. by rewrite (left_id None _).
  - assert ((list_to_map (match p with [] => [] | _ => [(rpath p, abs_kind (UserView.okind o))] end) : tree)
              !! q = None) as ->.
    { destruct p as [|x p]; [done|]. cbn [list_to_map foldr].
      destruct (decide (q = rpath (x :: p))) as [->|Hne]; [|by rewrite lookup_insert_ne].
      by rewrite owner_node in Ho. }
    rewrite (left_id None _).
    destruct q as [|[[] k] r]; try done. destruct (decide (r = rpath p)) as [->|]; [|done].
    by rewrite owner_attr in Ho.
Qed.

Lemma abs_gen_lookup (g : upath → option uobj) (L : utree) (q : path) :
  (list_to_map (concat (map (λ e : UserView.entry, abs_obj e.1 (g e.1)) L)) : tree) !! q =
  match owner q with
  | Some p => if bool_decide (p ∈ L.*1) then match g p with Some o => ent o q | None => None end
              else None
  | None => None
  end.
Proof.
  induction L as [|[p0 o0] L IH]; cbn [map concat fmap list_fmap].
  - cbn. rewrite lookup_empty. by destruct (owner q).
  - rewrite list_to_map_app, lookup_union, IH. cbn [fst].
    destruct (g p0) as [o|] eqn:G.
    + rewrite abs_obj_lookup. destruct (owner q) as [p|]; [|by rewrite decide_False].
      destruct (decide (Some p = Some p0)) as [[= ->]|Hne].
      * rewrite G. rewrite (bool_decide_eq_true_2 (p0 ∈ p0 :: L.*1)) by set_solver.
        destruct (ent o q); by destruct (bool_decide _).
      * rewrite (left_id None _). assert (p ≠ p0) by congruence.
        destruct (bool_decide (p ∈ L.*1)) eqn:B.
        -- apply bool_decide_eq_true_1 in B. rewrite bool_decide_eq_true_2 by set_solver. done.
        -- apply bool_decide_eq_false_1 in B. rewrite bool_decide_eq_false_2 by set_solver. done.
    + cbn [abs_obj list_to_map foldr]. rewrite lookup_empty, (left_id None _).
      destruct (owner q) as [p|]; [|done].
      destruct (decide (p = p0)) as [->|Hne].
      * rewrite G. by repeat destruct (bool_decide _).
      * destruct (bool_decide (p ∈ L.*1)) eqn:B.
        -- apply bool_decide_eq_true_1 in B. rewrite bool_decide_eq_true_2 by set_solver. done.
        -- apply bool_decide_eq_false_1 in B. rewrite bool_decide_eq_false_2 by set_solver. done.
Qed.

Lemma abs_lookup U (q : path) : abs U !! q = look U q.
Proof.
  unfold abs, look. rewrite abs_gen_lookup. destruct (owner q) as [p|]; [|done].
  destruct (bool_decide (p ∈ U.*1)) eqn:B; [done|].
  apply bool_decide_eq_false_1 in B. destruct (uget U p) as [o|] eqn:G; [|done].
  exfalso. apply B. apply SyncProofs.t_get_in in G. apply elem_of_list_In.
  apply in_map_iff. by exists (p, o).
Qed.

Lemma rep_abs U : Rep U (abs U).
Proof. intros q. apply abs_lookup. Qed.

Lemma rep_unique U T : Rep U T → T = abs U.
Proof. intros H. apply map_eq. intros q. by rewrite H, abs_lookup. Qed.

(** ** Prefixes and subtrees *)

Lemma is_prefix_iff (s p : upath) : UserView.is_prefix s p = true ↔ ∃ t, p = s ++ t.
Proof.
  split.
  - intros H. eexists. apply UserViewProofs.is_prefix_split, H.
  - intros [t ->]. apply UserViewProofs.is_prefix_app.
Qed.

Lemma prefix_under (s p : upath) : UserView.is_prefix s p = true ↔ under (rpath s) (rpath p).
Proof.
  rewrite is_prefix_iff. split.
  - intros [t ->]. rewrite rpath_app. by eexists.
  - intros [k E]. exists (fwd k). apply (f_equal fwd) in E.
    by rewrite fwd_app, !fwd_rpath in E.
Qed.

Lemma under_attr (s : upath) k (r : path) : under (rpath s) ((true, k) :: r) ↔ under (rpath s) r.
Proof.
  split.
  - intros [H|H]%suffix_cons_inv'; [by apply node_not_attr in H|done].
  - apply suffix_cons_r.
Qed.

Lemma owner_under (s : upath) (q : path) (p : upath) :
  owner q = Some p → (under (rpath s) q ↔ UserView.is_prefix s p = true).
Proof.
  intros [[-> _]|[k ->]]%owner_Some.
  - by rewrite prefix_under.
  - by rewrite under_attr, prefix_under.
Qed.

Lemma ent_node (o : uobj) (p : upath) : ent o (rpath p) = Some (abs_kind (UserView.okind o)).
Proof.
  destruct (rpath p) as [|[[] k] r] eqn:E; try done. by apply node_not_attr in E.
Qed.

(** ** Attribute lists *)

Lemma aget_del l k k' :
  aget (UserView.a_del l k) k' = if decide (k' = k) then None else aget l k'.
Proof.
  unfold aget, UserView.a_del. induction l as [|[k0 v0] l IH]; cbn.
  - by destruct (decide _).
  - destruct (String.eqb k0 k) eqn:E; cbn.
    + apply String.eqb_eq in E as ->. rewrite IH. destruct (decide (k' = k)) as [->|Hne]; [done|].
      destruct (String.eqb k k') eqn:E'; [|done]. apply String.eqb_eq in E'. by subst.
    + destruct (String.eqb k0 k') eqn:E'; [|done]. apply String.eqb_eq in E' as ->.
      rewrite decide_False; [done|]. intros ->. by rewrite String.eqb_refl in E.
Qed.

Lemma aget_app l1 l2 k :
  aget (l1 ++ l2) k = match aget l1 k with Some v => Some v | None => aget l2 k end.
Proof.
  unfold aget. induction l1 as [|[k0 v0] l1 IH]; cbn; [done|]. by destruct (String.eqb k0 k).
Qed.

Lemma aget_set l k v k' :
  aget (UserView.a_set l k v) k' = if decide (k' = k) then Some v else aget l k'.
Proof.
  unfold UserView.a_set. rewrite aget_app, aget_del.
  destruct (decide (k' = k)) as [->|Hne].
  - unfold aget. cbn. by rewrite String.eqb_refl.
  - destruct (aget l k'); [done|]. unfold aget. cbn.
    destruct (String.eqb k k') eqn:E; [|done]. apply String.eqb_eq in E. by subst.
Qed.

Lemma a_has_aget l k : UserView.a_has l k = match aget l k with Some _ => true | None => false end.
Proof.
  unfold aget, UserView.a_has. induction l as [|[k0 v0] l IH]; cbn; [done|].
  by destruct (String.eqb k0 k).
Qed.

(** ** Reading the updated association-list trees *)

Lemma look_cut (s : upath) U (q : path) :
  look (UserView.t_cut s U) q = if decide (under (rpath s) q) then None else look U q.
Proof.
  unfold look. destruct (owner q) as [p|] eqn:Ho; [|by destruct (decide _)].
  rewrite SyncProofs.t_get_cut. pose proof (owner_under s q p Ho) as Hu.
  destruct (UserView.is_prefix s p) eqn:P.
  - rewrite decide_True; [done|]. by apply Hu.
  - rewrite decide_False; [done|]. intros H. apply Hu in H. done.
Qed.

Lemma look_put U (p : upath) (o : uobj) (q : path) : uget U p = None →
  look (UserView.t_put U p o) q = if decide (owner q = Some p) then ent o q else look U q.
Proof.
  intros Hn. unfold look. destruct (owner q) as [p'|]; [|by rewrite decide_False].
  rewrite SyncProofs.t_get_put. destruct (decide (Some p' = Some p)) as [[= ->]|Hne].
  - by rewrite Hn, UserViewProofs.path_eqb_refl.
  - destruct (uget U p'); [done|]. destruct (UserView.path_eqb p p') eqn:E; [|done].
    apply UserViewProofs.path_eqb_eq in E. congruence.
Qed.

Lemma look_put_new U (p : upath) kd (q : path) : p ≠ [] → uget U p = None →
  look (UserView.t_put U p (UserView.mkobj kd [])) q =
  if decide (q = rpath p) then Some (abs_kind kd) else look U q.
Proof.
  intros Hp Hn. rewrite look_put by done.
  destruct (decide (owner q = Some p)) as [Ho|Ho].
  - destruct (owner_Some q p Ho) as [[-> _]|[k ->]].
    + rewrite decide_True by done. apply ent_node.
    + rewrite decide_False by (intros H; symmetry in H; by apply node_not_attr in H).
      rewrite look_attr, Hn. done.
  - rewrite decide_False; [done|]. intros ->. by rewrite owner_node in Ho.
Qed.

Lemma rep_insert U T (p : upath) kd : Rep U T → p ≠ [] → uget U p = None →
  Rep (UserView.t_put U p (UserView.mkobj kd [])) (<[rpath p := abs_kind kd]> T).
Proof.
  intros HR Hp Hn q. rewrite look_put_new by done.
  destruct (decide (q = rpath p)) as [->|Hne].
  - by rewrite lookup_insert.
  - by rewrite lookup_insert_ne.
Qed.

Definition fset (k v : string) (o : uobj) : uobj :=
  UserView.mkobj (UserView.okind o) (UserView.a_set (UserView.oattrs o) k v).
Definition fdel (k : string) (o : uobj) : uobj :=
  UserView.mkobj (UserView.okind o) (UserView.a_del (UserView.oattrs o) k).

Lemma look_upd U (p : upath) (f : uobj → uobj) (q : path) :
  look (UserView.t_upd U p f) q =
  match owner q with
  | Some p' => match uget U p' with
               | Some o => ent (if decide (p' = p) then f o else o) q
               | None => None
               end
  | None => None
  end.
Proof.
  unfold look. destruct (owner q) as [p'|]; [|done]. rewrite SyncProofs.t_get_upd.
  destruct (UserView.path_eqb p' p) eqn:E.
  - apply UserViewProofs.path_eqb_eq in E as ->. destruct (decide (p = p)); [|done].
    by destruct (uget U p).
  - destruct (decide (p' = p)) as [->|]; [|done]. by rewrite UserViewProofs.path_eqb_refl in E.
Qed.

Lemma look_aset U (p : upath) k v (q : path) :
  look (UserView.t_upd U p (fset k v)) q =
  if decide (q = (true, k) :: rpath p)
  then (if uhas U p then Some (TData v) else None)
  else look U q.
Proof.
  rewrite look_upd. unfold look, UserView.t_has.
  destruct (owner q) as [p'|] eqn:Ho.
  - destruct (decide (p' = p)) as [->|Hne].
    + destruct (owner_Some q p Ho) as [[-> _]|[k' ->]].
      * rewrite decide_False by (intros H; by apply node_not_attr in H).
        destruct (uget U p); [|done]. by rewrite !ent_node.
      * destruct (uget U p) as [o|]; [|by destruct (decide _)].
        unfold ent, fset. cbn [UserView.oattrs]. rewrite aget_set.
        destruct (decide (k' = k)) as [->|Hk].
        -- by rewrite decide_True.
        -- rewrite decide_False; [done|]. congruence.
    + rewrite decide_False; [done|]. intros ->. rewrite owner_attr in Ho. congruence.
  - rewrite decide_False; [done|]. intros ->. by rewrite owner_attr in Ho.
Qed.

Lemma look_adel U (p : upath) k (q : path) :
  look (UserView.t_upd U p (fdel k)) q =
  if decide (q = (true, k) :: rpath p) then None else look U q.
Proof.
  rewrite look_upd. unfold look.
  destruct (owner q) as [p'|] eqn:Ho.
  - destruct (decide (p' = p)) as [->|Hne].
    + destruct (owner_Some q p Ho) as [[-> _]|[k' ->]].
      * rewrite decide_False by (intros H; by apply node_not_attr in H).
        destruct (uget U p); [|done]. by rewrite !ent_node.
      * destruct (uget U p) as [o|]; [|by destruct (decide _)].
        unfold ent, fdel. cbn [UserView.oattrs]. rewrite aget_del.
        destruct (decide (k' = k)) as [->|Hk].
        -- by rewrite decide_True.
        -- rewrite decide_False; [done|]. congruence.
    + rewrite decide_False; [done|]. intros ->. rewrite owner_attr in Ho. congruence.
  - rewrite decide_False; [done|]. intros ->. by rewrite owner_attr in Ho.
Qed.

(** ** Creating the missing groups *)

Lemma mkgroups_snoc : ∀ (r : upath) U (base : upath) s,
  UserView.mkgroups_from U base (r ++ [s]) =
  match UserView.mkgroups_from U base r with
  | None => None
  | Some U1 => match uget U1 (base ++ r ++ [s]) with
               | Some (UserView.mkobj UserView.KGroup _) => Some U1
               | Some _ => None
               | None => Some (UserView.t_put U1 (base ++ r ++ [s]) UserView.new_group)
               end
  end.
Proof.
  induction r as [|x r IH]; intros U base s; cbn.
  - by destruct (uget U (base ++ [s])) as [[[|v] a]|].
  - destruct (uget U (base ++ [x])) as [[[|v] a]|] eqn:G; [|done|].
    + rewrite IH. by rewrite <- !app_assoc.
    + rewrite IH. by rewrite <- !app_assoc.
Qed.

Definition RepO (u : option utree) (t : option tree) : Prop :=
  match u, t with
  | Some U, Some T => Rep U T
  | None, None => True
  | _, _ => False
  end.

Lemma mk_rep U T : Rep U T → ∀ p : upath, RepO (UserView.t_mkgroups U p) (t_mkgroups T (rpath p)).
Proof.
  intros HR p. induction p as [|s p IH] using rev_ind; [done|].
  unfold UserView.t_mkgroups in *. rewrite mkgroups_snoc, rpath_snoc. cbn [t_mkgroups app].
  destruct (UserView.mkgroups_from U [] p) as [U1|], (t_mkgroups T (rpath p)) as [T1|]; try done.
  cbn in IH. rewrite <- rpath_snoc, IH, look_node by (by destruct p).
  destruct (uget U1 (p ++ [s])) as [[[|v] a]|] eqn:G; cbn; try done.
  apply (rep_insert U1 T1 (p ++ [s]) UserView.KGroup); [done|by destruct p|done].
Qed.

Lemma mkgroups_fresh U (q : upath) U1 : q ≠ [] → uget U q = None →
  UserView.t_mkgroups U (UserView.parent q) = Some U1 → uget U1 q = None.
Proof.
  intros Hq Hn Hm. destruct (uget U1 q) as [o|] eqn:G; [|done]. exfalso.
  pose proof (SyncProofs.mkgroups_only_prefixes _ _ _ _ Hm q Hn) as H.
  unfold UserView.t_has in H. rewrite G in H. specialize (H eq_refl). cbn in H.
  by rewrite SyncProofs.not_prefix_longer in H.
Qed.

(** ** The operations *)

Local Arguments UserView.t_mkgroups : simpl never.
Local Arguments t_mkgroups : simpl never.
Local Arguments UserView.t_cut : simpl never.
Local Arguments UserView.t_put : simpl never.
Local Arguments UserView.t_upd : simpl never.

Lemma rpath_cons_ne x (p : upath) : rpath (x :: p) ≠ [].
Proof. intros H. by apply rpath_nil in H. Qed.

Lemma create_group_rep U T (p : upath) : Rep U T →
  RepO (UserView.u_create_group U p) (t_create_group T (rpath p)).
Proof.
  intros HR. unfold UserView.u_create_group, t_create_group.
  destruct p as [|x p]; [done|].
  destruct (rpath (x :: p)) as [|s0 r0] eqn:E; [by apply rpath_cons_ne in E|]. rewrite <- E.
  rewrite HR, look_node by done. unfold UserView.t_has.
  destruct (uget U (x :: p)); cbn; [done|]. by apply mk_rep.
Qed.

Lemma set_data_rep U T (p : upath) v : Rep U T →
  RepO (UserView.u_create_dataset U p v) (t_set_data T (rpath p) v).
Proof.
  intros HR. unfold UserView.u_create_dataset, t_set_data.
  destruct (decide (p = [])) as [->|Hp]; [done|].
  destruct (exists_last Hp) as (p' & s & ->).
  assert (∀ X : option utree, match p' ++ [s] with [] => None | _ :: _ => X end = X) as ->
    by (intros X; by destruct p').
  rewrite SyncProofs.parent_app1, rpath_snoc, <- rpath_snoc.
  rewrite HR, look_node by done. unfold UserView.t_has.
  destruct (uget U (p' ++ [s])) eqn:G; cbn; [done|].
  pose proof (mk_rep U T HR p') as HM.
  destruct (UserView.t_mkgroups U p') as [U1|] eqn:EU, (t_mkgroups T (rpath p')) as [T1|]; try done.
  cbn. apply (rep_insert U1 T1 (p' ++ [s]) (UserView.KData v)); [done|done|].
  apply (mkgroups_fresh U); [done|done|]. by rewrite SyncProofs.parent_app1.
Qed.

Lemma delete_rep U T (p : upath) : Rep U T →
  RepO (UserView.u_delete U p) (t_delete T (rpath p)).
Proof.
  intros HR. unfold UserView.u_delete, t_delete.
  destruct p as [|x p]; [done|].
  destruct (rpath (x :: p)) as [|s0 r0] eqn:E; [by apply rpath_cons_ne in E|]. rewrite <- E.
  rewrite HR, look_node by done. unfold UserView.t_has.
  destruct (uget U (x :: p)); cbn; [|done].
  intros q. rewrite look_cut, cut_lookup. by destruct (decide _).
Qed.

Definition root_ok (U : utree) : Prop := UserView.is_group (uget U []) = true.

Lemma tget_rep U T (p : upath) : Rep U T → root_ok U →
  match tget T (rpath p) with Some _ => true | None => false end = uhas U p.
Proof.
  intros HR H0. unfold UserView.t_has. destruct p as [|x p].
  - cbn. unfold root_ok in H0. by destruct (uget U []).
  - rewrite tget_ne by apply rpath_cons_ne. rewrite HR, look_node by done.
    by destruct (uget U (x :: p)).
Qed.

Lemma attr_set_rep U T (p : upath) k v : Rep U T → root_ok U →
  RepO (UserView.u_attr_set U p k v) (t_attr_set T (rpath p) k v).
Proof.
  intros HR H0. unfold UserView.u_attr_set, t_attr_set.
  pose proof (tget_rep U T p HR H0) as Hg.
  destruct (tget T (rpath p)), (uhas U p) eqn:Hh; try done. cbn.
  intros q. change (λ o, UserView.mkobj (UserView.okind o) (UserView.a_set (UserView.oattrs o) k v))
    with (fset k v). rewrite look_aset, Hh.
  destruct (decide (q = (true, k) :: rpath p)) as [->|Hne].
  - by rewrite lookup_insert.
  - by rewrite lookup_insert_ne.
Qed.

Lemma attr_del_rep U T (p : upath) k : Rep U T → root_ok U →
  RepO (UserView.u_attr_del U p k) (t_attr_del T (rpath p) k).
Proof.
  intros HR H0. unfold UserView.u_attr_del, t_attr_del.
  pose proof (tget_rep U T p HR H0) as Hg. unfold UserView.t_has in Hg.
  rewrite (HR ((true, k) :: rpath p)), look_attr.
  destruct (uget U p) as [o|]; [|by destruct (tget T (rpath p))].
  destruct (tget T (rpath p)); [|done]. rewrite a_has_aget.
  destruct (aget (UserView.oattrs o) k); cbn; [|done].
  intros q. change (λ o, UserView.mkobj (UserView.okind o) (UserView.a_del (UserView.oattrs o) k))
    with (fdel k). rewrite look_adel.
  destruct (decide (q = (true, k) :: rpath p)) as [->|Hne].
  - by rewrite lookup_delete.
  - by rewrite lookup_delete_ne.
Qed.

(** ** One step, basic operations (everything but copy and move) *)

Definition basic (b : UserView.ubody) : bool :=
  match b with UserView.UMove _ _ | UserView.UCopy _ _ => false | _ => true end.

Lemma pack_rep U T u t : Rep U T → RepO u t →
  Rep (match u with Some U' => (U', true) | None => (U, false) end).1 (pack T t).1 ∧
  (match u with Some U' => (U', true) | None => (U, false) end).2 = (pack T t).2.
Proof. intros HR H. by destruct u, t. Qed.

Lemma t_step_pack T o :
  t_step T o = pack T
    match o with
    | OGroup q => if is_node_path q then t_create_group T q else None
    | OData q v => if is_node_path q && negb (is_del_value v) then t_set_data T q v else None
    | ODel q => if is_node_path q then t_delete T q else None
    | OAttrSet p k v => if is_node_path p && negb (is_del_value v) then t_attr_set T p k v else None
    | OAttrDel p k => if is_node_path p then t_attr_del T p k else None
    | OCopy s d => if is_node_path s && is_node_path d then t_copy T s d else None
    | OMove s d => if is_node_path s && is_node_path d then t_move T s d else None
    | OBoundary => Some T
    end.
Proof. done. Qed.

Lemma step_rep_basic U T (o : UserView.uop) o' :
  Rep U T → root_ok U → common U o = true → conv o = Some o' → basic o.2 = true →
  Rep (UserView.u_step U o).1 (t_step T o').1 ∧ (UserView.u_step U o).2 = (t_step T o').2.
Proof.
  intros HR H0 Hc Hv Hb. destruct o as [recv b]. unfold common in Hc. cbn in Hc, Hv, Hb.
  apply andb_prop in Hc as [Hrecv Hside]. unfold UserView.u_step. cbn [fst snd].
  rewrite Hrecv, t_step_pack. apply pack_rep; [done|].
  destruct b as [q|q|q v|q v|q|s d|s d|q k v|q k]; cbn in Hv, Hb, Hside; try done;
    injection Hv as <-; cbn [UserView.u_apply]; rewrite ?node_rpath; cbn [andb].
  - by apply create_group_rep.
  - rewrite Hside. by apply set_data_rep.
  - by apply delete_rep.
  - rewrite Hside. by apply attr_set_rep.
  - by apply attr_del_rep.
Qed.

(** The root entry stays a group. *)
Lemma root_put U (p : upath) o : root_ok U → root_ok (UserView.t_put U p o).
Proof.
  unfold root_ok. rewrite SyncProofs.t_get_put. by destruct (uget U []).
Qed.

Lemma root_mkgroups : ∀ (rest : upath) U (base : upath) U1,
  UserView.mkgroups_from U base rest = Some U1 → root_ok U → root_ok U1.
Proof.
  induction rest as [|s r IH]; intros U base U1 H H0; cbn in H; [by injection H as <-|].
  destruct (uget U (base ++ [s])) as [[[|v] a]|]; [by eapply IH|done|].
  eapply IH; [done|]. by apply root_put.
Qed.

Lemma root_upd U (p : upath) f : (∀ o, UserView.okind (f o) = UserView.okind o) →
  root_ok U → root_ok (UserView.t_upd U p f).
Proof.
  intros Hk. unfold root_ok. rewrite SyncProofs.t_get_upd.
  destruct (UserView.path_eqb [] p); [|done].
  destruct (uget U []) as [o|]; [|done]. cbn. specialize (Hk o).
  destruct o as [[|?] ?], (f _) as [[|?] ?]; cbn in *; done.
Qed.

Lemma root_apply_basic U b U' : root_ok U → basic b = true →
  UserView.u_apply U b = Some U' → root_ok U'.
Proof.
  intros H0 Hb H. destruct b as [q|q|q v|q v|q|s d|s d|q k v|q k]; cbn in Hb, H; try done.
  - unfold UserView.u_create_group in H. destruct q; [done|].
    destruct (uhas U _); [done|]. by eapply root_mkgroups.
  - unfold UserView.u_require_group in H.
    destruct (uget U q) as [[[|?] ?]|]; [by injection H as <-|done|]. by eapply root_mkgroups.
  - unfold UserView.u_create_dataset in H. destruct q; [done|].
    destruct (uhas U _); [done|].
    destruct (UserView.t_mkgroups U _) as [U1|] eqn:E; [|done]. injection H as <-.
    apply root_put. by eapply root_mkgroups.
  - unfold UserView.u_require_dataset in H.
    destruct (uget U q) as [[[|?] ?]|]; [done|by injection H as <-|].
    unfold UserView.u_create_dataset in H. destruct q; [done|].
    destruct (uhas U _); [done|].
    destruct (UserView.t_mkgroups U _) as [U1|] eqn:E; [|done]. injection H as <-.
    apply root_put. by eapply root_mkgroups.
  - unfold UserView.u_delete in H. destruct q as [|x q]; [done|].
    destruct (uhas U _); [|done]. injection H as <-. unfold root_ok.
    by rewrite SyncProofs.t_get_cut.
  - unfold UserView.u_attr_set in H. destruct (uhas U q); [|done]. injection H as <-.
    by apply root_upd.
  - unfold UserView.u_attr_del in H. destruct (uget U q); [|done].
    destruct (UserView.a_has _ _); [|done]. injection H as <-. by apply root_upd.
Qed.

(** ** Copy and move *)

Lemma uget_map_key (r : upath → upath) (X : utree) (x k0 : upath) :
  (∀ k, In k (map fst X) → (r k = x ↔ k = k0)) →
  uget (map (λ e : UserView.entry, (r e.1, e.2)) X) x = uget X k0.
Proof.
  unfold UserView.t_get. induction X as [|[k o] X IH]; intros H; [done|]. cbn.
  destruct (UserView.path_eqb (r k) x) eqn:E1, (UserView.path_eqb k k0) eqn:E2; cbn.
  - done.
  - apply UserViewProofs.path_eqb_eq in E1. apply (H k) in E1; [|by left].
    subst. by rewrite UserViewProofs.path_eqb_refl in E2.
  - apply UserViewProofs.path_eqb_eq in E2. apply (H k) in E2; [|by left].
    subst. by rewrite UserViewProofs.path_eqb_refl in E1.
  - apply IH. intros k' Hk'. apply H. by right.
Qed.

Lemma uget_map_none (r : upath → upath) (X : utree) (x : upath) :
  (∀ k, In k (map fst X) → r k ≠ x) →
  uget (map (λ e : UserView.entry, (r e.1, e.2)) X) x = None.
Proof.
  unfold UserView.t_get. induction X as [|[k o] X IH]; intros H; [done|]. cbn.
  destruct (UserView.path_eqb (r k) x) eqn:E1.
  - apply UserViewProofs.path_eqb_eq in E1. by apply (H k) in E1; [|left].
  - apply IH. intros k' Hk'. apply H. by right.
Qed.

Lemma rebase_under (s d t : upath) : UserView.rebase s d (s ++ t) = d ++ t.
Proof.
  unfold UserView.rebase. rewrite UserViewProofs.is_prefix_app.
  by rewrite skipn_app, skipn_all, Nat.sub_diag.
Qed.

Lemma rebase_other (s d k : upath) : UserView.is_prefix s k = false → UserView.rebase s d k = k.
Proof. unfold UserView.rebase. by intros ->. Qed.

Lemma prefix_app_drop (d t : upath) : skipn (length d) (d ++ t) = t.
Proof. by rewrite skipn_app, skipn_all, Nat.sub_diag. Qed.

Lemma prefix_false_app (d x t : upath) : UserView.is_prefix d x = false → x ≠ d ++ t.
Proof. intros H ->. by rewrite UserViewProofs.is_prefix_app in H. Qed.

Lemma uget_copy U U1 (s d x : upath) :
  uget (U1 ++ UserView.t_rename s d (UserView.t_sub s U)) x =
  match uget U1 x with
  | Some o => Some o
  | None => if UserView.is_prefix d x then uget U (s ++ skipn (length d) x) else None
  end.
Proof.
  rewrite SyncProofs.t_get_app. destruct (uget U1 x) as [o|]; [done|].
  unfold UserView.t_rename.
  assert (∀ k, In k (map fst (UserView.t_sub s U)) → UserView.is_prefix s k = true) as Hsub.
  { intros k Hk. apply in_map_iff in Hk as (e & <- & He). unfold UserView.t_sub in He.
    by apply filter_In in He as [_ He]. }
  destruct (UserView.is_prefix d x) eqn:P.
  - apply is_prefix_iff in P as [t ->]. rewrite prefix_app_drop.
    rewrite (uget_map_key _ _ _ (s ++ t)).
    + by rewrite SyncProofs.t_get_sub, UserViewProofs.is_prefix_app.
    + intros k Hk. apply Hsub, is_prefix_iff in Hk as [t' ->]. rewrite rebase_under.
      split; [by intros ->%app_inv_head|by intros ->%app_inv_head].
  - apply uget_map_none. intros k Hk. apply Hsub, is_prefix_iff in Hk as [t' ->].
    rewrite rebase_under. intros E. symmetry in E. by apply prefix_false_app in E.
Qed.

Definition Fresh (U : utree) (d : upath) : Prop := ∀ t, uget U (d ++ t) = None.

Lemma uget_rename U1 (s d x : upath) : Fresh U1 d → UserView.is_prefix s d = false →
  uget (UserView.t_rename s d U1) x =
  if UserView.is_prefix d x then uget U1 (s ++ skipn (length d) x)
  else if UserView.is_prefix s x then None else uget U1 x.
Proof.
  intros HF Hsd. unfold UserView.t_rename.
  assert (∀ k t, In k (map fst U1) → k ≠ d ++ t) as Hkeys.
  { intros k t Hk ->. apply SyncProofs.in_keys_t_has in Hk. unfold UserView.t_has in Hk.
    by rewrite HF in Hk. }
  destruct (UserView.is_prefix d x) eqn:P.
  - apply is_prefix_iff in P as [t ->]. rewrite prefix_app_drop.
    apply uget_map_key. intros k Hk. destruct (UserView.is_prefix s k) eqn:Q.
    + apply is_prefix_iff in Q as [t' ->]. rewrite rebase_under.
      split; [by intros ->%app_inv_head|by intros ->%app_inv_head].
    + rewrite rebase_other by done. split.
      * intros ->. by apply (Hkeys _ t) in Hk.
      * intros ->. by rewrite UserViewProofs.is_prefix_app in Q.
  - destruct (UserView.is_prefix s x) eqn:Q.
    + apply uget_map_none. intros k Hk. destruct (UserView.is_prefix s k) eqn:Q'.
      * apply is_prefix_iff in Q' as [t' ->]. rewrite rebase_under. intros E. symmetry in E.
        by apply prefix_false_app in E.
      * rewrite rebase_other by done. intros ->. congruence.
    + apply uget_map_key. intros k Hk. destruct (UserView.is_prefix s k) eqn:Q'.
      * apply is_prefix_iff in Q' as [t' ->]. rewrite rebase_under. split.
        -- intros E. symmetry in E. by apply prefix_false_app in E.
        -- intros <-. by rewrite UserViewProofs.is_prefix_app in Q.
      * by rewrite rebase_other.
Qed.

Lemma mkgroups_mono : ∀ (rest : upath) U (base : upath) U1 (p : upath) o,
  UserView.mkgroups_from U base rest = Some U1 → uget U p = Some o → uget U1 p = Some o.
Proof.
  induction rest as [|s r IH]; intros U base U1 p o H G; cbn in H; [by injection H as <-|].
  destruct (uget U (base ++ [s])) as [[[|v] a]|]; [by eapply IH|done|].
  eapply IH; [done|]. by rewrite SyncProofs.t_get_put, G.
Qed.

Lemma mkgroups_frame U (a : upath) U1 (x : upath) :
  UserView.t_mkgroups U a = Some U1 → UserView.is_prefix x a = false → uget U1 x = uget U x.
Proof.
  intros H Hx. destruct (uget U x) as [o|] eqn:G; [by eapply mkgroups_mono|].
  destruct (uget U1 x) as [o|] eqn:G1; [|done]. exfalso.
  pose proof (SyncProofs.mkgroups_only_prefixes _ _ _ _ H x G) as HP.
  unfold UserView.t_has in HP. rewrite G1 in HP. specialize (HP eq_refl). cbn in HP. congruence.
Qed.

Lemma wf_fresh U (d : upath) : wf U → uhas U d = false → Fresh U d.
Proof.
  intros [_ HP] Hd t. induction t as [|z t IH] using rev_ind.
  - rewrite app_nil_r. unfold UserView.t_has in Hd. by destruct (uget U d).
  - destruct (uget U (d ++ t ++ [z])) as [o|] eqn:G; [|done]. exfalso.
    specialize (HP (d ++ t) z). rewrite <- app_assoc in HP. unfold UserView.t_has in HP.
    rewrite G, IH in HP. by specialize (HP eq_refl).
Qed.

Lemma prefix_parent_false (x d : upath) : d ≠ [] →
  UserView.is_prefix d x = true → UserView.is_prefix x (UserView.parent d) = false.
Proof.
  intros Hd H. destruct (UserView.is_prefix x (UserView.parent d)) eqn:E; [|done]. exfalso.
  pose proof (SyncProofs.is_prefix_trans _ _ _ H E) as HT.
  by rewrite SyncProofs.not_prefix_longer in HT.
Qed.

Lemma fresh_mkgroups U (d : upath) U1 : d ≠ [] → Fresh U d →
  UserView.t_mkgroups U (UserView.parent d) = Some U1 → Fresh U1 d.
Proof.
  intros Hd HF H t. rewrite (mkgroups_frame U _ U1 _ H); [apply HF|].
  apply prefix_parent_false; [done|]. apply UserViewProofs.is_prefix_app.
Qed.

(** Re-rooting a path below [d] to below [s]. *)
Lemma reroot (d s : upath) (q : path) (p : upath) :
  owner q = Some p → UserView.is_prefix d p = true → s ≠ [] →
  ∃ r, q = r ++ rpath d ∧ owner (r ++ rpath s) = Some (s ++ skipn (length d) p) ∧
       ∀ o, ent o (r ++ rpath s) = ent o q.
Proof.
  intros Ho [t ->]%is_prefix_iff Hs. rewrite prefix_app_drop.
  destruct (owner_Some _ _ Ho) as [[-> Hne]|[k ->]].
  - exists (rpath t). rewrite <- !rpath_app. split; [done|]. split.
    + apply owner_node. by destruct s.
    + intros o. by rewrite !ent_node.
  - exists ((true, k) :: rpath t). rewrite <- !app_comm_cons, <- !rpath_app. split; [done|].
    split; [apply owner_attr|done].
Qed.

Lemma owner_reroot_None (d s : upath) (r : path) : s ≠ [] → d ≠ [] →
  owner (r ++ rpath d) = None → owner (r ++ rpath s) = None.
Proof.
  intros Hs Hd. destruct r as [|[b k] r]; cbn [app].
  - rewrite owner_node by done. done.
  - cbn [owner]. rewrite !node_path_app, !node_rpath. by destruct b, (is_node_path r).
Qed.

Section CopyMove.
  Context (U : utree) (T : tree) (s d : upath) (U1 : utree) (T1 : tree).
  Hypothesis HR : Rep U T.
  Hypothesis HR1 : Rep U1 T1.
  Hypothesis Hs : s ≠ [].
  Hypothesis Hd : d ≠ [].
  Hypothesis Hsd : UserView.is_prefix s d = false.
  Hypothesis HF : Fresh U d.
  Hypothesis HM : UserView.t_mkgroups U (UserView.parent d) = Some U1.

  Let Uc := U1 ++ UserView.t_rename s d (UserView.t_sub s U).
  Let Tc : tree := t_graft_snap (rel_snap T (rpath s)) (rpath d) ∪ T1.

  Lemma fresh1 : Fresh U1 d.
  Proof. by eapply fresh_mkgroups. Qed.

  Lemma src_frame (t : upath) : uget U1 (s ++ t) = uget U (s ++ t).
  Proof.
    apply (mkgroups_frame U _ U1 _ HM).
    destruct (UserView.is_prefix (s ++ t) (UserView.parent d)) eqn:E; [|done]. exfalso.
    assert (UserView.is_prefix s d = true); [|congruence].
    eapply SyncProofs.is_prefix_trans; [apply UserViewProofs.is_prefix_app|].
    eapply SyncProofs.is_prefix_trans; [apply E|]. by apply SyncProofs.is_prefix_parent.
  Qed.

  Lemma copy_rep_core : Rep Uc Tc.
  Proof.
    intros q. unfold Tc, Uc. rewrite lookup_union. unfold look at 1.
    destruct (owner q) as [p|] eqn:Ho.
    - rewrite uget_copy. destruct (UserView.is_prefix d p) eqn:P.
      + destruct (reroot d s q p Ho P Hs) as (r & -> & Hor & He).
        rewrite graft_snap_lookup, rel_snap_lookup, HR, HR1.
        unfold look. rewrite Hor, Ho.
        apply is_prefix_iff in P as [t ->]. rewrite prefix_app_drop in *.
        rewrite fresh1.
        destruct (uget U (s ++ t)) as [o|]; [|done]. rewrite He.
        by destruct (ent o (r ++ rpath d)).
      + rewrite graft_snap_None, HR1, (left_id None _).
        * unfold look. rewrite Ho. by destruct (uget U1 p).
        * intros Hu. apply (owner_under d q p Ho) in Hu. congruence.
    - rewrite HR1. assert (look U1 q = None) as -> by (unfold look; by rewrite Ho).
      destruct (decide (under (rpath d) q)) as [[r ->]|Hn].
      + rewrite graft_snap_lookup, rel_snap_lookup, HR. unfold look.
        by rewrite (owner_reroot_None d s r Hs Hd Ho).
      + by rewrite graft_snap_None.
  Qed.

  Hypothesis Hsrc : uhas U s = true.

  Lemma move_look (q : path) :
    look (UserView.t_rename s d U1) q =
    if decide (under (rpath s) q) then None else look Uc q.
  Proof.
    unfold look. destruct (owner q) as [p|] eqn:Ho; [|by destruct (decide _)].
    rewrite (uget_rename U1 s d p fresh1 Hsd). unfold Uc. rewrite uget_copy.
    pose proof (owner_under s q p Ho) as Hu.
    destruct (UserView.is_prefix d p) eqn:P.
    - rewrite decide_False.
      + apply is_prefix_iff in P as [t ->]. by rewrite fresh1, ?prefix_app_drop, ?src_frame.
      + intros H. apply Hu in H.
        apply is_prefix_iff in P, H.
        destruct (prefix_weak_total s d p H P) as [[t E]|[t E]].
        * assert (UserView.is_prefix s d = true) by (apply is_prefix_iff; by exists t). congruence.
        * pose proof (src_frame []) as F. rewrite app_nil_r, E, fresh1 in F.
          unfold UserView.t_has in Hsrc. rewrite E, <- F in Hsrc. done.
    - destruct (UserView.is_prefix s p) eqn:Q.
      + rewrite decide_True; [done|]. by apply Hu.
      + rewrite decide_False; [by destruct (uget U1 p)|]. intros H. apply Hu in H. congruence.
  Qed.

  Lemma move_rep_core : Rep (UserView.t_rename s d U1) (cut (rpath s) Tc).
  Proof. intros q. by rewrite move_look, cut_lookup, copy_rep_core. Qed.

  Lemma copy_src_kept : is_Some (Tc !! rpath s).
  Proof.
    rewrite copy_rep_core. unfold Uc, look. rewrite owner_node by done.
    rewrite uget_copy. pose proof (src_frame []) as F. rewrite app_nil_r in F. rewrite F.
    unfold UserView.t_has in Hsrc. destruct (uget U s) as [o|]; [|done].
    rewrite ent_node. by eexists.
  Qed.
End CopyMove.

Lemma t_copy_eq T (s d : upath) : s ≠ [] → d ≠ [] →
  t_copy T (rpath s) (rpath d) =
  match T !! rpath s, T !! rpath d with
  | Some _, None =>
      match t_mkgroups T (rpath (UserView.parent d)) with
      | None => None
      | Some T1 => Some (t_graft_snap (rel_snap T (rpath s)) (rpath d) ∪ T1)
      end
  | _, _ => None
  end.
Proof.
  intros Hs Hd. destruct (exists_last Hd) as (d' & z & ->).
  rewrite SyncProofs.parent_app1, rpath_snoc. unfold t_copy.
  destruct (rpath s) as [|s0 r0] eqn:E; [by apply rpath_nil in E|]. done.
Qed.

Lemma has_look U T (p : upath) : Rep U T → p ≠ [] →
  uhas U p = match T !! rpath p with Some _ => true | None => false end.
Proof.
  intros HR Hp. rewrite HR, look_node by done. unfold UserView.t_has. by destruct (uget U p).
Qed.

Lemma below_false_prefix (s d : upath) :
  UserView.is_below s d = false → UserView.is_prefix s d = true → d = s.
Proof.
  unfold UserView.is_below. intros Hb Hp. rewrite Hp, andb_true_r in Hb.
  apply Nat.ltb_ge in Hb. apply is_prefix_iff in Hp as [t ->]. rewrite app_length in Hb.
  destruct t; [by rewrite app_nil_r|]. cbn in Hb. lia.
Qed.

Lemma copy_rep U T (s d : upath) : Rep U T → wf U →
  RepO (UserView.u_copy U s d) (t_copy T (rpath s) (rpath d)).
Proof.
  intros HR Hwf. unfold UserView.u_copy.
  destruct (decide (s = [])) as [->|Hs]; [done|].
  destruct (decide (d = [])) as [->|Hd].
  { destruct s; [done|]. unfold t_copy. by destruct (rpath (_ :: _)). }
  assert (∀ X : option utree, match s, d with [], _ | _, [] => None | _, _ => X end = X) as ->
    by (intros X; by destruct s, d).
  rewrite t_copy_eq by done. rewrite !(has_look U T) by done.
  destruct (T !! rpath s) eqn:Es, (T !! rpath d) eqn:Ed; cbn; try done.
  pose proof (mk_rep U T HR (UserView.parent d)) as HM.
  destruct (UserView.t_mkgroups U (UserView.parent d)) as [U1|] eqn:EU,
           (t_mkgroups T (rpath (UserView.parent d))) as [T1|]; try done.
  cbn. apply (copy_rep_core U T s d U1 T1); try done.
  apply wf_fresh; [done|]. rewrite (has_look U T) by done. by rewrite Ed.
Qed.

Lemma move_rep U T (s d : upath) : Rep U T → wf U →
  RepO (UserView.u_move U s d) (t_move T (rpath s) (rpath d)).
Proof.
  intros HR Hwf. unfold UserView.u_move, t_move.
  destruct (decide (s = [])) as [->|Hs].
  { rewrite decide_True; [done|]. apply suffix_nil. }
  destruct (decide (d = [])) as [->|Hd].
  { destruct s as [|x s]; [done|]. rewrite decide_False.
    - unfold t_copy. by destruct (rpath (_ :: _)).
    - intros H%suffix_nil_inv. by apply rpath_nil in H. }
  assert (∀ X : option utree, match s, d with [], _ | _, [] => None | _, _ => X end = X) as ->
    by (intros X; by destruct s, d).
  destruct (UserView.is_prefix s d) eqn:Hsd.
  - rewrite decide_True; [done|]. by apply prefix_under.
  - rewrite decide_False by (intros H%prefix_under; congruence).
    rewrite t_copy_eq by done. rewrite !(has_look U T) by done. cbn [orb].
    destruct (T !! rpath s) eqn:Es, (T !! rpath d) eqn:Ed; cbn; try done.
    pose proof (mk_rep U T HR (UserView.parent d)) as HM.
    destruct (UserView.t_mkgroups U (UserView.parent d)) as [U1|] eqn:EU,
             (t_mkgroups T (rpath (UserView.parent d))) as [T1|]; try done.
    cbn in HM.
    assert (Fresh U d) as HF.
    { apply wf_fresh; [done|]. rewrite (has_look U T) by done. by rewrite Ed. }
    assert (uhas U s = true) as Hsrc by (rewrite (has_look U T) by done; by rewrite Es).
    unfold t_delete.
    destruct (rpath s) as [|s0 r0] eqn:E; [by apply rpath_nil in E|]. rewrite <- E.
    destruct (copy_src_kept U T s d U1 T1 HR HM Hs Hd Hsd HF EU Hsrc) as [e ->].
    cbn. by apply (move_rep_core U T s d U1 T1).
Qed.

(** ** One step, every operation of the common fragment *)

Lemma step_rep U T (o : UserView.uop) o' :
  Rep U T → wf U → common U o = true → conv o = Some o' →
  Rep (UserView.u_step U o).1 (t_step T o').1 ∧ (UserView.u_step U o).2 = (t_step T o').2.
Proof.
  intros HR Hwf Hc Hv. destruct (basic o.2) eqn:Hb.
  { apply step_rep_basic; try done. apply Hwf. }
  destruct o as [recv b]. unfold common in Hc. cbn in Hc, Hv, Hb.
  apply andb_prop in Hc as [Hrecv Hside]. unfold UserView.u_step. cbn [fst snd].
  rewrite Hrecv, t_step_pack. apply pack_rep; [done|].
  destruct b as [q|q|q v|q v|q|s d|s d|q k v|q k]; cbn in Hv, Hb, Hside; try done;
    injection Hv as <-; cbn [UserView.u_apply]; rewrite ?node_rpath; cbn [andb].
  - by apply move_rep.
  - by apply copy_rep.
Qed.

Lemma root_apply U b U' : wf U → UserView.u_apply U b = Some U' → root_ok U'.
Proof.
  intros Hwf H. destruct (basic b) eqn:Hb.
  { eapply root_apply_basic; [apply Hwf|done|done]. }
  destruct b as [q|q|q v|q v|q|s d|s d|q k v|q k]; cbn in Hb, H; try done.
  - unfold UserView.u_move in H. destruct s as [|x s]; [done|]. destruct d as [|y d]; [done|].
    destruct (UserView.is_prefix (x :: s) (y :: d)) eqn:Hsd; [done|]. cbn [orb] in H.
    destruct (uhas U (x :: s)); [|done]. cbn [negb orb] in H.
    destruct (uhas U (y :: d)) eqn:Hd; [done|].
    destruct (UserView.t_mkgroups U _) as [U1|] eqn:EU; [|done]. injection H as <-.
    unfold root_ok. rewrite uget_rename; [|eapply fresh_mkgroups; [done| |done]|done].
    + cbn. eapply root_mkgroups; [done|apply Hwf].
    + by apply wf_fresh.
  - unfold UserView.u_copy in H. destruct s as [|x s]; [done|]. destruct d as [|y d]; [done|].
    destruct (_ || _); [done|].
    destruct (UserView.t_mkgroups U _) as [U1|] eqn:EU; [|done]. injection H as <-.
    unfold root_ok. rewrite SyncProofs.t_get_app.
    pose proof (root_mkgroups _ _ _ _ EU (proj1 Hwf)) as H1. unfold root_ok in H1.
    by destruct (uget U1 []).
Qed.

Lemma root_step U o : wf U → root_ok (UserView.u_step U o).1.
Proof.
  intros Hwf. unfold UserView.u_step. destruct (forallb _ _); [|apply Hwf].
  destruct (UserView.u_apply U o.2) eqn:E; [|apply Hwf]. by eapply root_apply.
Qed.

(** Well-formedness of the association-list tree, read off the overlay model's side. *)
Lemma wf_from_sim U T R : Rep U T → root_ok U → Sim R T → wf U.
Proof.
  intros HR H0 HS. split; [done|]. intros p z Hh.
  pose proof (sim_wf R T HS) as Hw.
  assert (is_Some (T !! ((false, z) :: rpath p))) as HSome.
  { rewrite <- rpath_snoc, HR, look_node by (by destruct p). unfold UserView.t_has in Hh.
    destruct (uget U (p ++ [z])); [by eexists|done]. }
  destruct (Hw _ _ HSome) as (te & Ht & Hth).
  destruct p as [|x p]; [done|].
  rewrite tget_ne in Ht by apply rpath_cons_ne. rewrite HR, look_node in Ht by done.
  destruct (uget U (x :: p)) as [[[|v] a]|]; cbn in Ht; [done| |done]. injection Ht as <-.
  unfold tholds in Hth. by destruct (rpath (x :: p)) as [|[[] ?] ?].
Qed.

(** ** Runs *)

Definition BI (U : utree) (T : tree) : Prop := Rep U T ∧ root_ok U ∧ ∃ R, Sim R T.

Lemma bi_wf U T : BI U T → wf U.
Proof. intros (HR & H0 & R & HS). by eapply wf_from_sim. Qed.

Lemma run_rep : ∀ ops U T, BI U T → common_run U ops = true →
  BI (UserView.u_run U ops) (foldl (λ T o, (t_step T o).1) T (omap conv ops)).
Proof.
  induction ops as [|o ops IH]; intros U T HB Hc; [done|].
  cbn in Hc. apply andb_prop in Hc as [Hc Hrun]. apply andb_prop in Hc as [Hc Hv].
  apply bool_decide_eq_true_1 in Hv as [o' Hv].
  unfold UserView.u_run. cbn [fold_left]. change (omap conv (o :: ops)) with (match conv o with Some y => y :: omap conv ops | None => omap conv ops end). rewrite Hv. cbn [foldl].
  apply IH; [|done]. pose proof (bi_wf U T HB) as Hwf.
  destruct HB as (HR & H0 & R & HS). split; [|split].
  - by apply step_rep.
  - by apply root_step.
  - exists (m_step R o').1. by apply step_refines.
Qed.

Lemma rep_init : Rep u_init ∅.
Proof.
  intros q. rewrite lookup_empty. unfold look. destruct (owner q) as [p|] eqn:Ho; [|done].
  destruct p as [|x p]; [|done]. destruct (owner_Some q [] Ho) as [[_ ?]|[k ->]]; done.
Qed.

Lemma bi_init : BI u_init ∅.
Proof. split; [apply rep_init|]. split; [done|]. exists m_init. apply init_sim. Qed.

(** ** The theorems *)

(** One step of any operation kind of the common fragment: the overlay model's tree does to
    [abs U] what the association-list model does to [U]; same result class. *)
Theorem bridge_step U (o : UserView.uop) o' :
  wf U → common U o = true → conv o = Some o' →
  t_step (abs U) o' = (abs (UserView.u_step U o).1, (UserView.u_step U o).2).
Proof.
  intros Hwf Hc Hv. destruct (step_rep U (abs U) o o' (rep_abs U) Hwf Hc Hv) as [HR Hb].
  apply rep_unique in HR. destruct (t_step (abs U) o') as [T' b]. cbn in *. by subst.
Qed.

(** Whole operation lists from the initial tree: same tree, and the association-list tree
    stays well-formed. *)
Theorem bridge_run (ops : list UserView.uop) :
  common_run u_init ops = true →
  run_t (omap conv ops) = abs (UserView.u_run u_init ops) ∧ wf (UserView.u_run u_init ops).
Proof.
  intros Hc. pose proof (run_rep ops u_init ∅ bi_init Hc) as HB. split.
  - apply rep_unique, HB.
  - by eapply bi_wf.
Qed.

(** The overlay view after a history with patch boundaries anywhere. *)
Theorem bridge_overlay_view (mops : list op) (uops : list UserView.uop) :
  common_run u_init uops = true → strip_bnd mops = omap conv uops →
  viewmap (run_m mops) = abs (UserView.u_run u_init uops) ∧
  ∀ p, vget (run_m mops) p = tget (abs (UserView.u_run u_init uops)) p.
Proof.
  intros Hc Hs. destruct (transparent mops) as (_ & Hv & Hm & _).
  destruct (bridge_run uops Hc) as [Hr _].
  assert (run_t mops = abs (UserView.u_run u_init uops)) as E
    by (by rewrite <- run_t_strip, Hs).
  split; [by rewrite Hm|]. intros p. by rewrite Hv, E.
Qed.

Lemma state_t_writes prog n : state_t prog n = run_t (writes prog n).
Proof.
  unfold state_t, run_t. induction n as [|n IH]; [done|].
  cbn [exec_t writes]. unfold trace_t. destruct (exec_t prog n) as [T h] eqn:E. cbn in IH. cbn [snd].
  destruct (prog h) as [[o|q]|]; cbn.
  - rewrite foldl_app. cbn. rewrite <- IH. by destruct (t_step T o).
  - by rewrite app_nil_r.
  - by rewrite app_nil_r.
Qed.

(** Any client of the protocol (the container layer is one), any boundary schedule: if its
    raw write requests are the operation list [uops] of the association-list model, the IH5
    overlay view is [abs] of that model's tree, and every read is answered from it. *)
Theorem bridge_driver_view (prog : client) (bs : nat → bool) (n : nat) (uops : list UserView.uop) :
  common_run u_init uops = true → strip_bnd (writes prog n) = omap conv uops →
  viewmap (state_m prog bs n) = abs (UserView.u_run u_init uops) ∧
  ∀ rq, read_m (state_m prog bs n) rq = read_t (abs (UserView.u_run u_init uops)) rq.
Proof.
  intros Hc Hs. destruct (driver_view_equiv prog bs n) as [Hv Hr].
  destruct (bridge_run uops Hc) as [Hb _].
  assert (state_t prog n = abs (UserView.u_run u_init uops)) as E
    by (by rewrite state_t_writes, <- run_t_strip, Hs).
  split; [by rewrite Hv|]. intros rq. by rewrite Hr, E.
Qed.

(** ** Non-vacuity ([demo_uops], [demo_mops] in [Bridge/PlainTree.v]) *)
Lemma bridge_witness :
  common_run u_init demo_uops = true ∧
  strip_bnd demo_mops = omap conv demo_uops ∧
  length (run_m demo_mops) = 4 ∧
  classes u_init demo_uops =
    [true; true; true; true; true; true; true; true; true; false; false; false] ∧
  viewmap (run_m demo_mops) = abs (UserView.u_run u_init demo_uops) ∧
  map_to_list (abs (UserView.u_run u_init demo_uops)) =
    [([(false, "a")], TGroup); ([(true, "m"); (false, "a")], TData "e:");
     ([(false, "x"); (false, "a")], TData "i:1");
     ([(true, "k"); (false, "x"); (false, "a")], TData "i:2");
     ([(false, "c")], TGroup); ([(false, "d"); (false, "c")], TGroup);
     ([(false, "b"); (false, "d"); (false, "c")], TGroup);
     ([(false, "e")], TGroup); ([(true, "r")], TData "i:3")]%string.
Proof.
  split; [by vm_compute|]. split; [by vm_compute|]. split; [by vm_compute|].
  split; [by vm_compute|]. split; [|by vm_compute].
  by apply (bridge_overlay_view demo_mops demo_uops).
Qed.
