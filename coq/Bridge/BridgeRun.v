(** Runner entry for the bridge between the two plain-tree models: decodes an operation
    list (wire format of [IH5/OverlayRun.v] without boundaries), runs [Overlay.t_step] and
    [UserView.u_step] side by side, prints per step both result classes, whether
    [abs] of the association-list tree is the overlay model's tree, and both trees. *)
From stdpp Require Import gmap strings list.
From MV Require Import Base.Sx IH5.Overlay IH5.OverlayRun Bridge.PlainTree.
From MV Require Toc.UserView.

Local Instance op_eq_dec : EqDecision op.
Proof. solve_decision. Defined.

Definition sx_ubody (x : sx) : option UserView.ubody :=
  match x with
  | L [A "grp"; p] => option_map UserView.UCreateGroup (sx_strings p)
  | L [A "set"; p; A v] => option_map (λ q, UserView.UCreateDataset q v) (sx_strings p)
  | L [A "del"; p] => option_map UserView.UDelete (sx_strings p)
  | L [A "aset"; p; A k; A v] => option_map (λ q, UserView.UAttrSet q k v) (sx_strings p)
  | L [A "adel"; p; A k] => option_map (λ q, UserView.UAttrDel q k) (sx_strings p)
  | L [A "copy"; s; d] =>
      match sx_strings s, sx_strings d with
      | Some s, Some d => Some (UserView.UCopy s d) | _, _ => None end
  | L [A "move"; s; d] =>
      match sx_strings s, sx_strings d with
      | Some s, Some d => Some (UserView.UMove s d) | _, _ => None end
  | _ => None
  end.

Definition of_uobj (o : UserView.obj) : list sx :=
  match UserView.okind o with
  | UserView.KGroup => [A "G"]
  | UserView.KData v => [A "D"; A v]
  end ++ [L (map (λ kv : string * string, L [A kv.1; A kv.2]) (UserView.oattrs o))].

Definition of_utree (T : UserView.tree) : sx :=
  L (map (λ e : UserView.entry, L (L (map A e.1) :: of_uobj e.2)) T).

(** Per step: [(t-ok u-ok in-fragment abs-equal overlay-tree list-tree)].  The overlay
    model's operation is [conv] of the decoded association-list operation, so the wire
    decoding of [OverlayRun.sx_op] is cross-checked too ([same-op]). *)
Fixpoint bridge_steps (T : tree) (U : UserView.tree) (xs : list sx) : list sx :=
  match xs with
  | [] => []
  | x :: rest =>
      match sx_ubody x with
      | None => [sx_bad "bridge op"]
      | Some b =>
          match conv_body b with
          | None => [sx_bad "bridge conv"]
          | Some o =>
              let uo : UserView.uop := ([], b) in
              let '(T', tr) := t_step T o in
              let '(U', ur) := UserView.u_step U uo in
              L [of_bool tr; of_bool ur; of_bool (common U uo);
                 of_bool (bool_decide (abs U' = T'));
                 of_bool (bool_decide (sx_op x = Some o));
                 of_tree T'; of_utree U']
                :: bridge_steps T' U' rest
          end
      end
  end.

Definition run_bridge (x : sx) : sx :=
  match x with
  | L xs => L (bridge_steps ∅ u_init xs)
  | _ => sx_bad "bridge"
  end.
