(** The single extraction file.  Directives in use: [ExtrOcamlBasic] (bool, option,
    list, prod, unit, sumbool to OCaml natives) and [ExtrOcamlString] (ascii to char,
    string to char list).  No [Extract Constant]; numbers stay [positive]/[N]/[Z]
    datatypes.  Compiled from build/extract by harness/vlib.py (not part of make). *)
From Coq Require Extraction ExtrOcamlBasic ExtrOcamlString.
From MV Require Import Extract.Dispatch.
Extraction Language OCaml.
Extraction "model.ml" dispatch.
