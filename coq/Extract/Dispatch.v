(** The single dispatch function of the model runner: first atom selects the model. *)
From Coq Require Import List String.
From MV Require Import Base.Sx.
From MV Require Util.PluginRef.
From MV Require Util.EpName.
From MV Require IH5.OverlayRun.
From MV Require Util.Diff.
From MV Require Util.DirHash.
From MV Require Util.DirHashChain.
From MV Require Rec.Chain.
From MV Require Schema.Partial.
From MV Require Schema.RoundTrip.
From MV Require IH5.Bytes.
From MV Require Rec.Modes.
From MV Require Toc.Acl.
From MV Require Schema.Subtype.
From MV Require Toc.UserView.
From MV Require Rec.Crash.
From MV Require Rec.JsonGrammar.
From MV Require Rec.Frozen.
From MV Require IH5.Stub.
From MV Require IH5.MergeRun.
From MV Require IH5.Client.
From MV Require Toc.Sync.
From MV Require Toc.Query.
From MV Require Toc.SelfDesc.
From MV Require Bridge.BridgeRun.
Import ListNotations.
Local Open Scope string_scope.

Definition dispatch (x : sx) : sx :=
  match x with
  | L [A "c16"; c] => Util.PluginRef.run_c16 c
  | L [A "c16e"; c] => Util.EpName.run_c16e c
  | L [A "c01"; c] => IH5.OverlayRun.run_c01 c
  | L [A "c18"; c] => Util.Diff.run_c18 c
  | L [A "c19"; c] => Util.DirHash.run_c19 c
  | L [A "c19c"; c] => Util.DirHashChain.run_c19c c
  | L [A "c04"; c] => Rec.Chain.run_c04 c
  | L [A "c14"; c] => Schema.Partial.run_c14 c
  | L [A "c12"; c] => Schema.RoundTrip.run_c12 c
  | L [A "c17"; c] => IH5.Bytes.run_c17 c
  | L [A "c03"; c] => Rec.Modes.run_c03 c
  | L [A "c15"; c] => Toc.Acl.run_c15 c
  | L [A "c13"; c] => Schema.Subtype.run_c13 c
  | L [A "c08"; c] => Toc.UserView.run_c08 c
  | L [A "c11"; c] => Rec.Crash.run_c11 c
  | L [A "c02"; c] => Rec.Frozen.run_c02 c
  | L [A "c10"; c] => IH5.Stub.run_c10 c
  | L [A "c05"; c] => IH5.MergeRun.run_c05 c
  | L [A "c09"; c] => IH5.Client.run_c09 c
  | L [A "c06"; c] => Toc.Sync.run_c06 c
  | L [A "c07"; c] => Toc.Query.run_c07 c
  | L [A "c20"; c] => Toc.SelfDesc.run_c20 c
  | L [A "c11j"; c] => Rec.JsonGrammar.run_c11j c
  | L [A "bridge"; c] => Bridge.BridgeRun.run_bridge c
  | _ => sx_bad "dispatch"
  end.
