(** The single dispatch function of the model runner: first atom selects the model. *)
From Coq Require Import List String.
From MV Require Import Base.Sx.
From MV Require Util.PluginRef.
Import ListNotations.
Local Open Scope string_scope.

Definition dispatch (x : sx) : sx :=
  match x with
  | L [A "c16"; c] => Util.PluginRef.run_c16 c
  | _ => sx_bad "dispatch"
  end.
