(** The single dispatch function of the model runner: first atom selects the model. *)
From Coq Require Import List String.
From MV Require Import Base.Sx.
From MV Require Util.PluginRef.
From MV Require IH5.OverlayRun.
From MV Require Util.Diff.
From MV Require Util.DirHash.
Import ListNotations.
Local Open Scope string_scope.

Definition dispatch (x : sx) : sx :=
  match x with
  | L [A "c16"; c] => Util.PluginRef.run_c16 c
  | L [A "c01"; c] => IH5.OverlayRun.run_c01 c
  | L [A "c18"; c] => Util.Diff.run_c18 c
  | L [A "c19"; c] => Util.DirHash.run_c19 c
  | _ => sx_bad "dispatch"
  end.
