(** Reachable directories (property C03, deepening).

    A configuration is a directory or an open handle.  [reach L c]: [c] arises from the empty
    directory by the model's operations — opening by name in any mode (with any ids),
    any step on the handle, forgetting the handle at any time, refused opens — and [L] is
    the (ghost) list of record names for which a record was created.

    Invariant of reachable directories ([Inv]): file names are pairwise distinct, every
    file of index [i] belonging to record [m] is named [std_name m i] ([m.ih5] for 0,
    [m.p<i>.ih5] otherwise), and with a file of index [i > 0] the directory contains the
    file of the same record with index [i - 1].  Consequences: the next patch name is
    free, patches without base do not exist, [list_records] lists exactly [L].

    Explicit-list opens are not part of [reach]; in mode 'r' they change nothing
    ([r_is_readonly]), in the other modes they are outside this invariant. *)
From Coq Require Import List String Ascii NArith Bool Arith Lia Permutation Sorted.
From Coq Require Import DecimalString DecimalN DecimalPos DecimalFacts.
From MV Require Import Base.Sx Rec.Names Rec.NamesProofs Rec.Modes Rec.ModesProofs.
Import ListNotations.
Local Open Scope string_scope.

Arguments matches : simpl never.
Arguments base_filename : simpl never.
Arguments patch_filename : simpl never.
Arguments infer_name : simpl never.
Arguments valid_name : simpl never.

(** ** Names indexed by patch index *)

Definition std_name (m : string) (i : N) : string :=
  if (i =? 0)%N then base_filename m else patch_filename m i.

Lemma std_name_file_of : forall m i,
  std_name m i = file_of m (if (i =? 0)%N then None else Some i).
Proof. intros m i. unfold std_name. destruct (i =? 0)%N; reflexivity. Qed.

Lemma infer_std : forall m i, valid_name m = true -> infer_name (std_name m i) = m.
Proof. intros m i H. rewrite std_name_file_of. apply infer_name_file_of. exact H. Qed.

Lemma matches_std : forall n m i, valid_name n = true -> valid_name m = true ->
  (matches n (std_name m i) = true <-> n = m).
Proof. intros n m i Hn Hm. rewrite std_name_file_of. apply find_files_exact; assumption. Qed.

Lemma record_of_std : forall m i, valid_name m = true -> record_of (std_name m i) = Some m.
Proof. intros m i H. rewrite std_name_file_of. apply record_of_file_of. exact H. Qed.

Lemma append_inv_head : forall m x y : string, m ++ x = m ++ y -> x = y.
Proof. induction m as [|c m IH]; intros x y H; simpl in H; [exact H|]. inversion H. auto. Qed.

Lemma length_append : forall x y : string, String.length (x ++ y) = String.length x + String.length y.
Proof. induction x; intros; simpl; [reflexivity|]. rewrite IHx. reflexivity. Qed.

Lemma append_inv_tail : forall x y s : string, x ++ s = y ++ s -> x = y.
Proof.
  induction x as [|a x IH]; intros y s H.
  - destruct y as [|b y]; [reflexivity|]. exfalso.
    apply (f_equal String.length) in H. simpl in H. rewrite length_append in H. lia.
  - destruct y as [|b y].
    + exfalso. apply (f_equal String.length) in H. simpl in H. rewrite length_append in H. lia.
    + simpl in H. inversion H. f_equal. eapply IH. eassumption.
Qed.

Lemma string_of_N_inj : forall a b, string_of_N a = string_of_N b -> a = b.
Proof.
  intros a b H. unfold string_of_N in H.
  assert (Hn : forall n, N.to_uint n <> Decimal.Nil).
  { intros [|p]; simpl; [discriminate|apply DecimalPos.Unsigned.to_uint_nonnil]. }
  apply (f_equal NilZero.uint_of_string) in H.
  rewrite !NilZero.usu in H by apply Hn. inversion H.
  apply DecimalN.Unsigned.to_uint_inj. assumption.
Qed.

Lemma std_name_inj : forall m m' i j, valid_name m = true -> valid_name m' = true ->
  std_name m i = std_name m' j -> m = m' /\ i = j.
Proof.
  intros m m' i j Hm Hm' H.
  assert (E : m = m').
  { rewrite <- (infer_std m i Hm), <- (infer_std m' j Hm'). rewrite H. reflexivity. }
  subst m'. split; [reflexivity|].
  unfold std_name, base_filename, patch_filename, file_ext, patch_infix in H.
  destruct (i =? 0)%N eqn:Ei; destruct (j =? 0)%N eqn:Ej.
  - apply N.eqb_eq in Ei, Ej. congruence.
  - apply append_inv_head in H. discriminate.
  - apply append_inv_head in H. discriminate.
  - apply append_inv_head in H. apply append_inv_head in H.
    apply append_inv_tail in H. apply string_of_N_inj. exact H.
Qed.

Section Reach.
  Context {P : Type}.
  Variable empty : P.
  Notation file := (file P).
  Notation state := (state P).

  Definition rec_of (f : file) : string := infer_name (fname f).

  Definition named_ok (f : file) : Prop :=
    valid_name (rec_of f) = true /\ fname f = std_name (rec_of f) (fidx f).

  Definition has_pred (d : list file) (f : file) : Prop :=
    fidx f <> 0%N ->
    exists g, In g d /\ fname g = std_name (rec_of f) (fidx f - 1) /\ fidx g = (fidx f - 1)%N.

  Definition Inv (d : list file) : Prop :=
    NoDup (map fname d) /\ (forall f, In f d -> named_ok f) /\ (forall f, In f d -> has_pred d f).

  (** ** Consequences of [Inv] *)

  Lemma named_matches : forall n (f : file), valid_name n = true -> named_ok f ->
    (matches n (fname f) = true <-> rec_of f = n).
  Proof.
    intros n f Hn [Hv Hf]. rewrite Hf at 1. rewrite (matches_std n (rec_of f) (fidx f) Hn Hv).
    split; congruence.
  Qed.

  Lemma Inv_perm : forall d d', Permutation d d' -> Inv d -> Inv d'.
  Proof.
    intros d d' Hp [H1 [H2 H3]]. split; [|split].
    - eapply Permutation_NoDup; [apply Permutation_map; exact Hp|exact H1].
    - intros f Hf. apply H2. eapply Permutation_in; [apply Permutation_sym; exact Hp|exact Hf].
    - intros f Hf Hz.
      destruct (H3 f (Permutation_in _ (Permutation_sym Hp) Hf) Hz) as [g [Hg Hgg]].
      exists g. split; [eapply Permutation_in; eassumption|exact Hgg].
  Qed.

  (** Downward closure: below every file, all smaller indices of the same record. *)
  Lemma Inv_down : forall d, Inv d -> forall k f, In f d ->
    exists g, In g d /\ rec_of g = rec_of f /\ fidx g = (fidx f - N.of_nat k)%N /\
              fname g = std_name (rec_of f) (fidx g).
  Proof.
    intros d [H1 [H2 H3]]. induction k as [|k IH]; intros f Hf.
    - exists f. destruct (H2 f Hf) as [Hv Hn]. repeat split; auto. simpl. lia.
    - destruct (IH f Hf) as [g [Hg [Hr [Hi Hn]]]].
      destruct (N.eq_dec (fidx g) 0) as [Hz|Hz].
      + exists g. repeat split; auto. lia.
      + destruct (H3 g Hg Hz) as [g' [Hg' [Hn' Hi']]].
        destruct (H2 f Hf) as [Hv _]. rewrite Hr in Hn'.
        exists g'. split; [exact Hg'|]. split; [|split].
        * unfold rec_of at 1. rewrite Hn'. apply infer_std. exact Hv.
        * lia.
        * rewrite Hi'. exact Hn'.
  Qed.

  (** No patches without base. *)
  Lemma Inv_base : forall d f, Inv d -> In f d -> has_name (base_filename (rec_of f)) d = true.
  Proof.
    intros d f HI Hf. destruct (Inv_down d HI (N.to_nat (fidx f)) f Hf) as [g [Hg [_ [Hi Hn]]]].
    apply has_name_In. exists g. split; [exact Hg|]. rewrite Hn.
    assert (fidx g = 0%N) by lia. rewrite H. reflexivity.
  Qed.

  Lemma Inv_base_or_absent : forall d n, Inv d -> valid_name n = true ->
    has_name (base_filename n) d = true \/ files_of n d = [].
  Proof.
    intros d n HI Hn. destruct (files_of n d) as [|f l] eqn:E; [right; reflexivity|left].
    assert (Hf : In f (files_of n d)) by (rewrite E; left; reflexivity).
    unfold files_of in Hf. apply filter_In in Hf. destruct Hf as [Hin Hm].
    destruct HI as [H1 [H2 H3]]. pose proof (H2 f Hin) as Hok.
    apply (named_matches n f Hn Hok) in Hm. rewrite <- Hm. apply Inv_base; [split; [|split]; assumption|exact Hin].
  Qed.

  Lemma Inv_next_patch_free : forall d n, Inv d -> valid_name n = true -> next_patch_free n d = true.
  Proof.
    intros d n [H1 [H2 H3]] Hn. unfold next_patch_free.
    destruct (sort_desc (files_of n d)) as [|nw ol] eqn:Es; [reflexivity|].
    apply negb_true_iff.
    destruct (has_name (patch_filename n (fidx nw + 1)) d) eqn:Eh; [exfalso|reflexivity].
    apply has_name_In in Eh. destruct Eh as [g [Hg Hgn]].
    assert (Hs : patch_filename n (fidx nw + 1) = std_name n (fidx nw + 1)).
    { unfold std_name. destruct (fidx nw + 1 =? 0)%N eqn:E; [apply N.eqb_eq in E; lia|reflexivity]. }
    pose proof (H2 g Hg) as Hok.
    assert (Hm : matches n (fname g) = true).
    { rewrite Hgn, Hs. apply matches_std; auto. }
    pose proof (proj1 (named_matches n g Hn Hok) Hm) as Hr.
    destruct Hok as [Hv Hname]. rewrite Hr, Hgn, Hs in Hname.
    apply std_name_inj in Hname; auto. destruct Hname as [_ Hidx].
    assert (Hin : In g (nw :: ol)).
    { rewrite <- Es. eapply Permutation_in; [apply sort_perm|]. unfold files_of. apply filter_In. auto. }
    pose proof (sort_sorted (files_of n d)) as Hso. rewrite Es in Hso.
    apply StronglySorted_inv in Hso. destruct Hso as [_ Hall].
    destruct Hin as [E|Hin]; [subst g; lia|].
    rewrite Forall_forall in Hall. specialize (Hall g Hin). unfold ge_idx in Hall. lia.
  Qed.

  (** The readable form of name-index coherence for one record. *)
  Lemma Inv_coherent : forall d n, Inv d -> valid_name n = true ->
    (forall f, In f (files_of n d) -> fname f = std_name n (fidx f)) /\
    (forall f j, In f (files_of n d) -> (j <= fidx f)%N ->
       exists g, In g (files_of n d) /\ fidx g = j /\ fname g = std_name n j) /\
    NoDup (map fidx (files_of n d)).
  Proof.
    intros d n HI Hn. pose proof HI as [H1 [H2 H3]].
    assert (Hmem : forall f, In f (files_of n d) -> In f d /\ rec_of f = n /\ fname f = std_name n (fidx f)).
    { intros f Hf. unfold files_of in Hf. apply filter_In in Hf. destruct Hf as [Hin Hm].
      pose proof (H2 f Hin) as Hok. apply (named_matches n f Hn Hok) in Hm.
      destruct Hok as [_ Hname]. rewrite Hm in Hname. auto. }
    split; [intros f Hf; apply Hmem; exact Hf|]. split.
    - intros f j Hf Hj. destruct (Hmem f Hf) as [Hin [Hr Hname]].
      destruct (Inv_down d HI (N.to_nat (fidx f - j)) f Hin) as [g [Hg [Hrg [Hi Hng]]]].
      assert (Hgj : fidx g = j) by lia.
      exists g. rewrite Hr in Hng. rewrite Hgj in Hng. split; [|split; [exact Hgj|exact Hng]].
      unfold files_of. apply filter_In. split; [exact Hg|]. rewrite Hng. apply matches_std; auto.
    - assert (Hnd : NoDup (map fname (files_of n d))).
      { unfold files_of. clear -H1. induction d as [|a d IH]; simpl; [constructor|].
        simpl in H1. inversion H1; subst. destruct (matches n (fname a)); simpl; [|auto].
        constructor; [|auto]. intros Hin. apply H2. apply in_map_iff in Hin.
        destruct Hin as [x [Ex Hx]]. apply filter_In in Hx. apply in_map_iff. exists x. tauto. }
      revert Hnd Hmem. generalize (files_of n d) as l. induction l as [|a l IH]; intros Hnd Hmem; simpl; [constructor|].
      simpl in Hnd. inversion Hnd; subst. constructor.
      + intros Hin. apply H4. apply in_map_iff in Hin. destruct Hin as [x [Ex Hx]].
        apply in_map_iff. exists x. split; [|exact Hx].
        destruct (Hmem x (or_intror Hx)) as [_ [_ Nx]]. destruct (Hmem a (or_introl eq_refl)) as [_ [_ Na]].
        rewrite Nx, Na, Ex. reflexivity.
      + apply IH; [assumption|]. intros f Hf. apply Hmem. right. exact Hf.
  Qed.

  (** ** Building blocks for preservation *)

  Lemma NoDup_map_filter : forall (p : file -> bool) d, NoDup (map fname d) -> NoDup (map fname (filter p d)).
  Proof.
    intros p d. induction d as [|a d IH]; simpl; intros H; [constructor|].
    inversion H; subst. destruct (p a); simpl; [|auto]. constructor; [|auto].
    intros Hin. apply H2. apply in_map_iff in Hin. destruct Hin as [x [Ex Hx]].
    apply filter_In in Hx. apply in_map_iff. exists x. tauto.
  Qed.

  Lemma Inv_others : forall d n, valid_name n = true -> Inv d -> Inv (others n d).
  Proof.
    intros d n Hn [H1 [H2 H3]]. unfold others. split; [|split].
    - apply NoDup_map_filter. exact H1.
    - intros f Hf. apply filter_In in Hf. apply H2. tauto.
    - intros f Hf Hz. apply filter_In in Hf. destruct Hf as [Hin Hnm].
      destruct (H3 f Hin Hz) as [g [Hg [Hgn Hgi]]]. exists g. split; [|auto].
      apply filter_In. split; [exact Hg|]. apply negb_true_iff.
      destruct (matches n (fname g)) eqn:Em; [exfalso|reflexivity].
      destruct (H2 f Hin) as [Hv Hfn].
      rewrite Hgn in Em. apply (matches_std n (rec_of f) _ Hn Hv) in Em.
      apply negb_true_iff in Hnm. rewrite Hfn in Hnm. rewrite <- Em in Hnm.
      assert (matches n (std_name n (fidx f)) = true) by (apply matches_std; auto). congruence.
  Qed.

  Lemma Inv_add : forall d (b : file), Inv d -> named_ok b -> has_name (fname b) d = false ->
    has_pred d b -> Inv (b :: d).
  Proof.
    intros d b [H1 [H2 H3]] Hb Hfree Hp. split; [|split].
    - simpl. constructor; [|exact H1]. intros Hin. apply in_map_iff in Hin. destruct Hin as [x [Ex Hx]].
      assert (has_name (fname b) d = true) by (apply has_name_In; exists x; auto). congruence.
    - intros f [E|Hf]; [subst; exact Hb|auto].
    - intros f [E|Hf] Hz.
      + subst f. destruct (Hp Hz) as [g [Hg Hgg]]. exists g. split; [right; exact Hg|exact Hgg].
      + destruct (H3 f Hf Hz) as [g [Hg Hgg]]. exists g. split; [right; exact Hg|exact Hgg].
  Qed.

  (** Replacing files by files with the same names and indices. *)
  Lemma Inv_same_names : forall d d',
    Forall2 (fun a b : file => fname a = fname b /\ fidx a = fidx b) d d' -> Inv d -> Inv d'.
  Proof.
    intros d d' HF [H1 [H2 H3]].
    assert (Emap : map fname d = map fname d').
    { clear -HF. induction HF as [|a b l l' [E _] _ IH]; simpl; [reflexivity|]. rewrite E, IH. reflexivity. }
    assert (Hr : forall b, In b d' -> exists a, In a d /\ fname a = fname b /\ fidx a = fidx b).
    { clear -HF. induction HF as [|a b l l' E _ IH]; intros x Hx; [contradiction|].
      destruct Hx as [Ex|Hx]; [subst; exists a; split; [left; reflexivity|exact E]|].
      destruct (IH x Hx) as [y [Hy Ey]]. exists y. split; [right; exact Hy|exact Ey]. }
    assert (Hl : forall a, In a d -> exists b, In b d' /\ fname a = fname b /\ fidx a = fidx b).
    { clear -HF. induction HF as [|a b l l' E _ IH]; intros x Hx; [contradiction|].
      destruct Hx as [Ex|Hx]; [subst; exists b; split; [left; reflexivity|exact E]|].
      destruct (IH x Hx) as [y [Hy Ey]]. exists y. split; [right; exact Hy|exact Ey]. }
    split; [rewrite <- Emap; exact H1|]. split.
    - intros b Hb. destruct (Hr b Hb) as [a [Ha [En Ei]]]. destruct (H2 a Ha) as [Hv Hn].
      unfold named_ok, rec_of in *. rewrite <- En, <- Ei. split; assumption.
    - intros b Hb Hz. destruct (Hr b Hb) as [a [Ha [En Ei]]].
      assert (Hza : fidx a <> 0%N) by congruence.
      destruct (H3 a Ha Hza) as [g [Hg [Hgn Hgi]]]. destruct (Hl g Hg) as [g' [Hg' [En' Ei']]].
      exists g'. unfold rec_of in *. rewrite <- En, <- Ei, <- En', <- Ei'. auto.
  Qed.

  Lemma Forall2_refl_names : forall l : list file,
    Forall2 (fun a b : file => fname a = fname b /\ fidx a = fidx b) l l.
  Proof. induction l; constructor; auto. Qed.

  (** ** Invariant of handles *)

  Definition SInv (s : state) : Prop :=
    Inv (dir_of s) /\ valid_name (hname s) = true /\
    Forall (fun f => matches (hname s) (fname f) = true) (mine s) /\
    Forall (fun f => matches (hname s) (fname f) = false) (rest s) /\
    StronglySorted gt_idx (mine s).

  Lemma head_replace : forall (rs : list file) h h' t,
    fname h' = fname h -> fidx h' = fidx h ->
    Inv (rs ++ h :: t) -> Inv (rs ++ h' :: t).
  Proof.
    intros rs h h' t En Ei. apply Inv_same_names.
    apply Forall2_app; [apply Forall2_refl_names|]. constructor; [auto|apply Forall2_refl_names].
  Qed.

  Lemma sorted_head_replace : forall (h h' : file) t, fidx h' = fidx h ->
    StronglySorted gt_idx (h :: t) -> StronglySorted gt_idx (h' :: t).
  Proof.
    intros h h' t E H. apply StronglySorted_inv in H. destruct H as [Ht Hh].
    constructor; [exact Ht|]. eapply Forall_impl; [|exact Hh]. unfold gt_idx. intros a Ha. lia.
  Qed.

  Lemma SInv_step : forall o (s : state), SInv s -> SInv (fst (step empty o s)).
  Proof.
    intros o s HS. pose proof HS as [HI [Hv [Hm [Hr Hso]]]].
    destruct o as [u| | |g|c]; simpl.
    - (* create_patch *)
      unfold create_patch.
      destruct (closed s); [exact HS|]. destruct (negb (patching s)); [exact HS|].
      destruct (writable s); [exact HS|].
      destruct (mine s) as [|l older] eqn:Em; [exact HS|].
      destruct (has_name (patch_filename (hname s) (fidx l + 1)) (dir_of s)) eqn:Eh; [exact HS|].
      set (nm := patch_filename (hname s) (fidx l + 1)) in *.
      set (b := new_patch empty nm l u).
      assert (Hnm : nm = std_name (hname s) (fidx l + 1)).
      { unfold std_name. destruct (fidx l + 1 =? 0)%N eqn:E; [apply N.eqb_eq in E; lia|reflexivity]. }
      assert (Hrb : rec_of b = hname s).
      { unfold rec_of, b. simpl. rewrite Hnm. apply infer_std. exact Hv. }
      assert (Hl : In l (dir_of s)) by (unfold dir_of; rewrite Em; apply in_or_app; right; left; reflexivity).
      assert (Hlm : matches (hname s) (fname l) = true) by (inversion Hm; assumption).
      pose proof HI as [H1 [H2 H3]].
      pose proof (proj1 (named_matches (hname s) l Hv (H2 l Hl)) Hlm) as Hrl.
      unfold SInv. simpl. split; [|split; [exact Hv|split; [|split; [exact Hr|]]]].
      + unfold dir_of in *. simpl. rewrite Em in *.
        eapply Inv_perm; [|apply (Inv_add (rest s ++ l :: older) b HI)].
        * apply Permutation_middle.
        * split; [rewrite Hrb; exact Hv|]. rewrite Hrb. unfold b. simpl. exact Hnm.
        * exact Eh.
        * intros _. exists l. split; [exact Hl|]. rewrite Hrb. unfold b. simpl.
          replace (fidx l + 1 - 1)%N with (fidx l) by lia.
          destruct (H2 l Hl) as [_ Hn]. rewrite Hrl in Hn. auto.
      + constructor; [|exact Hm]. simpl. rewrite Hnm. apply matches_std; auto.
      + constructor; [exact Hso|]. apply StronglySorted_inv in Hso. destruct Hso as [_ Hall].
        constructor; [unfold gt_idx; simpl; lia|].
        eapply Forall_impl; [|exact Hall]. unfold gt_idx. simpl. intros a Ha. lia.
    - (* commit *)
      unfold commit_patch.
      destruct (closed s); [exact HS|]. destruct (negb (patching s)); [exact HS|].
      destruct (negb (writable s)); [exact HS|].
      destruct (mine s) as [|l older] eqn:Em; [exact HS|].
      unfold SInv, dir_of in *. simpl. rewrite Em in *.
      split; [eapply head_replace; [| |exact HI]; reflexivity|]. split; [exact Hv|].
      split; [inversion Hm; constructor; assumption|]. split; [exact Hr|].
      eapply sorted_head_replace; [|exact Hso]. reflexivity.
    - (* discard *)
      unfold discard_patch.
      destruct (closed s); [exact HS|]. destruct (negb (patching s)); [exact HS|].
      destruct (negb (writable s)); [exact HS|].
      destruct (mine s) as [|h [|g0 older]] eqn:Em; try exact HS.
      unfold SInv, dir_of in *. simpl. rewrite Em in *.
      pose proof HI as [H1 [H2 H3]].
      apply StronglySorted_inv in Hso. destruct Hso as [Hso' Hall].
      split; [|split; [exact Hv|split; [inversion Hm; assumption|split; [exact Hr|exact Hso']]]].
      split; [|split].
      * rewrite map_app in *. simpl in H1. apply NoDup_remove_1 in H1. exact H1.
      * intros f Hf. apply H2. apply in_app_or in Hf. apply in_or_app. destruct Hf; [left|right; right]; assumption.
      * intros f Hf Hz.
        assert (Hf' : In f (rest s ++ h :: g0 :: older)).
        { apply in_app_or in Hf. apply in_or_app. destruct Hf; [left|right; right]; assumption. }
        destruct (H3 f Hf' Hz) as [g [Hg [Hgn Hgi]]]. exists g. split; [|auto].
        apply in_app_or in Hg. destruct Hg as [Hg|[Hg|Hg]]; [apply in_or_app; left; exact Hg| |apply in_or_app; right; exact Hg].
        exfalso. subst g.
        (* f is the successor of the discarded newest file: impossible *)
        assert (Hh : In h (rest s ++ h :: g0 :: older)) by (apply in_or_app; right; left; reflexivity).
        assert (Hhm : matches (hname s) (fname h) = true) by (inversion Hm; assumption).
        pose proof (proj1 (named_matches (hname s) h Hv (H2 h Hh)) Hhm) as Hrh.
        destruct (H2 f Hf') as [Hvf Hfn]. destruct (H2 h Hh) as [Hvh Hhn].
        rewrite Hhn in Hgn. apply std_name_inj in Hgn; auto. destruct Hgn as [Erec _].
        assert (Hfm : matches (hname s) (fname f) = true).
        { apply (named_matches (hname s) f Hv (H2 f Hf')). congruence. }
        apply in_app_or in Hf. destruct Hf as [Hf|Hf].
        -- rewrite Forall_forall in Hr. specialize (Hr f Hf). simpl in Hr. congruence.
        -- rewrite Forall_forall in Hall. specialize (Hall f Hf). unfold gt_idx in Hall. lia.
    - (* write *)
      unfold write.
      destruct (closed s); [exact HS|]. destruct (negb (writable s)); [exact HS|].
      destruct (mine s) as [|l older] eqn:Em; [exact HS|].
      unfold SInv, dir_of in *. simpl. rewrite Em in *.
      split; [eapply head_replace; [| |exact HI]; reflexivity|]. split; [exact Hv|].
      split; [inversion Hm; constructor; assumption|]. split; [exact Hr|].
      eapply sorted_head_replace; [|exact Hso]. reflexivity.
    - (* close *)
      unfold close. destruct (closed s); [exact HS|].
      destruct (writable s && c).
      + unfold commit_patch. destruct (closed s); [exact HS|]. destruct (negb (patching s)); [exact HS|].
        destruct (negb (writable s)); [exact HS|].
        destruct (mine s) as [|l older] eqn:Em; [unfold SInv, dir_of in *; simpl; rewrite Em in *; auto|].
        unfold SInv, dir_of in *. simpl. rewrite Em in *.
        split; [eapply head_replace; [| |exact HI]; reflexivity|]. split; [exact Hv|].
        split; [inversion Hm; constructor; assumption|]. split; [exact Hr|].
        eapply sorted_head_replace; [|exact Hso]. reflexivity.
      + exact HS.
  Qed.

  (** Presence of base containers (what the ghost list tracks). *)

  Lemma has_name_app : forall nm (a b : list file), has_name nm (a ++ b) = has_name nm a || has_name nm b.
  Proof. intros. unfold has_name. apply existsb_app. Qed.

  Lemma has_name_same_names : forall nm (d d' : list file), map fname d = map fname d' ->
    has_name nm d = has_name nm d'.
  Proof.
    intros nm d. induction d as [|a d IH]; intros [|b d'] E; try discriminate; [reflexivity|].
    simpl in E. inversion E. simpl. rewrite H0. f_equal. apply IH. assumption.
  Qed.

  Lemma base_ne_patch : forall m h k, valid_name m = true -> valid_name h = true ->
    (patch_filename h (k + 1) =? base_filename m) = false.
  Proof.
    intros m h k Hm Hh. apply String.eqb_neq. intros E.
    assert (E' : std_name h (k + 1) = std_name m 0).
    { unfold std_name. destruct (k + 1 =? 0)%N eqn:Z; [apply N.eqb_eq in Z; lia|exact E]. }
    apply std_name_inj in E'; auto. lia.
  Qed.

  Lemma has_base_others : forall n m (d : list file), valid_name n = true -> valid_name m = true -> m <> n ->
    has_name (base_filename m) (others n d) = has_name (base_filename m) d.
  Proof.
    intros n m d Hn Hm Hne. unfold others, has_name. induction d as [|f d IH]; simpl; [reflexivity|].
    destruct (matches n (fname f)) eqn:Em; simpl; [|rewrite IH; reflexivity].
    rewrite IH. destruct (fname f =? base_filename m) eqn:E; [|reflexivity].
    apply String.eqb_eq in E. rewrite E in Em. exfalso.
    assert (matches n (std_name m 0) = true) by exact Em.
    apply matches_std in H; auto.
  Qed.

  Lemma step_bases : forall o (s : state) m, SInv s -> valid_name m = true ->
    has_name (base_filename m) (dir_of (fst (step empty o s))) = has_name (base_filename m) (dir_of s).
  Proof.
    intros o s m HS Hvm. pose proof HS as [HI [Hv [Hm [Hr Hso]]]].
    destruct o as [u| | |g|c]; simpl.
    - unfold create_patch.
      destruct (closed s); [reflexivity|]. destruct (negb (patching s)); [reflexivity|].
      destruct (writable s); [reflexivity|].
      destruct (mine s) as [|l older] eqn:Em; [reflexivity|].
      destruct (has_name (patch_filename (hname s) (fidx l + 1)) (dir_of s)); [reflexivity|].
      unfold dir_of. simpl. rewrite Em. rewrite !has_name_app. simpl.
      rewrite (base_ne_patch m (hname s) (fidx l) Hvm Hv). reflexivity.
    - unfold commit_patch.
      destruct (closed s); [reflexivity|]. destruct (negb (patching s)); [reflexivity|].
      destruct (negb (writable s)); [reflexivity|].
      destruct (mine s) as [|l older] eqn:Em; [reflexivity|].
      unfold dir_of. simpl. rewrite Em. apply has_name_same_names. rewrite !map_app. reflexivity.
    - unfold discard_patch.
      destruct (closed s); [reflexivity|]. destruct (negb (patching s)); [reflexivity|].
      destruct (negb (writable s)); [reflexivity|].
      destruct (mine s) as [|h [|g0 older]] eqn:Em; try reflexivity.
      unfold dir_of in *. simpl. rewrite Em in *. rewrite !has_name_app.
      change (has_name (base_filename m) (h :: g0 :: older))
        with ((fname h =? base_filename m) || has_name (base_filename m) (g0 :: older)).
      assert (E : (fname h =? base_filename m) = false); [|rewrite E; reflexivity].
      apply String.eqb_neq. intros E.
      destruct HI as [_ [H2 _]].
      assert (Hh : In h (rest s ++ h :: g0 :: older)) by (apply in_or_app; right; left; reflexivity).
      destruct (H2 h Hh) as [Hvh Hhn]. rewrite E in Hhn.
      assert (E' : std_name m 0 = std_name (rec_of h) (fidx h)) by exact Hhn.
      apply std_name_inj in E'; auto. destruct E' as [_ Ei].
      apply StronglySorted_inv in Hso. destruct Hso as [_ Hall]. inversion Hall; subst.
      unfold gt_idx in *. lia.
    - unfold write.
      destruct (closed s); [reflexivity|]. destruct (negb (writable s)); [reflexivity|].
      destruct (mine s) as [|l older] eqn:Em; [reflexivity|].
      unfold dir_of. simpl. rewrite Em. apply has_name_same_names. rewrite !map_app. reflexivity.
    - unfold close. destruct (closed s); [reflexivity|].
      destruct (writable s && c); [|reflexivity].
      unfold commit_patch. destruct (closed s); [reflexivity|]. destruct (negb (patching s)); [reflexivity|].
      destruct (negb (writable s)); [reflexivity|].
      destruct (mine s) as [|l older] eqn:Em; unfold dir_of; simpl; rewrite ?Em; [reflexivity|].
      apply has_name_same_names. rewrite !map_app. reflexivity.
  Qed.

  (** ** Opening by name in a directory satisfying [Inv] *)

  Lemma Inv_no_match : forall d n, Inv d -> valid_name n = true ->
    has_name (base_filename n) d = false -> Forall (fun f : file => matches n (fname f) = false) d.
  Proof.
    intros d n HI Hn Hb. destruct (Inv_base_or_absent d n HI Hn) as [H|H]; [congruence|].
    apply files_of_nil_Forall. exact H.
  Qed.

  Lemma base_inj : forall n m, base_filename n = base_filename m -> n = m.
  Proof. intros n m E. unfold base_filename in E. apply append_inv_tail in E. exact E. Qed.

  Lemma create_SInv : forall n trunc (d : list file) r u s, Inv d ->
    create empty n trunc d r u = Opened s ->
    SInv s /\ valid_name n = true /\ has_name (base_filename n) (dir_of s) = true /\
    (forall m, valid_name m = true -> m <> n ->
       has_name (base_filename m) (dir_of s) = has_name (base_filename m) d).
  Proof.
    intros n trunc d r u s HI H. unfold create in H.
    destruct (valid_name n) eqn:Hn; cbn [negb] in H; [|discriminate].
    set (d' := if trunc && has_name (base_filename n) d then others n d else d) in *.
    destruct (has_name (base_filename n) d') eqn:Hb; [discriminate|].
    inversion H; subst s; clear H.
    assert (HI' : Inv d').
    { unfold d'. destruct (trunc && has_name (base_filename n) d); [apply Inv_others; assumption|exact HI]. }
    set (b := mkfile (base_filename n) r 0 u None false empty).
    assert (Hrb : rec_of b = n) by (unfold rec_of, b; simpl; apply infer_base; exact Hn).
    split; [|split; [reflexivity|split]].
    - unfold SInv, dir_of. simpl. rewrite (infer_base n Hn).
      split; [|split; [exact Hn|split; [constructor; [apply matches_base; exact Hn|constructor]|split]]].
      + eapply Inv_perm; [apply Permutation_cons_append|]. apply Inv_add; auto.
        * split; [rewrite Hrb; exact Hn|]. rewrite Hrb. reflexivity.
        * intros Hz. exfalso. apply Hz. reflexivity.
      + apply Inv_no_match; assumption.
      + constructor; constructor.
    - unfold dir_of. simpl. apply has_name_In. exists b. split; [apply in_or_app; right; left; reflexivity|reflexivity].
    - intros m Hvm Hmn. unfold dir_of. simpl. rewrite has_name_app. simpl.
      assert (E : (base_filename n =? base_filename m) = false).
      { apply String.eqb_neq. intros E. apply base_inj in E. congruence. }
      rewrite E. simpl. rewrite orb_false_r.
      unfold d'. destruct (trunc && has_name (base_filename n) d); [|reflexivity].
      apply has_base_others; assumption.
  Qed.

  Lemma open_existing_SInv : forall m n (d : list file) u s, Inv d -> valid_name n = true ->
    files_of n d <> [] ->
    open_existing empty m (files_of n d) (others n d) d u = Opened s ->
    SInv s /\ (forall m', valid_name m' = true ->
                 has_name (base_filename m') (dir_of s) = has_name (base_filename m') d).
  Proof.
    intros m n d u s HI Hn Hne H. unfold open_existing in H.
    destruct (chain_ok (sort_desc (files_of n d))) eqn:Hc; [|discriminate].
    destruct (sort_desc (files_of n d)) as [|nw ol] eqn:Es; [discriminate|].
    pose proof HI as [H1 [H2 H3]].
    assert (Hin : forall f, In f (nw :: ol) -> In f d /\ matches n (fname f) = true).
    { intros f Hf. rewrite <- Es in Hf. eapply Permutation_in in Hf; [|apply Permutation_sym, sort_perm].
      unfold files_of in Hf. apply filter_In in Hf. exact Hf. }
    assert (Hh : infer_name (fname (last (nw :: ol) nw)) = n).
    { destruct (Hin (last (nw :: ol) nw)) as [Hd Hmt]; [apply last_In; discriminate|].
      apply (named_matches n _ Hn (H2 _ Hd)). exact Hmt. }
    rewrite Hh in H.
    set (st := mkstate (others n d) (nw :: ol) n
                       (negb (is_r m) && negb (fcommitted nw)) (negb (is_r m)) false) in *.
    assert (Hp : Permutation d (dir_of st)).
    { unfold st, dir_of. simpl. rewrite <- Es. apply dir_perm. }
    assert (HS : SInv st).
    { unfold SInv. split; [eapply Inv_perm; [exact Hp|exact HI]|]. unfold st. simpl.
      split; [exact Hn|]. split; [apply Forall_forall; intros f Hf; apply (Hin f Hf)|].
      split; [apply others_Forall|]. apply chain_ok_sorted. exact Hc. }
    assert (Hb : forall m', has_name (base_filename m') (dir_of st) = has_name (base_filename m') d).
    { intros m'. symmetry. apply has_name_perm. exact Hp. }
    destruct (negb (is_r m) && negb (negb (is_r m) && negb (fcommitted nw))).
    - destruct (create_patch empty u st) as [st' o] eqn:Ecp. destruct o; [|discriminate].
      inversion H; subst s.
      change st' with (fst (st', Ok)). rewrite <- Ecp.
      split; [apply (SInv_step (OCreatePatch u) st HS)|].
      intros m' Hv'. rewrite <- Hb. apply (step_bases (OCreatePatch u) st m' HS Hv').
    - inversion H; subst s. split; [exact HS|]. intros m' _. apply Hb.
  Qed.

  (** ** Reachability *)

  Inductive cfg : Type :=
  | CDir (d : list file)
  | CSt (s : state).

  Definition cdir (c : cfg) : list file :=
    match c with CDir d => d | CSt s => dir_of s end.

  (** Does [IH5Record(name, mode)] create a record (when it succeeds)? *)
  Definition creates (m : mode) (n : string) (d : list file) : bool :=
    match m with
    | MW | MWm | MX => true
    | MA => match files_of n d with [] => true | _ => false end
    | _ => false
    end.

  Inductive reach : list string -> cfg -> Prop :=
  | R_nil : reach [] (CDir [])
  | R_open : forall L d m n r u s,
      reach L (CDir d) -> open_mode empty m (ByName n) d r u = Opened s ->
      reach (if creates m n d then n :: L else L) (CSt s)
  | R_step : forall L s o, reach L (CSt s) -> reach L (CSt (fst (step empty o s)))
  | R_drop : forall L s, reach L (CSt s) -> reach L (CDir (dir_of s)).

  Lemma reach_open_result : forall L d m n r u, reach L (CDir d) ->
    match open_mode empty m (ByName n) d r u with
    | Opened s => reach (if creates m n d then n :: L else L) (CSt s)
    | Refused _ _ => True
    end.
  Proof.
    intros L d m n r u H. destruct (open_mode empty m (ByName n) d r u) eqn:E; [|exact I].
    eapply R_open; eassumption.
  Qed.

  (** A refused open leaves the very same directory (so refusals need no rule). *)
  Lemma refused_same_dir : forall m n (d : list file) r u e d',
    open_mode empty m (ByName n) d r u = Refused e d' -> d' = d.
  Proof.
    intros m n d r u e d' H.
    assert (Hc : forall trunc, create empty n trunc d r u = Refused e d' -> d' = d).
    { intros trunc Hc. unfold create in Hc.
      destruct (valid_name n) eqn:Hn; cbn [negb] in Hc; [|inversion Hc; reflexivity].
      destruct (trunc && has_name (base_filename n) d) eqn:Et.
      - rewrite (has_name_others n (base_filename n) d (matches_base n Hn)) in Hc. discriminate.
      - destruct (has_name (base_filename n) d); inversion Hc; reflexivity. }
    assert (He : forall sel oth, open_existing empty m sel oth d u = Refused e d' -> d' = d).
    { intros sel oth He. unfold open_existing in He.
      destruct (chain_ok (sort_desc sel)); [|inversion He; reflexivity].
      destruct (sort_desc sel) as [|nw ol]; [inversion He; reflexivity|].
      destruct (negb (is_r m) && negb (negb (is_r m) && negb (fcommitted nw))); [|discriminate].
      destruct (create_patch empty u _) as [st' o]. destruct o; [discriminate|inversion He; reflexivity]. }
    assert (Hre : (if negb (valid_name n) then Refused EValue d
                   else match files_of n d with
                        | [] => if is_a m then create empty n false d r u else Refused ENotFound d
                        | _ :: _ => open_existing empty m (files_of n d) (others n d) d u
                        end) = Refused e d' -> d' = d).
    { intros H'. destruct (negb (valid_name n)); [inversion H'; reflexivity|].
      destruct (files_of n d) as [|f fs].
      - destruct (is_a m); [eapply Hc; eassumption|inversion H'; reflexivity].
      - eapply He; eassumption. }
    destruct m; cbn [open_mode] in H; try (eapply Hc; eassumption);
      apply Hre; destruct (files_of n d); exact H.
  Qed.

  Definition ghost (L : list string) (d : list file) : Prop :=
    forall m, In m L <-> valid_name m = true /\ has_name (base_filename m) d = true.

  Lemma reach_inv : forall L c, reach L c ->
    Inv (cdir c) /\ (match c with CSt s => SInv s | CDir _ => True end) /\ ghost L (cdir c).
  Proof.
    intros L c H. induction H as [|L d m n r u s Hr IH Ho|L s o Hr IH|L s Hr IH].
    - split; [|split; [exact I|]].
      + split; [constructor|]. split; intros f [].
      + intros m. simpl. split; [intros []|intros [_ Hf]; discriminate].
    - destruct IH as [HI [_ HG]]. simpl in HI, HG.
      assert (Hcr : forall trunc, create empty n trunc d r u = Opened s -> creates m n d = true ->
                     Inv (dir_of s) /\ SInv s /\ ghost (if creates m n d then n :: L else L) (dir_of s)).
      { intros trunc Hc Ecr. destruct (create_SInv n trunc d r u s HI Hc) as [HS [Hn [Hb Hoth]]].
        split; [apply HS|]. split; [exact HS|]. rewrite Ecr. intros m'. simpl. split.
        - intros [E|Hin]; [subst m'; auto|].
          apply HG in Hin. destruct Hin as [Hv Hh]. split; [exact Hv|].
          destruct (string_dec m' n) as [E|E]; [subst; exact Hb|]. rewrite Hoth; auto.
        - intros [Hv Hh]. destruct (string_dec m' n) as [E|E]; [left; auto|right].
          apply HG. split; [exact Hv|]. rewrite <- Hoth; auto. }
      assert (Hex : creates m n d = false -> valid_name n = true -> files_of n d <> [] ->
                    open_existing empty m (files_of n d) (others n d) d u = Opened s ->
                    Inv (dir_of s) /\ SInv s /\ ghost (if creates m n d then n :: L else L) (dir_of s)).
      { intros Ecr Hn Hne He. destruct (open_existing_SInv m n d u s HI Hn Hne He) as [HS Hb].
        split; [apply HS|]. split; [exact HS|]. rewrite Ecr. intros m'. rewrite (HG m'). split.
        - intros [Hv Hh]. split; [exact Hv|]. rewrite Hb; auto.
        - intros [Hv Hh]. split; [exact Hv|]. rewrite <- Hb; auto. }
      assert (Hre : m = MR \/ m = MRp \/ m = MA ->
                (if negb (valid_name n) then Refused EValue d
                 else match files_of n d with
                      | [] => if is_a m then create empty n false d r u else Refused ENotFound d
                      | _ :: _ => open_existing empty m (files_of n d) (others n d) d u
                      end) = Opened s ->
                Inv (dir_of s) /\ SInv s /\ ghost (if creates m n d then n :: L else L) (dir_of s)).
      { intros Hm H'. destruct (valid_name n) eqn:Hn; cbn [negb] in H'; [|discriminate].
        destruct (files_of n d) as [|f fs] eqn:Ef.
        - destruct (is_a m) eqn:Ea; [|discriminate].
          eapply Hcr; [exact H'|]. destruct m; try discriminate. unfold creates. rewrite Ef. reflexivity.
        - apply Hex; [|reflexivity|discriminate|exact H'].
          destruct Hm as [E|[E|E]]; subst m; unfold creates; rewrite ?Ef; reflexivity. }
      simpl. destruct m; cbn [open_mode] in Ho.
      + apply Hre; [auto|]. destruct (files_of n d); exact Ho.
      + apply Hre; [auto|]. destruct (files_of n d); exact Ho.
      + apply Hre; [auto|]. destruct (files_of n d); exact Ho.
      + eapply Hcr; [exact Ho|reflexivity].
      + eapply Hcr; [exact Ho|reflexivity].
      + eapply Hcr; [exact Ho|reflexivity].
    - destruct IH as [_ [HS HG]]. simpl in *.
      pose proof (SInv_step o s HS) as HS'. split; [apply HS'|]. split; [exact HS'|].
      intros m. rewrite (HG m). split; intros [Hv Hh]; (split; [exact Hv|]).
      + rewrite step_bases; auto.
      + rewrite <- (step_bases o s m HS Hv). exact Hh.
    - destruct IH as [HI [_ HG]]. simpl in *. split; [exact HI|]. split; [exact I|exact HG].
  Qed.

  (** ** The theorems *)

  Lemma names_coherent : forall L d n, reach L (CDir d) -> valid_name n = true ->
    (forall f, In f (files_of n d) -> fname f = std_name n (fidx f)) /\
    (forall f j, In f (files_of n d) -> (j <= fidx f)%N ->
       exists g, In g (files_of n d) /\ fidx g = j /\ fname g = std_name n j) /\
    NoDup (map fidx (files_of n d)) /\ NoDup (map fname d) /\
    next_patch_free n d = true /\
    (has_name (base_filename n) d = true \/ files_of n d = []).
  Proof.
    intros L d n Hr Hn. destruct (reach_inv L _ Hr) as [HI _]. simpl in HI.
    destruct (Inv_coherent d n HI Hn) as [A [B C]].
    split; [exact A|]. split; [exact B|]. split; [exact C|]. split; [apply HI|].
    split; [apply Inv_next_patch_free; assumption|apply Inv_base_or_absent; assumption].
  Qed.

  Lemma table_committed_reachable : forall L n (d : list file) r u,
    reach L (CDir d) -> valid_name n = true -> classify n d = SCBase \/ classify n d = SPatched ->
    open_mode empty MR (ByName n) d r u = Opened (opened_ro n d) /\
    open_mode empty MRp (ByName n) d r u = Opened (opened_new empty n d u) /\
    open_mode empty MA (ByName n) d r u = Opened (opened_new empty n d u) /\
    open_mode empty MW (ByName n) d r u = Opened (created empty n (others n d) r u) /\
    open_mode empty MWm (ByName n) d r u = Refused EExists d /\
    open_mode empty MX (ByName n) d r u = Refused EExists d.
  Proof.
    intros L n d r u Hr Hn Hc. destruct (reach_inv L _ Hr) as [HI _]. simpl in HI.
    destruct (table_committed empty n d r u Hn Hc) as [H1 [H2 [H3 [H4 H5]]]].
    destruct (H2 (Inv_next_patch_free d n HI Hn)) as [H2a H2b]. repeat split; assumption.
  Qed.

  Lemma w_replaces_all_reachable : forall L n (d : list file) r u,
    reach L (CDir d) -> valid_name n = true ->
    exists s, open_mode empty MW (ByName n) d r u = Opened s /\
      files_of n (dir_of s) = [fresh_base empty n r u] /\
      others n (dir_of s) = others n d /\
      view s = [empty] /\ writable s = true.
  Proof.
    intros L n d r u Hr Hn. destruct (reach_inv L _ Hr) as [HI _]. simpl in HI.
    apply w_replaces_all; [exact Hn|apply Inv_base_or_absent; assumption].
  Qed.

  Lemma list_records_reachable : forall L d n, reach L (CDir d) ->
    (In n (list_records (map fname d)) <-> In n L).
  Proof.
    intros L d n Hr. destruct (reach_inv L _ Hr) as [HI [_ HG]]. simpl in HI, HG.
    pose proof HI as [H1 [H2 H3]].
    rewrite list_records_spec, (HG n). split.
    - intros [fn [Hin Hrec]]. apply in_map_iff in Hin. destruct Hin as [f [Ef Hf]]. subst fn.
      destruct (H2 f Hf) as [Hv Hname]. rewrite Hname in Hrec. rewrite record_of_std in Hrec by exact Hv.
      inversion Hrec; subst n. split; [exact Hv|apply Inv_base; assumption].
    - intros [Hv Hh]. apply has_name_In in Hh. destruct Hh as [f [Hf Hfn]].
      exists (fname f). split; [apply in_map; exact Hf|]. rewrite Hfn.
      apply (record_of_file_of n None Hv).
  Qed.

  Lemma find_files_reachable : forall L d n, reach L (CDir d) -> valid_name n = true ->
    (files_of n d <> [] <-> In n L).
  Proof.
    intros L d n Hr Hn. destruct (reach_inv L _ Hr) as [HI [_ HG]]. simpl in HI, HG.
    rewrite (HG n). split.
    - intros Hne. split; [exact Hn|]. destruct (Inv_base_or_absent d n HI Hn); [assumption|contradiction].
    - intros [_ Hh]. eapply has_name_files_of; [apply matches_base; exact Hn|exact Hh].
  Qed.

End Reach.
