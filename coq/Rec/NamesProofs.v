(** Proofs about [Rec/Names.v]: file discovery is exact on the record-name alphabet. *)
From Coq Require Import List String Ascii NArith Bool Arith Lia.
From MV Require Import Base.Sx Rec.Names.
Import ListNotations.
Local Open Scope string_scope.

(** ** Basic facts *)

Lemma name_char_dot : name_char "."%char = false.
Proof. reflexivity. Qed.

Lemma ascii_eqb_eq : forall a b, Ascii.eqb a b = true -> a = b.
Proof. intros a b H. apply Ascii.eqb_eq. exact H. Qed.

Lemma valid_all_name : forall s, valid_name s = true -> all_name s = true.
Proof. intros [|c r] H; simpl in *; [discriminate|exact H]. Qed.

Lemma valid_nonempty : forall s, valid_name s = true -> s <> "".
Proof. intros [|c r] H; simpl in *; [discriminate|discriminate]. Qed.

Lemma strip_app : forall p r, strip p (p ++ r) = Some r.
Proof.
  induction p as [|a p IH]; intros r; simpl; [reflexivity|].
  rewrite Ascii.eqb_refl. apply IH.
Qed.

Lemma strip_some : forall p s r, strip p s = Some r -> s = p ++ r.
Proof.
  induction p as [|a p IH]; intros s r H; simpl in *.
  - inversion H. reflexivity.
  - destruct s as [|b s]; [discriminate|].
    destruct (Ascii.eqb a b) eqn:E; [|discriminate].
    apply ascii_eqb_eq in E. subst b. f_equal. apply IH. exact H.
Qed.

Lemma ends_with_app : forall sfx x, ends_with sfx (x ++ sfx) = true.
Proof.
  intros sfx x. induction x as [|c x IH]; cbn [append ends_with].
  - destruct sfx; cbn [ends_with]; rewrite String.eqb_refl; reflexivity.
  - rewrite IH. apply orb_true_r.
Qed.

Lemma ends_with_spec : forall sfx s, ends_with sfx s = true -> exists x, s = x ++ sfx.
Proof.
  intros sfx s. induction s as [|c s IH]; cbn [ends_with]; intros H.
  - rewrite orb_false_r in H. apply String.eqb_eq in H. subst. exists "". reflexivity.
  - apply orb_true_iff in H. destruct H as [H|H].
    + apply String.eqb_eq in H. exists "". simpl. exact H.
    + destruct (IH H) as [x Hx]. exists (String c x). simpl. f_equal. exact Hx.
Qed.

(** ** The key separation lemma

    If [n] and [m] consist of alphabet characters, [c] is outside the alphabet, and [n] is a
    prefix of [m ++ c :: x] followed by a character outside the alphabet, then [n = m]. *)
Lemma strip_sep : forall n m c x r,
  all_name n = true -> all_name m = true -> name_char c = false ->
  strip n (m ++ String c x) = Some r ->
  (match r with String c' _ => name_char c' = false | EmptyString => False end) ->
  n = m /\ r = String c x.
Proof.
  induction n as [|a n IH]; intros m c x r Hn Hm Hc Hs Hr.
  - simpl in Hs. inversion Hs; subst r. clear Hs.
    destruct m as [|b m]; simpl in *.
    + split; reflexivity.
    + apply andb_true_iff in Hm. destruct Hm as [Hb _]. rewrite Hb in Hr. discriminate.
  - simpl in Hn. apply andb_true_iff in Hn. destruct Hn as [Ha Hn].
    destruct m as [|b m]; simpl in Hs.
    + destruct (Ascii.eqb a c) eqn:E; [|discriminate].
      apply ascii_eqb_eq in E. subst c. rewrite Ha in Hc. discriminate.
    + destruct (Ascii.eqb a b) eqn:E; [|discriminate].
      apply ascii_eqb_eq in E. subst b.
      simpl in Hm. apply andb_true_iff in Hm. destruct Hm as [_ Hm].
      destruct (IH m c x r Hn Hm Hc Hs Hr) as [E1 E2]. subst. split; reflexivity.
Qed.

(** General form: any file name made of a valid record name [m] and a suffix that starts
    outside the alphabet.  [matches n] accepts it iff [n = m] and the suffix ends in
    [".ih5"]. *)
Lemma matches_exact_gen : forall n m c x,
  valid_name n = true -> valid_name m = true -> name_char c = false ->
  (matches n (m ++ String c x) = true <-> n = m /\ ends_with file_ext (String c x) = true).
Proof.
  intros n m c x Hn Hm Hc. apply valid_all_name in Hn. apply valid_all_name in Hm.
  unfold matches, glob_ok, regex_ok. split.
  - intros H. destruct (strip n (m ++ String c x)) as [r|] eqn:Hs; [|discriminate].
    apply andb_true_iff in H. destruct H as [Hg Hr].
    assert (Hr' : match r with String c' _ => name_char c' = false | "" => False end).
    { destruct r as [|c' r']; [discriminate|]. apply negb_true_iff in Hr. exact Hr. }
    destruct (strip_sep n m c x r Hn Hm Hc Hs Hr') as [E1 E2]. subst. split; [reflexivity|exact Hg].
  - intros [E He]. subst m. rewrite strip_app. rewrite He. simpl. rewrite Hc. reflexivity.
Qed.

Lemma file_of_shape : forall m k, exists x,
  file_of m k = m ++ String "."%char x /\ ends_with file_ext (String "."%char x) = true.
Proof.
  intros m [i|]; simpl; unfold patch_filename, base_filename, patch_infix, file_ext.
  - exists ("p" ++ string_of_N i ++ ".ih5"). split; [reflexivity|].
    exact (ends_with_app ".ih5" (".p" ++ string_of_N i)).
  - exists "ih5". split; reflexivity.
Qed.

(** [find_files_exact]: over the record-name alphabet and for every patch suffix, a file
    belongs to exactly the record it was named after. *)
Lemma find_files_exact : forall n m k,
  valid_name n = true -> valid_name m = true ->
  (matches n (file_of m k) = true <-> n = m).
Proof.
  intros n m k Hn Hm. destruct (file_of_shape m k) as [x [E He]]. rewrite E.
  rewrite (matches_exact_gen n m "."%char x Hn Hm name_char_dot). tauto.
Qed.

Lemma find_files_exact_false : forall n m k,
  valid_name n = true -> valid_name m = true -> n <> m -> matches n (file_of m k) = false.
Proof.
  intros n m k Hn Hm Hne. destruct (matches n (file_of m k)) eqn:E; [|reflexivity].
  apply find_files_exact in E; auto. contradiction.
Qed.

(** The prefix-related names of the property statement, as a concrete instance. *)
Lemma prefix_names_distinct_files :
  forall k, matches "foo" (file_of "foo2" k) = false /\ matches "foo" (file_of "foo-bar" k) = false
         /\ matches "foo" (file_of "fo" k) = false /\ matches "fo" (file_of "foo" k) = false
         /\ matches "foo" (file_of "foo" k) = true.
Proof.
  intros k. repeat split; try (apply find_files_exact_false; [reflexivity|reflexivity|discriminate]).
  apply find_files_exact; reflexivity.
Qed.

(** ** [find_files] on a directory of standard names *)

Lemma find_files_dir : forall n (mks : list (string * option N)),
  valid_name n = true -> Forall (fun mk => valid_name (fst mk) = true) mks ->
  find_files n (map (fun mk => file_of (fst mk) (snd mk)) mks)
  = Some (map (fun mk => file_of (fst mk) (snd mk)) (filter (fun mk => String.eqb (fst mk) n) mks)).
Proof.
  intros n mks Hn Hall. unfold find_files. rewrite Hn. f_equal.
  induction Hall as [|[m k] mks Hm _ IH]; simpl; [reflexivity|]. simpl in Hm.
  destruct (String.eqb m n) eqn:E.
  - apply String.eqb_eq in E. subst m.
    assert (H : matches n (file_of n k) = true) by (apply find_files_exact; auto).
    rewrite H. simpl. f_equal. exact IH.
  - apply String.eqb_neq in E.
    rewrite find_files_exact_false; auto.
Qed.

(** ** [infer_name] inverts the file-name construction *)

Lemma prefix_dot_name : forall sep' c r, name_char c = true ->
  strip (String "."%char sep') (String c r) = None.
Proof.
  intros sep' c r Hc. cbn [strip]. destruct (Ascii.eqb "."%char c) eqn:E; [|reflexivity].
  apply ascii_eqb_eq in E. subst c. discriminate.
Qed.

Lemma before_name_app : forall sep' m rest, all_name m = true ->
  before (String "."%char sep') (m ++ rest) = m ++ before (String "."%char sep') rest.
Proof.
  intros sep' m rest. induction m as [|c m IH]; intros Hm; [reflexivity|].
  simpl in Hm. apply andb_true_iff in Hm. destruct Hm as [Hc Hm].
  change ((String c m) ++ rest) with (String c (m ++ rest)).
  unfold before; fold before. rewrite (prefix_dot_name sep' c (m ++ rest) Hc).
  rewrite (IH Hm). reflexivity.
Qed.

Lemma append_nil_r : forall s, s ++ "" = s.
Proof. induction s; simpl; [reflexivity|f_equal; assumption]. Qed.

Lemma before_ext_infix : forall z, before ".ih5" (".p" ++ z) = ".p" ++ before ".ih5" z.
Proof. intros z. reflexivity. Qed.

Lemma before_infix_hit : forall w, before ".p" (".p" ++ w) = "".
Proof. intros w. reflexivity. Qed.

Lemma infer_name_file_of : forall m k, valid_name m = true -> infer_name (file_of m k) = m.
Proof.
  intros m k Hm. apply valid_all_name in Hm. unfold infer_name, file_ext, patch_infix.
  destruct k as [i|]; unfold file_of, patch_filename, base_filename, file_ext, patch_infix.
  - rewrite (before_name_app "ih5" m _ Hm). rewrite before_ext_infix.
    rewrite (before_name_app "p" m _ Hm). rewrite before_infix_hit. apply append_nil_r.
  - rewrite (before_name_app "ih5" m _ Hm).
    change (before ".ih5" ".ih5") with "".
    rewrite (before_name_app "p" m _ Hm). change (before ".p" "") with "".
    rewrite !append_nil_r. reflexivity.
Qed.

(** ** [list_records] *)

Lemma mem_str_In : forall x l, mem_str x l = true <-> In x l.
Proof.
  intros x l. induction l as [|y l IH]; simpl; [split; [discriminate|tauto]|].
  rewrite orb_true_iff, IH. split; intros [H|H]; auto.
  - left. apply String.eqb_eq in H. auto.
  - left. subst. apply String.eqb_refl.
Qed.

Lemma dedup_In : forall x l, In x (dedup l) <-> In x l.
Proof.
  intros x l. induction l as [|y l IH]; simpl; [tauto|].
  destruct (mem_str y l) eqn:E.
  - rewrite IH. split; [auto|]. intros [H|H]; [|exact H]. subst. apply mem_str_In. exact E.
  - simpl. rewrite IH. tauto.
Qed.

Lemma dedup_NoDup : forall l, NoDup (dedup l).
Proof.
  induction l as [|y l IH]; simpl; [constructor|].
  destruct (mem_str y l) eqn:E; [exact IH|].
  constructor; [|exact IH]. rewrite dedup_In. intros H. apply mem_str_In in H. congruence.
Qed.

Lemma filter_some_In : forall {X} (x : X) l, In x (filter_some l) <-> In (Some x) l.
Proof.
  intros X x l. induction l as [|[y|] l IH]; simpl; [tauto| |].
  - rewrite IH. split; intros [H|H]; auto; left; congruence.
  - rewrite IH. split; [auto|]. intros [H|H]; [discriminate|exact H].
Qed.

Lemma list_records_spec : forall n dir,
  In n (list_records dir) <-> exists f, In f dir /\ record_of f = Some n.
Proof.
  intros n dir. unfold list_records. rewrite dedup_In, filter_some_In, in_map_iff.
  split; intros [f H]; exists f; tauto.
Qed.

Lemma list_records_NoDup : forall dir, NoDup (list_records dir).
Proof. intros. apply dedup_NoDup. Qed.

Lemma name_prefix_app : forall m c x, all_name m = true -> name_char c = false ->
  name_prefix (m ++ String c x) = m.
Proof.
  induction m as [|a m IH]; intros c x Hm Hc; simpl.
  - rewrite Hc. reflexivity.
  - simpl in Hm. apply andb_true_iff in Hm. destruct Hm as [Ha Hm]. rewrite Ha.
    f_equal. apply IH; assumption.
Qed.

Lemma length_app_lt : forall m c x, (String.length m < String.length (m ++ String c x))%nat.
Proof. induction m; intros; simpl; [lia|]. specialize (IHm c x). lia. Qed.

Lemma ends_with_right : forall sfx m x, ends_with sfx x = true -> ends_with sfx (m ++ x) = true.
Proof.
  intros sfx m x H. induction m as [|c m IH]; simpl; [exact H|]. rewrite IH. apply orb_true_r.
Qed.

Lemma record_of_file_of : forall m k, valid_name m = true -> record_of (file_of m k) = Some m.
Proof.
  intros m k Hm. destruct (file_of_shape m k) as [x [E He]]. rewrite E.
  unfold record_of. rewrite (name_prefix_app m "."%char x (valid_all_name m Hm) name_char_dot).
  rewrite (ends_with_right _ m _ He).
  assert (Hne : String.eqb m "" = false).
  { apply String.eqb_neq. apply valid_nonempty. exact Hm. }
  rewrite Hne. simpl.
  pose proof (length_app_lt m "."%char x) as Hl. apply Nat.ltb_lt in Hl. rewrite Hl. reflexivity.
Qed.

(** [list_records] returns exactly the names that have files. *)
Lemma list_records_exact : forall (mks : list (string * option N)) n,
  Forall (fun mk => valid_name (fst mk) = true) mks ->
  (In n (list_records (map (fun mk => file_of (fst mk) (snd mk)) mks)) <-> In n (map fst mks)).
Proof.
  intros mks n Hall. rewrite list_records_spec. rewrite Forall_forall in Hall. split.
  - intros [f [Hf Hr]]. apply in_map_iff in Hf. destruct Hf as [[m k] [Ef Hin]]. subst f.
    simpl in Hr. rewrite record_of_file_of in Hr by (apply (Hall _ Hin)).
    inversion Hr; subst. apply in_map_iff. exists (n, k). auto.
  - intros Hin. apply in_map_iff in Hin. destruct Hin as [[m k] [E Hin]]. simpl in E. subst m.
    exists (file_of n k). split.
    + apply in_map_iff. exists (n, k). auto.
    + apply record_of_file_of. apply (Hall _ Hin).
Qed.

(** A listed record is one for which [find_files] finds something, and conversely. *)
Lemma list_records_find_files : forall (mks : list (string * option N)) n,
  Forall (fun mk => valid_name (fst mk) = true) mks -> valid_name n = true ->
  let dir := map (fun mk => file_of (fst mk) (snd mk)) mks in
  (In n (list_records dir) <-> exists fs, find_files n dir = Some fs /\ fs <> []).
Proof.
  intros mks n Hall Hn dir. unfold dir. rewrite (list_records_exact mks n Hall).
  rewrite (find_files_dir n mks Hn Hall). split.
  - intros Hin. eexists. split; [reflexivity|].
    apply in_map_iff in Hin. destruct Hin as [[m k] [E Hin]]. simpl in E. subst m.
    intros Hnil. apply map_eq_nil in Hnil.
    assert (Hf : In (n, k) (filter (fun mk => String.eqb (fst mk) n) mks)).
    { apply filter_In. split; [exact Hin|]. simpl. apply String.eqb_refl. }
    rewrite Hnil in Hf. exact Hf.
  - intros [fs [E Hne]]. inversion E; subst fs. clear E.
    destruct (filter (fun mk => String.eqb (fst mk) n) mks) as [|[m k] l] eqn:Ef; [contradiction Hne; reflexivity|].
    assert (Hf : In (m, k) (filter (fun mk => String.eqb (fst mk) n) mks)) by (rewrite Ef; left; reflexivity).
    apply filter_In in Hf. destruct Hf as [Hin Heq]. simpl in Heq. apply String.eqb_eq in Heq. subst m.
    apply in_map_iff. exists (n, k). auto.
Qed.

(** ** The pinned validity check is too permissive (refutation) *)

Lemma valid_name_pinned_refuted :
  exists n m, valid_name_pinned n = true /\ valid_name m = true /\ n <> m /\
              matches m (file_of n None) = true.
Proof.
  exists (String "f" (String "o" (String (ascii_of_N 10) ""))), "fo".
  repeat split; try reflexivity. discriminate.
Qed.

Lemma valid_name_implies_pinned : forall s, valid_name s = true -> valid_name_pinned s = true.
Proof.
  intros s H. unfold valid_name_pinned.
  assert (E : strip_final_nl s = s); [|rewrite E; exact H].
  apply valid_all_name in H. induction s as [|c r IH]; [reflexivity|].
  simpl in H. apply andb_true_iff in H. destruct H as [Hc Hr].
  simpl. destruct r as [|c' r'].
  - destruct (N_of_ascii c =? 10)%N eqn:E; [|reflexivity].
    apply N.eqb_eq in E. unfold name_char in Hc. rewrite E in Hc. discriminate.
  - f_equal. apply IH. exact Hr.
Qed.
