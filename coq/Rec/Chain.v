(** * Model of record opening: user blocks, the patch chain and its checks (property C04).

    Transcribes, as total Gallina functions, from [metador_core/ih5/record.py] and
    [metador_core/ih5/manifest.py]:
    - [IH5UserBlock]: the fields [record_uuid], [patch_index], [patch_uuid], [prev_patch],
      [hdf5_hashsum] and the manifest extension [ub_exts["ih5mf_v01"]]
      ([is_stub_container], [manifest_uuid], [manifest_hashsum]);
    - [IH5Record._open]: stable sort by [patch_index]; base must not carry [prev_patch]
      unless [allow_baseless]; [_check_ublock] on the base (hash required iff the record
      has patches), on every inner patch (hash required) and on the newest one (hash not
      required); all [patch_uuid]s distinct;
    - [IH5Record._check_ublock]: same [record_uuid] as the first container; hash present if
      required; a present hash must equal the digest of the actual payload; with a
      predecessor: strictly larger index, [prev_patch] present, [prev_patch] = predecessor's
      [patch_uuid];
    - [IH5MFRecord._check_ublock]: additionally no patch may be marked as stub;
    - [IH5MFRecord._open]: if the newest container names a manifest, the sidecar file must
      exist and its digest must equal [manifest_hashsum].
    The tests are made in the order of the code and the first failing test is reported
    ([err], with the position of the offending container in index order).

    Identifiers (UUIDs) and digests are abstract numbers: the harness renames the real
    values by first occurrence.  A [file] pairs the parsed user block with what is actually
    on disk: the digest of the bytes after the user block, and the sidecar manifest found
    at the inferred path (its own uuid and the digest of its bytes), if any.

    [coherent] is the declarative specification of a well-formed file set.  This file
    contains definitions only. *)
From Coq Require Import List String NArith Bool Permutation.
From MV Require Import Base.Sx.
Import ListNotations.
Local Open Scope N_scope.

(** ** User blocks and files *)

Record mfext : Type := MkExt { is_stub : bool; mf_id : N; mf_hash : N }.

Record ublock : Type := MkUb {
  rec_id : N;            (* record_uuid *)
  idx : N;               (* patch_index *)
  pid : N;               (* patch_uuid *)
  prev : option N;       (* prev_patch *)
  hash : option N;       (* hdf5_hashsum *)
  ext : option mfext     (* ub_exts["ih5mf_v01"] *)
}.

Record file : Type := MkFile {
  ub : ublock;
  dig : N;                   (* digest of the actual payload (bytes after the user block) *)
  mf : option (N * N)        (* actual sidecar manifest: (manifest_uuid inside, digest of its bytes) *)
}.

Definition frec (f : file) : N := rec_id (ub f).
Definition fidx (f : file) : N := idx (ub f).
Definition fpid (f : file) : N := pid (ub f).
Definition fprev (f : file) : option N := prev (ub f).
Definition fhash (f : file) : option N := hash (ub f).
Definition fext (f : file) : option mfext := ext (ub f).

Definition is_some {X : Type} (o : option X) : bool :=
  match o with Some _ => true | None => false end.

(** ** [sort(key=patch_index)]: stable insertion sort *)

Fixpoint insert (x : file) (l : list file) : list file :=
  match l with
  | [] => [x]
  | y :: r => if fidx x <=? fidx y then x :: l else y :: insert x r
  end.

Definition isort (l : list file) : list file := fold_right insert [] l.

(** ** The checks *)

Inductive err : Type :=
| EEmpty          (* "Cannot open empty list of containers!" *)
| EBasePrev       (* "base container must not have attribute 'prev_patch'!" *)
| ERecord         (* "'record_uuid' inconsistent! Mixed up records?" *)
| EHashMissing    (* "hdf5_checksum is missing!" *)
| EHashMismatch   (* "file has been modified, stored and computed checksum are different!" *)
| EIndex          (* "patch container must have greater index than predecessor!" *)
| ENoPrev         (* "patch must have an attribute 'prev_patch'!" *)
| EPrevMismatch   (* "patch for ..., but predecessor is ..." *)
| EStubPatch      (* assertion of IH5MFRecord._check_ublock *)
| EDupPid         (* "Some patch_uuid is not unique, invalid file set!" *)
| EMfMissing      (* "Manifest file ... does not exist, cannot open!" *)
| EMfHash.        (* "Manifest has been modified, unexpected hashsum!" *)

Definition stub_marked (f : file) : bool :=
  match fext f with Some e => is_stub e | None => false end.

(** [_check_ublock(filename, ub, prev, check_hashsum)] of the record class selected by [mfm]
    ([true] = IH5MFRecord); [rid] is [self.ih5_uuid]. *)
Definition check_ub (mfm : bool) (rid : N) (f : file) (p : option file) (need_hash : bool)
  : option err :=
  if negb (frec f =? rid) then Some ERecord else
  if need_hash && negb (is_some (fhash f)) then Some EHashMissing else
  if (match fhash f with Some h => negb (h =? dig f) | None => false end)
  then Some EHashMismatch else
  match p with
  | None => None
  | Some q =>
      if fidx f <=? fidx q then Some EIndex else
      match fprev f with
      | None => Some ENoPrev
      | Some r =>
          if negb (r =? fpid q) then Some EPrevMismatch else
          if mfm && stub_marked f then Some EStubPatch else None
      end
  end.

(** The loop over the patches: all but the last with hash check, the last without. *)
Fixpoint check_patches (mfm : bool) (rid : N) (pos : N) (p : file) (l : list file)
  : option (err * N) :=
  match l with
  | [] => None
  | x :: r =>
      let need := match r with [] => false | _ :: _ => true end in
      match check_ub mfm rid x (Some p) need with
      | Some e => Some (e, pos)
      | None => check_patches mfm rid (pos + 1) x r
      end
  end.

Fixpoint mem (n : N) (l : list N) : bool :=
  match l with [] => false | m :: r => (n =? m) || mem n r end.

Fixpoint nodupb (l : list N) : bool :=
  match l with [] => true | n :: r => negb (mem n r) && nodupb r end.

(** The manifest clause of [IH5MFRecord._open], on the newest container. *)
Definition check_manifest (n : file) : option err :=
  match fext n with
  | None => None
  | Some e =>
      match mf n with
      | None => Some EMfMissing
      | Some (_, d) => if d =? mf_hash e then None else Some EMfHash
      end
  end.

Definition lastpos (c : list file) : N := N.of_nat (Nat.pred (List.length c)).

(** All checks on the index-sorted list. *)
Definition checks (mfm bl : bool) (c : list file) : option (err * N) :=
  match c with
  | [] => Some (EEmpty, 0)
  | b :: ps =>
      if negb bl && is_some (fprev b) then Some (EBasePrev, 0) else
      let has_patches := match ps with [] => false | _ :: _ => true end in
      match check_ub mfm (frec b) b None has_patches with
      | Some e => Some (e, 0)
      | None =>
          match check_patches mfm (frec b) 1 b ps with
          | Some e => Some e
          | None =>
              if negb (nodupb (map fpid c)) then Some (EDupPid, 0) else
              if mfm then
                match check_manifest (last c b) with
                | Some e => Some (e, lastpos c)
                | None => None
                end
              else None
          end
      end
  end.

(** [_open(paths, allow_baseless=bl)]: the first failing test, or the containers in
    index order. *)
Definition open_res (mfm bl : bool) (fs : list file) : (err * N) + list file :=
  let c := isort fs in
  match checks mfm bl c with
  | Some e => inl e
  | None => inr c
  end.

Definition open_check (mfm bl : bool) (fs : list file) : option (list file) :=
  match open_res mfm bl fs with
  | inl _ => None
  | inr c => Some c
  end.

(** ** Declarative specification *)

(** Consecutive containers: strictly increasing index, each names its predecessor. *)
Inductive linked : list file -> Prop :=
| linked_one : forall f, linked [f]
| linked_cons : forall p x r,
    fidx p < fidx x -> fprev x = Some (fpid p) -> linked (x :: r) -> linked (p :: x :: r).

(** Committed, and the payload on disk is the one that was hashed at commit time. *)
Definition intact (f : file) : Prop := fhash f = Some (dig f).

(** The newest container may still be uncommitted. *)
Definition newest_ok (f : file) : Prop := fhash f = None \/ intact f.

(** If the user block names a manifest, that manifest is on disk with the recorded digest. *)
Definition mf_ok (f : file) : Prop :=
  forall e, fext f = Some e -> exists i, mf f = Some (i, mf_hash e).

Definition not_stub (f : file) : Prop := forall e, fext f = Some e -> is_stub e = false.

(** [c] is a record in chain order: one base (without predecessor unless baseless sets are
    allowed), a gap-free chain of patches of the same record with distinct patch ids, all
    but the newest committed and untampered, and (manifest-aware class only) no stub above
    the base and a matching manifest for the newest container. *)
Record chain_ok (mfm bl : bool) (c : list file) : Prop := {
  co_base : exists b ps, c = b :: ps /\ (bl = false -> fprev b = None) /\
            Forall (fun f => frec f = frec b) ps /\
            (mfm = true -> Forall not_stub ps);
  co_links : linked c;
  co_nodup : NoDup (map fpid c);
  co_commit : exists l n, c = l ++ [n] /\ Forall intact l /\ newest_ok n /\
              (mfm = true -> mf_ok n)
}.

(** A file set (in any order) is coherent iff it can be arranged into such a chain. *)
Definition coherent (mfm bl : bool) (fs : list file) : Prop :=
  exists c, Permutation c fs /\ chain_ok mfm bl c.

(** ** Runner entry point.
    Case: [(mfm bl (file ...))], file = [(rec idx pid (prev?) (hash?) (ext?) dig (mf?))],
    ext = [(stub id hash)], mf = [(id dig)].
    Result: [(ok (pid ...))] in index order, or [(err kind pos)]. *)

Definition sx_ext (x : sx) : option mfext :=
  match x with
  | L [s; i; h] =>
      match sx_bool s, sx_N i, sx_N h with
      | Some s, Some i, Some h => Some (MkExt s i h)
      | _, _, _ => None
      end
  | _ => None
  end.

Definition sx_file (x : sx) : option file :=
  match x with
  | L [r; i; p; pv; h; e; d; m] =>
      match sx_N r, sx_N i, sx_N p, sx_opt sx_N pv, sx_opt sx_N h, sx_opt sx_ext e,
            sx_N d, sx_opt (sx_pair sx_N sx_N) m with
      | Some r, Some i, Some p, Some pv, Some h, Some e, Some d, Some m =>
          Some (MkFile (MkUb r i p pv h e) d m)
      | _, _, _, _, _, _, _, _ => None
      end
  | _ => None
  end.

Local Open Scope string_scope.

Definition err_name (e : err) : string :=
  match e with
  | EEmpty => "empty" | EBasePrev => "base-prev" | ERecord => "record"
  | EHashMissing => "hash-missing" | EHashMismatch => "hash-mismatch"
  | EIndex => "index" | ENoPrev => "no-prev" | EPrevMismatch => "prev-mismatch"
  | EStubPatch => "stub-patch" | EDupPid => "dup-pid"
  | EMfMissing => "mf-missing" | EMfHash => "mf-hash"
  end.

Definition run_c04 (x : sx) : sx :=
  match x with
  | L [m; b; fs] =>
      match sx_bool m, sx_bool b, sx_map sx_file fs with
      | Some m, Some b, Some fs =>
          match open_res m b fs with
          | inl (e, pos) => L [A "err"; A (err_name e); of_N pos]
          | inr c => L [A "ok"; of_list (fun f => of_N (fpid f)) c]
          end
      | _, _, _ => sx_bad "c04"
      end
  | _ => sx_bad "c04"
  end.
