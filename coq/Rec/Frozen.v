(** * Committed containers are never modified again (property C02): the model.

    Wraps the handle model of [Rec/Modes.v] (directory of container files, one open
    handle, the six open modes, [create_patch], [commit_patch], [discard_patch], overlay
    writes, [close]) without changing it, and adds what C02 talks about in addition:

    - The two record classes.  [IH5MFRecord] (manifest.py) writes a manifest SIDECAR file
      next to the container it commits and records the manifest's uuid in the container's
      user block ([ub_exts["ih5mf_v01"]]); its [_open] checks the sidecar of the newest
      opened container against that entry.  The content of a container file is therefore
      [cont = payload * option manifest-id]: the second component is the user-block
      extension.  Sidecars are kept in a table keyed by the file name of the container
      they stand beside (the real name is that name followed by ["mf.json"]); their
      content is the manifest uuid (the rest of a manifest is a function of the commit).
      [Path.open("wb")] = [set_side]: replaces whatever was there.
    - [merge_files(target)] (record.py:605, manifest.py:193-214): refuses on a closed
      record, (manifest-aware class) on a record with a stub container, and on a pending patch; creates the record [target] with mode ['x'] (invalid
      name -> ValueError, existing base file -> FileExistsError), fills it, commits it on
      leaving the [with] block, then overwrites the target's user block with a copy of the
      source's NEWEST user block ([prev_patch] := that of the source's oldest container,
      [hdf5_hashsum] := hash of the merged payload).  [IH5MFRecord]: the commit of the
      target wrote a fresh manifest; if the source handle holds a manifest in memory
      ([_manifest]) the target's sidecar is overwritten with it.  The step yields ONE NEW
      committed file (plus its sidecar) in the target directory and leaves everything
      else as it was.  The target may lie in the directory of the record or in another
      directory ([other]); the other directory only ever receives merge results.
    - [_manifest] of a handle ([hman]): set by [_open] from the newest container found (if
      that container names a manifest), by every commit of the manifest-aware class, and
      never reset.
    - Reads ([FRead]: visit, dataset reads, attribute reads): no effect.
    - [delete_files] and open mode ['w'] are the two explicitly truncating operations; they
      are part of the model ([FDelete], [FOpen _ MW _ _ _]) and are what the property
      excludes ([touches]).
    - [FStub]: [IH5MFRecord.create_stub(target, manifest_file).close()] (manifest.py:251): the
      manifest is the sidecar standing beside the container [src] of the directory (missing
      -> FileNotFoundError); [_create(target)] as for mode ['x']; the stub's user block is the
      one recorded in the manifest — record id, patch index and patch id of [src], no
      predecessor — its content the skeleton of the view at that commit (modelled as the
      merge of the payloads of [src] and its predecessors); the commit marks it as stub and
      writes a FRESH manifest beside it.  One new committed file plus its sidecar, in the
      directory of the record or in the other one; nothing else is touched.  Domain: the
      sidecar beside [src] was written by the commit of [src] or copied from the record a
      merge result was made of (then its user block agrees with that of [src]).
    - [FDrop]: the handle object is given up (after [close], or without it: the files stay
      as they are, a pending patch stays uncommitted).

    Fresh uuids ([uuid1()]) are arguments.  Definitions only; proofs in [FrozenProofs.v]. *)
From Coq Require Import List String Ascii NArith Bool.
From MV Require Import Base.Sx Rec.Names Rec.Modes.
Import ListNotations.
Local Open Scope string_scope.

Definition sides : Type := list (string * N).     (* container file name |-> manifest uuid *)

Fixpoint side_of (nm : string) (sd : sides) : option N :=
  match sd with
  | [] => None
  | (k, m) :: r => if String.eqb k nm then Some m else side_of nm r
  end.

Definition set_side (nm : string) (m : N) (sd : sides) : sides :=
  (nm, m) :: filter (fun km => negb (String.eqb (fst km) nm)) sd.

Section Model.
  Context {P : Type}.
  Variable empty : P.                      (* payload of a freshly created container *)
  Variable mergepay : list P -> P.         (* payload of the merge of a view (newest first) *)

  (** Content of a container: payload, and the manifest extension of the user block
      ([manifest_uuid], [is_stub_container]) if there is one. *)
  Definition cont : Type := (P * option (N * bool))%type.
  Definition cempty : cont := (empty, None).          (* [ub_exts = {}] *)
  Definition set_ext (m : N) (c : cont) : cont := (fst c, Some (m, false)).
  Definition lift (g : P -> P) (c : cont) : cont := (g (fst c), snd c).
  Definition fext (f : file cont) : option N := option_map fst (snd (fpay f)).
  Definition fstub (f : file cont) : bool :=
    match snd (fpay f) with Some (_, b) => b | None => false end.
  Definition pview (s : state cont) : list P := map fst (view s).

  Record handle : Type := mkhandle {
    hs : state cont;
    hmf : bool;                            (* the class is IH5MFRecord *)
    hman : option N                        (* [_manifest] *)
  }.

  Inductive place : Type :=
  | PDir (d : list (file cont))            (* no handle: the directory *)
  | POpen (h : handle).                    (* directory = [dir_of (hs h)] *)

  Record world : Type := mkworld {
    here : place;
    hsides : sides;                        (* sidecars in the directory of the record *)
    other : list (file cont);              (* the other directory *)
    osides : sides
  }.

  Definition wdir (w : world) : list (file cont) :=
    match here w with PDir d => d | POpen h => dir_of (hs h) end.

  (** ** Opening with either class *)

  Definition sel_of (t : target) (d : list (file cont)) : list (file cont) :=
    match t with
    | ByName n => files_of n d
    | ByList l => match lookup_all l d with Some x => x | None => [] end
    end.

  (** [ret._ublock(-1)] inside [_open]: the newest of the selected files. *)
  Definition newest_of (t : target) (d : list (file cont)) : option (file cont) :=
    match sort_desc (sel_of t d) with x :: _ => Some x | [] => None end.

  (** The manifest clause of [IH5MFRecord._open]. *)
  Definition mf_check (sd : sides) (f : file cont) : bool :=
    match fext f with
    | None => true
    | Some m => match side_of (fname f) sd with Some m' => N.eqb m m' | None => false end
    end.

  Definition open_cls (mf : bool) (m : mode) (t : target) (d : list (file cont)) (sd : sides)
                      (r u : N) : result cont :=
    match m with
    | MW | MWm | MX => open_mode cempty m t d r u
    | _ =>
        match newest_of t d with
        | Some x =>
            if mf && chain_ok (sort_desc (sel_of t d)) && negb (mf_check sd x)
            then Refused EValue d
            else open_mode cempty m t d r u
        | None => open_mode cempty m t d r u
        end
    end.

  Definition man_at_open (mf : bool) (m : mode) (t : target) (d : list (file cont)) : option N :=
    if mf then
      match m with
      | MW | MWm | MX => None
      | _ => match newest_of t d with Some x => fext x | None => None end
      end
    else None.

  (** ** Steps *)

  Inductive fop : Type :=
  | FOpen (mf : bool) (m : mode) (t : target) (r u : N)
  | FCreatePatch (u : N)
  | FCommit (m : N)                        (* m: uuid of the manifest a manifest-aware commit writes *)
  | FDiscard
  | FWrite (g : P -> P)
  | FRead
  | FClose (commit : bool) (m : N)
  | FMerge (elsewhere : bool) (t : string) (m : N)
  | FDrop
  | FDelete (n : string)
  | FStub (elsewhere : bool) (t : string) (src : string) (m : N).

  Definition put (w : world) (h : handle) (s : state cont) : world :=
    mkworld (POpen (mkhandle s (hmf h) (hman h))) (hsides w) (other w) (osides w).

  Definition via (w : world) (h : handle) (r : state cont * outcome) : world * outcome :=
    (put w h (fst r), snd r).

  (** [commit_patch] of the class of the handle.  manifest.py:218-249: the manifest is
      prepared, the user block gets the extension, [IH5Record.commit_patch] runs (its
      refusals leave everything as it was), then the sidecar is written. *)
  Definition do_commit (m : N) (w : world) (h : handle) : world * outcome :=
    let s := hs h in
    if hmf h then
      match commit_patch s with
      | (_, Err e) => (w, Err e)
      | (_, Ok) =>
          match mine s with
          | [] => (w, Err EValue)
          | l :: _ =>
              let s1 := fst (write (set_ext m) s) in
              let s2 := fst (commit_patch s1) in
              (mkworld (POpen (mkhandle s2 true (Some m)))
                       (set_side (fname l) m (hsides w)) (other w) (osides w), Ok)
          end
      end
    else via w h (commit_patch s).

  Definition do_close (c : bool) (m : N) (w : world) (h : handle) : world * outcome :=
    let s := hs h in
    if closed s then (w, Ok)
    else
      let w1 := if writable s && c then fst (do_commit m w h) else w in
      match here w1 with
      | POpen h1 => via w1 h1 (close false (hs h1))
      | PDir _ => (w1, Ok)
      end.

  Definition merged_file (t : string) (s : state cont) (nw : file cont) : file cont :=
    mkfile (base_filename t) (frec nw) (fidx nw) (fid nw) (fprev (last (mine s) nw)) true
           (mergepay (pview s), snd (fpay nw)).

  Definition do_merge (ew : bool) (t : string) (m : N) (w : world) (h : handle) : world * outcome :=
    let s := hs h in
    if closed s then (w, Err EValue)
    else if hmf h && existsb fstub (mine s) then (w, Err EValue)   (* "files contain a stub" *)
    else if writable s then (w, Err EValue)
    else if negb (valid_name t) then (w, Err EValue)
    else
      match mine s with
      | [] => (w, Err EValue)
      | nw :: _ =>
          let nm := base_filename t in
          let f := merged_file t s nw in
          let sc (sd : sides) :=
            if hmf h then set_side nm (match hman h with Some m0 => m0 | None => m end) sd
            else sd in
          if ew then
            if has_name nm (other w) then (w, Err EExists)
            else (mkworld (here w) (hsides w) (other w ++ [f]) (sc (osides w)), Ok)
          else
            if has_name nm (dir_of s) then (w, Err EExists)
            else (mkworld (POpen (mkhandle (mkstate (rest s ++ [f]) (mine s) (hname s) (writable s)
                                                     (patching s) (closed s)) (hmf h) (hman h)))
                          (sc (hsides w)) (other w) (osides w), Ok)
      end.

  (** The view at the commit of [src]: [src] and its predecessors, newest first. *)
  Definition chain_upto (src : file cont) (d : list (file cont)) : list (file cont) :=
    filter (fun g => N.leb (fidx g) (fidx src)) (sort_desc (files_of (infer_name (fname src)) d)).

  Definition stub_file (t : string) (m : N) (src : file cont) (d : list (file cont)) : file cont :=
    mkfile (base_filename t) (frec src) (fidx src) (fid src) None true
           (mergepay (map (fun g => fst (fpay g)) (chain_upto src d)), Some (m, true)).

  Definition do_stub (ew : bool) (t : string) (srcn : string) (m : N) (w : world)
                     (d : list (file cont)) : world * outcome :=
    match side_of srcn (hsides w), find (fun f => String.eqb (fname f) srcn) d with
    | Some _, Some src =>
        if negb (valid_name t) then (w, Err EValue)
        else
          let nm := base_filename t in
          let f := stub_file t m src d in
          if ew then
            if has_name nm (other w) then (w, Err EExists)
            else (mkworld (PDir d) (hsides w) (other w ++ [f]) (set_side nm m (osides w)), Ok)
          else
            if has_name nm d then (w, Err EExists)
            else (mkworld (PDir (d ++ [f])) (set_side nm m (hsides w)) (other w) (osides w), Ok)
    | _, _ => (w, Err ENotFound)
    end.

  Definition step (o : fop) (w : world) : world * outcome :=
    match here w with
    | PDir d =>
        match o with
        | FOpen mf m t r u =>
            match open_cls mf m t d (hsides w) r u with
            | Opened s =>
                (mkworld (POpen (mkhandle s mf (man_at_open mf m t d))) (hsides w) (other w) (osides w), Ok)
            | Refused e d' => (mkworld (PDir d') (hsides w) (other w) (osides w), Err e)
            end
        | FDelete n =>
            if valid_name n then (mkworld (PDir (others n d)) (hsides w) (other w) (osides w), Ok)
            else (w, Err EValue)
        | FDrop => (w, Ok)
        | FStub ew t src m => do_stub ew t src m w d
        | _ => (w, Err EKey)                 (* no handle to call the method on *)
        end
    | POpen h =>
        let s := hs h in
        match o with
        | FOpen _ _ _ _ _ => (w, Err EValue)  (* one handle at a time *)
        | FCreatePatch u => via w h (create_patch cempty u s)
        | FCommit m => do_commit m w h
        | FDiscard => via w h (discard_patch s)
        | FWrite g => via w h (write (lift g) s)
        | FRead => (w, if closed s then Err EKey else Ok)
        | FClose c m => do_close c m w h
        | FMerge ew t m => do_merge ew t m w h
        | FDrop => (mkworld (PDir (dir_of s)) (hsides w) (other w) (osides w), Ok)
        | FDelete _ => (w, Err EValue)
        | FStub _ _ _ _ => (w, Err EValue)    (* one handle at a time *)
        end
    end.

  Fixpoint run (ops : list fop) (w : world) : world :=
    match ops with
    | [] => w
    | o :: r => run r (fst (step o w))
    end.

  (** The operations the property excludes, as far as they concern the file named [nm]:
      [delete_files] of, and open mode ['w'] on, a record that file belongs to. *)
  Definition touches (o : fop) (nm : string) : bool :=
    match o with
    | FOpen _ MW (ByName n) _ _ => matches n nm
    | FDelete n => matches n nm
    | _ => false
    end.

  Definition file_at (nm : string) (d : list (file cont)) : option (file cont) :=
    find (fun f => String.eqb (fname f) nm) d.

  Definition empty_world : world := mkworld (PDir []) [] [] [].

End Model.

Arguments handle : clear implicits.
Arguments place : clear implicits.
Arguments world : clear implicits.
Arguments fop : clear implicits.

(** ** Runner entry: a script from the empty world

    Commands: [(open MF mode target r u)] [(cp u)] [(commit m)] [(discard)] [(write tok)]
    [(read)] [(close C m)] [(merge ELSEWHERE target m)] [(drop)] [(delete name)]
    [(stub ELSEWHERE target src m)].
    Payload = list of tokens; merging a view = all tokens of all containers. *)

Definition merge_tokens (v : list pay) : pay := List.concat (rev v).

Definition sx_cfile (f : file (@cont pay)) : sx :=
  L [A (fname f); of_N (frec f); of_N (fidx f); of_N (fid f); of_opt of_N (fprev f);
     of_bool (fcommitted f); of_strings (fst (fpay f)); of_opt of_N (fext f); of_bool (fstub f)].

Definition sx_sides (sd : sides) : sx :=
  of_list (fun km : string * N => L [A (fst km); of_N (snd km)]) sd.

Definition sx_fworld (w : world pay) : sx :=
  L [of_list sx_cfile (wdir w); sx_sides (hsides w); of_list sx_cfile (other w); sx_sides (osides w);
     match here w with
     | PDir _ => L []
     | POpen h =>
         let s := hs h in
         L [L [of_strings (map fname (mine s)); of_bool (writable s); of_bool (patching s);
               of_bool (closed s); of_bool (hmf h); of_opt of_N (hman h);
               of_list of_strings (pview s)]]
     end].

Definition sx_fop (c : sx) : option (fop pay) :=
  match c with
  | L [A "open"; mf; A m; t; r; u] =>
      match sx_bool mf, mode_of_string m, sx_target t, sx_N r, sx_N u with
      | Some mf', Some m', Some t', Some r', Some u' => Some (FOpen mf' m' t' r' u')
      | _, _, _, _, _ => None
      end
  | L [A "cp"; u] => option_map FCreatePatch (sx_N u)
  | L [A "commit"; m] => option_map FCommit (sx_N m)
  | L [A "discard"] => Some FDiscard
  | L [A "write"; A tok] => Some (FWrite (fun p : pay => (p ++ [tok])%list))
  | L [A "read"] => Some FRead
  | L [A "close"; c; m] =>
      match sx_bool c, sx_N m with
      | Some c', Some m' => Some (FClose c' m')
      | _, _ => None
      end
  | L [A "merge"; ew; A t; m] =>
      match sx_bool ew, sx_N m with
      | Some ew', Some m' => Some (FMerge ew' t m')
      | _, _ => None
      end
  | L [A "drop"] => Some FDrop
  | L [A "delete"; A n] => Some (FDelete n)
  | L [A "stub"; ew; A t; A src; m] =>
      match sx_bool ew, sx_N m with
      | Some ew', Some m' => Some (FStub ew' t src m')
      | _, _ => None
      end
  | _ => None
  end.

Fixpoint fexec_all (cs : list sx) (w : world pay) : list sx :=
  match cs with
  | [] => []
  | c :: r =>
      match sx_fop c with
      | Some o =>
          let res := step (@nil string) merge_tokens o w in
          L [sx_outcome (snd res); sx_fworld (fst res)] :: fexec_all r (fst res)
      | None => [sx_bad "command"]
      end
  end.

Definition run_c02 (c : sx) : sx :=
  match c with
  | L [A "script"; L cmds] => L (fexec_all cmds empty_world)
  | _ => sx_bad "c02"
  end.
