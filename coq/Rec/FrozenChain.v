(** The snapshot claim of C02 stated with C04's vocabulary.

    [abs_file] abstracts a container file of [Rec/Frozen.v] (with the sidecar table of its
    directory) to a file of [Rec/Chain.v]: user-block fields as they are, [hdf5_hashsum]
    present iff committed and then equal to the digest [H] of the payload that is on disk
    (the model has no tampering), the manifest link with the digest [Hm] of the manifest it
    names and its stub mark, the sidecar actually present beside the container with its own
    digest.  [stub_free l]: only a container without predecessor carries a stub mark (what
    [IH5MFRecord._check_ublock] asserts for every patch).
    [H] and [Hm] are arbitrary functions (no injectivity is needed in this direction).

    Then: the file set of a record right after a commit is [Chain.coherent] (C04's
    declarative spec, hence accepted by [Chain.open_check] — [C04_accept_iff]); after any
    later non-truncating operations every one of these files is still in the directory and
    the abstraction of the set is literally the same, so it is still coherent; and every
    older prefix of a handle's chain is coherent as well ([C04_prefix_ok]). *)
From Coq Require Import List String Ascii NArith Bool Lia Permutation Sorted.
From MV Require Import Base.Sx Rec.Names Rec.Modes Rec.ModesProofs Rec.Frozen Rec.FrozenProofs.
From MV Require Rec.Chain Rec.ChainProofs.
Import ListNotations.

Section Abs.
  Context {P : Type}.
  Variable empty : P.
  Variable mergepay : list P -> P.
  Variable H : P -> N.
  Variable Hm : N -> N.
  Notation cfile := (file (@cont P)).

  Definition abs_file (sd : sides) (f : cfile) : Chain.file :=
    Chain.MkFile
      (Chain.MkUb (frec f) (fidx f) (fid f) (fprev f)
                  (if fcommitted f then Some (H (fst (fpay f))) else None)
                  (option_map (fun m => Chain.MkExt (fstub f) m (Hm m)) (fext f)))
      (H (fst (fpay f)))
      (option_map (fun m => (m, Hm m)) (side_of (fname f) sd)).

  Lemma opt_N_eqb_eq : forall a b, opt_N_eqb a b = true -> a = b.
  Proof.
    intros [a|] [b|] E; simpl in E; try discriminate; [|reflexivity].
    apply N.eqb_eq in E. congruence.
  Qed.

  (** The oldest container of a checked chain is a base, all containers are of its record. *)
  Lemma chain_links_base : forall l : list cfile, chain_links l = true ->
    exists l0 b0, l = (l0 ++ [b0])%list /\ fprev b0 = None /\ Forall (fun f => frec f = frec b0) l0.
  Proof.
    induction l as [|f l IH]; intros Hl; [discriminate|].
    destruct l as [|g r].
    - exists [], f. simpl in Hl. apply opt_N_eqb_eq in Hl. repeat split; auto.
    - rewrite chain_links_cons2 in Hl.
      apply andb_true_iff in Hl. destruct Hl as [Hl Ht].
      apply andb_true_iff in Hl. destruct Hl as [Hl _].
      apply andb_true_iff in Hl. destruct Hl as [Hl _].
      apply andb_true_iff in Hl. destruct Hl as [Hr _]. apply N.eqb_eq in Hr.
      destruct (IH Ht) as [l0 [b0 [E [Hp Hf]]]].
      exists (f :: l0), b0. split; [simpl; rewrite E; reflexivity|]. split; [exact Hp|].
      constructor; [|exact Hf]. rewrite Hr.
      assert (Hin : In g (l0 ++ [b0])) by (rewrite <- E; left; reflexivity).
      apply in_app_or in Hin. destruct Hin as [Hin|[Hin|[]]].
      + rewrite Forall_forall in Hf. apply Hf. exact Hin.
      + subst. reflexivity.
  Qed.

  Lemma linked_snoc : forall c p x,
    Chain.linked (c ++ [p]) -> (Chain.fidx p < Chain.fidx x)%N -> Chain.fprev x = Some (Chain.fpid p) ->
    Chain.linked ((c ++ [p]) ++ [x]).
  Proof.
    induction c as [|a c IH]; intros p x Hl Hi Hp.
    - simpl. apply Chain.linked_cons; [exact Hi|exact Hp|apply Chain.linked_one].
    - simpl in *. destruct (c ++ [p])%list as [|y t] eqn:E.
      + exfalso. destruct c; discriminate.
      + inversion Hl as [|p0 x0 r0 Hlt Hpr Hrest]; subst.
        simpl. apply Chain.linked_cons; [exact Hlt|exact Hpr|].
        change (Chain.linked ((y :: t) ++ [x])). rewrite <- E. apply IH; [rewrite E; exact Hrest|exact Hi|exact Hp].
  Qed.

  Lemma linked_abs : forall sd (l : list cfile), chain_links l = true ->
    Chain.linked (rev (map (abs_file sd) l)).
  Proof.
    intros sd. induction l as [|f l IH]; intros Hl; [discriminate|].
    destruct l as [|g r]; [simpl; apply Chain.linked_one|].
    rewrite chain_links_cons2 in Hl.
    apply andb_true_iff in Hl. destruct Hl as [Hl Ht].
    apply andb_true_iff in Hl. destruct Hl as [Hl Hpv]. apply opt_N_eqb_eq in Hpv.
    apply andb_true_iff in Hl. destruct Hl as [_ Hi]. apply N.ltb_lt in Hi.
    specialize (IH Ht). change (rev (map (abs_file sd) (f :: g :: r)))
      with ((rev (map (abs_file sd) r) ++ [abs_file sd g]) ++ [abs_file sd f])%list.
    apply linked_snoc; [exact IH|exact Hi|exact Hpv].
  Qed.

  (** A chain that passes the checks of [Modes.open_existing], with the manifest clause for
      its newest container, is a chain in the sense of C04 (oldest first). *)
  Definition stub_free (l : list cfile) : Prop :=
    forall f, In f l -> fprev f <> None -> fstub f = false.

  Lemma chain_links_prev : forall l : list cfile, chain_links l = true ->
    forall l0 b0, l = (l0 ++ [b0])%list -> forall f, In f l0 -> fprev f <> None.
  Proof.
    induction l as [|f l IH]; intros Hl l0 b0 E x Hx; [destruct l0; discriminate|].
    destruct l as [|g r].
    - destruct l0 as [|a [|b l1]]; simpl in E; try discriminate; contradiction.
    - rewrite chain_links_cons2 in Hl.
      apply andb_true_iff in Hl. destruct Hl as [Hl Ht].
      apply andb_true_iff in Hl. destruct Hl as [_ Hpv]. apply opt_N_eqb_eq in Hpv.
      destruct l0 as [|a l1]; [destruct r; discriminate|]. simpl in E. inversion E; subst a.
      destruct Hx as [Hx|Hx]; [subst x; rewrite Hpv; discriminate|].
      eapply IH; eauto.
  Qed.

  Lemma chain_abs : forall mfm sd (l : list cfile),
    chain_ok l = true -> stub_free l ->
    (mfm = true -> forall nw ol, l = nw :: ol -> mf_check sd nw = true) ->
    Chain.chain_ok mfm false (rev (map (abs_file sd) l)).
  Proof.
    intros mfm sd l Hc Hsf Hmf. pose proof Hc as Hc0.
    unfold chain_ok in Hc. apply andb_true_iff in Hc. destruct Hc as [Hl Hn].
    assert (Hns : forall f : cfile, fstub f = false -> Chain.not_stub (abs_file sd f)).
    { intros f Hf e He. unfold Chain.fext, abs_file in He. simpl in He.
      destruct (fext f); simpl in He; [inversion He; exact Hf|discriminate]. }
    constructor.
    - destruct (chain_links_base l Hl) as [l0 [b0 [E [Hp Hf]]]].
      pose proof (chain_links_prev l Hl l0 b0 E) as Hpv.
      exists (abs_file sd b0), (rev (map (abs_file sd) l0)).
      split; [rewrite E, map_app, rev_app_distr; reflexivity|]. split; [intros _; exact Hp|].
      split.
      + apply Forall_forall. intros x Hx. apply in_rev in Hx. apply in_map_iff in Hx.
        destruct Hx as [f [Ef Hfin]]. subst x. rewrite Forall_forall in Hf. apply (Hf f Hfin).
      + intros _. apply Forall_forall. intros x Hx. apply in_rev in Hx. apply in_map_iff in Hx.
        destruct Hx as [f [Ef Hfin]]. subst x. apply Hns. apply Hsf; [|apply Hpv; exact Hfin].
        rewrite E. apply in_or_app. left. exact Hfin.
    - apply linked_abs. exact Hl.
    - rewrite map_rev, map_map. apply NoDup_rev.
      change (fun x : cfile => Chain.fpid (abs_file sd x)) with (fun x : cfile => fid x).
      apply nodup_N_NoDup. exact Hn.
    - destruct l as [|nw ol]; [discriminate|].
      exists (rev (map (abs_file sd) ol)), (abs_file sd nw). split; [reflexivity|]. split.
      + pose proof (chain_tail_committed ol nw Hc0) as Hall.
        apply Forall_forall. intros x Hx. apply in_rev in Hx. apply in_map_iff in Hx.
        destruct Hx as [f [Ef Hfin]]. subst x. rewrite Forall_forall in Hall.
        unfold Chain.intact, Chain.fhash, abs_file. simpl. rewrite (Hall f Hfin). reflexivity.
      + split.
        * unfold Chain.newest_ok, Chain.intact, Chain.fhash, abs_file. simpl.
          destruct (fcommitted nw); [right|left]; reflexivity.
        * intros Hm'. specialize (Hmf Hm' nw ol eq_refl). unfold mf_check in Hmf.
          intros e He. unfold Chain.fext, abs_file in He. simpl in He.
          destruct (fext nw) as [m|]; simpl in He; [|discriminate]. inversion He; subst e. simpl.
          unfold Chain.mf, abs_file.
          destruct (side_of (fname nw) sd) as [m'|]; [|discriminate].
          apply N.eqb_eq in Hmf. subst m'. simpl. eexists. reflexivity.
  Qed.

  Lemma coherent_abs : forall mfm sd (l : list cfile),
    chain_ok l = true -> stub_free l ->
    (mfm = true -> forall nw ol, l = nw :: ol -> mf_check sd nw = true) ->
    Chain.coherent mfm false (map (abs_file sd) l).
  Proof.
    intros mfm sd l Hc Hsf Hmf. exists (rev (map (abs_file sd) l)).
    split; [apply Permutation_sym, Permutation_rev|apply chain_abs; assumption].
  Qed.

  (** The abstraction of a set of committed files does not change under non-truncating
      operations. *)
  Lemma abs_frozen : forall ops (w : world P) (S : list cfile),
    good w -> incl S (wdir w) -> Forall (fun f => fcommitted f = true) S ->
    (forall f, In f S -> safe_for ops (fname f)) ->
    incl S (wdir (run empty mergepay ops w)) /\
    map (abs_file (hsides (run empty mergepay ops w))) S = map (abs_file (hsides w)) S.
  Proof.
    intros ops w S Hg Hin Hc Hs. rewrite Forall_forall in Hc. split.
    - intros f Hf. apply (committed_frozen empty mergepay ops w f Hg (Hin f Hf) (Hc f Hf) (Hs f Hf)).
    - apply map_ext_in. intros f Hf.
      destruct (committed_frozen empty mergepay ops w f Hg (Hin f Hf) (Hc f Hf) (Hs f Hf)) as [_ [_ E]].
      unfold abs_file. rewrite E. reflexivity.
  Qed.

  (** C02's second sentence in C04's terms. *)
  Lemma snapshot_coherent : forall m (w : world P) h w1 ops,
    good w -> here w = POpen h -> chain_ok (mine (hs h)) = true ->
    step empty mergepay (FCommit m) w = (w1, Ok) -> stub_free (wdir w1) ->
    exists h1, here w1 = POpen h1 /\
      let S := mine (hs h1) in
      Chain.coherent (hmf h1) false (map (abs_file (hsides w1)) S) /\
      ((forall f, In f S -> safe_for ops (fname f)) ->
       let w' := run empty mergepay ops w1 in
       incl S (wdir w') /\
       map (abs_file (hsides w')) S = map (abs_file (hsides w1)) S /\
       Chain.coherent (hmf h1) false (map (abs_file (hsides w')) S) /\
       Chain.open_check (hmf h1) false (map (abs_file (hsides w')) S) <> None).
  Proof.
    intros m w h w1 ops Hg Hh Hc Hst Hsf.
    assert (Hg1 : good w1).
    { pose proof (step_spec empty mergepay (FCommit m) w Hg) as [A _]. rewrite Hst in A. exact A. }
    destruct (commit_establishes empty mergepay m w h w1 Hg Hh Hc Hst)
      as [h1 [Hh1 [Hmf [Hc1 [Hall [Hn [Hv Hm1]]]]]]].
    exists h1. split; [exact Hh1|]. intros S.
    assert (Hin : incl S (wdir w1)).
    { intros f Hf. unfold wdir. rewrite Hh1. unfold dir_of. apply in_or_app. right. exact Hf. }
    assert (Hco : Chain.coherent (hmf h1) false (map (abs_file (hsides w1)) S)).
    { apply coherent_abs; [exact Hc1| |].
      - intros f Hf. apply Hsf. apply Hin. exact Hf.
      - intros E nw ol El. apply (Hm1 E nw ol El). }
    split; [exact Hco|]. intros Hs w'.
    destruct (abs_frozen ops w1 S Hg1 Hin Hall Hs) as [A B].
    split; [exact A|]. split; [exact B|]. fold w' in B. rewrite B.
    split; [exact Hco|]. apply ChainProofs.accept_iff. exact Hco.
  Qed.

  (** Every older part of a checked chain is coherent too — C04's "dropping the newest
      containers is not a fault" — provided (manifest-aware class) the manifests of the
      kept containers are beside them. *)
  Lemma older_part_coherent : forall mfm sd (newer older : list cfile),
    chain_ok (newer ++ older) = true -> stub_free (newer ++ older) -> older <> [] ->
    (mfm = true -> forall nw ol, (newer ++ older)%list = nw :: ol -> mf_check sd nw = true) ->
    (mfm = true -> forall k, In k older -> mf_check sd k = true) ->
    Chain.coherent mfm false (map (abs_file sd) older).
  Proof.
    intros mfm sd newer older Hc Hsf Hne Hmf Hk.
    apply (ChainProofs.prefix_ok mfm false (map (abs_file sd) (newer ++ older))
             (map (abs_file sd) older) (map (abs_file sd) newer)).
    - apply coherent_abs; assumption.
    - rewrite map_app. apply Permutation_app_comm.
    - destruct older; [contradiction|discriminate].
    - intros k d Hk' Hd. apply in_map_iff in Hk'. destruct Hk' as [fk [Ek Hfk]].
      apply in_map_iff in Hd. destruct Hd as [fd [Ed Hfd]]. subst k d.
      unfold Chain.fidx, abs_file. simpl.
      pose proof (chain_ok_sorted _ Hc) as Hs.
      clear - Hs Hfk Hfd. induction newer as [|a newer IH]; [contradiction|].
      simpl in Hs. apply StronglySorted_inv in Hs. destruct Hs as [Hs Ha].
      destruct Hfd as [E|Hfd]; [|apply IH; assumption].
      subst a. rewrite Forall_forall in Ha. apply (Ha fk). apply in_or_app. right. exact Hfk.
    - intros Hm' k Hk'. apply in_map_iff in Hk'. destruct Hk' as [f [Ef Hf]]. subst k.
      specialize (Hk Hm' f Hf). unfold mf_check in Hk.
      intros e He. unfold Chain.fext, abs_file in He. simpl in He.
      destruct (fext f) as [m0|]; simpl in He; [|discriminate]. inversion He; subst e. simpl.
      unfold Chain.mf, abs_file. destruct (side_of (fname f) sd) as [m'|]; [|discriminate].
      apply N.eqb_eq in Hk. subst m'. simpl. eexists. reflexivity.
  Qed.

End Abs.
