(** * Crash model of patching a record (property C11).

    Two layers, definitions only (the proofs are in [CrashProofs.v]).

    ** A. Bytes of the user block, torn writes

    Transcribes from [metador_core/ih5/record.py]:
    - [IH5UserBlock.save]: [f.seek(0); f.write(data); f.write(b"\x00")] with
      [data = magic "\n" size "\n" json] written over the block that is already in the
      file (nothing else of the block is touched);
    - [IH5UserBlock._read_head_raw]: decode the first [n] bytes, [split("\n")], exactly
      three parts, first = magic; result [(int(dat[1]), dat[2][: dat[2].find("\x00")])]
      (including the quirk that without a NUL byte [find] is -1 and the last character is
      dropped);
    - [IH5UserBlock.load]: probe 512 bytes, re-read with the claimed size if it is larger,
      then [json.loads] + [parse_obj] on the text.
    A write that is interrupted after [k] bytes leaves [torn k old new = firstn k new ++
    skipn k old].

    [json.loads]/[parse_obj] are NOT modelled.  They enter the theorems as a section
    variable [loads] with one hypothesis: a text they accept satisfies the NECESSARY
    condition [json_nec] below (a left-to-right scan: string literals with backslash
    escapes are terminated, brackets outside strings never close below depth 0 and end at
    depth 0 through a closing bracket, nothing but white space follows the top-level value,
    and no [:] follows a string literal that itself followed a [:] — in the JSON grammar a
    string after a colon is a member value and can only be followed by [,] or a closing
    bracket).

    ** B. Micro-steps on a directory

    A directory is the list of container files of one record in creation order; an
    [entry] is a [Chain.file] whose user block may be unreadable.  Every API call of a
    patching history is split into its file-system micro-steps in program order:
    - [create_patch] = [_new_container]: [h5py.File(path,"x",userblock_size)] + [close]
      (a new file with a zeroed user block, [SNew]); [ub.save(path)] (the user block is
      written, byte after byte: [SUb] for every torn state and for the complete one);
      [h5py.File(path,"r+")];
    - overlay writes: the HDF5 library changes the payload of the newest file ([SPay]);
    - [IH5Record.commit_patch]: [cfile.close()] (last payload change, [SPay]);
      [hashsum_file]; [ub.save] with [hdf5_hashsum] set ([SUb], torn states first);
      [h5py.File(filepath,"r")];
    - [IH5MFRecord.commit_patch]: the same with the manifest extension in the new user
      block, and AFTERWARDS [mf.save(...)]: the sidecar file appears and is filled
      ([SMf] for every partial content and for the complete one).
    A crash state is the directory after any prefix of the micro-steps.  The whole set is
    opened with [open_dir] = load every user block (any failure refuses) then
    [Chain.open_check]. *)
From Coq Require Import List String Ascii NArith Bool Arith.
From MV Require Import Base.Sx Rec.Chain.
Import ListNotations.

(** ** A. Bytes *)

Definition bytes := list ascii.
Definition nul : ascii := Ascii.zero.
Definition nl : ascii := "010"%char.
Definition B (s : string) : bytes := list_ascii_of_string s.

(** What is in the file when the write of [new] over [old] stops after [k] bytes. *)
Definition torn (k : nat) (old new : bytes) : bytes := firstn k new ++ skipn k old.

Fixpoint beqb (a b : bytes) : bool :=
  match a, b with
  | [], [] => true
  | x :: a', y :: b' => Ascii.eqb x y && beqb a' b'
  | _, _ => false
  end.

(** *** The necessary condition for JSON acceptance *)

Inductive tok : Type :=
| KNone      (* nothing read yet *)
| KColon     (* a colon *)
| KVal       (* a string literal that followed a colon *)
| KOther.    (* anything else *)

Record sst : Type := MkS {
  depth : nat;      (* open brackets *)
  instr : bool;     (* inside a string literal *)
  esc : bool;       (* the previous character was an escaping backslash *)
  strk : bool;      (* the literal being read follows a colon *)
  lastk : tok;      (* last token outside strings *)
  fin : bool        (* the top-level value has been closed *)
}.

Definition st0 : sst := MkS 0 false false false KNone false.

Definition is_ws (c : ascii) : bool :=
  (c =? " ")%char || (c =? "009")%char || (c =? "010")%char || (c =? "013")%char.

Definition is_colon_tok (t : tok) : bool := match t with KColon => true | _ => false end.
Definition is_val_tok (t : tok) : bool := match t with KVal => true | _ => false end.

(** One character; [None] = the text cannot be JSON any more. *)
Definition sstep (s : sst) (c : ascii) : option sst :=
  if instr s then
    if esc s then Some (MkS (depth s) true false (strk s) (lastk s) (fin s))
    else if (c =? "\")%char then Some (MkS (depth s) true true (strk s) (lastk s) (fin s))
    else if (c =? """")%char
      then Some (MkS (depth s) false false false (if strk s then KVal else KOther) (fin s))
    else Some (MkS (depth s) true false (strk s) (lastk s) (fin s))
  else if is_ws c then Some s
  else if fin s then None
  else if (c =? """")%char
    then Some (MkS (depth s) true false (is_colon_tok (lastk s)) (lastk s) false)
  else if (c =? "{")%char || (c =? "[")%char
    then Some (MkS (S (depth s)) false false false KOther false)
  else if (c =? "}")%char || (c =? "]")%char then
    match depth s with
    | 0 => None
    | S d => Some (MkS d false false false KOther (Nat.eqb d 0))
    end
  else if (c =? ":")%char then
    if is_val_tok (lastk s) then None else Some (MkS (depth s) false false false KColon false)
  else Some (MkS (depth s) false false false KOther false).

Fixpoint scan (s : sst) (t : bytes) : option sst :=
  match t with
  | [] => Some s
  | c :: r => match sstep s c with Some s' => scan s' r | None => None end
  end.

Definition accepting (o : option sst) : bool :=
  match o with Some s => fin s | None => false end.

Definition json_nec (t : bytes) : bool := accepting (scan st0 t).

(** Every strict prefix of [t] (the empty one included) fails the necessary condition:
    what a JSON object text is like. *)
Definition tightb (t : bytes) : bool :=
  forallb (fun j => negb (json_nec (firstn j t))) (seq 0 (List.length t)).

(** *** The block reader *)

Definition magic : bytes := B "ih5_v01".

(** [split("\n")]: first part and the remaining parts. *)
Fixpoint split_nl (b : bytes) : bytes * list bytes :=
  match b with
  | [] => ([], [])
  | c :: r =>
      let p := split_nl r in
      if (c =? nl)%char then ([], fst p :: snd p) else (c :: fst p, snd p)
  end.

Definition lines (b : bytes) : list bytes := fst (split_nl b) :: snd (split_nl b).

(** The part before the first NUL, if there is one. *)
Fixpoint cut_nul (b : bytes) : option bytes :=
  match b with
  | [] => None
  | c :: r => if (c =? nul)%char then Some []
              else match cut_nul r with Some p => Some (c :: p) | None => None end
  end.

(** [s[: s.find("\x00")]] *)
Definition upto_nul (b : bytes) : bytes :=
  match cut_nul b with Some p => p | None => removelast b end.

(** [int(...)] on a plain run of decimal digits (signs, blanks and underscores, which
    Python would also take, do not occur: the size line is never torn differently from
    what was there, see [CrashProofs]). *)
Fixpoint dec_digits (acc : N) (b : bytes) : option N :=
  match b with
  | [] => Some acc
  | c :: r =>
      let n := N_of_ascii c in
      if (48 <=? n)%N && (n <=? 57)%N then dec_digits (acc * 10 + (n - 48))%N r else None
  end.

Definition dec (b : bytes) : option N :=
  match b with [] => None | _ :: _ => dec_digits 0%N b end.

(** [_read_head_raw(stream, n)] *)
Definition read_head (b : bytes) (n : nat) : option (N * bytes) :=
  match lines (firstn n b) with
  | [m; s; r] =>
      if beqb m magic then
        match dec s with Some v => Some (v, upto_nul r) | None => None end
      else None
  | _ => None
  end.

(** The text [load] hands to [json.loads]; [None] = [load] raises before that. *)
Definition block_text (b : bytes) : option bytes :=
  match read_head b 512 with
  | None => None
  | Some (v, t) =>
      if (512 <? v)%N then
        match read_head b (N.to_nat v) with Some (_, t') => Some t' | None => None end
      else Some t
  end.

(** Necessary condition for [IH5UserBlock.load] to return. *)
Definition block_nec (b : bytes) : bool :=
  match block_text b with Some t => json_nec t | None => false end.

Definition obeqb (a b : option bytes) : bool :=
  match a, b with
  | Some x, Some y => beqb x y
  | None, None => true
  | _, _ => false
  end.

(** What a reader sees in the block after [k] bytes of the write of [new] over [old]:
    the old block, the block of the completed write, certainly nothing readable, or
    undetermined by this model. *)
Inductive tclass : Type := TOld | TNew | TBad | TUnknown.

Definition classify (k : nat) (old new : bytes) : tclass :=
  let b := torn k old new in
  if beqb b old then TOld
  else if match block_text b with
          | Some t => obeqb (Some t) (block_text (torn (List.length new) old new))
          | None => false
          end then TNew
  else if block_nec b then TUnknown else TBad.

(** *** The shape of the two blocks of a commit

    [IH5UserBlock.json()] prints the fields in declaration order, so the block created by
    [create_patch] and the one written by [commit_patch] agree up to the value of
    [hdf5_hashsum]: [head ++ pre ++ "null" ++ rest_old] against
    [head ++ pre ++ quote hash quote ++ rest_new]. *)
Definition head1024 : bytes := magic ++ [nl] ++ B "1024" ++ [nl].
Definition old_tail : bytes := B "null, ""ub_exts"": {}}".
Definition quote : ascii := """"%char.
Definition plainb (c : ascii) : bool :=
  negb ((c =? quote)%char || (c =? "\")%char || (c =? nul)%char || (c =? nl)%char).

(** *** The encoder: the text [IH5UserBlock.json()] produces

    pydantic prints the fields in declaration order with the default separators of
    [json.dumps] ([", "] and [": "]): [record_uuid], [patch_index], [patch_uuid],
    [prev_patch], [hdf5_hashsum], [ub_exts]; the manifest extension
    [IH5UBExtManifest.dict()] as [is_stub_container], [manifest_uuid],
    [manifest_hashsum].  A text is assembled from pieces: literal text, the body of a
    string value ([TS]: UUIDs, hashsums) and a number ([TD]). *)
Inductive titem : Type := TL (l : bytes) | TS (h : bytes) | TD (h : bytes).

Definition tflat (it : titem) : bytes := match it with TL l | TS l | TD l => l end.
Definition flat (l : list titem) : bytes := List.concat (map tflat l).

Record ubhead : Type := MkHead {
  t_rec : bytes;               (* record_uuid *)
  t_idx : N;                   (* patch_index *)
  t_pid : bytes;               (* patch_uuid *)
  t_prev : option bytes        (* prev_patch *)
}.

Definition opt_tpl (o : option bytes) : list titem :=
  match o with
  | None => [TL (B "null")]
  | Some b => [TL [quote]; TS b; TL [quote]]
  end.

Definition pre_tpl (u : ubhead) : list titem :=
  [TL (B "{""record_uuid"": """); TS (t_rec u); TL (B """, ""patch_index"": ");
   TD (B (string_of_N (t_idx u))); TL (B ", ""patch_uuid"": """); TS (t_pid u);
   TL (B """, ""prev_patch"": ")] ++ opt_tpl (t_prev u) ++ [TL (B ", ""hdf5_hashsum"": ")].

Definition ext_tpl (e : option (bool * bytes * bytes)) : list titem :=
  match e with
  | None => [TL (B "{}")]
  | Some (s, i, h) =>
      [TL (B "{""ih5mf_v01"": {""is_stub_container"": "); TL (B (if s then "true" else "false"));
       TL (B ", ""manifest_uuid"": """); TS i; TL (B """, ""manifest_hashsum"": """); TS h;
       TL (B """}}")]
  end.

(** Everything after the hashsum value but the closing brace of the object. *)
Definition rest_tpl (e : option (bool * bytes * bytes)) : list titem :=
  TL (B ", ""ub_exts"": ") :: ext_tpl e.

Definition rbrace : ascii := "}"%char.

Definition enc_pre (u : ubhead) : bytes := flat (pre_tpl u).
Definition enc_rest (e : option (bool * bytes * bytes)) : bytes := flat (rest_tpl e) ++ [rbrace].

Definition encode_ub (u : ubhead) (h : option bytes) (e : option (bool * bytes * bytes)) : bytes :=
  enc_pre u ++ flat (opt_tpl h) ++ enc_rest e.

(** Characters that may occur in a number. *)
Definition inertb (c : ascii) : bool :=
  plainb c && negb (is_ws c || (c =? "{")%char || (c =? "[")%char || (c =? "}")%char
                    || (c =? "]")%char || (c =? ":")%char).

(** ** B. Directory, micro-steps, histories *)

Record entry : Type := MkEntry {
  eub : option ublock;       (* what [IH5UserBlock.load] returns; [None] = it raises *)
  edig : N;                  (* digest of the bytes after the user block *)
  emf : option (N * N)       (* sidecar manifest file: (uuid inside, digest of its bytes) *)
}.

Definition dir := list entry.

Definition entry_of (f : file) : entry := MkEntry (Some (ub f)) (dig f) (mf f).
Definition entries (fs : list file) : dir := map entry_of fs.

Definition file_of (e : entry) : option file :=
  match eub e with Some u => Some (MkFile u (edig e) (emf e)) | None => None end.

(** [IH5Record(files, "r")] / [IH5MFRecord(files, "r")] on a directory: all user blocks are
    loaded first, then the checks of [Chain.open_check]. *)
Definition open_dir (mfm : bool) (d : dir) : option (list file) :=
  match opt_all (map file_of d) with
  | Some fs => open_check mfm false fs
  | None => None
  end.

Inductive mstep : Type :=
| SNew (d : N)                   (* a new newest file: zeroed user block, payload digest d *)
| SUb (u : option ublock)        (* the newest file's user block now loads as u *)
| SPay (d : N)                   (* the newest file's payload now has digest d *)
| SMf (m : option (N * N)).      (* the newest file's sidecar now is m *)

Fixpoint upd_last (g : entry -> entry) (d : dir) : dir :=
  match d with
  | [] => []
  | [e] => [g e]
  | e :: r => e :: upd_last g r
  end.

Definition exec1 (d : dir) (s : mstep) : dir :=
  match s with
  | SNew p => d ++ [MkEntry None p None]
  | SUb u => upd_last (fun e => MkEntry u (edig e) (emf e)) d
  | SPay p => upd_last (fun e => MkEntry (eub e) p (emf e)) d
  | SMf m => upd_last (fun e => MkEntry (eub e) (edig e) m) d
  end.

Definition exec (d : dir) (l : list mstep) : dir := fold_left exec1 l d.

(** All directories a run passes through, the first and the last included. *)
Fixpoint states (d : dir) (l : list mstep) : list dir :=
  match l with
  | [] => [d]
  | s :: r => d :: states (exec1 d s) r
  end.

(** One round [create_patch; writes...; commit_patch].  The lists of torn user blocks are
    part of the round: what the block loads as after 1, 2, ... bytes of the write. *)
Record round : Type := MkRound {
  r_rid : N;                          (* the fresh record_uuid (used by a base round only) *)
  r_pid : N;                          (* the fresh patch_uuid *)
  r_d0 : N;                           (* payload digest of an empty container *)
  r_tears1 : list (option ublock);    (* torn states of the first user-block write *)
  r_writes : list N;                  (* payload digests after the overlay writes *)
  r_dfin : N;                         (* payload digest after [close] = the one hashed *)
  r_tears2 : list (option ublock);    (* torn states of the commit's user-block write *)
  r_mfid : N;                         (* manifest_uuid *)
  r_mfhash : N;                       (* digest of the complete manifest file *)
  r_mfparts : list (N * N)            (* partially written manifest files *)
}.

Definition dummy_file : file := MkFile (MkUb 0 0 0 None None None) 0 None.
Definition lastf (C : list file) : file := last C dummy_file.

(** [IH5UserBlock.create(prev)] *)
Definition new_ub (p : ublock) (i : N) : ublock :=
  MkUb (rec_id p) (idx p + 1)%N i (Some (pid p)) None None.

(** The user block [commit_patch] writes ([mfm]: with the manifest extension). *)
Definition commit_ub (mfm : bool) (u : ublock) (r : round) : ublock :=
  MkUb (rec_id u) (idx u) (pid u) (prev u) (Some (r_dfin r))
       (if mfm then Some (MkExt false (r_mfid r) (r_mfhash r)) else None).

(** [IH5UserBlock.create(None)]: the user block of a base container. *)
Definition base_ub (r : round) : ublock := MkUb (r_rid r) 0 (r_pid r) None None None.

(** The first user block of the round's container: a base container when nothing is
    committed yet ([IH5Record(path, "w")] = [_create]), otherwise a patch on the newest. *)
Definition round_u0 (C : list file) (r : round) : ublock :=
  match C with
  | [] => base_ub r
  | _ :: _ => new_ub (ub (lastf C)) (r_pid r)
  end.
Definition round_u1 (mfm : bool) (C : list file) (r : round) : ublock :=
  commit_ub mfm (round_u0 C r) r.

(** The committed container a complete round leaves behind. *)
Definition final_file (mfm : bool) (C : list file) (r : round) : file :=
  MkFile (round_u1 mfm C r) (r_dfin r)
         (if mfm then Some (r_mfid r, r_mfhash r) else None).

Definition create_steps (C : list file) (r : round) : list mstep :=
  SNew (r_d0 r) :: map SUb (r_tears1 r) ++ [SUb (Some (round_u0 C r))].

Definition write_steps (r : round) : list mstep :=
  map SPay (r_writes r) ++ [SPay (r_dfin r)].

Definition commit_steps (mfm : bool) (C : list file) (r : round) : list mstep :=
  map SUb (r_tears2 r) ++ [SUb (Some (round_u1 mfm C r))].

Definition mf_steps (mfm : bool) (r : round) : list mstep :=
  if mfm then map (fun m => SMf (Some m)) (r_mfparts r) ++ [SMf (Some (r_mfid r, r_mfhash r))]
  else [].

(** Micro-steps of one round on top of the committed containers [C], in program order. *)
Definition round_steps (mfm : bool) (C : list file) (r : round) : list mstep :=
  create_steps C r ++ write_steps r ++ commit_steps mfm C r ++ mf_steps mfm r.

(** Micro-steps of a history of rounds. *)
Fixpoint expand (mfm : bool) (C : list file) (rs : list round) : list mstep :=
  match rs with
  | [] => []
  | r :: rs' => round_steps mfm C r ++ expand mfm (C ++ [final_file mfm C r]) rs'
  end.

(** The committed containers after [n] micro-steps (the rounds that are complete), and the
    committed containers the round in progress is about to produce. *)
Fixpoint committed_at (mfm : bool) (C : list file) (rs : list round) (n : nat) : list file :=
  match rs with
  | [] => C
  | r :: rs' =>
      let k := List.length (round_steps mfm C r) in
      if k <=? n then committed_at mfm (C ++ [final_file mfm C r]) rs' (n - k) else C
  end.

Fixpoint next_committed_at (mfm : bool) (C : list file) (rs : list round) (n : nat)
  : list file :=
  match rs with
  | [] => C
  | r :: rs' =>
      let k := List.length (round_steps mfm C r) in
      if k <=? n then next_committed_at mfm (C ++ [final_file mfm C r]) rs' (n - k)
      else C ++ [final_file mfm C r]
  end.

(** The directory a crash after [n] micro-steps leaves. *)
Definition crash_state (mfm : bool) (C : list file) (rs : list round) (n : nat) : dir :=
  exec (entries C) (firstn n (expand mfm C rs)).

(** *** Side conditions *)

(** A committed record: a chain in which every container is committed and untampered, and
    (manifest-aware class) every container that names a manifest has it. *)
Definition good (mfm : bool) (C : list file) : Prop :=
  chain_ok mfm false C /\ Forall intact C /\ (mfm = true -> Forall mf_ok C).

(** ... or no record at all: the first round then creates the base container. *)
Definition good0 (mfm : bool) (C : list file) : Prop := C = [] \/ good mfm C.

(** Torn states: each loads as what was there, as what is being written, or not at all. *)
Definition tears_ok (o : option ublock) (n : ublock) (l : list (option ublock)) : Prop :=
  Forall (fun x => x = o \/ x = None \/ x = Some n) l.

Definition round_ok (mfm : bool) (C : list file) (r : round) : Prop :=
  ~ In (r_pid r) (map fpid C) /\
  tears_ok None (round_u0 C r) (r_tears1 r) /\
  tears_ok (Some (round_u0 C r)) (round_u1 mfm C r) (r_tears2 r) /\
  Forall (fun m => snd m <> r_mfhash r) (r_mfparts r).

Fixpoint hist_ok (mfm : bool) (C : list file) (rs : list round) : Prop :=
  match rs with
  | [] => True
  | r :: rs' => round_ok mfm C r /\ hist_ok mfm (C ++ [final_file mfm C r]) rs'
  end.

(** The torn states of a real write, given the loader. *)
Definition tears_of (parse : bytes -> option ublock) (old new : bytes) : list (option ublock) :=
  map (fun k => parse (torn k old new)) (seq 1 (List.length new)).

(** ** Runner entry point

    Blocks travel as lists of pieces: an atom is literal text, [(n)] a newline, [(z k)]
    [k] NUL bytes.
    - [(torn old new)]: [((class for k = 0 .. |new|) tight prefix-state)] — classes
      [o n x u]; [tight]: every strict prefix of the new text fails [json_nec];
      [prefix-state]: the scan state after the longest common prefix of both texts is
      "outside strings, just after a colon" (the hypothesis of [torn_between]).
    - [(enc rec idx pid (prev?) (hash?) (ext?))], [ext = (stub id hash)]: the text of
      [encode_ub], to be compared byte for byte with the real block.
    - [(hist mfm (file ...) (round ...))] with [round = (rid pid d0 (t...) (w...) dfin (t...)
      mfid mfhash ((id dig)...))], [t] in [o x n]: for every prefix of the micro-steps
      [(class nfiles ncommitted (ub dig mf) (xclass xnfiles))]: class [refused] /
      [uncommitted] / [committed] of [open_dir], the length of the opened chain, the length
      of [committed_at], the newest entry, and class / length for a reader of the other
      record class.  The file list may be empty (the first round then creates the base). *)

Local Open Scope string_scope.

Definition sx_piece (x : sx) : option bytes :=
  match x with
  | A s => Some (B s)
  | L [A "n"] => Some [nl]
  | L [A "z"; k] => match sx_nat k with Some k => Some (repeat nul k) | None => None end
  | _ => None
  end.

Definition sx_bytes (x : sx) : option bytes :=
  match sx_map sx_piece x with Some l => Some (List.concat l) | None => None end.

Definition tclass_name (c : tclass) : string :=
  match c with TOld => "o" | TNew => "n" | TBad => "x" | TUnknown => "u" end.

(** Length of the longest common prefix. *)
Fixpoint lcp (a b : bytes) : nat :=
  match a, b with
  | x :: a', y :: b' => if Ascii.eqb x y then S (lcp a' b') else 0
  | _, _ => 0
  end.

Definition after_colon (o : option sst) : bool :=
  match o with
  | Some s => negb (instr s) && is_colon_tok (lastk s) && negb (fin s)
  | None => false
  end.

Definition run_torn (old new : bytes) : sx :=
  let full := torn (List.length new) old new in
  let tnew := match block_text full with Some t => t | None => [] end in
  let told := match block_text old with Some t => t | None => [] end in
  L [ L (map (fun k => A (tclass_name (classify k old new))) (seq 0 (S (List.length new))));
      of_bool (tightb tnew);
      of_bool (after_colon (scan st0 (firstn (lcp told tnew) tnew))) ].

Definition sx_tear (o : option ublock) (n : ublock) (x : sx) : option (option ublock) :=
  match x with
  | A "o" => Some o
  | A "x" => Some None
  | A "n" => Some (Some n)
  | _ => None
  end.

(** A round needs the committed containers below it to decode its tear lists. *)
Definition sx_round (mfm : bool) (C : list file) (x : sx) : option round :=
  match x with
  | L [ri; p; d0; t1; ws; df; t2; mi; mh; parts] =>
      match sx_N ri, sx_N p, sx_N d0, sx_map sx_N ws, sx_N df, sx_N mi, sx_N mh,
            sx_map (sx_pair sx_N sx_N) parts with
      | Some ri, Some p, Some d0, Some ws, Some df, Some mi, Some mh, Some parts =>
          let r0 := MkRound ri p d0 [] ws df [] mi mh parts in
          let u0 := round_u0 C r0 in
          let u1 := round_u1 mfm C r0 in
          match sx_map (sx_tear None u0) t1, sx_map (sx_tear (Some u0) u1) t2 with
          | Some t1, Some t2 => Some (MkRound ri p d0 t1 ws df t2 mi mh parts)
          | _, _ => None
          end
      | _, _, _, _, _, _, _, _ => None
      end
  | _ => None
  end.

Fixpoint sx_rounds (mfm : bool) (C : list file) (l : list sx) : option (list round) :=
  match l with
  | [] => Some []
  | x :: l' =>
      match sx_round mfm C x with
      | Some r =>
          match sx_rounds mfm (C ++ [final_file mfm C r]) l' with
          | Some rs => Some (r :: rs)
          | None => None
          end
      | None => None
      end
  end.

Definition of_entry (e : entry) : sx :=
  L [ A (match eub e with
         | None => "none"
         | Some u => match hash u with None => "uncommitted" | Some _ => "committed" end
         end);
      of_N (edig e);
      of_opt (of_pair of_N of_N) (emf e) ].

Definition of_state (mfm : bool) (C : list file) (rs : list round) (n : nat) : sx :=
  let s := crash_state mfm C rs n in
  let nc := of_nat (List.length (committed_at mfm C rs n)) in
  let newest := match rev s with e :: _ => of_entry e | [] => L [] end in
  let verdict_of (o : option (list file)) : list sx :=
    match o with
    | None => [A "refused"; of_nat 0]
    | Some c =>
        [A (match fhash (lastf c) with None => "uncommitted" | Some _ => "committed" end);
         of_nat (List.length c)]
    end in
  L (verdict_of (open_dir mfm s) ++ [nc; newest; L (verdict_of (open_dir (negb mfm) s))]).

Definition run_c11 (x : sx) : sx :=
  match x with
  | L [A "torn"; o; n] =>
      match sx_bytes o, sx_bytes n with
      | Some o, Some n => run_torn o n
      | _, _ => sx_bad "c11 torn"
      end
  | L [A "enc"; A rc; ix; A pd; pv; hs; ex] =>
      match sx_N ix, sx_opt sx_atom pv, sx_opt sx_atom hs,
            sx_opt (fun x => match x with
                             | L [s; A i; A h] =>
                                 match sx_bool s with Some s => Some (s, B i, B h) | None => None end
                             | _ => None
                             end) ex with
      | Some ix, Some pv, Some hs, Some ex =>
          A (string_of_list_ascii
               (encode_ub (MkHead (B rc) ix (B pd) (option_map B pv)) (option_map B hs) ex))
      | _, _, _, _ => sx_bad "c11 enc"
      end
  | L [A "hist"; m; fs; L rl] =>
      match sx_bool m, sx_map sx_file fs with
      | Some m, Some C =>
          match sx_rounds m C rl with
          | Some rs =>
              L (map (of_state m C rs) (seq 0 (S (List.length (expand m C rs)))))
          | None => sx_bad "c11 rounds"
          end
      | _, _ => sx_bad "c11 hist"
      end
  | _ => sx_bad "c11"
  end.
