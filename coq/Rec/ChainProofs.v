(** * Proofs about the record-opening model [Rec/Chain.v] (property C04). *)
From Coq Require Import List NArith Bool Permutation Sorted Lia FinFun.
From MV Require Import Rec.Chain.
Import ListNotations.
Local Open Scope N_scope.

(** ** Sorting *)

Definition le_f (a b : file) : Prop := fidx a <= fidx b.
Definition lt_f (a b : file) : Prop := fidx a < fidx b.

Lemma insert_perm x l : Permutation (insert x l) (x :: l).
Proof.
  induction l as [|y r IH]; simpl; [reflexivity|].
  destruct (fidx x <=? fidx y); [reflexivity|].
  transitivity (y :: x :: r); [apply perm_skip, IH | apply perm_swap].
Qed.

Lemma isort_perm l : Permutation (isort l) l.
Proof.
  induction l as [|x l IH]; simpl; [constructor|].
  etransitivity; [apply insert_perm|]. apply perm_skip, IH.
Qed.

Lemma insert_sorted x l : StronglySorted le_f l -> StronglySorted le_f (insert x l).
Proof.
  induction 1 as [|y r Hs IH Hall]; simpl.
  - repeat constructor.
  - destruct (fidx x <=? fidx y) eqn:E.
    + apply N.leb_le in E. constructor; [constructor; auto|].
      constructor; [exact E|].
      eapply Forall_impl; [|exact Hall]. unfold le_f; intros; lia.
    + apply N.leb_gt in E. constructor; [exact IH|].
      apply Forall_forall. intros z Hz.
      apply (Permutation_in _ (insert_perm x r)) in Hz. destruct Hz as [<-|Hz].
      * unfold le_f; lia.
      * rewrite Forall_forall in Hall. auto.
Qed.

Lemma isort_sorted l : StronglySorted le_f (isort l).
Proof. induction l; simpl; [constructor | apply insert_sorted; assumption]. Qed.

Lemma lt_le_sorted l : StronglySorted lt_f l -> StronglySorted le_f l.
Proof.
  induction 1; constructor; auto.
  eapply Forall_impl; [|eassumption]. unfold lt_f, le_f; intros; lia.
Qed.

(** A strictly sorted list is the only sorted arrangement of its elements. *)
Lemma sorted_unique l1 : forall l2,
  StronglySorted le_f l1 -> StronglySorted lt_f l2 -> Permutation l1 l2 -> l1 = l2.
Proof.
  induction l1 as [|a l1 IH]; intros l2 H1 H2 P.
  - apply Permutation_nil in P. auto.
  - destruct l2 as [|b l2]; [apply Permutation_sym, Permutation_nil in P; discriminate|].
    apply StronglySorted_inv in H1 as [S1 F1]. apply StronglySorted_inv in H2 as [S2 F2].
    assert (a = b) as ->.
    { assert (Ia : In a (b :: l2)) by (eapply Permutation_in; [exact P | left; auto]).
      assert (Ib : In b (a :: l1))
        by (eapply Permutation_in; [apply Permutation_sym, P | left; auto]).
      destruct Ia as [->|Ia]; auto. destruct Ib as [->|Ib]; auto.
      rewrite Forall_forall in F1, F2. specialize (F1 _ Ib). specialize (F2 _ Ia).
      unfold le_f, lt_f in *. lia. }
    f_equal. apply IH; auto. eapply Permutation_cons_inv; eauto.
Qed.

Lemma sorted_app_lt l1 : forall l2,
  StronglySorted lt_f (l1 ++ l2) -> forall a b, In a l1 -> In b l2 -> fidx a < fidx b.
Proof.
  induction l1 as [|x l1 IH]; intros l2 S a b Ia Ib; [destruct Ia|].
  simpl in S. apply StronglySorted_inv in S as [S F].
  destruct Ia as [<-|Ia].
  - rewrite Forall_forall in F. apply F. apply in_or_app; auto.
  - eapply IH; eauto.
Qed.

Lemma sorted_app_le l1 : forall l2,
  StronglySorted le_f l1 -> StronglySorted le_f l2 ->
  (forall a b, In a l1 -> In b l2 -> fidx a <= fidx b) -> StronglySorted le_f (l1 ++ l2).
Proof.
  induction l1 as [|x l1 IH]; intros l2 S1 S2 Hab; simpl; auto.
  apply StronglySorted_inv in S1 as [S1 F1]. constructor.
  - apply IH; auto. intros; apply Hab; simpl; auto.
  - apply Forall_app; split; auto.
    apply Forall_forall; intros b Hb. apply Hab; simpl; auto.
Qed.

(** ** Chains *)

Lemma linked_sorted c : linked c -> StronglySorted lt_f c.
Proof.
  induction 1 as [f|p x r Hlt Hp Hl IH].
  - repeat constructor.
  - constructor; auto. apply StronglySorted_inv in IH as [_ F].
    constructor; [exact Hlt|].
    eapply Forall_impl; [|exact F]. unfold lt_f; intros; lia.
Qed.

Lemma isort_of_chain c fs : linked c -> Permutation c fs -> isort fs = c.
Proof.
  intros Hl P. apply sorted_unique.
  - apply isort_sorted.
  - apply linked_sorted, Hl.
  - transitivity fs; [apply isort_perm | apply Permutation_sym, P].
Qed.

Lemma linked_inv p x r :
  linked (p :: x :: r) <-> fidx p < fidx x /\ fprev x = Some (fpid p) /\ linked (x :: r).
Proof.
  split.
  - inversion 1; subst; auto.
  - intros (? & ? & ?). constructor; auto.
Qed.

Lemma linked_app_l l1 : forall l2, l1 <> [] -> linked (l1 ++ l2) -> linked l1.
Proof.
  induction l1 as [|a l1 IH]; intros l2 Hne Hl; [congruence|].
  destruct l1 as [|b l1]; [constructor|].
  simpl in Hl. apply linked_inv in Hl as (? & ? & Hl).
  constructor; auto. apply (IH l2); [discriminate | exact Hl].
Qed.

Lemma linked_app_mid l : forall p y r,
  linked (l ++ p :: y :: r) -> fidx p < fidx y /\ fprev y = Some (fpid p).
Proof.
  induction l as [|a l IH]; intros p y r Hl; simpl in Hl.
  - apply linked_inv in Hl as (? & ? & _). auto.
  - destruct l as [|b l]; simpl in Hl; apply linked_inv in Hl as (_ & _ & Hl).
    + apply (IH p y r). exact Hl.
    + apply (IH p y r). exact Hl.
Qed.

(** Every container of a chain is the first one or names an earlier one as predecessor. *)
Lemma linked_pred c : linked c -> forall y, In y c ->
  (exists r, c = y :: r) \/
  (exists p, In p c /\ fprev y = Some (fpid p) /\ fidx p < fidx y).
Proof.
  induction 1 as [f|p x r Hlt Hp Hl IH]; intros y Hy.
  - destruct Hy as [<-|[]]. left; eauto.
  - destruct Hy as [<-|Hy]; [left; eauto|]. right.
    destruct (IH _ Hy) as [[r' E]|(q & Hq & E1 & E2)].
    + injection E as <- _. exists p. simpl; auto.
    + exists q. simpl; auto.
Qed.

Lemma linked_prevs l : forall p, linked (p :: l) ->
  map fprev l = map (fun f => Some (fpid f)) (removelast (p :: l)).
Proof.
  induction l as [|x r IH]; intros p Hl; [reflexivity|].
  apply linked_inv in Hl as (_ & Hp & Hl).
  change (removelast (p :: x :: r)) with (p :: removelast (x :: r)).
  simpl map. rewrite Hp. f_equal. apply IH, Hl.
Qed.

(** ** The checks decide [chain_ok] *)

Definition hash_ok (need : bool) (f : file) : Prop := if need then intact f else newest_ok f.

Definition nonempty {X : Type} (l : list X) : bool :=
  match l with [] => false | _ :: _ => true end.

Lemma stub_marked_false f : stub_marked f = false <-> not_stub f.
Proof.
  unfold stub_marked, not_stub. destruct (fext f) as [e|].
  - split; [intros E e' [= <-]; exact E | intros Hn; apply Hn; reflexivity].
  - split; [intros _ e' [=] | reflexivity].
Qed.

Lemma hash_part need f :
  (need && negb (is_some (fhash f)) = false /\
   match fhash f with Some h => negb (h =? dig f) | None => false end = false)
  <-> hash_ok need f.
Proof.
  unfold hash_ok, newest_ok, intact. destruct (fhash f) as [h|]; simpl.
  - rewrite andb_false_r. destruct (N.eqb_spec h (dig f)) as [->|Hne]; simpl.
    + destruct need; intuition.
    + destruct need; split; try (intros [_ [=]]).
      * intros [= E]; congruence.
      * intros [[=]|[= E]]; congruence.
  - rewrite andb_true_r. destruct need; intuition; try discriminate.
Qed.

Lemma check_ub_none mfm rid f p need :
  check_ub mfm rid f p need = None <->
  frec f = rid /\ hash_ok need f /\
  match p with
  | None => True
  | Some q => fidx q < fidx f /\ fprev f = Some (fpid q) /\ (mfm = true -> not_stub f)
  end.
Proof.
  rewrite <- hash_part. unfold check_ub.
  destruct (N.eqb_spec (frec f) rid) as [Er|Er]; simpl; [|split; [discriminate | tauto]].
  destruct (need && negb (is_some (fhash f))); [split; [discriminate | intuition discriminate]|].
  destruct (match fhash f with Some h => negb (h =? dig f) | None => false end);
    [split; [discriminate | intuition discriminate]|].
  destruct p as [q|]; [|tauto].
  destruct (N.leb_spec (fidx f) (fidx q)) as [Hle|Hlt]; [split; [discriminate | intros; lia]|].
  destruct (fprev f) as [r|]; [|split; [discriminate | intuition discriminate]].
  destruct (N.eqb_spec r (fpid q)) as [->|Hr]; simpl;
    [|split; [discriminate | intros (_ & _ & _ & [= E] & _); congruence]].
  destruct mfm; simpl.
  - destruct (stub_marked f) eqn:Es.
    + split; [discriminate|]. intros (_ & _ & _ & _ & Hs).
      apply stub_marked_false in Hs; auto. congruence.
    + apply stub_marked_false in Es. tauto.
  - split; auto. intros _. repeat split; auto. discriminate.
Qed.

Fixpoint patches_ok (mfm : bool) (rid : N) (p : file) (l : list file) : Prop :=
  match l with
  | [] => True
  | x :: r =>
      (frec x = rid /\ hash_ok (nonempty r) x /\ fidx p < fidx x /\
       fprev x = Some (fpid p) /\ (mfm = true -> not_stub x)) /\
      patches_ok mfm rid x r
  end.

Lemma check_patches_none mfm rid l : forall pos p,
  check_patches mfm rid pos p l = None <-> patches_ok mfm rid p l.
Proof.
  induction l as [|x r IH]; intros pos p; simpl; [tauto|].
  fold (nonempty r).
  destruct (check_ub mfm rid x (Some p) (nonempty r)) as [e|] eqn:E.
  - split; [discriminate|]. intros [Hx _].
    assert (check_ub mfm rid x (Some p) (nonempty r) = None) by (apply check_ub_none; tauto).
    congruence.
  - apply check_ub_none in E. rewrite IH. tauto.
Qed.

Lemma mem_spec n l : mem n l = true <-> In n l.
Proof.
  induction l as [|m r IH]; simpl; [split; [discriminate | tauto]|].
  rewrite orb_true_iff, IH, N.eqb_eq. split; intros [?|?]; auto.
Qed.

Lemma nodupb_spec l : nodupb l = true <-> NoDup l.
Proof.
  induction l as [|n r IH]; simpl; [split; [constructor | auto]|].
  rewrite andb_true_iff, negb_true_iff, IH. split.
  - intros [Hm Hn]. constructor; auto. rewrite <- mem_spec. congruence.
  - inversion 1; subst. split; auto.
    destruct (mem n r) eqn:E; auto. apply mem_spec in E. contradiction.
Qed.

Lemma check_manifest_none n : check_manifest n = None <-> mf_ok n.
Proof.
  unfold check_manifest, mf_ok. destruct (fext n) as [e|]; [|split; [intros _ e [=] | auto]].
  destruct (mf n) as [[i d]|].
  - destruct (N.eqb_spec d (mf_hash e)) as [->|Hd].
    + split; auto. intros _ e' [= <-]. eauto.
    + split; [discriminate|]. intros Hm. destruct (Hm e eq_refl) as [i' [= _ E]]. congruence.
  - split; [discriminate|]. intros Hm. destruct (Hm e eq_refl) as [i' [=]].
Qed.

(** The "all but the newest are committed and intact" clause, recursively. *)
Fixpoint commit_ok (p : file) (l : list file) : Prop :=
  match l with
  | [] => newest_ok p
  | x :: r => intact p /\ commit_ok x r
  end.

Lemma commit_ok_iff l : forall p,
  commit_ok p l <-> exists l' n, p :: l = l' ++ [n] /\ Forall intact l' /\ newest_ok n.
Proof.
  induction l as [|x r IH]; intros p; simpl.
  - split.
    + intros Hn. exists [], p. auto.
    + intros (l' & n & E & _ & Hn). destruct l' as [|a l']; simpl in E.
      * injection E as <-. exact Hn.
      * injection E as _ E. destruct l'; discriminate.
  - rewrite IH. split.
    + intros (Hp & l' & n & E & Hl & Hn). exists (p :: l'), n. simpl. rewrite E. auto.
    + intros (l' & n & E & Hl & Hn). destruct l' as [|a l']; simpl in E.
      * discriminate.
      * injection E as <- E. inversion Hl; subst. split; auto. exists l', n. auto.
Qed.

Lemma patches_split mfm rid l : forall p,
  (hash_ok (nonempty l) p /\ patches_ok mfm rid p l) <->
  (Forall (fun f => frec f = rid) l /\ (mfm = true -> Forall not_stub l) /\
   linked (p :: l) /\ commit_ok p l).
Proof.
  induction l as [|x r IH]; intros p; simpl.
  - unfold hash_ok. split.
    + intros [Hn _]. repeat split; auto. constructor.
    + intros (_ & _ & _ & Hn). auto.
  - unfold hash_ok at 1. rewrite linked_inv. split.
    + intros (Hp & (Hr & Hh & Hlt & Hpv & Hs) & Hrest).
      destruct (proj1 (IH x) (conj Hh Hrest)) as (F1 & F2 & Hl & Hc).
      repeat split; auto.
    + intros (F1 & F2 & (Hlt & Hpv & Hl) & Hp & Hc).
      inversion F1; subst.
      assert (F2' : mfm = true -> not_stub x /\ Forall not_stub r).
      { intros Em. specialize (F2 Em). inversion F2; auto. }
      destruct (proj2 (IH x)) as [Hh Hrest].
      { repeat split; auto. intros Em. apply F2', Em. }
      repeat split; auto. intros Em. apply F2', Em.
Qed.

Lemma checks_spec mfm bl c : checks mfm bl c = None <-> chain_ok mfm bl c.
Proof.
  destruct c as [|b ps].
  - simpl. split; [discriminate|]. intros [(b & ps & E & _) _ _ _]. discriminate.
  - unfold checks. fold (nonempty ps).
    assert (Hbase : negb bl && is_some (fprev b) = false <-> (bl = false -> fprev b = None)).
    { destruct bl, (fprev b); simpl; intuition discriminate. }
    assert (Hmf : (if mfm then match check_manifest (last (b :: ps) b) with
                               | Some e => Some (e, lastpos (b :: ps)) | None => None end
                   else None) = None <-> (mfm = true -> mf_ok (last (b :: ps) b))).
    { destruct mfm; [|intuition discriminate].
      rewrite <- check_manifest_none. destruct (check_manifest _); intuition discriminate. }
    assert (Hspec :
      ((bl = false -> fprev b = None) /\
       (hash_ok (nonempty ps) b /\ patches_ok mfm (frec b) b ps) /\
       NoDup (map fpid (b :: ps)) /\ (mfm = true -> mf_ok (last (b :: ps) b)))
      <-> chain_ok mfm bl (b :: ps)).
    { rewrite patches_split, commit_ok_iff. split.
      - intros (Hb & (F1 & F2 & Hl & (l & n & E & Hi & Hn)) & Hnd & Hm).
        constructor; auto.
        + exists b, ps. auto.
        + exists l, n. repeat split; auto. intros Em. specialize (Hm Em).
          rewrite E, last_last in Hm. exact Hm.
      - intros [(b' & ps' & E & Hb & F1 & F2) Hl Hnd (l & n & E' & Hi & Hn & Hm)].
        injection E as <- <-. repeat split; auto.
        + exists l, n. auto.
        + intros Em. rewrite E', last_last. auto. }
    rewrite <- Hspec. clear Hspec.
    destruct (negb bl && is_some (fprev b)) eqn:Eb.
    { split; [discriminate|]. intros (Hb & _). apply Hbase in Hb. discriminate. }
    destruct (check_ub mfm (frec b) b None (nonempty ps)) as [e|] eqn:Eu.
    { split; [discriminate|]. intros (_ & (Hh & _) & _).
      assert (check_ub mfm (frec b) b None (nonempty ps) = None)
        by (apply check_ub_none; auto). congruence. }
    apply check_ub_none in Eu. destruct Eu as (_ & Hh & _).
    destruct (check_patches mfm (frec b) 1 b ps) as [e|] eqn:Ep.
    { split; [discriminate|]. intros (_ & (_ & Hp) & _).
      apply (check_patches_none mfm (frec b) ps 1 b) in Hp. congruence. }
    apply check_patches_none in Ep.
    destruct (nodupb (map fpid (b :: ps))) eqn:En; simpl negb; cbv iota.
    + apply nodupb_spec in En. rewrite Hmf. pose proof (proj1 Hbase eq_refl). tauto.
    + split; [discriminate|]. intros (_ & _ & Hnd & _). apply nodupb_spec in Hnd. congruence.
Qed.

(** ** Acceptance = coherence *)

Lemma refused_iff mfm bl fs : open_check mfm bl fs = None <-> checks mfm bl (isort fs) <> None.
Proof.
  unfold open_check, open_res. destruct (checks mfm bl (isort fs)); split; congruence.
Qed.

Theorem accept_iff mfm bl fs : open_check mfm bl fs <> None <-> coherent mfm bl fs.
Proof.
  rewrite refused_iff. split.
  - intros Hn. exists (isort fs). split; [apply isort_perm|].
    apply checks_spec. destruct (checks mfm bl (isort fs)); auto. exfalso; apply Hn; discriminate.
  - intros (c & P & Hc) Hn. apply Hn.
    rewrite (isort_of_chain c fs (co_links _ _ _ Hc) P). apply checks_spec, Hc.
Qed.

Lemma refused_if_incoherent mfm bl fs : ~ coherent mfm bl fs -> open_check mfm bl fs = None.
Proof.
  intros Hn. destruct (open_check mfm bl fs) eqn:E; auto.
  exfalso. apply Hn, accept_iff. congruence.
Qed.

(** What an accepted set is opened as: the chain itself. *)
Theorem accept_chain mfm bl fs c :
  open_check mfm bl fs = Some c <-> Permutation c fs /\ chain_ok mfm bl c.
Proof.
  unfold open_check, open_res. split.
  - destruct (checks mfm bl (isort fs)) eqn:E; [discriminate|]. intros [= <-].
    split; [apply isort_perm | apply checks_spec, E].
  - intros [P Hc]. rewrite (isort_of_chain c fs (co_links _ _ _ Hc) P).
    apply checks_spec in Hc. rewrite Hc. reflexivity.
Qed.

Theorem open_perm mfm bl fs fs' :
  Permutation fs fs' -> open_check mfm bl fs = open_check mfm bl fs'.
Proof.
  intros P. destruct (open_check mfm bl fs) as [c|] eqn:E.
  - apply accept_chain in E as [Pc Hc]. symmetry. apply accept_chain.
    split; auto. transitivity fs; auto.
  - destruct (open_check mfm bl fs') as [c|] eqn:E'; auto.
    apply accept_chain in E' as [Pc Hc].
    assert (open_check mfm bl fs = Some c).
    { apply accept_chain. split; auto. transitivity fs'; auto. apply Permutation_sym, P. }
    congruence.
Qed.

(** ** What coherence implies for every member of the set *)

Lemma chain_in_same_record mfm bl c :
  chain_ok mfm bl c -> forall f g, In f c -> In g c -> frec f = frec g.
Proof.
  intros [(b & ps & -> & _ & F & _) _ _ _].
  rewrite Forall_forall in F.
  assert (Hb : forall f, In f (b :: ps) -> frec f = frec b) by (intros f [<-|Hf]; auto).
  intros f g Hf Hg. rewrite (Hb f Hf), (Hb g Hg). reflexivity.
Qed.

Lemma chain_hash_exact mfm bl c :
  chain_ok mfm bl c -> forall f h, In f c -> fhash f = Some h -> h = dig f.
Proof.
  intros [_ _ _ (l & n & -> & Hi & Hn & _)] f h Hf Eh.
  apply in_app_or in Hf as [Hf|[<-|[]]].
  - rewrite Forall_forall in Hi. specialize (Hi _ Hf). unfold intact in Hi. congruence.
  - destruct Hn as [Hn|Hn]; unfold intact in *; congruence.
Qed.

Lemma chain_first_base mfm c :
  chain_ok mfm false c -> exists b, In b c /\ fprev b = None.
Proof.
  intros [(b & ps & -> & Hb & _) _ _ _]. exists b. split; [left|]; auto.
Qed.

Lemma chain_pred_present mfm c :
  chain_ok mfm false c -> forall y q, In y c -> fprev y = Some q ->
  exists p, In p c /\ fpid p = q /\ fidx p < fidx y.
Proof.
  intros Hc y q Hy Eq.
  destruct (linked_pred c (co_links _ _ _ Hc) y Hy) as [[r E]|(p & Hp & E1 & E2)].
  - destruct (co_base _ _ _ Hc) as (b & ps & E' & Hb & _). rewrite E in E'.
    injection E' as <- _. rewrite Hb in Eq; [discriminate | reflexivity].
  - exists p. repeat split; auto. congruence.
Qed.

Lemma nodup_removelast {X : Type} (l : list X) : NoDup l -> NoDup (removelast l).
Proof.
  destruct l as [|a l]; [auto|]. intros Hn.
  rewrite (app_removelast_last a) in Hn at 1 by discriminate.
  apply NoDup_remove_1 in Hn. rewrite app_nil_r in Hn. exact Hn.
Qed.

Lemma map_removelast' {X Y : Type} (f : X -> Y) (l : list X) :
  map f (removelast l) = removelast (map f l).
Proof.
  induction l as [|a l IH]; [reflexivity|].
  destruct l as [|b l]; [reflexivity|].
  change (removelast (a :: b :: l)) with (a :: removelast (b :: l)).
  change (map f (a :: removelast (b :: l))) with (f a :: map f (removelast (b :: l))).
  rewrite IH. reflexivity.
Qed.

Lemma chain_prevs_nodup mfm c : chain_ok mfm false c -> NoDup (map fprev c).
Proof.
  intros Hc. destruct (co_base _ _ _ Hc) as (b & ps & -> & Hb & _).
  simpl. rewrite Hb by reflexivity.
  rewrite (linked_prevs ps b (co_links _ _ _ Hc)).
  constructor.
  - rewrite in_map_iff. intros (x & [=] & _).
  - rewrite <- (map_map fpid Some). apply Injective_map_NoDup.
    + intros x y [=]. auto.
    + rewrite map_removelast'. apply nodup_removelast, (co_nodup _ _ _ Hc).
Qed.

Lemma sorted_last_max l n :
  StronglySorted lt_f (l ++ [n]) -> forall f, In f (l ++ [n]) ->
  (forall g, In g (l ++ [n]) -> fidx g <= fidx f) -> f = n.
Proof.
  intros S f Hf Hmax. apply in_app_or in Hf as [Hf|[<-|[]]]; auto.
  assert (fidx f < fidx n) by (eapply sorted_app_lt; eauto; left; auto).
  assert (fidx n <= fidx f) by (apply Hmax, in_or_app; right; left; auto). lia.
Qed.

(** ** Fault classes *)

Ltac by_coherence Hco :=
  apply refused_if_incoherent; intros Hco.

Theorem payload_mismatch_refused mfm bl fs f h :
  In f fs -> fhash f = Some h -> h <> dig f -> open_check mfm bl fs = None.
Proof.
  intros Hf Eh Hne. by_coherence Hco. destruct Hco as (c & P & Hc).
  apply Hne. eapply chain_hash_exact; eauto. eapply Permutation_in; [apply Permutation_sym, P | exact Hf].
Qed.

Theorem foreign_refused mfm bl fs f g :
  In f fs -> In g fs -> frec f <> frec g -> open_check mfm bl fs = None.
Proof.
  intros Hf Hg Hne. by_coherence Hco. destruct Hco as (c & P & Hc).
  apply Hne. eapply chain_in_same_record; eauto;
    (eapply Permutation_in; [apply Permutation_sym, P | assumption]).
Qed.

Theorem dup_pid_refused mfm bl fs :
  ~ NoDup (map fpid fs) -> open_check mfm bl fs = None.
Proof.
  intros Hn. by_coherence Hco. destruct Hco as (c & P & Hc). apply Hn.
  eapply Permutation_NoDup; [apply Permutation_map, P | apply (co_nodup _ _ _ Hc)].
Qed.

Theorem missing_base_refused mfm fs :
  (forall f, In f fs -> fprev f <> None) -> open_check mfm false fs = None.
Proof.
  intros Hall. by_coherence Hco. destruct Hco as (c & P & Hc).
  destruct (chain_first_base _ _ Hc) as (b & Hb & E).
  apply (Hall b); auto. eapply Permutation_in; eauto.
Qed.

Theorem dangling_prev_refused mfm fs y q :
  In y fs -> fprev y = Some q -> (forall f, In f fs -> fpid f <> q) ->
  open_check mfm false fs = None.
Proof.
  intros Hy Eq Hall. by_coherence Hco. destruct Hco as (c & P & Hc).
  destruct (chain_pred_present _ _ Hc y q) as (p & Hp & E & _); auto.
  { eapply Permutation_in; [apply Permutation_sym, P | exact Hy]. }
  apply (Hall p); auto. eapply Permutation_in; eauto.
Qed.

Theorem fork_refused mfm fs :
  ~ NoDup (map fprev fs) -> open_check mfm false fs = None.
Proof.
  intros Hn. by_coherence Hco. destruct Hco as (c & P & Hc). apply Hn.
  eapply Permutation_NoDup; [apply Permutation_map, P | eapply chain_prevs_nodup; eauto].
Qed.

Lemma pid_unique_in_chain l1 x r :
  NoDup (map fpid (l1 ++ x :: r)) -> forall f, In f (l1 ++ r) -> fpid f <> fpid x.
Proof.
  rewrite map_app. simpl. intros Hn f Hf E.
  apply NoDup_remove_2 in Hn. apply Hn. rewrite <- map_app, <- E. apply in_map, Hf.
Qed.

(** Removing a container that has both a predecessor and a successor. *)
Theorem remove_inner_refused mfm bl c l1 x l2 fs :
  chain_ok mfm bl c -> c = l1 ++ x :: l2 -> l1 <> [] -> l2 <> [] ->
  Permutation fs (l1 ++ l2) -> forall mfm' bl', open_check mfm' bl' fs = None.
Proof.
  intros Hc -> H1 H2 P mfm' bl'. by_coherence Hco. destruct Hco as (c' & P' & Hc').
  destruct l2 as [|y l2]; [congruence|]. clear H2.
  destruct (exists_last H1) as (l1' & p & ->). clear H1.
  pose proof (linked_sorted _ (co_links _ _ _ Hc)) as S.
  pose proof (co_links _ _ _ Hc) as Hl.
  assert (Hxy : fprev y = Some (fpid x)) by (apply (linked_app_mid _ _ _ _ Hl)).
  assert (Hpx : fidx p < fidx x).
  { rewrite <- app_assoc in Hl. simpl in Hl. apply (linked_app_mid _ _ _ _ Hl). }
  assert (Hxy' : fidx x < fidx y) by (apply (linked_app_mid _ _ _ _ Hl)).
  assert (Py : In y c').
  { eapply Permutation_in; [apply Permutation_sym; transitivity fs; [exact P' | exact P]|].
    apply in_or_app; right; left; auto. }
  assert (Pp : In p c').
  { eapply Permutation_in; [apply Permutation_sym; transitivity fs; [exact P' | exact P]|].
    apply in_or_app; left. apply in_or_app; right; left; auto. }
  destruct (linked_pred c' (co_links _ _ _ Hc') y Py) as [[r E]|(q & Hq & E1 & E2)].
  - (* y cannot be first: p is smaller *)
    pose proof (linked_sorted _ (co_links _ _ _ Hc')) as S'. rewrite E in S', Pp.
    apply StronglySorted_inv in S' as [_ F]. rewrite Forall_forall in F.
    destruct Pp as [Ep|Pp]; [subst; lia|]. specialize (F _ Pp). unfold lt_f in F. lia.
  - (* its predecessor would carry the removed container's patch id *)
    assert (In q ((l1' ++ [p]) ++ y :: l2)).
    { eapply Permutation_in; [transitivity fs; [exact P' | exact P] | exact Hq]. }
    apply (pid_unique_in_chain _ x _ (co_nodup _ _ _ Hc) q); auto. congruence.
Qed.

(** Removing the base (and keeping something). *)
Theorem remove_base_refused mfm b ps fs :
  chain_ok mfm false (b :: ps) -> Permutation fs ps -> forall mfm', open_check mfm' false fs = None.
Proof.
  intros Hc P mfm'. apply missing_base_refused. intros f Hf.
  assert (Hf' : In f ps) by (eapply Permutation_in; eauto).
  destruct (linked_pred _ (co_links _ _ _ Hc) f (or_intror Hf')) as [[r E]|(p & _ & E & _)].
  - injection E as <- _. pose proof (co_nodup _ _ _ Hc) as Hn. simpl in Hn.
    inversion Hn; subst. exfalso. apply H1. apply in_map, Hf'.
  - congruence.
Qed.

(** Substituting a non-final container by one with another patch id (a container of
    another record, or of a fork). *)
Theorem substitute_refused mfm c l1 x y l2 x' fs :
  chain_ok mfm false c -> c = l1 ++ x :: y :: l2 -> fpid x' <> fpid x ->
  Permutation fs (l1 ++ x' :: y :: l2) -> forall mfm', open_check mfm' false fs = None.
Proof.
  intros Hc -> Hne P mfm'.
  pose proof (co_links _ _ _ Hc) as Hl.
  apply (dangling_prev_refused mfm' fs y (fpid x)).
  - eapply Permutation_in; [apply Permutation_sym, P|]. apply in_or_app; right; right; left; auto.
  - apply (linked_app_mid _ _ _ _ Hl).
  - intros f Hf. apply (Permutation_in _ P) in Hf.
    apply in_app_or in Hf as [Hf|[<-|Hf]]; auto;
      apply (pid_unique_in_chain _ x _ (co_nodup _ _ _ Hc)); apply in_or_app; auto.
Qed.

Lemma linked_succ l p r :
  linked (l ++ [p]) -> In r l -> exists s, In s (l ++ [p]) /\ fprev s = Some (fpid r).
Proof.
  intros Hl Hr. apply in_split in Hr as (a & b & ->).
  rewrite <- app_assoc in Hl |- *. simpl in Hl |- *.
  destruct (b ++ [p]) as [|s t] eqn:E; [destruct b; discriminate|].
  exists s. split; [apply in_or_app; right; right; left; reflexivity|].
  apply (linked_app_mid _ _ _ _ Hl).
Qed.

(** Substituting the newest container by something that is not a continuation of its
    predecessor. *)
Theorem substitute_last_refused mfm c l1 p x x' fs :
  chain_ok mfm false c -> c = l1 ++ [p; x] ->
  fprev x' <> Some (fpid p) \/ frec x' <> frec p ->
  Permutation fs (l1 ++ [p; x']) -> forall mfm', open_check mfm' false fs = None.
Proof.
  intros Hc -> Hbad P mfm'. by_coherence Hco. destruct Hco as (c' & P' & Hc').
  assert (PP : Permutation c' ((l1 ++ [p]) ++ [x'])).
  { rewrite <- app_assoc. simpl. transitivity fs; auto. }
  assert (Ip : In p c').
  { eapply Permutation_in; [apply Permutation_sym, PP|].
    apply in_or_app; left; apply in_or_app; right; left; auto. }
  assert (Ix : In x' c').
  { eapply Permutation_in; [apply Permutation_sym, PP|]. apply in_or_app; right; left; auto. }
  destruct Hbad as [Hpv|Hr]; [|apply Hr; eapply chain_in_same_record; eauto].
  assert (Hnot : ~ In (fprev x') (map fprev (l1 ++ [p]))).
  { pose proof (chain_prevs_nodup _ _ Hc') as Hn.
    apply (Permutation_NoDup (Permutation_map fprev PP)) in Hn.
    rewrite map_app in Hn. simpl in Hn. apply NoDup_remove_2 in Hn.
    rewrite app_nil_r in Hn. exact Hn. }
  assert (Hl : linked (l1 ++ [p])).
  { apply (linked_app_l _ [x]); [destruct l1; discriminate|].
    rewrite <- app_assoc. exact (co_links _ _ _ Hc). }
  destruct (fprev x') as [q|] eqn:Eq.
  - destruct (chain_pred_present _ _ Hc' x' q Ix Eq) as (p' & Hp' & E & Hlt).
    apply (Permutation_in _ PP) in Hp'.
    apply in_app_or in Hp' as [Hp'|[<-|[]]]; [|lia].
    apply in_app_or in Hp' as [Hp'|[<-|[]]]; [|congruence].
    destruct (linked_succ _ _ _ Hl Hp') as (s & Hs & Es).
    apply Hnot. rewrite <- E, <- Es. apply in_map, Hs.
  - destruct (co_base _ _ _ Hc) as (b & ps & E & Hb & _).
    apply Hnot. rewrite <- (Hb eq_refl). apply in_map.
    destruct l1 as [|a l1]; simpl in E; injection E as <- _; left; reflexivity.
Qed.

(** The manifest of the newest container is missing or has another digest
    (manifest-aware class). *)
Theorem manifest_refused bl fs n e :
  In n fs -> (forall f, In f fs -> fidx f <= fidx n) -> fext n = Some e ->
  (forall i, mf n <> Some (i, mf_hash e)) -> open_check true bl fs = None.
Proof.
  intros Hn Hmax Ee Hbad. by_coherence Hco. destruct Hco as (c & P & Hc).
  pose proof (linked_sorted _ (co_links _ _ _ Hc)) as S.
  destruct (co_commit _ _ _ Hc) as (l & n' & -> & _ & _ & Hm).
  assert (n = n') as <-.
  { apply (sorted_last_max l n' S).
    - eapply Permutation_in; [apply Permutation_sym, P | exact Hn].
    - intros g Hg. apply Hmax. eapply Permutation_in; eauto. }
  destruct (Hm eq_refl e Ee) as [i Ei]. exact (Hbad i Ei).
Qed.

(** ** The removal that is not a fault: dropping the newest containers *)

Lemma nodup_app_l {X : Type} (l1 l2 : list X) : NoDup (l1 ++ l2) -> NoDup l1.
Proof.
  induction l1 as [|a l1 IH]; simpl; [constructor|].
  inversion 1; subst. constructor; auto. intros Hin. apply H2, in_or_app; auto.
Qed.

Theorem chain_prefix_ok mfm bl l1 n l2 :
  chain_ok mfm bl (l1 ++ n :: l2) -> (mfm = true -> mf_ok n) -> chain_ok mfm bl (l1 ++ [n]).
Proof.
  intros Hc Hmf. constructor.
  - destruct (co_base _ _ _ Hc) as (b & ps & E & Hb & F1 & F2).
    destruct l1 as [|a l1]; simpl in E; injection E as <- <-.
    + exists n, []. repeat split; auto.
    + exists a, (l1 ++ [n]). repeat split; auto.
      * apply Forall_app in F1 as [F1 F1']. apply Forall_app; split; auto.
        inversion F1'; subst. auto.
      * intros Em. specialize (F2 Em). apply Forall_app in F2 as [F2 F2'].
        apply Forall_app; split; auto. inversion F2'; subst. auto.
  - apply (linked_app_l _ l2); [destruct l1; discriminate|].
    rewrite <- app_assoc. exact (co_links _ _ _ Hc).
  - pose proof (co_nodup _ _ _ Hc) as Hn.
    replace (l1 ++ n :: l2) with ((l1 ++ [n]) ++ l2) in Hn by (rewrite <- app_assoc; reflexivity).
    rewrite map_app in Hn. apply nodup_app_l in Hn. exact Hn.
  - exists l1, n. destruct (co_commit _ _ _ Hc) as (l & m & E & Hi & Hm & _).
    repeat split; auto.
    + destruct (@exists_last _ (n :: l2)) as (l2' & m' & E2); [discriminate|].
      rewrite E2, app_assoc in E. apply app_inj_tail in E as [<- _].
      apply Forall_app in Hi as [Hi _]. exact Hi.
    + destruct l2 as [|y l2].
      * apply app_inj_tail in E as [_ <-]. exact Hm.
      * right. destruct (@exists_last _ (y :: l2)) as (l2' & m' & E2); [discriminate|].
        rewrite E2 in E. change (l1 ++ n :: l2' ++ [m']) with (l1 ++ (n :: l2') ++ [m']) in E.
        rewrite app_assoc in E. apply app_inj_tail in E as [<- _].
        apply Forall_app in Hi as [_ Hi]. inversion Hi; subst. auto.
Qed.

Theorem prefix_ok mfm bl fs keep drop :
  coherent mfm bl fs -> Permutation fs (keep ++ drop) -> keep <> [] ->
  (forall k d, In k keep -> In d drop -> fidx k < fidx d) ->
  (mfm = true -> forall k, In k keep -> mf_ok k) ->
  coherent mfm bl keep.
Proof.
  intros (c & P & Hc) Pk Hne Hlt Hmf.
  assert (E : isort keep ++ isort drop = c).
  { apply sorted_unique.
    - apply sorted_app_le; try apply isort_sorted. intros a b Ha Hb.
      apply N.lt_le_incl, Hlt; [apply (Permutation_in _ (isort_perm keep)), Ha
                               | apply (Permutation_in _ (isort_perm drop)), Hb].
    - apply linked_sorted, (co_links _ _ _ Hc).
    - transitivity (keep ++ drop); [apply Permutation_app; apply isort_perm|].
      transitivity fs; apply Permutation_sym; auto. }
  assert (Hne' : isort keep <> []).
  { intros E0. apply Hne. apply Permutation_nil. rewrite <- E0. apply isort_perm. }
  destruct (exists_last Hne') as (l1 & n & En).
  exists (isort keep). split; [apply isort_perm|]. rewrite En.
  apply (chain_prefix_ok mfm bl l1 n (isort drop)).
  - replace (l1 ++ n :: isort drop) with ((l1 ++ [n]) ++ isort drop)
      by (rewrite <- app_assoc; reflexivity).
    rewrite <- En, E. exact Hc.
  - intros Em. apply Hmf; auto. apply (Permutation_in _ (isort_perm keep)).
    rewrite En. apply in_or_app; right; left; auto.
Qed.

(** ** Digests stand for contents: consequences of collision freedom *)

Section Hashing.
  Variables (payload manifest : Type) (H : payload -> N) (Hm mid : manifest -> N).
  Hypothesis H_inj : forall a b, H a = H b -> a = b.
  Hypothesis Hm_inj : forall a b, Hm a = Hm b -> a = b.

  (** [p0]: the payload hashed at commit time; [p]: the payload now on disk. *)
  Theorem payload_change_refused mfm bl fs f p0 p :
    In f fs -> fhash f = Some (H p0) -> dig f = H p -> p <> p0 ->
    open_check mfm bl fs = None.
  Proof.
    intros Hf Eh Ed Hne. apply (payload_mismatch_refused mfm bl fs f (H p0)); auto.
    rewrite Ed. intros E. apply Hne. symmetry. apply H_inj, E.
  Qed.

  Theorem accepted_payload_exact mfm bl fs f p0 p :
    open_check mfm bl fs <> None ->
    In f fs -> fhash f = Some (H p0) -> dig f = H p -> p = p0.
  Proof.
    intros Ha Hf Eh Ed. apply accept_iff in Ha as (c & P & Hc).
    apply H_inj. rewrite <- Ed. symmetry. eapply chain_hash_exact; eauto.
    eapply Permutation_in; [apply Permutation_sym, P | exact Hf].
  Qed.

  (** [m0]: the manifest written at commit time; [m]: the sidecar file now on disk. *)
  Theorem manifest_change_refused bl fs n e m0 m :
    In n fs -> (forall f, In f fs -> fidx f <= fidx n) -> fext n = Some e ->
    mf_hash e = Hm m0 -> mf n = Some (mid m, Hm m) -> m <> m0 ->
    open_check true bl fs = None.
  Proof.
    intros Hn Hmax Ee E0 Em Hne. apply (manifest_refused bl fs n e); auto.
    intros i. rewrite Em, E0. intros [= _ E]. apply Hne, Hm_inj, E.
  Qed.

  (** If the set opens, the manifest on disk is the committed one, so the uuid test that
      the code leaves out ([manifest_uuid] of the sidecar = the one in the user block)
      holds as well. *)
  Theorem accepted_manifest_exact bl fs n e m0 m :
    open_check true bl fs <> None ->
    In n fs -> (forall f, In f fs -> fidx f <= fidx n) -> fext n = Some e ->
    mf_hash e = Hm m0 -> mf_id e = mid m0 -> mf n = Some (mid m, Hm m) ->
    m = m0 /\ mid m = mf_id e.
  Proof.
    intros Ha Hn Hmax Ee E0 Ei Em.
    assert (m = m0) as ->; [|auto].
    destruct (open_check true bl fs) eqn:Eo; [|congruence].
    assert (Hdec : forall x y : N, x = y \/ x <> y) by (intros; lia).
    destruct (Hdec (Hm m) (Hm m0)) as [E|E]; [apply Hm_inj, E|].
    rewrite (manifest_refused bl fs n e) in Eo; auto; [discriminate|].
    intros i. rewrite Em, E0. intros [= _ E']. auto.
  Qed.
End Hashing.
