(** * Proofs about the crash model [Rec/Crash.v] (property C11). *)
From Coq Require Import List String Ascii NArith Bool Arith Permutation Sorted Lia.
From MV Require Import Base.Sx Rec.Chain Rec.ChainProofs Rec.Crash.
Import ListNotations.

(** ** B. Directory level *)

(** *** Running micro-steps *)

Lemma exec_app d a b : exec d (a ++ b) = exec (exec d a) b.
Proof. unfold exec. apply fold_left_app. Qed.

Lemma states_head d l : In d (states d l).
Proof. destruct l; simpl; auto. Qed.

Lemma states_app d a : forall b s,
  In s (states d (a ++ b)) <-> In s (states d a) \/ In s (states (exec d a) b).
Proof.
  revert d. induction a as [|x a IH]; intros d b s; simpl.
  - split; [auto|]. intros [[<-|[]]|H]; auto. apply states_head.
  - rewrite IH. unfold exec at 2. simpl. fold (exec (exec1 d x) a). tauto.
Qed.

Lemma states_prefix d l s : In s (states d l) <-> exists n, s = exec d (firstn n l).
Proof.
  revert d. induction l as [|x l IH]; intros d; simpl.
  - split.
    + intros [<-|[]]. exists 0. reflexivity.
    + intros [n ->]. left. destruct n; reflexivity.
  - rewrite IH. split.
    + intros [<-|[n ->]]; [exists 0; reflexivity | exists (S n); reflexivity].
    + intros [[|n] ->]; [left; reflexivity | right; exists n; reflexivity].
Qed.

Lemma upd_last_snoc g c e : upd_last g (c ++ [e]) = c ++ [g e].
Proof.
  induction c as [|a c IH]; [reflexivity|].
  simpl app. destruct (c ++ [e]) as [|b t] eqn:E; [destruct c; discriminate|].
  change (upd_last g (a :: b :: t)) with (a :: upd_last g (b :: t)). rewrite IH. reflexivity.
Qed.

(** Entry-level view of the steps that modify the newest file. *)
Definition estep (e : entry) (s : mstep) : entry :=
  match s with
  | SNew _ => e
  | SUb u => MkEntry u (edig e) (emf e)
  | SPay p => MkEntry (eub e) p (emf e)
  | SMf m => MkEntry (eub e) (edig e) m
  end.

Definition no_new (s : mstep) : Prop := match s with SNew _ => False | _ => True end.

Fixpoint estates (e : entry) (l : list mstep) : list entry :=
  match l with
  | [] => [e]
  | s :: r => e :: estates (estep e s) r
  end.

Definition eexec (e : entry) (l : list mstep) : entry := fold_left estep l e.

Lemma exec1_snoc c e s : no_new s -> exec1 (c ++ [e]) s = c ++ [estep e s].
Proof. destruct s; simpl; intros H; try contradiction; apply upd_last_snoc. Qed.

Lemma states_snoc c l : forall e, Forall no_new l ->
  states (c ++ [e]) l = map (fun e' => c ++ [e']) (estates e l).
Proof.
  induction l as [|s l IH]; intros e Hl; [reflexivity|].
  inversion Hl; subst. simpl. rewrite exec1_snoc by assumption. rewrite IH by assumption.
  reflexivity.
Qed.

Lemma exec_snoc c l : forall e, Forall no_new l -> exec (c ++ [e]) l = c ++ [eexec e l].
Proof.
  induction l as [|s l IH]; intros e Hl; [reflexivity|].
  inversion Hl; subst. unfold exec, eexec. simpl. rewrite exec1_snoc by assumption.
  apply IH. assumption.
Qed.

Lemma eexec_app e a b : eexec e (a ++ b) = eexec (eexec e a) b.
Proof. unfold eexec. apply fold_left_app. Qed.

Lemma estates_head e l : In e (estates e l).
Proof. destruct l; simpl; auto. Qed.

Lemma estates_app e a : forall b x,
  In x (estates e (a ++ b)) <-> In x (estates e a) \/ In x (estates (eexec e a) b).
Proof.
  revert e. induction a as [|s a IH]; intros e b x; simpl.
  - split; [auto|]. intros [[<-|[]]|H]; auto. apply estates_head.
  - rewrite IH. unfold eexec at 2. simpl. fold (eexec (estep e s) a). tauto.
Qed.

(** A run of steps that all overwrite the same component. *)
Section Setter.
  Context {X : Type} (K : X -> mstep) (set : X -> entry -> entry).
  Hypothesis K_set : forall x e, estep e (K x) = set x e.
  Hypothesis set_set : forall x y e, set x (set y e) = set x e.

  Lemma setter_states l : forall e e',
    In e' (estates e (map K l)) -> e' = e \/ exists x, In x l /\ e' = set x e.
  Proof.
    induction l as [|y l IH]; intros e e'; simpl.
    - intros [<-|[]]. auto.
    - intros [<-|H]; auto. rewrite K_set in H.
      destruct (IH _ _ H) as [->|(x & Hx & ->)]; right.
      + exists y. auto.
      + exists x. rewrite set_set. auto.
  Qed.

  Lemma setter_exec l : forall x e, eexec e (map K (l ++ [x])) = set x e.
  Proof.
    induction l as [|y l IH]; intros x e; simpl.
    - unfold eexec. simpl. apply K_set.
    - unfold eexec. simpl. fold (eexec (estep e (K y)) (map K (l ++ [x]))).
      rewrite IH, K_set, set_set. reflexivity.
  Qed.

  Lemma setter_no_new l : (forall x, no_new (K x)) -> Forall no_new (map K l).
  Proof. intros H. induction l; simpl; constructor; auto. Qed.
End Setter.

Definition set_ub (u : option ublock) (e : entry) : entry := MkEntry u (edig e) (emf e).
Definition set_pay (p : N) (e : entry) : entry := MkEntry (eub e) p (emf e).
Definition set_mf (m : N * N) (e : entry) : entry := MkEntry (eub e) (edig e) (Some m).

(** *** The newest entry during one round *)

Inductive shape (mfm : bool) (C : list file) (r : round) : entry -> Prop :=
| sh_unreadable : forall d m, shape mfm C r (MkEntry None d m)
| sh_uncommitted : forall d, shape mfm C r (MkEntry (Some (round_u0 C r)) d None)
| sh_nomf : shape mfm C r (MkEntry (Some (round_u1 mfm C r)) (r_dfin r) None)
| sh_partmf : forall m, mfm = true -> snd m <> r_mfhash r ->
    shape mfm C r (MkEntry (Some (round_u1 mfm C r)) (r_dfin r) (Some m))
| sh_final : shape mfm C r (entry_of (final_file mfm C r)).

Lemma create_steps_eq C r :
  create_steps C r = SNew (r_d0 r) :: map SUb (r_tears1 r ++ [Some (round_u0 C r)]).
Proof. unfold create_steps. rewrite map_app. reflexivity. Qed.

Lemma write_steps_eq r : write_steps r = map SPay (r_writes r ++ [r_dfin r]).
Proof. unfold write_steps. rewrite map_app. reflexivity. Qed.

Lemma commit_steps_eq mfm C r :
  commit_steps mfm C r = map SUb (r_tears2 r ++ [Some (round_u1 mfm C r)]).
Proof. unfold commit_steps. rewrite map_app. reflexivity. Qed.

Lemma mf_steps_eq r :
  mf_steps true r = map (fun m => SMf (Some m)) (r_mfparts r ++ [(r_mfid r, r_mfhash r)]).
Proof. unfold mf_steps. rewrite map_app. reflexivity. Qed.

Lemma final_entry_plain C r :
  entry_of (final_file false C r) = MkEntry (Some (round_u1 false C r)) (r_dfin r) None.
Proof. reflexivity. Qed.

Lemma final_entry_mf C r :
  entry_of (final_file true C r) =
  MkEntry (Some (round_u1 true C r)) (r_dfin r) (Some (r_mfid r, r_mfhash r)).
Proof. reflexivity. Qed.

(** Tail of a round (everything after the new file exists), at entry level. *)
Definition tail_steps (mfm : bool) (C : list file) (r : round) : list mstep :=
  map SUb (r_tears1 r ++ [Some (round_u0 C r)]) ++ write_steps r ++ commit_steps mfm C r
  ++ mf_steps mfm r.

Lemma round_steps_eq mfm C r : round_steps mfm C r = SNew (r_d0 r) :: tail_steps mfm C r.
Proof. unfold round_steps, tail_steps. rewrite create_steps_eq. reflexivity. Qed.

Lemma tail_no_new mfm C r : Forall no_new (tail_steps mfm C r).
Proof.
  unfold tail_steps. rewrite write_steps_eq, commit_steps_eq.
  repeat apply Forall_app; repeat split; try (apply setter_no_new; intros; exact I).
  destruct mfm; [rewrite mf_steps_eq; apply setter_no_new; intros; exact I | constructor].
Qed.

Lemma tail_shapes mfm C r : round_ok mfm C r ->
  let e0 := MkEntry None (r_d0 r) None in
  (forall e, In e (estates e0 (tail_steps mfm C r)) -> shape mfm C r e) /\
  eexec e0 (tail_steps mfm C r) = entry_of (final_file mfm C r).
Proof.
  intros (_ & T1 & T2 & TM) e0. unfold tail_steps.
  rewrite write_steps_eq, commit_steps_eq.
  set (u0 := round_u0 C r) in *. set (u1 := round_u1 mfm C r) in *.
  (* phase 1 *)
  assert (E1 : eexec e0 (map SUb (r_tears1 r ++ [Some u0])) = MkEntry (Some u0) (r_d0 r) None).
  { rewrite (setter_exec SUb set_ub); auto. }
  assert (S1 : forall e, In e (estates e0 (map SUb (r_tears1 r ++ [Some u0]))) -> shape mfm C r e).
  { intros e He. apply (setter_states SUb set_ub) in He; auto.
    destruct He as [->|(x & Hx & ->)]; [constructor|].
    apply in_app_or in Hx as [Hx|[<-|[]]]; [|constructor].
    unfold tears_ok in T1. rewrite Forall_forall in T1.
    destruct (T1 _ Hx) as [->|[->|->]]; constructor. }
  (* phase 2 *)
  set (e1 := MkEntry (Some u0) (r_d0 r) None) in *.
  assert (E2 : eexec e1 (map SPay (r_writes r ++ [r_dfin r])) = MkEntry (Some u0) (r_dfin r) None).
  { rewrite (setter_exec SPay set_pay); auto. }
  assert (S2 : forall e, In e (estates e1 (map SPay (r_writes r ++ [r_dfin r]))) -> shape mfm C r e).
  { intros e He. apply (setter_states SPay set_pay) in He; auto.
    destruct He as [->|(x & Hx & ->)]; constructor. }
  (* phase 3 *)
  set (e2 := MkEntry (Some u0) (r_dfin r) None) in *.
  assert (E3 : eexec e2 (map SUb (r_tears2 r ++ [Some u1])) = MkEntry (Some u1) (r_dfin r) None).
  { rewrite (setter_exec SUb set_ub); auto. }
  assert (S3 : forall e, In e (estates e2 (map SUb (r_tears2 r ++ [Some u1]))) -> shape mfm C r e).
  { intros e He. apply (setter_states SUb set_ub) in He; auto.
    destruct He as [->|(x & Hx & ->)]; [constructor|].
    apply in_app_or in Hx as [Hx|[<-|[]]]; [|apply sh_nomf].
    unfold tears_ok in T2. rewrite Forall_forall in T2.
    destruct (T2 _ Hx) as [->|[->|->]]; try constructor. apply sh_nomf. }
  set (e3 := MkEntry (Some u1) (r_dfin r) None) in *.
  split.
  - intros e He.
    apply estates_app in He as [He|He]; [auto|]. rewrite E1 in He.
    apply estates_app in He as [He|He]; [auto|]. rewrite E2 in He.
    apply estates_app in He as [He|He]; [auto|]. rewrite E3 in He.
    destruct mfm.
    + rewrite mf_steps_eq in He. apply (setter_states _ set_mf) in He; auto.
      destruct He as [->|(x & Hx & ->)]; [apply sh_nomf|].
      apply in_app_or in Hx as [Hx|[<-|[]]].
      * rewrite Forall_forall in TM. apply sh_partmf; auto.
      * apply sh_final.
    + simpl in He. destruct He as [<-|[]]. apply sh_nomf.
  - rewrite !eexec_app, E1, E2, E3. destruct mfm.
    + rewrite mf_steps_eq, (setter_exec _ set_mf); auto.
    + reflexivity.
Qed.

(** All states of one round: the committed containers plus at most one more entry. *)
Lemma round_states mfm C r s : round_ok mfm C r ->
  In s (states (entries C) (round_steps mfm C r)) ->
  s = entries C \/ exists e, s = entries C ++ [e] /\ shape mfm C r e.
Proof.
  intros Hr. rewrite round_steps_eq. simpl. intros [<-|H]; auto. right.
  rewrite states_snoc in H by apply tail_no_new.
  apply in_map_iff in H as (e & <- & He). exists e. split; auto.
  apply (tail_shapes mfm C r Hr). exact He.
Qed.

Lemma round_exec mfm C r : round_ok mfm C r ->
  exec (entries C) (round_steps mfm C r) = entries (C ++ [final_file mfm C r]).
Proof.
  intros Hr. rewrite round_steps_eq. unfold exec. simpl.
  fold (exec (entries C ++ [MkEntry None (r_d0 r) None]) (tail_steps mfm C r)).
  rewrite exec_snoc by apply tail_no_new.
  rewrite (proj2 (tail_shapes mfm C r Hr)). unfold entries. rewrite map_app. reflexivity.
Qed.

(** *** Opening *)

Lemma opt_all_some {X : Type} (l : list X) : opt_all (map Some l) = Some l.
Proof. induction l as [|a l IH]; simpl; [reflexivity | rewrite IH; reflexivity]. Qed.

Lemma opt_all_app {X : Type} (a : list (option X)) : forall b,
  opt_all (a ++ b) =
  match opt_all a, opt_all b with Some x, Some y => Some (x ++ y) | _, _ => None end.
Proof.
  induction a as [|[x|] a IH]; intros b; simpl.
  - destruct (opt_all b); reflexivity.
  - rewrite IH. destruct (opt_all a), (opt_all b); reflexivity.
  - reflexivity.
Qed.

Lemma files_of_entries C : map file_of (entries C) = map Some C.
Proof.
  unfold entries. rewrite map_map. apply map_ext. intros [u d m]. reflexivity.
Qed.

Lemma open_dir_entries mfm C : open_dir mfm (entries C) = open_check mfm false C.
Proof. unfold open_dir. rewrite files_of_entries, opt_all_some. reflexivity. Qed.

Lemma open_dir_snoc mfm C e :
  open_dir mfm (entries C ++ [e]) =
  match file_of e with Some f => open_check mfm false (C ++ [f]) | None => None end.
Proof.
  unfold open_dir. rewrite map_app, opt_all_app, files_of_entries, opt_all_some. simpl.
  destruct (file_of e); reflexivity.
Qed.

Lemma chain_opens mfm C : chain_ok mfm false C -> open_check mfm false C = Some C.
Proof. intros H. apply accept_chain. split; [apply Permutation_refl | exact H]. Qed.

(** *** Appending a container to a committed record *)

Lemma chain_nonempty mfm bl C : chain_ok mfm bl C -> C <> [].
Proof. intros [(b & ps & -> & _) _ _ _]. discriminate. Qed.

Lemma lastf_snoc l x : lastf (l ++ [x]) = x.
Proof. unfold lastf. apply last_last. Qed.

Lemma linked_snoc l : forall x n,
  linked (l ++ [x]) -> (fidx x < fidx n)%N -> fprev n = Some (fpid x) -> linked ((l ++ [x]) ++ [n]).
Proof.
  induction l as [|a l IH]; intros x n Hl Hlt Hp; simpl in *.
  - constructor; auto. constructor.
  - destruct (l ++ [x]) as [|b t] eqn:E; [destruct l; discriminate|].
    simpl. apply linked_inv in Hl as (H1 & H2 & H3). constructor; auto.
    specialize (IH x n). rewrite E in IH. apply IH; auto.
Qed.

Lemma chain_last_max l x : linked (l ++ [x]) -> forall f, In f (l ++ [x]) -> (fidx f <= fidx x)%N.
Proof.
  intros Hl f Hf. apply linked_sorted in Hl.
  apply in_app_or in Hf as [Hf|[<-|[]]]; [|lia].
  assert (fidx f < fidx x)%N by (eapply sorted_app_lt; eauto; left; auto). lia.
Qed.

Lemma chain_snoc mfm C n :
  chain_ok mfm false C -> Forall intact C ->
  frec n = frec (lastf C) -> fidx n = (fidx (lastf C) + 1)%N ->
  fprev n = Some (fpid (lastf C)) -> ~ In (fpid n) (map fpid C) -> not_stub n ->
  newest_ok n -> (mfm = true -> mf_ok n) ->
  chain_ok mfm false (C ++ [n]).
Proof.
  intros Hc Hi Hr Hx Hp Hf Hs Hn Hm.
  pose proof (chain_nonempty _ _ _ Hc) as Hne.
  destruct (exists_last Hne) as (l & x & ->). rewrite lastf_snoc in *.
  constructor.
  - destruct (co_base _ _ _ Hc) as (b & ps & E & Hb & F1 & F2).
    exists b, (ps ++ [n]). rewrite E. split; [reflexivity|]. split; [exact Hb|]. split.
    + apply Forall_app; split; auto. constructor; auto.
      rewrite Hr. eapply chain_in_same_record; [exact Hc| |rewrite E; left; reflexivity].
      apply in_or_app; right; left; reflexivity.
    + intros Em. apply Forall_app; split; auto.
  - apply linked_snoc; auto; [exact (co_links _ _ _ Hc) | lia].
  - rewrite map_app. simpl.
    eapply Permutation_NoDup; [apply Permutation_cons_append|].
    constructor; [exact Hf | exact (co_nodup _ _ _ Hc)].
  - exists (l ++ [x]), n. auto.
Qed.

Lemma not_stub_none f : fext f = None -> not_stub f.
Proof. intros E e He. congruence. Qed.

Lemma u0_facts C r :
  rec_id (round_u0 C r) = frec (lastf C) /\ idx (round_u0 C r) = (fidx (lastf C) + 1)%N /\
  pid (round_u0 C r) = r_pid r /\ prev (round_u0 C r) = Some (fpid (lastf C)) /\
  hash (round_u0 C r) = None /\ ext (round_u0 C r) = None.
Proof. repeat split. Qed.

Lemma good_nonempty mfm C : good mfm C -> C <> [].
Proof. intros (Hc & _). eapply chain_nonempty; eauto. Qed.

Lemma good_opens mfm C : good mfm C -> open_dir mfm (entries C) = Some C.
Proof. intros (Hc & _). rewrite open_dir_entries. apply chain_opens, Hc. Qed.

(** An uncommitted newest container: the set opens as committed + that container. *)
Lemma uncommitted_opens mfm C r d : good mfm C -> round_ok mfm C r ->
  open_check mfm false (C ++ [MkFile (round_u0 C r) d None]) =
  Some (C ++ [MkFile (round_u0 C r) d None]).
Proof.
  intros (Hc & Hi & Hm) (Hf & _). apply chain_opens.
  apply chain_snoc; auto; try reflexivity.
  - apply not_stub_none. reflexivity.
  - left. reflexivity.
  - intros _ e He. discriminate.
Qed.

Lemma final_chain mfm C r : good mfm C -> round_ok mfm C r ->
  chain_ok mfm false (C ++ [final_file mfm C r]).
Proof.
  intros (Hc & Hi & Hm) (Hf & _). apply chain_snoc; auto; try reflexivity.
  - intros e He. destruct mfm; simpl in He; [injection He as <-; reflexivity | discriminate].
  - right. reflexivity.
  - intros -> e He. simpl in He. injection He as <-. exists (r_mfid r). reflexivity.
Qed.

Lemma good_snoc mfm C r : good mfm C -> round_ok mfm C r -> good mfm (C ++ [final_file mfm C r]).
Proof.
  intros Hg Hr. pose proof (final_chain mfm C r Hg Hr) as Hc.
  destruct Hg as (_ & Hi & Hm). repeat split; auto.
  - apply Forall_app; split; auto. constructor; auto. reflexivity.
  - intros Em. apply Forall_app; split; auto. constructor; auto. subst mfm.
    intros e He. simpl in He. injection He as <-. exists (r_mfid r). reflexivity.
Qed.

(** The committed user block is there but its manifest is not (yet) the committed one. *)
Lemma manifest_pending C r m : good true C ->
  (forall i, m <> Some (i, r_mfhash r)) ->
  open_check true false (C ++ [MkFile (round_u1 true C r) (r_dfin r) m]) = None.
Proof.
  intros Hg Hm. set (n := MkFile (round_u1 true C r) (r_dfin r) m).
  apply (manifest_refused false _ n (MkExt false (r_mfid r) (r_mfhash r))).
  - apply in_or_app; right; left; reflexivity.
  - intros f Hf. apply in_app_or in Hf as [Hf|[<-|[]]]; [|lia].
    destruct Hg as (Hc & _). pose proof (chain_nonempty _ _ _ Hc) as Hne.
    destruct (exists_last Hne) as (l & x & E). rewrite E in Hf.
    pose proof (chain_last_max l x) as Hmax. rewrite <- E in Hmax.
    specialize (Hmax (co_links _ _ _ Hc)). rewrite E in Hmax. specialize (Hmax f Hf).
    unfold n, fidx. simpl. unfold lastf. rewrite E, last_last. fold (fidx x). lia.
  - reflexivity.
  - exact Hm.
Qed.

(** What the whole set opens as, by the shape of the newest entry. *)
Definition verdict (mfm : bool) (K K' : list file) (s : dir) : Prop :=
  open_dir mfm s = None \/
  (exists f, open_dir mfm s = Some (K ++ [f]) /\ fhash f = None) \/
  open_dir mfm s = Some K \/
  open_dir mfm s = Some K'.

Lemma shape_verdict mfm C r e : good mfm C -> round_ok mfm C r -> shape mfm C r e ->
  verdict mfm C (C ++ [final_file mfm C r]) (entries C ++ [e]).
Proof.
  intros Hg Hr Hs. unfold verdict. rewrite open_dir_snoc.
  destruct Hs as [d m|d| |m Em Hm|].
  - left. reflexivity.
  - right; left. simpl. eexists. split; [apply uncommitted_opens; auto | reflexivity].
  - destruct mfm.
    + left. simpl. apply manifest_pending; auto. intros i; discriminate.
    + right; right; right. simpl. apply chain_opens. apply (final_chain false C r Hg Hr).
  - subst mfm. left. simpl. apply manifest_pending; auto.
    intros i [= E]. apply Hm. rewrite E. reflexivity.
  - right; right; right.
    replace (file_of (entry_of (final_file mfm C r))) with (Some (final_file mfm C r))
      by (destruct mfm; reflexivity).
    apply chain_opens, final_chain; auto.
Qed.

(** *** Whole histories *)

Definition crash_cases (mfm : bool) (K K' : list file) (s : dir) : Prop :=
  good mfm K /\
  (s = entries K \/
   exists r e, K' = K ++ [final_file mfm K r] /\ round_ok mfm K r /\
               s = entries K ++ [e] /\ shape mfm K r e).

Lemma crash_cases_hold mfm rs : forall C n, good mfm C -> hist_ok mfm C rs ->
  crash_cases mfm (committed_at mfm C rs n) (next_committed_at mfm C rs n)
              (crash_state mfm C rs n).
Proof.
  induction rs as [|r rs IH]; intros C n Hg Hh.
  - unfold crash_state. simpl. rewrite firstn_nil. split; auto.
  - destruct Hh as [Hr Hh]. unfold crash_state. simpl.
    set (k := List.length (round_steps mfm C r)).
    destruct (Nat.leb_spec k n) as [Hle|Hlt].
    + rewrite firstn_app. fold k. rewrite firstn_all2 by (fold k; lia).
      rewrite exec_app, round_exec by assumption.
      apply (IH (C ++ [final_file mfm C r]) (n - k)); [apply good_snoc; auto | exact Hh].
    + rewrite firstn_app. fold k. replace (n - k) with 0 by lia.
      rewrite firstn_O, app_nil_r. split; auto.
      assert (Hin : In (exec (entries C) (firstn n (round_steps mfm C r)))
                       (states (entries C) (round_steps mfm C r)))
        by (apply states_prefix; eauto).
      apply round_states in Hin; auto. destruct Hin as [->|(e & -> & He)]; auto.
      right. exists r, e. auto.
Qed.

Theorem crash_frame mfm C rs n : good mfm C -> hist_ok mfm C rs ->
  firstn (List.length (committed_at mfm C rs n)) (crash_state mfm C rs n)
  = entries (committed_at mfm C rs n).
Proof.
  intros Hg Hh. destruct (crash_cases_hold mfm rs C n Hg Hh) as (_ & [->|(r & e & _ & _ & -> & _)]).
  - apply firstn_all2. unfold entries. rewrite map_length. lia.
  - rewrite firstn_app. unfold entries at 2. rewrite map_length, Nat.sub_diag. simpl.
    rewrite app_nil_r. apply firstn_all2. unfold entries. rewrite map_length. lia.
Qed.

Theorem crash_committed_opens mfm C rs n : good mfm C -> hist_ok mfm C rs ->
  open_dir mfm (firstn (List.length (committed_at mfm C rs n)) (crash_state mfm C rs n))
  = Some (committed_at mfm C rs n).
Proof.
  intros Hg Hh. rewrite crash_frame by assumption.
  apply good_opens. apply (crash_cases_hold mfm rs C n Hg Hh).
Qed.

Theorem crash_trichotomy mfm C rs n : good mfm C -> hist_ok mfm C rs ->
  verdict mfm (committed_at mfm C rs n) (next_committed_at mfm C rs n) (crash_state mfm C rs n).
Proof.
  intros Hg Hh.
  destruct (crash_cases_hold mfm rs C n Hg Hh) as (Hk & [->|(r & e & -> & Hr & -> & He)]).
  - right; right; left. apply good_opens, Hk.
  - apply shape_verdict; auto.
Qed.

(** Never accepted as committed with a state that was not written. *)
Theorem crash_no_phantom mfm C rs n c : good mfm C -> hist_ok mfm C rs ->
  open_dir mfm (crash_state mfm C rs n) = Some c -> fhash (lastf c) <> None ->
  c = committed_at mfm C rs n \/ c = next_committed_at mfm C rs n.
Proof.
  intros Hg Hh Ho Hc.
  destruct (crash_trichotomy mfm C rs n Hg Hh) as [E|[(f & E & Ef)|[E|E]]];
    rewrite E in Ho; try discriminate; injection Ho as <-; auto.
  rewrite lastf_snoc in Hc. contradiction.
Qed.

(** Whenever the whole set opens, the committed containers form a coherent record on
    their own: the removal of the newest container is the one removal that is not a
    fault (C04's [prefix_ok]). *)
Theorem crash_committed_coherent mfm C rs n c : good mfm C -> hist_ok mfm C rs ->
  open_dir mfm (crash_state mfm C rs n) = Some c ->
  exists drop, Permutation c (committed_at mfm C rs n ++ drop) /\
               coherent mfm false (committed_at mfm C rs n).
Proof.
  intros Hg Hh Ho.
  assert (Hco : coherent mfm false c).
  { apply accept_iff. unfold open_dir in Ho.
    destruct (opt_all (map file_of (crash_state mfm C rs n))) as [fs|]; [|discriminate].
    pose proof Ho as Ho'. apply accept_chain in Ho' as [P Hc].
    exists c. split; [apply Permutation_refl | exact Hc]. }
  pose proof (crash_cases_hold mfm rs C n Hg Hh) as (Hk & _).
  pose proof (good_nonempty _ _ Hk) as Hne.
  assert (Hpre : exists drop, c = committed_at mfm C rs n ++ drop).
  { destruct (crash_trichotomy mfm C rs n Hg Hh) as [E|[(f & E & Ef)|[E|E]]];
      rewrite E in Ho; try discriminate; injection Ho as <-.
    - exists [f]. reflexivity.
    - exists []. rewrite app_nil_r. reflexivity.
    - destruct (crash_cases_hold mfm rs C n Hg Hh) as (_ & [Es|(r & e & -> & _)]).
      + (* state = committed: the next committed state is only reported when equal *)
        rewrite Es, good_opens in E by assumption. injection E as E.
        exists []. rewrite app_nil_r. symmetry. exact E.
      + exists [final_file mfm (committed_at mfm C rs n) r]. reflexivity. }
  destruct Hpre as (drop & ->). exists drop. split; [apply Permutation_refl|].
  apply (prefix_ok mfm false _ (committed_at mfm C rs n) drop Hco); auto.
  - apply Permutation_refl.
  - destruct Hco as (c' & P & Hc').
    pose proof (isort_of_chain c' _ (co_links _ _ _ Hc') P) as Es.
    intros k d Hk' Hd.
    assert (Hs : StronglySorted lt_f (committed_at mfm C rs n ++ drop)).
    { apply accept_chain in Ho as [P2 Hc2]. apply linked_sorted, (co_links _ _ _ Hc2). }
    eapply sorted_app_lt; eauto.
  - intros Em k Hk'. destruct Hk as (_ & _ & Hm). specialize (Hm Em).
    rewrite Forall_forall in Hm. auto.
Qed.
