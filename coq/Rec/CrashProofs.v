(** * Proofs about the crash model [Rec/Crash.v] (property C11). *)
From Coq Require Import List String Ascii NArith Bool Arith Permutation Sorted Lia.
From MV Require Import Base.Sx Rec.Chain Rec.ChainProofs Rec.Crash.
Import ListNotations.

(** ** B. Directory level *)

(** *** Running micro-steps *)

Lemma exec_app d a b : exec d (a ++ b) = exec (exec d a) b.
Proof. unfold exec. apply fold_left_app. Qed.

Lemma states_head d l : In d (states d l).
Proof. destruct l; simpl; auto. Qed.

Lemma states_app d a : forall b s,
  In s (states d (a ++ b)) <-> In s (states d a) \/ In s (states (exec d a) b).
Proof.
  revert d. induction a as [|x a IH]; intros d b s; simpl.
  - split; [auto|]. intros [[<-|[]]|H]; auto. apply states_head.
  - rewrite IH. unfold exec at 2. simpl. fold (exec (exec1 d x) a). tauto.
Qed.

Lemma states_prefix d l s : In s (states d l) <-> exists n, s = exec d (firstn n l).
Proof.
  revert d. induction l as [|x l IH]; intros d; simpl.
  - split.
    + intros [<-|[]]. exists 0. reflexivity.
    + intros [n ->]. left. destruct n; reflexivity.
  - rewrite IH. split.
    + intros [<-|[n ->]]; [exists 0; reflexivity | exists (S n); reflexivity].
    + intros [[|n] ->]; [left; reflexivity | right; exists n; reflexivity].
Qed.

Lemma upd_last_snoc g c e : upd_last g (c ++ [e]) = c ++ [g e].
Proof.
  induction c as [|a c IH]; [reflexivity|].
  simpl app. destruct (c ++ [e]) as [|b t] eqn:E; [destruct c; discriminate|].
  change (upd_last g (a :: b :: t)) with (a :: upd_last g (b :: t)). rewrite IH. reflexivity.
Qed.

(** Entry-level view of the steps that modify the newest file. *)
Definition estep (e : entry) (s : mstep) : entry :=
  match s with
  | SNew _ => e
  | SUb u => MkEntry u (edig e) (emf e)
  | SPay p => MkEntry (eub e) p (emf e)
  | SMf m => MkEntry (eub e) (edig e) m
  end.

Definition no_new (s : mstep) : Prop := match s with SNew _ => False | _ => True end.

Fixpoint estates (e : entry) (l : list mstep) : list entry :=
  match l with
  | [] => [e]
  | s :: r => e :: estates (estep e s) r
  end.

Definition eexec (e : entry) (l : list mstep) : entry := fold_left estep l e.

Lemma exec1_snoc c e s : no_new s -> exec1 (c ++ [e]) s = c ++ [estep e s].
Proof. destruct s; simpl; intros H; try contradiction; apply upd_last_snoc. Qed.

Lemma states_snoc c l : forall e, Forall no_new l ->
  states (c ++ [e]) l = map (fun e' => c ++ [e']) (estates e l).
Proof.
  induction l as [|s l IH]; intros e Hl; [reflexivity|].
  inversion Hl; subst. simpl. rewrite exec1_snoc by assumption. rewrite IH by assumption.
  reflexivity.
Qed.

Lemma exec_snoc c l : forall e, Forall no_new l -> exec (c ++ [e]) l = c ++ [eexec e l].
Proof.
  induction l as [|s l IH]; intros e Hl; [reflexivity|].
  inversion Hl; subst. unfold exec, eexec. simpl. rewrite exec1_snoc by assumption.
  apply IH. assumption.
Qed.

Lemma eexec_app e a b : eexec e (a ++ b) = eexec (eexec e a) b.
Proof. unfold eexec. apply fold_left_app. Qed.

Lemma estates_head e l : In e (estates e l).
Proof. destruct l; simpl; auto. Qed.

Lemma estates_app e a : forall b x,
  In x (estates e (a ++ b)) <-> In x (estates e a) \/ In x (estates (eexec e a) b).
Proof.
  revert e. induction a as [|s a IH]; intros e b x; simpl.
  - split; [auto|]. intros [[<-|[]]|H]; auto. apply estates_head.
  - rewrite IH. unfold eexec at 2. simpl. fold (eexec (estep e s) a). tauto.
Qed.

(** A run of steps that all overwrite the same component. *)
Section Setter.
  Context {X : Type} (K : X -> mstep) (set : X -> entry -> entry).
  Hypothesis K_set : forall x e, estep e (K x) = set x e.
  Hypothesis set_set : forall x y e, set x (set y e) = set x e.

  Lemma setter_states l : forall e e',
    In e' (estates e (map K l)) -> e' = e \/ exists x, In x l /\ e' = set x e.
  Proof.
    induction l as [|y l IH]; intros e e'; simpl.
    - intros [<-|[]]. auto.
    - intros [<-|H]; auto. rewrite K_set in H.
      destruct (IH _ _ H) as [->|(x & Hx & ->)]; right.
      + exists y. auto.
      + exists x. rewrite set_set. auto.
  Qed.

  Lemma setter_exec l : forall x e, eexec e (map K (l ++ [x])) = set x e.
  Proof.
    induction l as [|y l IH]; intros x e; simpl.
    - unfold eexec. simpl. apply K_set.
    - unfold eexec. simpl. fold (eexec (estep e (K y)) (map K (l ++ [x]))).
      rewrite IH, K_set, set_set. reflexivity.
  Qed.

  Lemma setter_no_new l : (forall x, no_new (K x)) -> Forall no_new (map K l).
  Proof. intros H. induction l; simpl; constructor; auto. Qed.
End Setter.

Definition set_ub (u : option ublock) (e : entry) : entry := MkEntry u (edig e) (emf e).
Definition set_pay (p : N) (e : entry) : entry := MkEntry (eub e) p (emf e).
Definition set_mf (m : N * N) (e : entry) : entry := MkEntry (eub e) (edig e) (Some m).

(** *** The newest entry during one round *)

Inductive shape (mfm : bool) (C : list file) (r : round) : entry -> Prop :=
| sh_unreadable : forall d m, shape mfm C r (MkEntry None d m)
| sh_uncommitted : forall d, shape mfm C r (MkEntry (Some (round_u0 C r)) d None)
| sh_nomf : shape mfm C r (MkEntry (Some (round_u1 mfm C r)) (r_dfin r) None)
| sh_partmf : forall m, mfm = true -> snd m <> r_mfhash r ->
    shape mfm C r (MkEntry (Some (round_u1 mfm C r)) (r_dfin r) (Some m))
| sh_final : shape mfm C r (entry_of (final_file mfm C r)).

Lemma create_steps_eq C r :
  create_steps C r = SNew (r_d0 r) :: map SUb (r_tears1 r ++ [Some (round_u0 C r)]).
Proof. unfold create_steps. rewrite map_app. reflexivity. Qed.

Lemma write_steps_eq r : write_steps r = map SPay (r_writes r ++ [r_dfin r]).
Proof. unfold write_steps. rewrite map_app. reflexivity. Qed.

Lemma commit_steps_eq mfm C r :
  commit_steps mfm C r = map SUb (r_tears2 r ++ [Some (round_u1 mfm C r)]).
Proof. unfold commit_steps. rewrite map_app. reflexivity. Qed.

Lemma mf_steps_eq r :
  mf_steps true r = map (fun m => SMf (Some m)) (r_mfparts r ++ [(r_mfid r, r_mfhash r)]).
Proof. unfold mf_steps. rewrite map_app. reflexivity. Qed.

Lemma final_entry_plain C r :
  entry_of (final_file false C r) = MkEntry (Some (round_u1 false C r)) (r_dfin r) None.
Proof. reflexivity. Qed.

Lemma final_entry_mf C r :
  entry_of (final_file true C r) =
  MkEntry (Some (round_u1 true C r)) (r_dfin r) (Some (r_mfid r, r_mfhash r)).
Proof. reflexivity. Qed.

(** Tail of a round (everything after the new file exists), at entry level. *)
Definition tail_steps (mfm : bool) (C : list file) (r : round) : list mstep :=
  map SUb (r_tears1 r ++ [Some (round_u0 C r)]) ++ write_steps r ++ commit_steps mfm C r
  ++ mf_steps mfm r.

Lemma round_steps_eq mfm C r : round_steps mfm C r = SNew (r_d0 r) :: tail_steps mfm C r.
Proof. unfold round_steps, tail_steps. rewrite create_steps_eq. reflexivity. Qed.

Lemma tail_no_new mfm C r : Forall no_new (tail_steps mfm C r).
Proof.
  unfold tail_steps. rewrite write_steps_eq, commit_steps_eq.
  apply Forall_app; split; [apply setter_no_new; intros; exact I|].
  apply Forall_app; split; [apply setter_no_new; intros; exact I|].
  apply Forall_app; split; [apply setter_no_new; intros; exact I|].
  destruct mfm; [rewrite mf_steps_eq; apply setter_no_new; intros; exact I | constructor].
Qed.

Lemma tail_shapes mfm C r : round_ok mfm C r ->
  let e0 := MkEntry None (r_d0 r) None in
  (forall e, In e (estates e0 (tail_steps mfm C r)) -> shape mfm C r e) /\
  eexec e0 (tail_steps mfm C r) = entry_of (final_file mfm C r).
Proof.
  intros (_ & T1 & T2 & TM) e0. unfold tail_steps.
  rewrite write_steps_eq, commit_steps_eq.
  set (u0 := round_u0 C r) in *. set (u1 := round_u1 mfm C r) in *.
  (* phase 1 *)
  assert (E1 : eexec e0 (map SUb (r_tears1 r ++ [Some u0])) = MkEntry (Some u0) (r_d0 r) None).
  { rewrite (setter_exec SUb set_ub); auto. }
  assert (S1 : forall e, In e (estates e0 (map SUb (r_tears1 r ++ [Some u0]))) -> shape mfm C r e).
  { intros e He. apply (setter_states SUb set_ub) in He; auto.
    destruct He as [->|(x & Hx & ->)]; [constructor|].
    apply in_app_or in Hx as [Hx|[<-|[]]]; [|constructor].
    unfold tears_ok in T1. rewrite Forall_forall in T1.
    destruct (T1 _ Hx) as [->|[->| ->]]; constructor. }
  (* phase 2 *)
  set (e1 := MkEntry (Some u0) (r_d0 r) None) in *.
  assert (E2 : eexec e1 (map SPay (r_writes r ++ [r_dfin r])) = MkEntry (Some u0) (r_dfin r) None).
  { rewrite (setter_exec SPay set_pay); auto. }
  assert (S2 : forall e, In e (estates e1 (map SPay (r_writes r ++ [r_dfin r]))) -> shape mfm C r e).
  { intros e He. apply (setter_states SPay set_pay) in He; auto.
    destruct He as [->|(x & Hx & ->)]; constructor. }
  (* phase 3 *)
  set (e2 := MkEntry (Some u0) (r_dfin r) None) in *.
  assert (E3 : eexec e2 (map SUb (r_tears2 r ++ [Some u1])) = MkEntry (Some u1) (r_dfin r) None).
  { rewrite (setter_exec SUb set_ub); auto. }
  assert (S3 : forall e, In e (estates e2 (map SUb (r_tears2 r ++ [Some u1]))) -> shape mfm C r e).
  { intros e He. apply (setter_states SUb set_ub) in He; auto.
    destruct He as [->|(x & Hx & ->)]; [constructor|].
    apply in_app_or in Hx as [Hx|[<-|[]]]; [|apply sh_nomf].
    unfold tears_ok in T2. rewrite Forall_forall in T2.
    destruct (T2 _ Hx) as [->|[->| ->]]; constructor. }
  set (e3 := MkEntry (Some u1) (r_dfin r) None) in *.
  split.
  - intros e He.
    apply estates_app in He as [He|He]; [auto|]. rewrite E1 in He.
    apply estates_app in He as [He|He]; [auto|]. rewrite E2 in He.
    apply estates_app in He as [He|He]; [auto|]. rewrite E3 in He.
    destruct mfm.
    + rewrite mf_steps_eq in He. apply (setter_states _ set_mf) in He; auto.
      destruct He as [->|(x & Hx & ->)]; [apply sh_nomf|].
      apply in_app_or in Hx as [Hx|[<-|[]]].
      * rewrite Forall_forall in TM. apply sh_partmf; auto.
      * apply sh_final.
    + simpl in He. destruct He as [<-|[]]. apply sh_nomf.
  - rewrite !eexec_app, E1, E2, E3. destruct mfm.
    + rewrite mf_steps_eq, (setter_exec _ set_mf); auto.
    + reflexivity.
Qed.

(** All states of one round: the committed containers plus at most one more entry. *)
Lemma round_states mfm C r s : round_ok mfm C r ->
  In s (states (entries C) (round_steps mfm C r)) ->
  s = entries C \/ exists e, s = entries C ++ [e] /\ shape mfm C r e.
Proof.
  intros Hr. rewrite round_steps_eq. simpl. intros [<-|H]; auto. right.
  rewrite states_snoc in H by apply tail_no_new.
  apply in_map_iff in H as (e & <- & He). exists e. split; auto.
  apply (tail_shapes mfm C r Hr). exact He.
Qed.

Lemma round_exec mfm C r : round_ok mfm C r ->
  exec (entries C) (round_steps mfm C r) = entries (C ++ [final_file mfm C r]).
Proof.
  intros Hr. rewrite round_steps_eq. unfold exec. simpl.
  fold (exec (entries C ++ [MkEntry None (r_d0 r) None]) (tail_steps mfm C r)).
  rewrite exec_snoc by apply tail_no_new.
  rewrite (proj2 (tail_shapes mfm C r Hr)). unfold entries. rewrite map_app. reflexivity.
Qed.

(** *** Opening *)

Lemma opt_all_some {X : Type} (l : list X) : opt_all (map Some l) = Some l.
Proof. induction l as [|a l IH]; simpl; [reflexivity | rewrite IH; reflexivity]. Qed.

Lemma opt_all_app {X : Type} (a : list (option X)) : forall b,
  opt_all (a ++ b) =
  match opt_all a, opt_all b with Some x, Some y => Some (x ++ y) | _, _ => None end.
Proof.
  induction a as [|[x|] a IH]; intros b; simpl.
  - destruct (opt_all b); reflexivity.
  - rewrite IH. destruct (opt_all a), (opt_all b); reflexivity.
  - reflexivity.
Qed.

Lemma files_of_entries C : map file_of (entries C) = map Some C.
Proof.
  unfold entries. rewrite map_map. apply map_ext. intros [u d m]. reflexivity.
Qed.

Lemma open_dir_entries mfm C : open_dir mfm (entries C) = open_check mfm false C.
Proof. unfold open_dir. rewrite files_of_entries, opt_all_some. reflexivity. Qed.

Lemma open_dir_snoc mfm C e :
  open_dir mfm (entries C ++ [e]) =
  match file_of e with Some f => open_check mfm false (C ++ [f]) | None => None end.
Proof.
  unfold open_dir. rewrite map_app, opt_all_app, files_of_entries, opt_all_some. simpl.
  destruct (file_of e); reflexivity.
Qed.

Lemma chain_opens mfm C : chain_ok mfm false C -> open_check mfm false C = Some C.
Proof. intros H. apply accept_chain. split; [apply Permutation_refl | exact H]. Qed.

(** *** Appending a container to a committed record *)

Lemma chain_nonempty mfm bl C : chain_ok mfm bl C -> C <> [].
Proof. intros [(b & ps & -> & _) _ _ _]. discriminate. Qed.

Lemma lastf_snoc l x : lastf (l ++ [x]) = x.
Proof. unfold lastf. apply last_last. Qed.

Lemma linked_snoc l : forall x n,
  linked (l ++ [x]) -> (fidx x < fidx n)%N -> fprev n = Some (fpid x) -> linked ((l ++ [x]) ++ [n]).
Proof.
  induction l as [|a l IH]; intros x n Hl Hlt Hp; simpl in *.
  - constructor; auto. constructor.
  - destruct (l ++ [x]) as [|b t] eqn:E; [destruct l; discriminate|].
    simpl. apply linked_inv in Hl as (H1 & H2 & H3). constructor; auto.
    specialize (IH x n). rewrite E in IH. apply IH; auto.
Qed.

Lemma chain_last_max l x : linked (l ++ [x]) -> forall f, In f (l ++ [x]) -> (fidx f <= fidx x)%N.
Proof.
  intros Hl f Hf. apply linked_sorted in Hl.
  apply in_app_or in Hf as [Hf|[<-|[]]]; [|lia].
  assert (fidx f < fidx x)%N by (eapply sorted_app_lt; eauto; left; auto). lia.
Qed.

Lemma chain_snoc mfm C n :
  chain_ok mfm false C -> Forall intact C ->
  frec n = frec (lastf C) -> fidx n = (fidx (lastf C) + 1)%N ->
  fprev n = Some (fpid (lastf C)) -> ~ In (fpid n) (map fpid C) -> not_stub n ->
  newest_ok n -> (mfm = true -> mf_ok n) ->
  chain_ok mfm false (C ++ [n]).
Proof.
  intros Hc Hi Hr Hx Hp Hf Hs Hn Hm.
  pose proof (chain_nonempty _ _ _ Hc) as Hne.
  destruct (exists_last Hne) as (l & x & ->). rewrite lastf_snoc in *.
  constructor.
  - destruct (co_base _ _ _ Hc) as (b & ps & E & Hb & F1 & F2).
    exists b, (ps ++ [n]). rewrite E. split; [reflexivity|]. split; [exact Hb|]. split.
    + apply Forall_app; split; auto. constructor; auto.
      rewrite Hr. eapply chain_in_same_record; [exact Hc| |rewrite E; left; reflexivity].
      apply in_or_app; right; left; reflexivity.
    + intros Em. apply Forall_app; split; auto.
  - apply linked_snoc; auto; [exact (co_links _ _ _ Hc) | lia].
  - rewrite map_app. simpl.
    eapply Permutation_NoDup; [apply Permutation_cons_append|].
    constructor; [exact Hf | exact (co_nodup _ _ _ Hc)].
  - exists (l ++ [x]), n. auto.
Qed.

Lemma not_stub_none f : fext f = None -> not_stub f.
Proof. intros E e He. congruence. Qed.

Lemma good_nonempty mfm C : good mfm C -> C <> [].
Proof. intros (Hc & _). eapply chain_nonempty; eauto. Qed.

Lemma good_opens mfm C : good mfm C -> open_dir mfm (entries C) = Some C.
Proof. intros (Hc & _). rewrite open_dir_entries. apply chain_opens, Hc. Qed.

Lemma good_good0 mfm C : good mfm C -> good0 mfm C.
Proof. right. assumption. Qed.

(** A record of the manifest-aware class is also one of the plain class. *)
Lemma good_weaken mfm C : good true C -> good mfm C.
Proof.
  destruct mfm; [auto|]. intros ([Hb Hl Hn Hco] & Hi & _). split; [|split; [exact Hi | discriminate]].
  constructor; auto.
  - destruct Hb as (b & ps & E & H1 & H2 & _). exists b, ps. repeat split; auto. discriminate.
  - destruct Hco as (l & n & E & H1 & H2 & _). exists l, n. repeat split; auto. discriminate.
Qed.

Lemma good0_weaken mfm C : good0 true C -> good0 mfm C.
Proof. intros [->|H]; [left; reflexivity | right; apply good_weaken, H]. Qed.

Lemma chain_single mfm n :
  fprev n = None -> newest_ok n -> (mfm = true -> mf_ok n) -> chain_ok mfm false [n].
Proof.
  intros Hp Hn Hm. constructor.
  - exists n, []. repeat split; auto.
  - constructor.
  - simpl. constructor; [intros [] | constructor].
  - exists [], n. repeat split; auto.
Qed.

(** The round's container, in whatever state its user block, payload and sidecar are,
    continues the committed containers. *)
Lemma chain_extend mfm C r (u : ublock) d m :
  good0 mfm C -> ~ In (r_pid r) (map fpid C) ->
  rec_id u = rec_id (round_u0 C r) -> idx u = idx (round_u0 C r) ->
  pid u = r_pid r -> prev u = prev (round_u0 C r) ->
  not_stub (MkFile u d m) -> newest_ok (MkFile u d m) ->
  (mfm = true -> mf_ok (MkFile u d m)) ->
  chain_ok mfm false (C ++ [MkFile u d m]).
Proof.
  intros [->|(Hc & Hi & Hm)] Hf E1 E2 E3 E4 Hs Hn Hmf.
  - apply chain_single; auto; unfold fprev; simpl; rewrite E4; reflexivity.
  - destruct C as [|f C']; [exfalso; eapply chain_nonempty; eauto|].
    apply chain_snoc; auto; unfold frec, fidx, fprev, fpid; cbn [ub];
      rewrite ?E1, ?E2, ?E3, ?E4; try reflexivity. exact Hf.
Qed.

(** An uncommitted newest container: the set opens as committed + that container
    (whatever the reader class). *)
Lemma uncommitted_opens mfm C r d : good0 mfm C -> ~ In (r_pid r) (map fpid C) ->
  open_check mfm false (C ++ [MkFile (round_u0 C r) d None]) =
  Some (C ++ [MkFile (round_u0 C r) d None]).
Proof.
  intros Hg Hf. apply chain_opens.
  assert (Eh : hash (round_u0 C r) = None /\ ext (round_u0 C r) = None /\ pid (round_u0 C r) = r_pid r)
    by (destruct C; repeat split).
  destruct Eh as (Eh & Ee & Ep).
  apply (chain_extend mfm C r); auto.
  - apply not_stub_none. exact Ee.
  - left. exact Eh.
  - intros _ e He. unfold fext in He. simpl in He. congruence.
Qed.

(** The committed user block written by a writer of class [mfw], seen by a reader of
    class [mfm], with sidecar [m]. *)
Lemma committed_chain mfm mfw C r m : good0 mfm C -> ~ In (r_pid r) (map fpid C) ->
  (mfm = true -> mfw = true -> exists i, m = Some (i, r_mfhash r)) ->
  chain_ok mfm false (C ++ [MkFile (round_u1 mfw C r) (r_dfin r) m]).
Proof.
  intros Hg Hf Hm.
  assert (Ep : pid (round_u0 C r) = r_pid r) by (destruct C; reflexivity).
  apply (chain_extend mfm C r); auto.
  - intros e He. unfold fext in He. simpl in He.
    destruct mfw; [injection He as <-; reflexivity | discriminate].
  - right. reflexivity.
  - intros Em e He. unfold fext in He. simpl in He.
    destruct mfw; [|discriminate]. injection He as <-.
    destruct (Hm Em eq_refl) as (i & ->). exists i. reflexivity.
Qed.

Lemma final_chain mfm C r : good0 mfm C -> round_ok mfm C r ->
  chain_ok mfm false (C ++ [final_file mfm C r]).
Proof.
  intros Hg (Hf & _). apply committed_chain; auto.
  intros -> _. exists (r_mfid r). reflexivity.
Qed.

Lemma good0_intact mfm C : good0 mfm C -> Forall intact C /\ (mfm = true -> Forall mf_ok C).
Proof. intros [->|(_ & Hi & Hm)]; auto. Qed.

Lemma good_snoc mfm C r : good0 mfm C -> round_ok mfm C r -> good mfm (C ++ [final_file mfm C r]).
Proof.
  intros Hg Hr. pose proof (final_chain mfm C r Hg Hr) as Hc.
  destruct (good0_intact _ _ Hg) as (Hi & Hm). split; [exact Hc|]. split.
  - apply Forall_app; split; auto. constructor; auto. reflexivity.
  - intros Em. apply Forall_app; split; auto. constructor; auto. subst mfm.
    intros e He. unfold fext in He. simpl in He. injection He as <-. exists (r_mfid r). reflexivity.
Qed.

Lemma good0_last_max mfm C f x : good0 mfm C -> In f C -> (fidx f <= fidx (last C x))%N.
Proof.
  intros [->|(Hc & _)] Hf; [destruct Hf|].
  pose proof (chain_nonempty _ _ _ Hc) as Hne.
  destruct (exists_last Hne) as (l & y & ->). rewrite last_last.
  apply (chain_last_max l y); auto. exact (co_links _ _ _ Hc).
Qed.

(** The committed user block of the manifest-aware class is there but its manifest is
    not (yet) the committed one: the manifest-aware reader refuses. *)
Lemma manifest_pending C r m : good0 true C ->
  (forall i, m <> Some (i, r_mfhash r)) ->
  open_check true false (C ++ [MkFile (round_u1 true C r) (r_dfin r) m]) = None.
Proof.
  intros Hg Hm. set (n := MkFile (round_u1 true C r) (r_dfin r) m).
  apply (manifest_refused false _ n (MkExt false (r_mfid r) (r_mfhash r))).
  - apply in_or_app; right; left; reflexivity.
  - intros f Hf. apply in_app_or in Hf as [Hf|[<-|[]]]; [|lia].
    destruct C as [|c0 C']; [destruct Hf|].
    pose proof (good0_last_max true _ f dummy_file Hg Hf) as Hmax.
    unfold n, fidx in *. simpl. unfold lastf. lia.
  - reflexivity.
  - exact Hm.
Qed.

(** What the whole set opens as, by the shape of the newest entry. *)
Definition verdict (mfm : bool) (K K' : list file) (s : dir) : Prop :=
  open_dir mfm s = None \/
  (exists f, open_dir mfm s = Some (K ++ [f]) /\ fhash f = None) \/
  open_dir mfm s = Some K \/
  open_dir mfm s = Some K'.

Lemma shape_verdict mfm C r e : good0 mfm C -> round_ok mfm C r -> shape mfm C r e ->
  verdict mfm C (C ++ [final_file mfm C r]) (entries C ++ [e]).
Proof.
  intros Hg Hr Hs. unfold verdict. rewrite open_dir_snoc. pose proof Hr as (Hf & _).
  destruct Hs as [d m|d| |m Em Hm|].
  - left. reflexivity.
  - right; left. simpl. eexists. split; [apply uncommitted_opens; auto | destruct C; reflexivity].
  - destruct mfm.
    + left. simpl. apply manifest_pending; auto. intros i; discriminate.
    + right; right; right. simpl. apply chain_opens. apply (final_chain false C r Hg Hr).
  - subst mfm. left. simpl. apply manifest_pending; auto.
    intros i [= E]. apply Hm. rewrite E. reflexivity.
  - right; right; right.
    replace (file_of (entry_of (final_file mfm C r))) with (Some (final_file mfm C r))
      by (destruct mfm; reflexivity).
    apply chain_opens, final_chain; auto.
Qed.

(** *** Reader class different from the writer class *)

(** Same containers (user blocks and payloads), sidecars aside. *)
Definition core (f : file) : ublock * N := (ub f, dig f).

Definition verdict_x (mfr : bool) (K K' : list file) (s : dir) : Prop :=
  open_dir mfr s = None \/
  (exists f, open_dir mfr s = Some (K ++ [f]) /\ fhash f = None) \/
  open_dir mfr s = Some K \/
  (exists c, open_dir mfr s = Some c /\ map core c = map core K').

Lemma shape_verdict_x mfr mfw C r e : good0 true C -> round_ok mfw C r -> shape mfw C r e ->
  verdict_x mfr C (C ++ [final_file mfw C r]) (entries C ++ [e]).
Proof.
  intros Hg Hr Hs. unfold verdict_x. rewrite open_dir_snoc. pose proof Hr as (Hf & _).
  pose proof (good0_weaken mfr C Hg) as Hgr.
  assert (Hcore : forall m, map core (C ++ [MkFile (round_u1 mfw C r) (r_dfin r) m])
                            = map core (C ++ [final_file mfw C r]))
    by (intros m; rewrite !map_app; reflexivity).
  destruct Hs as [d m|d| |m Em Hm|].
  - left. reflexivity.
  - right; left. simpl. eexists. split; [apply uncommitted_opens; auto | destruct C; reflexivity].
  - destruct mfr, mfw.
    + left. simpl. apply manifest_pending; auto. intros i; discriminate.
    + right; right; right. simpl. eexists. split; [|apply Hcore].
      apply chain_opens, committed_chain; auto. discriminate.
    + right; right; right. simpl. eexists. split; [|apply Hcore].
      apply chain_opens, committed_chain; auto. discriminate.
    + right; right; right. simpl. eexists. split; [|apply Hcore].
      apply chain_opens, committed_chain; auto. discriminate.
  - subst mfw. destruct mfr.
    + left. simpl. apply manifest_pending; auto.
      intros i [= E]. apply Hm. rewrite E. reflexivity.
    + right; right; right. simpl. eexists. split; [|apply Hcore].
      apply chain_opens, committed_chain; auto. discriminate.
  - right; right; right.
    replace (file_of (entry_of (final_file mfw C r))) with (Some (final_file mfw C r))
      by (destruct mfw; reflexivity).
    eexists. split; [|reflexivity]. apply chain_opens. unfold final_file.
    apply committed_chain; auto. intros _ ->. exists (r_mfid r). reflexivity.
Qed.

(** A record both classes accept stays one, whichever class writes the next round. *)
Lemma good_snoc_x mfw C r : good0 true C -> round_ok mfw C r ->
  good true (C ++ [final_file mfw C r]).
Proof.
  intros Hg Hr. pose proof Hr as (Hf & _).
  destruct (good0_intact _ _ Hg) as (Hi & Hm). split; [|split].
  - unfold final_file. apply committed_chain; auto. intros _ ->. exists (r_mfid r). reflexivity.
  - apply Forall_app; split; auto. constructor; auto. reflexivity.
  - intros _. apply Forall_app; split; auto. constructor; auto.
    intros e He. unfold fext in He. simpl in He.
    destruct mfw; [|discriminate]. injection He as <-. exists (r_mfid r). reflexivity.
Qed.

(** *** Whole histories *)

Definition crash_cases (mfm : bool) (K K' : list file) (s : dir) : Prop :=
  s = entries K \/
  exists r e, K' = K ++ [final_file mfm K r] /\ round_ok mfm K r /\
              s = entries K ++ [e] /\ shape mfm K r e.

(** [Inv] is what is known of the committed containers: preserved by complete rounds. *)
Lemma crash_cases_gen (Inv : list file -> Prop) mfm
  (Hstep : forall C r, Inv C -> round_ok mfm C r -> Inv (C ++ [final_file mfm C r])) rs :
  forall C n, Inv C -> hist_ok mfm C rs ->
  Inv (committed_at mfm C rs n) /\
  crash_cases mfm (committed_at mfm C rs n) (next_committed_at mfm C rs n)
              (crash_state mfm C rs n).
Proof.
  induction rs as [|r rs IH]; intros C n Hg Hh.
  - unfold crash_state. simpl. rewrite firstn_nil. split; auto. left. reflexivity.
  - destruct Hh as [Hr Hh]. unfold crash_state. cbn [expand committed_at next_committed_at].
    set (k := List.length (round_steps mfm C r)).
    destruct (Nat.leb_spec k n) as [Hle|Hlt].
    + rewrite firstn_app. fold k. rewrite firstn_all2 by (fold k; lia).
      rewrite exec_app, round_exec by assumption.
      apply (IH (C ++ [final_file mfm C r]) (n - k)); [apply Hstep; auto | exact Hh].
    + rewrite firstn_app. fold k. replace (n - k) with 0 by lia.
      rewrite firstn_O, app_nil_r. split; auto.
      assert (Hin : In (exec (entries C) (firstn n (round_steps mfm C r)))
                       (states (entries C) (round_steps mfm C r)))
        by (apply states_prefix; eauto).
      apply round_states in Hin; auto. destruct Hin as [->|(e & -> & He)]; [left; auto|].
      right. exists r, e. auto.
Qed.

Lemma crash_cases_hold mfm rs C n : good0 mfm C -> hist_ok mfm C rs ->
  good0 mfm (committed_at mfm C rs n) /\
  crash_cases mfm (committed_at mfm C rs n) (next_committed_at mfm C rs n)
              (crash_state mfm C rs n).
Proof.
  apply (crash_cases_gen (good0 mfm)). intros C' r Hg Hr. right. apply good_snoc; auto.
Qed.

Theorem crash_frame mfm C rs n : good0 mfm C -> hist_ok mfm C rs ->
  firstn (List.length (committed_at mfm C rs n)) (crash_state mfm C rs n)
  = entries (committed_at mfm C rs n).
Proof.
  intros Hg Hh. destruct (crash_cases_hold mfm rs C n Hg Hh) as (_ & [->|(r & e & _ & _ & -> & _)]).
  - apply firstn_all2. unfold entries. rewrite map_length. lia.
  - rewrite firstn_app. unfold entries at 2. rewrite map_length, Nat.sub_diag. simpl.
    rewrite app_nil_r. apply firstn_all2. unfold entries. rewrite map_length. lia.
Qed.

(** Nothing committed yet: there is nothing to open; otherwise the committed containers
    open as themselves. *)
Theorem crash_committed_opens mfm C rs n : good0 mfm C -> hist_ok mfm C rs ->
  committed_at mfm C rs n <> [] ->
  open_dir mfm (firstn (List.length (committed_at mfm C rs n)) (crash_state mfm C rs n))
  = Some (committed_at mfm C rs n).
Proof.
  intros Hg Hh Hne. rewrite crash_frame by assumption.
  destruct (crash_cases_hold mfm rs C n Hg Hh) as ([E|Hk] & _); [contradiction|].
  apply good_opens, Hk.
Qed.

Lemma committed_at_extends mfm rs : forall C n, exists l, committed_at mfm C rs n = C ++ l.
Proof.
  induction rs as [|r rs IH]; intros C n; cbn [committed_at].
  - exists []. rewrite app_nil_r. reflexivity.
  - destruct (List.length (round_steps mfm C r) <=? n).
    + destruct (IH (C ++ [final_file mfm C r]) (n - List.length (round_steps mfm C r))) as (l & ->).
      rewrite <- app_assoc. eauto.
    + exists []. rewrite app_nil_r. reflexivity.
Qed.

Theorem crash_trichotomy mfm C rs n : good0 mfm C -> hist_ok mfm C rs ->
  verdict mfm (committed_at mfm C rs n) (next_committed_at mfm C rs n) (crash_state mfm C rs n).
Proof.
  intros Hg Hh.
  destruct (crash_cases_hold mfm rs C n Hg Hh) as (Hk & [->|(r & e & -> & Hr & -> & He)]).
  - destruct Hk as [->|Hk].
    + left. reflexivity.
    + right; right; left. apply good_opens, Hk.
  - apply shape_verdict; auto.
Qed.

(** Reader of class [mfr] on what a writer of class [mfw] leaves. *)
Theorem crash_trichotomy_x mfr mfw C rs n : good0 true C -> hist_ok mfw C rs ->
  verdict_x mfr (committed_at mfw C rs n) (next_committed_at mfw C rs n) (crash_state mfw C rs n).
Proof.
  intros Hg Hh.
  destruct (crash_cases_gen (good0 true) mfw
              (fun C' r Hg' Hr' => or_intror (good_snoc_x mfw C' r Hg' Hr')) rs C n Hg Hh)
    as (Hk & [->|(r & e & -> & Hr & -> & He)]).
  - destruct Hk as [->|Hk].
    + left. reflexivity.
    + right; right; left. apply good_opens, good_weaken, Hk.
  - apply shape_verdict_x; auto.
Qed.

(** Never accepted as committed with a state that was not written. *)
Theorem crash_no_phantom mfm C rs n c : good0 mfm C -> hist_ok mfm C rs ->
  open_dir mfm (crash_state mfm C rs n) = Some c -> fhash (lastf c) <> None ->
  c = committed_at mfm C rs n \/ c = next_committed_at mfm C rs n.
Proof.
  intros Hg Hh Ho Hc.
  destruct (crash_trichotomy mfm C rs n Hg Hh) as [E|[(f & E & Ef)|[E|E]]];
    rewrite E in Ho; try discriminate; injection Ho as <-; auto.
  rewrite lastf_snoc in Hc. contradiction.
Qed.

(** Whenever the whole set opens, the committed containers form a coherent record on
    their own: the removal of the newest container is the one removal that is not a
    fault (C04's [prefix_ok]). *)
Theorem crash_committed_coherent mfm C rs n c : good0 mfm C -> hist_ok mfm C rs ->
  committed_at mfm C rs n <> [] ->
  open_dir mfm (crash_state mfm C rs n) = Some c ->
  exists drop, Permutation c (committed_at mfm C rs n ++ drop) /\
               coherent mfm false (committed_at mfm C rs n).
Proof.
  intros Hg Hh Hne Ho.
  set (K := committed_at mfm C rs n) in *.
  assert (Hacc : exists fs, open_check mfm false fs = Some c).
  { unfold open_dir in Ho.
    destruct (opt_all (map file_of (crash_state mfm C rs n))) as [fs|]; [eauto | discriminate]. }
  destruct Hacc as (fs & Hacc). apply accept_chain in Hacc as [_ Hc].
  assert (Hco : coherent mfm false c) by (exists c; split; [apply Permutation_refl | exact Hc]).
  pose proof (crash_cases_hold mfm rs C n Hg Hh) as (Hk & Hcases). fold K in Hk, Hcases.
  destruct Hk as [Hk|Hk]; [contradiction|].
  assert (Hpre : exists drop, c = K ++ drop).
  { destruct (crash_trichotomy mfm C rs n Hg Hh) as [E|[(f & E & Ef)|[E|E]]];
      fold K in E; rewrite E in Ho; try discriminate; injection Ho as <-.
    - exists [f]. reflexivity.
    - exists []. rewrite app_nil_r. reflexivity.
    - destruct Hcases as [Es|(r & e & -> & _)].
      + rewrite Es, good_opens in E by assumption. injection E as <-.
        exists []. rewrite app_nil_r. reflexivity.
      + eexists. reflexivity. }
  destruct Hpre as (drop & ->). exists drop. split; [apply Permutation_refl|].
  apply (prefix_ok mfm false (K ++ drop) K drop Hco).
  - apply Permutation_refl.
  - exact Hne.
  - intros k d Hk' Hd. eapply sorted_app_lt; eauto.
    apply linked_sorted, (co_links _ _ _ Hc).
  - intros Em k Hk'. destruct Hk as (_ & _ & Hm). specialize (Hm Em).
    rewrite Forall_forall in Hm. auto.
Qed.

(** ** A. Bytes of the user block *)

(** *** Torn writes in general *)

Lemma torn_below k old new : firstn k new = firstn k old -> torn k old new = old.
Proof. unfold torn. intros ->. apply firstn_skipn. Qed.

Lemma firstn_lcp a : forall b k, k <= lcp a b -> firstn k a = firstn k b.
Proof.
  induction a as [|x a IH]; intros [|y b] k H; simpl in H.
  - reflexivity.
  - replace k with 0 by lia. reflexivity.
  - replace k with 0 by lia. reflexivity.
  - destruct (Ascii.eqb_spec x y) as [->|Hne].
    + destruct k as [|k]; [reflexivity|]. simpl. f_equal. apply IH. lia.
    + replace k with 0 by lia. reflexivity.
Qed.

(** Up to the end of the common prefix of both blocks nothing has changed. *)
Theorem torn_le_lcp k old new : k <= lcp new old -> torn k old new = old.
Proof. intros H. apply torn_below, firstn_lcp, H. Qed.

Theorem torn_full k old new :
  List.length new <= k -> torn k old new = new ++ skipn k old.
Proof. intros H. unfold torn. rewrite firstn_all2 by exact H. reflexivity. Qed.

Lemma beqb_eq a : forall b, beqb a b = true <-> a = b.
Proof.
  induction a as [|x a IH]; intros [|y b]; simpl; try (split; [discriminate | discriminate]).
  - split; reflexivity.
  - rewrite andb_true_iff, IH, Ascii.eqb_eq. split; [intros [-> ->]; reflexivity|].
    intros [= -> ->]. auto.
Qed.

(** *** The scan *)

Lemma scan_app s a : forall b,
  scan s (a ++ b) = match scan s a with Some s' => scan s' b | None => None end.
Proof.
  revert s. induction a as [|c a IH]; intros s b; simpl; [reflexivity|].
  destruct (sstep s c); [apply IH | reflexivity].
Qed.

Lemma plainb_spec c : plainb c = true ->
  (c =? quote)%char = false /\ (c =? "\")%char = false /\ c <> nul /\ c <> nl.
Proof.
  unfold plainb. rewrite negb_true_iff, !orb_false_iff. intros (((H1 & H2) & H3) & H4).
  repeat split; auto; intros E; subst c.
  - unfold nul in H3. rewrite Ascii.eqb_refl in H3. discriminate.
  - unfold nl in H4. rewrite Ascii.eqb_refl in H4. discriminate.
Qed.

(** Inside a string literal plain characters change nothing. *)
Lemma scan_plain d sk lk f h : forallb plainb h = true ->
  scan (MkS d true false sk lk f) h = Some (MkS d true false sk lk f).
Proof.
  induction h as [|c h IH]; simpl; [reflexivity|].
  rewrite andb_true_iff. intros [Hc Hh]. apply plainb_spec in Hc as (H1 & H2 & _).
  unfold sstep. simpl. unfold quote in H1. rewrite H2, H1. apply IH, Hh.
Qed.

Lemma tightb_spec t : tightb t = true ->
  forall j, j < List.length t -> json_nec (firstn j t) = false.
Proof.
  unfold tightb. rewrite forallb_forall. intros H j Hj.
  apply negb_true_iff, H, in_seq. lia.
Qed.

(** *** The block reader on a block with the standard head *)

Lemma In_firstn {X : Type} (x : X) n : forall l, In x (firstn n l) -> In x l.
Proof.
  induction n as [|n IH]; intros [|a l]; simpl; try tauto.
  intros [->|H]; auto.
Qed.

Lemma In_skipn {X : Type} (x : X) n : forall l, In x (skipn n l) -> In x l.
Proof.
  induction n as [|n IH]; intros [|a l]; simpl; try tauto.
  intros H. right. apply IH, H.
Qed.

Lemma split_nl_no_nl r : ~ In nl r -> split_nl r = (r, []).
Proof.
  induction r as [|c r IH]; simpl; [reflexivity|]. intros H.
  destruct (Ascii.eqb_spec c nl) as [->|Hne]; [exfalso; apply H; auto|].
  rewrite IH by (intros Hin; apply H; auto). reflexivity.
Qed.

Lemma split_nl_app_nl a b : ~ In nl a ->
  split_nl (a ++ nl :: b) = (a, fst (split_nl b) :: snd (split_nl b)).
Proof.
  induction a as [|c a IH]; simpl; intros H.
  - try rewrite Ascii.eqb_refl. reflexivity.
  - destruct (Ascii.eqb_spec c nl) as [->|Hne]; [exfalso; apply H; auto|].
    rewrite IH by (intros Hin; apply H; auto). reflexivity.
Qed.

Lemma head1024_length : List.length head1024 = 13.
Proof. reflexivity. Qed.

Lemma lines_head r : ~ In nl r -> lines (head1024 ++ r) = [magic; B "1024"; r].
Proof.
  intros H. change (head1024 ++ r) with (magic ++ nl :: (B "1024" ++ nl :: r)).
  unfold lines. rewrite split_nl_app_nl.
  2:{ intros Hin. vm_compute in Hin. intuition discriminate. }
  rewrite split_nl_app_nl.
  2:{ intros Hin. vm_compute in Hin. intuition discriminate. }
  rewrite split_nl_no_nl by exact H. reflexivity.
Qed.

Lemma firstn_head n r : 13 <= n -> firstn n (head1024 ++ r) = head1024 ++ firstn (n - 13) r.
Proof.
  intros H. rewrite firstn_app, head1024_length.
  rewrite firstn_all2 by (rewrite head1024_length; exact H). reflexivity.
Qed.

Lemma read_head_shape r n : 13 <= n -> ~ In nl r ->
  read_head (head1024 ++ r) n = Some (1024%N, upto_nul (firstn (n - 13) r)).
Proof.
  intros Hn Hr. unfold read_head. rewrite firstn_head by exact Hn.
  rewrite lines_head by (intros Hin; apply Hr; eapply In_firstn; eauto).
  reflexivity.
Qed.

Lemma block_text_head r : ~ In nl r ->
  block_text (head1024 ++ r) = Some (upto_nul (firstn 1011 r)).
Proof.
  intros Hr. unfold block_text. rewrite read_head_shape by (auto; lia).
  change (512 <? 1024)%N with true. cbv iota.
  change (N.to_nat 1024) with 1024.
  rewrite read_head_shape by (auto; lia). reflexivity.
Qed.

Lemma cut_nul_app t rest : ~ In nul t -> cut_nul (t ++ nul :: rest) = Some t.
Proof.
  induction t as [|c t IH]; simpl; intros H.
  - reflexivity.
  - destruct (Ascii.eqb_spec c nul) as [->|Hne]; [exfalso; apply H; auto|].
    rewrite IH by (intros Hin; apply H; auto). reflexivity.
Qed.

(** The text of a block [head ++ t ++ NUL ++ rest]. *)
Lemma block_text_data t rest :
  ~ In nl t -> ~ In nul t -> ~ In nl rest -> List.length t < 1011 ->
  block_text (head1024 ++ t ++ nul :: rest) = Some t.
Proof.
  intros H1 H2 H3 H4. rewrite block_text_head.
  2:{ intros Hin. apply in_app_or in Hin as [Hin|[Hin|Hin]]; auto. discriminate. }
  f_equal. rewrite firstn_app, firstn_all2 by lia.
  destruct (1011 - List.length t) as [|q] eqn:E; [lia|]. simpl firstn.
  unfold upto_nul. rewrite cut_nul_app by exact H2. reflexivity.
Qed.

Lemma skipn_repeat {X : Type} (x : X) a : forall m, skipn a (repeat x m) = repeat x (m - a).
Proof.
  induction a as [|a IH]; intros [|m]; simpl; try reflexivity. apply IH.
Qed.

Lemma In_repeat_nul x q : In x (repeat nul q) -> x = nul.
Proof. intros H. apply repeat_spec in H. exact H. Qed.

Lemma no_nl_repeat q : ~ In nl (repeat nul q).
Proof. intros H. apply In_repeat_nul in H. discriminate. Qed.

Lemma forallb_plain_no h : forallb plainb h = true -> ~ In nl h /\ ~ In nul h.
Proof.
  rewrite forallb_forall. intros H. split; intros Hin; apply H, plainb_spec in Hin;
    destruct Hin as (_ & _ & Ha & Hb); congruence.
Qed.

(** *** Rejected tails: the rest of the old text after an unfinished hash value *)

Lemma tail_reject d j : 1 <= j -> j <= 19 ->
  accepting (scan (MkS d true false true KColon false) (skipn j old_tail)) = false.
Proof.
  intros H1 H2.
  do 20 (destruct j as [|j]; [try lia; try reflexivity|]). lia.
Qed.

Lemma skipn_app_2 {X : Type} (l : list X) : forall l' n,
  skipn (List.length l + n) (l ++ l') = skipn n l'.
Proof. induction l as [|a l IH]; intros l' n; simpl; auto. Qed.

(** *** The two blocks of a commit *)

Section Commit.
  Variables (pre hsh rest : bytes) (m d : nat) (sk : bool).

  Definition c_ot : bytes := pre ++ old_tail.
  Definition c_nt : bytes := pre ++ quote :: hsh ++ rest.
  Definition c_old : bytes := head1024 ++ c_ot ++ repeat nul m.
  Definition c_new : bytes := head1024 ++ c_nt ++ [nul].

  Hypothesis pre_nl : ~ In nl pre.
  Hypothesis pre_nul : ~ In nul pre.
  Hypothesis hsh_plain : forallb plainb hsh = true.
  Hypothesis hsh_long : 19 <= List.length hsh.
  Hypothesis rest_nl : ~ In nl rest.
  Hypothesis rest_nul : ~ In nul rest.
  Hypothesis fits : List.length c_nt < List.length c_ot + m.
  Hypothesis short : List.length c_nt < 1011.
  (** the common prefix ends just after a colon, outside any string literal *)
  Hypothesis pre_state : scan st0 pre = Some (MkS d false false sk KColon false).
  (** every strict prefix of the new text fails the necessary condition *)
  Hypothesis nt_tight : tightb c_nt = true.

  Let P := List.length pre.

  Lemma c_ot_length : List.length c_ot = P + 20.
  Proof. unfold c_ot. rewrite app_length. reflexivity. Qed.

  Lemma c_nt_length : List.length c_nt = P + 1 + List.length hsh + List.length rest.
  Proof. unfold c_nt. rewrite app_length. simpl. rewrite app_length. unfold P. lia. Qed.

  Lemma c_nt_no : ~ In nl c_nt /\ ~ In nul c_nt.
  Proof.
    destruct (forallb_plain_no _ hsh_plain) as [H1 H2]. unfold c_nt.
    split; intros Hin; apply in_app_or in Hin as [Hin|[Hin|Hin]]; auto; try discriminate;
      apply in_app_or in Hin as [Hin|Hin]; auto.
  Qed.

  (** (1) up to the end of [pre] the block is the old one *)
  Theorem commit_torn_old k : k <= 13 + P -> torn k c_old c_new = c_old.
  Proof.
    intros Hk. apply torn_below. unfold c_old, c_new, c_ot, c_nt.
    rewrite <- !app_assoc. rewrite !(app_assoc head1024 pre).
    rewrite !(firstn_app k (head1024 ++ pre)).
    replace (k - List.length (head1024 ++ pre)) with 0
      by (rewrite app_length, head1024_length; unfold P in Hk; lia).
    reflexivity.
  Qed.

  Lemma old_skip j : P + 20 <= j ->
    skipn (13 + j) c_old = repeat nul (m - (j - (P + 20))).
  Proof.
    intros Hj. unfold c_old. rewrite skipn_app, head1024_length.
    rewrite (skipn_all2 head1024) by (rewrite head1024_length; lia). simpl app.
    rewrite skipn_app, c_ot_length, skipn_all2 by (rewrite c_ot_length; lia). simpl app.
    rewrite skipn_repeat. f_equal. lia.
  Qed.

  (** (2) inside the old value and what follows it: an unterminated or mis-followed
      string literal *)
  Lemma c_new_split : c_new = (head1024 ++ pre) ++ quote :: hsh ++ rest ++ [nul].
  Proof.
    unfold c_new, c_nt. repeat rewrite <- app_assoc.
    rewrite <- app_comm_cons. repeat rewrite <- app_assoc. reflexivity.
  Qed.

  Lemma c_old_split : c_old = (head1024 ++ pre) ++ old_tail ++ repeat nul m.
  Proof. unfold c_old, c_ot. repeat rewrite <- app_assoc. reflexivity. Qed.

  Lemma hp_length : List.length (head1024 ++ pre) = 13 + P.
  Proof. rewrite app_length, head1024_length. reflexivity. Qed.

  Lemma m_pos : 1 <= m.
  Proof. rewrite c_nt_length, c_ot_length in fits. lia. Qed.

  Lemma torn_between_eq j : j <= 18 ->
    torn (13 + P + S j) c_old c_new =
    head1024 ++ (pre ++ quote :: firstn j hsh ++ skipn (S j) old_tail)
    ++ nul :: repeat nul (m - 1).
  Proof.
    intros Hj. unfold torn. rewrite c_new_split, c_old_split, <- hp_length.
    rewrite firstn_app_2, skipn_app_2.
    rewrite firstn_cons, firstn_app.
    replace (j - List.length hsh) with 0 by lia. rewrite firstn_O, app_nil_r.
    rewrite skipn_app. change (List.length old_tail) with 20.
    replace (S j - 20) with 0 by lia. rewrite skipn_O.
    pose proof m_pos as Hm. destruct m as [|m']; [lia|].
    simpl repeat. rewrite Nat.sub_0_r. repeat rewrite <- app_assoc.
    repeat rewrite <- app_comm_cons. repeat rewrite <- app_assoc. reflexivity.
  Qed.

  Theorem commit_torn_between k : 13 + P < k -> k < 13 + P + 20 ->
    exists t, block_text (torn k c_old c_new) = Some t /\ json_nec t = false.
  Proof.
    intros H1 H2.
    assert (Ek : exists j, j <= 18 /\ k = 13 + P + S j) by (exists (k - 14 - P); lia).
    destruct Ek as (j & Hj & ->).
    exists (pre ++ quote :: firstn j hsh ++ skipn (S j) old_tail).
    destruct (forallb_plain_no _ hsh_plain) as [Hh1 Hh2].
    split.
    - rewrite torn_between_eq by exact Hj. apply block_text_data.
      + intros Hin. apply in_app_or in Hin as [Hin|[Hin|Hin]]; auto; try discriminate.
        apply in_app_or in Hin as [Hin|Hin]; [apply Hh1; eapply In_firstn; eauto|].
        apply In_skipn in Hin. vm_compute in Hin. intuition discriminate.
      + intros Hin. apply in_app_or in Hin as [Hin|[Hin|Hin]]; auto; try discriminate.
        apply in_app_or in Hin as [Hin|Hin]; [apply Hh2; eapply In_firstn; eauto|].
        apply In_skipn in Hin. vm_compute in Hin. intuition discriminate.
      + apply no_nl_repeat.
      + assert (L1 : List.length (firstn j hsh) <= j) by apply firstn_le_length.
        assert (L2 : List.length (skipn (S j) old_tail) = 20 - S j)
          by (rewrite skipn_length; reflexivity).
        rewrite app_length.
        change (List.length (quote :: firstn j hsh ++ skipn (S j) old_tail))
          with (S (List.length (firstn j hsh ++ skipn (S j) old_tail))).
        rewrite app_length, L2. pose proof short as Hs. rewrite c_nt_length in Hs.
        fold P. lia.
    - unfold json_nec. rewrite scan_app, pre_state.
      change (scan (MkS d false false sk KColon false)
                   (quote :: firstn j hsh ++ skipn (S j) old_tail))
        with (scan (MkS d true false true KColon false) (firstn j hsh ++ skipn (S j) old_tail)).
      rewrite scan_app, scan_plain.
      2:{ apply forallb_forall. intros x Hx. apply In_firstn in Hx.
          rewrite forallb_forall in hsh_plain. auto. }
      apply tail_reject; lia.
  Qed.

  (** (3) beyond the old text: a strict prefix of the new text, then padding *)
  Theorem commit_torn_beyond k : 13 + P + 20 <= k -> k < 13 + List.length c_nt ->
    block_text (torn k c_old c_new) = Some (firstn (k - 13) c_nt) /\
    json_nec (firstn (k - 13) c_nt) = false.
  Proof.
    intros H1 H2. destruct c_nt_no as [Hn1 Hn2]. split.
    - assert (Et : torn k c_old c_new =
                   head1024 ++ firstn (k - 13) c_nt
                   ++ nul :: repeat nul (m - (k - 13 - (P + 20)) - 1)).
      { unfold torn. replace k with (13 + (k - 13)) at 2 by lia.
        rewrite old_skip by lia.
        destruct (m - (k - 13 - (P + 20))) as [|q] eqn:E;
          [rewrite c_ot_length in fits; lia|].
        simpl repeat. rewrite Nat.sub_0_r. unfold c_new.
        rewrite firstn_app, head1024_length, firstn_all2 by (rewrite head1024_length; lia).
        rewrite firstn_app. replace (k - 13 - List.length c_nt) with 0 by lia.
        rewrite firstn_O, app_nil_r, <- app_assoc. reflexivity. }
      rewrite Et. apply block_text_data.
      + intros Hin. apply Hn1. eapply In_firstn; eauto.
      + intros Hin. apply Hn2. eapply In_firstn; eauto.
      + apply no_nl_repeat.
      + rewrite firstn_length. lia.
    - apply tightb_spec; [exact nt_tight | lia].
  Qed.

  (** (4) once the whole new text is there it is the block of the completed write *)
  Theorem commit_torn_new k : 13 + List.length c_nt <= k ->
    block_text (torn k c_old c_new) = Some c_nt.
  Proof.
    intros H1. destruct c_nt_no as [Hn1 Hn2].
    assert (Hlen : P + 20 <= List.length c_nt) by (rewrite c_nt_length; lia).
    assert (Et : exists q, torn k c_old c_new = head1024 ++ c_nt ++ nul :: repeat nul q).
    { unfold torn. destruct (Nat.eq_dec k (13 + List.length c_nt)) as [->|Hne].
      - rewrite old_skip by lia.
        destruct (m - (List.length c_nt - (P + 20))) as [|q] eqn:E;
          [rewrite c_ot_length in fits; lia|].
        exists q. unfold c_new. rewrite app_assoc, firstn_app.
        rewrite firstn_all2 by (rewrite app_length, head1024_length; lia).
        replace (13 + List.length c_nt - List.length (head1024 ++ c_nt)) with 0
          by (rewrite app_length, head1024_length; lia).
        rewrite firstn_O, app_nil_r, <- app_assoc. reflexivity.
      - assert (Es : skipn k c_old = repeat nul (m - (k - 13 - (P + 20)))).
        { rewrite <- (old_skip (k - 13)) by lia. f_equal. lia. }
        rewrite Es. exists (m - (k - 13 - (P + 20))).
        rewrite firstn_all2.
        2:{ unfold c_new. rewrite !app_length, head1024_length. simpl. lia. }
        unfold c_new. rewrite <- !app_assoc. reflexivity. }
    destruct Et as (q & ->). apply block_text_data; auto. apply no_nl_repeat.
  Qed.

  (** *** With the loader *)

  Variable loads : bytes -> option ublock.
  Hypothesis loads_nec : forall t u, loads t = Some u -> json_nec t = true.

  Definition parse_block (b : bytes) : option ublock :=
    match block_text b with Some t => loads t | None => None end.

  Lemma loads_rejects t : json_nec t = false -> loads t = None.
  Proof.
    intros H. destruct (loads t) as [u|] eqn:E; [|reflexivity].
    apply loads_nec in E. congruence.
  Qed.

  (** Every torn state of the commit's user-block write loads as the old block, as the
      new block, or not at all; the boundaries are the end of the common prefix and the end
      of the new text. *)
  Theorem commit_torn_classes k u1 : loads c_nt = Some u1 ->
    (k <= 13 + P -> parse_block (torn k c_old c_new) = parse_block c_old) /\
    (13 + P < k -> k < 13 + List.length c_nt -> parse_block (torn k c_old c_new) = None) /\
    (13 + List.length c_nt <= k -> parse_block (torn k c_old c_new) = Some u1).
  Proof.
    intros Hl. split; [|split].
    - intros Hk. rewrite commit_torn_old by exact Hk. reflexivity.
    - intros H1 H2. unfold parse_block.
      destruct (Nat.lt_ge_cases k (13 + P + 20)) as [Hlt|Hge].
      + destruct (commit_torn_between k H1 Hlt) as (t & -> & Ht). apply loads_rejects, Ht.
      + destruct (commit_torn_beyond k Hge H2) as (-> & Ht). apply loads_rejects, Ht.
    - intros Hk. unfold parse_block. rewrite commit_torn_new by exact Hk. exact Hl.
  Qed.

  Theorem commit_tears_ok u1 : loads c_nt = Some u1 ->
    tears_ok (parse_block c_old) u1 (tears_of parse_block c_old c_new).
  Proof.
    intros Hl. unfold tears_ok, tears_of. rewrite Forall_forall. intros x Hx.
    apply in_map_iff in Hx as (k & <- & _).
    destruct (commit_torn_classes k u1 Hl) as (C1 & C2 & C3).
    destruct (Nat.le_gt_cases k (13 + P)) as [H1|H1]; [left; auto|].
    destruct (Nat.lt_ge_cases k (13 + List.length c_nt)) as [H2|H2]; [right; left; auto|].
    right; right; auto.
  Qed.
End Commit.

(** *** The executable classification is sound for any loader *)

Section Classify.
  Variable loads : bytes -> option ublock.
  Hypothesis loads_nec : forall t u, loads t = Some u -> json_nec t = true.

  Local Notation parse := (parse_block loads).

  Theorem classify_sound k old new :
    match classify k old new with
    | TOld => parse (torn k old new) = parse old
    | TNew => parse (torn k old new) = parse (torn (List.length new) old new)
    | TBad => parse (torn k old new) = None
    | TUnknown => True
    end.
  Proof.
    unfold classify.
    destruct (beqb (torn k old new) old) eqn:E1.
    { apply beqb_eq in E1. rewrite E1. reflexivity. }
    unfold parse_block.
    destruct (block_text (torn k old new)) as [t|] eqn:Et.
    - destruct (obeqb (Some t) (block_text (torn (List.length new) old new))) eqn:E2.
      + destruct (block_text (torn (List.length new) old new)) as [t'|]; [|discriminate].
        simpl in E2. apply beqb_eq in E2. subst t'. reflexivity.
      + unfold block_nec. rewrite Et. destruct (json_nec t) eqn:En; [exact I|].
        destruct (loads t) as [u|] eqn:El; [|reflexivity].
        apply loads_nec in El. congruence.
    - unfold block_nec. rewrite Et. reflexivity.
  Qed.
End Classify.

(** *** The first write of a user block (over the zeroed block of a new container) *)

Lemma firstn_repeat {X : Type} (x : X) a : forall m, firstn a (repeat x m) = repeat x (min a m).
Proof. induction a as [|a IH]; intros [|m]; simpl; try reflexivity. f_equal. apply IH. Qed.

Lemma lines_no_nl r : ~ In nl r -> lines r = [r].
Proof. intros H. unfold lines. rewrite split_nl_no_nl by exact H. reflexivity. Qed.

Lemma read_head_short k q n : k <= 12 ->
  read_head (firstn k head1024 ++ repeat nul q) n = None.
Proof.
  intros Hk. unfold read_head.
  assert (E : exists a q', firstn n (firstn k head1024 ++ repeat nul q)
                           = firstn a head1024 ++ repeat nul q' /\ a <= 12).
  { rewrite firstn_app, firstn_firstn, firstn_repeat.
    exists (min n k). eexists. split; [reflexivity | lia]. }
  destruct E as (a & q' & -> & Ha).
  pose proof (no_nl_repeat q') as Hz.
  do 8 (destruct a as [|a];
        [simpl firstn; rewrite lines_no_nl;
         [reflexivity | intros Hin; simpl in Hin; intuition discriminate]|]).
  change (firstn (S (S (S (S (S (S (S (S a)))))))) head1024)
    with (magic ++ nl :: firstn a (B "1024" ++ [nl])).
  assert (Hno : ~ In nl (firstn a (B "1024" ++ [nl]))).
  { do 5 (destruct a as [|a]; [intros Hin; vm_compute in Hin; intuition discriminate|]). lia. }
  unfold lines. rewrite <- app_assoc, <- app_comm_cons, split_nl_app_nl
    by (intros Hin; vm_compute in Hin; intuition discriminate).
  rewrite split_nl_no_nl; [reflexivity|].
  intros Hin. apply in_app_or in Hin as [Hin|Hin]; auto.
Qed.

Section Create.
  Variables (t : bytes) (M : nat).
  Definition z_old : bytes := repeat nul M.
  Definition z_new : bytes := head1024 ++ t ++ [nul].

  Hypothesis t_nl : ~ In nl t.
  Hypothesis t_nul : ~ In nul t.
  Hypothesis t_short : List.length t < 1011.
  Hypothesis t_fits : 13 + List.length t < M.
  Hypothesis t_tight : tightb t = true.

  Theorem create_torn_none k : k < 13 + List.length t ->
    match block_text (torn k z_old z_new) with Some x => json_nec x = false | None => True end.
  Proof.
    intros Hk. unfold torn, z_old, z_new. rewrite skipn_repeat.
    destruct (Nat.le_gt_cases k 12) as [H12|H12].
    - rewrite firstn_app, head1024_length. replace (k - 13) with 0 by lia.
      rewrite firstn_O, app_nil_r. unfold block_text.
      rewrite read_head_short by exact H12. exact I.
    - rewrite firstn_app, head1024_length, firstn_all2 by (rewrite head1024_length; lia).
      rewrite firstn_app. replace (k - 13 - List.length t) with 0 by lia.
      rewrite firstn_O, app_nil_r.
      destruct (M - k) as [|q] eqn:E; [lia|]. simpl repeat. rewrite <- app_assoc.
      rewrite block_text_data.
      + apply tightb_spec; [exact t_tight | lia].
      + intros Hin. apply t_nl. eapply In_firstn; eauto.
      + intros Hin. apply t_nul. eapply In_firstn; eauto.
      + apply no_nl_repeat.
      + rewrite firstn_length. lia.
  Qed.

  Theorem create_torn_new k : 13 + List.length t <= k -> block_text (torn k z_old z_new) = Some t.
  Proof.
    intros Hk. unfold torn, z_old, z_new. rewrite skipn_repeat.
    destruct (Nat.eq_dec k (13 + List.length t)) as [->|Hne].
    - rewrite app_assoc, firstn_app.
      rewrite firstn_all2 by (rewrite app_length, head1024_length; lia).
      replace (13 + List.length t - List.length (head1024 ++ t)) with 0
        by (rewrite app_length, head1024_length; lia).
      rewrite firstn_O, app_nil_r, <- app_assoc.
      destruct (M - (13 + List.length t)) as [|q] eqn:E; [lia|]. simpl repeat.
      apply block_text_data; auto. apply no_nl_repeat.
    - rewrite firstn_all2 by (rewrite !app_length, head1024_length; simpl; lia).
      rewrite <- !app_assoc. apply block_text_data; auto. apply no_nl_repeat.
  Qed.

  Variable loads : bytes -> option ublock.
  Hypothesis loads_nec : forall x u, loads x = Some u -> json_nec x = true.

  Theorem create_tears_ok u0 : loads t = Some u0 ->
    tears_ok None u0 (tears_of (parse_block loads) z_old z_new).
  Proof.
    intros Hl. unfold tears_ok, tears_of. rewrite Forall_forall. intros x Hx.
    apply in_map_iff in Hx as (k & <- & _). unfold parse_block.
    destruct (Nat.lt_ge_cases k (13 + List.length t)) as [H|H].
    - left. pose proof (create_torn_none k H) as Hn.
      destruct (block_text (torn k z_old z_new)) as [x|]; [|reflexivity].
      destruct (loads x) as [u|] eqn:E; [|reflexivity]. apply loads_nec in E. congruence.
    - right; right. rewrite create_torn_new by exact H. exact Hl.
  Qed.
End Create.

(** The tear lists of a round taken from the bytes satisfy the side condition of the
    directory-level theorems. *)
Theorem round_tears_from_bytes mfm C r pre hsh rest m d sk t M loads :
  ~ In nl pre -> ~ In nul pre -> forallb plainb hsh = true -> 19 <= List.length hsh ->
  ~ In nl rest -> ~ In nul rest ->
  List.length (c_nt pre hsh rest) < List.length (c_ot pre) + m ->
  List.length (c_nt pre hsh rest) < 1011 ->
  scan st0 pre = Some (MkS d false false sk KColon false) ->
  tightb (c_nt pre hsh rest) = true ->
  ~ In nl t -> ~ In nul t -> List.length t < 1011 -> 13 + List.length t < M -> tightb t = true ->
  (forall x u, loads x = Some u -> json_nec x = true) ->
  loads t = Some (round_u0 C r) ->
  parse_block loads (c_old pre m) = Some (round_u0 C r) ->
  loads (c_nt pre hsh rest) = Some (round_u1 mfm C r) ->
  r_tears1 r = tears_of (parse_block loads) (z_old M) (z_new t) ->
  r_tears2 r = tears_of (parse_block loads) (c_old pre m) (c_new pre hsh rest) ->
  tears_ok None (round_u0 C r) (r_tears1 r) /\
  tears_ok (Some (round_u0 C r)) (round_u1 mfm C r) (r_tears2 r).
Proof.
  intros H1 H2 H3 H4 H5 H6 H7 H8 H9 H10 G1 G2 G3 G4 G5 Hn L0 L1 L2 -> ->. split.
  - apply create_tears_ok; auto.
  - rewrite <- L1. eapply commit_tears_ok; eauto.
Qed.

(** *** The encoder's output satisfies the side conditions *)

(** All prefixes of [t] (the whole included) keep the scan alive and unfinished. *)
Definition nofin (s : sst) (t : bytes) : Prop :=
  forall j, exists s', scan s (firstn j t) = Some s' /\ fin s' = false.

Fixpoint nofinb (s : sst) (t : bytes) : bool :=
  negb (fin s) &&
  match t with
  | [] => true
  | c :: r => match sstep s c with Some s' => nofinb s' r | None => false end
  end.

Lemma nofinb_spec t : forall s, nofinb s t = true -> nofin s t.
Proof.
  induction t as [|c t IH]; intros s H j; simpl in H; apply andb_true_iff in H as [Hf H];
    apply negb_true_iff in Hf.
  - exists s. destruct j; simpl; auto.
  - destruct j as [|j]; [exists s; simpl; auto|]. simpl.
    destruct (sstep s c) as [s'|]; [|discriminate]. apply IH, H.
Qed.

Lemma nofin_app s a b s1 : nofin s a -> scan s a = Some s1 -> nofin s1 b -> nofin s (a ++ b).
Proof.
  intros Ha Es Hb j. rewrite firstn_app.
  destruct (Nat.le_gt_cases j (List.length a)) as [Hle|Hgt].
  - replace (j - List.length a) with 0 by lia. rewrite firstn_O, app_nil_r. apply Ha.
  - rewrite firstn_all2 by lia. rewrite scan_app, Es. apply Hb.
Qed.

Lemma inertb_spec c : inertb c = true ->
  plainb c = true /\ is_ws c = false /\ (c =? "{")%char = false /\ (c =? "[")%char = false /\
  (c =? "}")%char = false /\ (c =? "]")%char = false /\ (c =? ":")%char = false.
Proof.
  unfold inertb. rewrite andb_true_iff, negb_true_iff, !orb_false_iff. tauto.
Qed.

Lemma sstep_inert d sk lk c : inertb c = true ->
  sstep (MkS d false false sk lk false) c = Some (MkS d false false false KOther false).
Proof.
  intros H. apply inertb_spec in H as (Hp & H1 & H2 & H3 & H4 & H5 & H6).
  apply plainb_spec in Hp as (Hq & _). unfold quote in Hq.
  unfold sstep. simpl. rewrite H1, Hq, H2, H3, H4, H5, H6. reflexivity.
Qed.

Lemma scan_inert h : forall d sk lk, forallb inertb h = true -> h <> [] ->
  scan (MkS d false false sk lk false) h = Some (MkS d false false false KOther false) /\
  nofin (MkS d false false sk lk false) h.
Proof.
  induction h as [|c h IH]; intros d sk lk Hh Hne; [congruence|].
  simpl in Hh. apply andb_true_iff in Hh as [Hc Hh].
  destruct h as [|c' h'].
  - split; [simpl; rewrite sstep_inert by exact Hc; reflexivity|].
    intros [|j]; simpl; [eauto|]. rewrite sstep_inert by exact Hc.
    destruct j; simpl; eauto.
  - destruct (IH d false KOther Hh) as [E N]; [discriminate|]. split.
    + simpl scan at 1. rewrite sstep_inert by exact Hc. exact E.
    + intros [|j]; [simpl; eauto|]. simpl firstn. simpl scan at 1.
      rewrite sstep_inert by exact Hc. apply N.
Qed.

Lemma nofin_plain d sk lk h : forallb plainb h = true ->
  nofin (MkS d true false sk lk false) h.
Proof.
  intros H j. exists (MkS d true false sk lk false). split; [|reflexivity].
  apply scan_plain. apply forallb_forall. intros x Hx. apply In_firstn in Hx.
  rewrite forallb_forall in H. auto.
Qed.

Definition twf (it : titem) : Prop :=
  match it with
  | TL _ => True
  | TS h => forallb plainb h = true
  | TD h => forallb inertb h = true /\ h <> []
  end.

(** The scan over a template, without looking into the holes. *)
Definition tstep (s : sst) (it : titem) : option sst :=
  match it with
  | TL l => if nofinb s l then scan s l else None
  | TS _ => if instr s && negb (esc s) && negb (fin s) then Some s else None
  | TD _ => if negb (instr s) && negb (esc s) && negb (fin s)
            then Some (MkS (depth s) false false false KOther false) else None
  end.

Fixpoint tscan (s : sst) (l : list titem) : option sst :=
  match l with
  | [] => Some s
  | it :: r => match tstep s it with Some s' => tscan s' r | None => None end
  end.

Lemma tstep_sound s it s' : twf it -> tstep s it = Some s' ->
  scan s (tflat it) = Some s' /\ nofin s (tflat it).
Proof.
  destruct it as [l|h|h]; simpl; intros Hw H.
  - destruct (nofinb s l) eqn:E; [|discriminate]. split; [exact H | apply nofinb_spec, E].
  - destruct s as [d i e sk lk f]. simpl in H.
    destruct i, e, f; simpl in H; try discriminate. injection H as <-.
    split; [apply scan_plain, Hw | apply nofin_plain, Hw].
  - destruct s as [d i e sk lk f]. simpl in H.
    destruct i, e, f; simpl in H; try discriminate. injection H as <-.
    destruct Hw as [Hw Hne]. apply scan_inert; auto.
Qed.

Lemma flat_cons it l : flat (it :: l) = tflat it ++ flat l.
Proof. reflexivity. Qed.

Lemma flat_app a b : flat (a ++ b) = flat a ++ flat b.
Proof. unfold flat. rewrite map_app, concat_app. reflexivity. Qed.

Lemma tscan_sound l : forall s s', Forall twf l -> tscan s l = Some s' -> fin s = false ->
  scan s (flat l) = Some s' /\ nofin s (flat l).
Proof.
  induction l as [|it l IH]; intros s s' Hw H Hf.
  - simpl in H. injection H as <-. split; [reflexivity|].
    intros j. exists s. destruct j; simpl; auto.
  - inversion Hw; subst. simpl in H. destruct (tstep s it) as [s1|] eqn:E; [|discriminate].
    destruct (tstep_sound s it s1 H2 E) as [E1 N1].
    assert (Hf1 : fin s1 = false).
    { destruct (N1 (List.length (tflat it))) as (x & Ex & Fx).
      rewrite firstn_all in Ex. congruence. }
    destruct (IH s1 s' H3 H Hf1) as [E2 N2]. rewrite flat_cons. split.
    + rewrite scan_app, E1. exact E2.
    + eapply nofin_app; eauto.
Qed.

Lemma tightb_intro t : (forall j, j < List.length t -> json_nec (firstn j t) = false) ->
  tightb t = true.
Proof.
  intros H. unfold tightb. apply forallb_forall. intros j Hj. apply in_seq in Hj.
  apply negb_true_iff, H. lia.
Qed.

Lemma nofin_tight t c : nofin st0 t -> tightb (t ++ [c]) = true.
Proof.
  intros H. apply tightb_intro. intros j Hj. rewrite app_length in Hj. simpl in Hj.
  rewrite firstn_app. replace (j - List.length t) with 0 by lia. rewrite firstn_O, app_nil_r.
  destruct (H j) as (s & Es & Fs). unfold json_nec. rewrite Es. exact Fs.
Qed.

(** Decimal digits are inert. *)
Lemma uint_inert u :
  forallb inertb (list_ascii_of_string (DecimalString.NilEmpty.string_of_uint u)) = true.
Proof. induction u; simpl; auto. Qed.

Lemma string_of_N_inert n :
  forallb inertb (B (string_of_N n)) = true /\ B (string_of_N n) <> [].
Proof.
  unfold string_of_N, B, DecimalString.NilZero.string_of_uint.
  destruct (N.to_uint n) eqn:E; try (split; [apply (uint_inert (_ u)) | discriminate]).
  split; [reflexivity | discriminate].
Qed.

(** Well-formed field texts: UUIDs and hashsums are plain (no quote, backslash, NUL,
    newline). *)
Definition wf_head (u : ubhead) : Prop :=
  forallb plainb (t_rec u) = true /\ forallb plainb (t_pid u) = true /\
  match t_prev u with Some p => forallb plainb p = true | None => True end.

Definition wf_opt (o : option bytes) : Prop :=
  match o with Some p => forallb plainb p = true | None => True end.

Definition wf_ext (e : option (bool * bytes * bytes)) : Prop :=
  match e with
  | Some (_, i, h) => forallb plainb i = true /\ forallb plainb h = true
  | None => True
  end.

Lemma pre_tpl_wf u : wf_head u -> Forall twf (pre_tpl u).
Proof.
  intros (H1 & H2 & H3). unfold pre_tpl. destruct (string_of_N_inert (t_idx u)) as [Hd Hne].
  apply Forall_app; split; [repeat constructor; simpl; auto|].
  apply Forall_app; split; [|repeat constructor].
  destruct (t_prev u); simpl; repeat constructor; auto.
Qed.

Lemma opt_tpl_wf o : wf_opt o -> Forall twf (opt_tpl o).
Proof. destruct o; simpl; intros H; repeat constructor; auto. Qed.

Lemma rest_tpl_wf e : wf_ext e -> Forall twf (rest_tpl e).
Proof.
  destruct e as [[[s i] h]|]; simpl; [intros [H1 H2] | intros _]; repeat constructor; auto.
Qed.

(** The state after the common prefix: depth 1, outside strings, just after the colon of
    [hdf5_hashsum]. *)
Theorem enc_pre_state u : wf_head u ->
  scan st0 (enc_pre u) = Some (MkS 1 false false false KColon false).
Proof.
  intros Hw. unfold enc_pre.
  refine (proj1 (tscan_sound (pre_tpl u) st0 _ (pre_tpl_wf u Hw) _ eq_refl)).
  destruct u as [rc ix pd [pv|]]; vm_compute; reflexivity.
Qed.

Lemma enc_body_scan u h e : wf_head u -> wf_opt h -> wf_ext e ->
  nofin st0 (flat (pre_tpl u ++ opt_tpl h ++ rest_tpl e)).
Proof.
  intros H1 H2 H3.
  assert (Hw : Forall twf (pre_tpl u ++ opt_tpl h ++ rest_tpl e)).
  { apply Forall_app; split; [apply pre_tpl_wf; auto|].
    apply Forall_app; split; [apply opt_tpl_wf; auto | apply rest_tpl_wf; auto]. }
  assert (E : exists s, tscan st0 (pre_tpl u ++ opt_tpl h ++ rest_tpl e) = Some s).
  { destruct u as [rc ix pd [pv|]], h as [hh|], e as [[[[|] i] eh]|]; vm_compute; eauto. }
  destruct E as (s & E). exact (proj2 (tscan_sound _ st0 s Hw E eq_refl)).
Qed.

Lemma encode_ub_flat u h e :
  encode_ub u h e = flat (pre_tpl u ++ opt_tpl h ++ rest_tpl e) ++ [rbrace].
Proof. unfold encode_ub, enc_pre, enc_rest. rewrite !flat_app, <- !app_assoc. reflexivity. Qed.

(** Every strict prefix of an encoded user block fails the necessary condition. *)
Theorem encode_tight u h e : wf_head u -> wf_opt h -> wf_ext e ->
  tightb (encode_ub u h e) = true.
Proof.
  intros H1 H2 H3. rewrite encode_ub_flat. apply nofin_tight, enc_body_scan; auto.
Qed.

(** No newline and no NUL in the encoded pieces. *)
Definition cleanb (c : ascii) : bool := negb ((c =? nl)%char || (c =? nul)%char).

Definition tcleanb (it : titem) : bool :=
  match it with TL l => forallb cleanb l | _ => true end.

Lemma cleanb_spec l : forallb cleanb l = true -> ~ In nl l /\ ~ In nul l.
Proof.
  rewrite forallb_forall. intros H. split; intros Hin; apply H in Hin; vm_compute in Hin;
    discriminate.
Qed.

Lemma inert_plain h : forallb inertb h = true -> forallb plainb h = true.
Proof.
  rewrite !forallb_forall. intros H x Hx. apply H, inertb_spec in Hx. tauto.
Qed.

Lemma flat_clean l : Forall twf l -> forallb tcleanb l = true ->
  ~ In nl (flat l) /\ ~ In nul (flat l).
Proof.
  induction l as [|it l IH]; intros Hw Hc; [split; intros []|].
  inversion Hw; subst. simpl in Hc. apply andb_true_iff in Hc as [Hc1 Hc2].
  destruct (IH H2 Hc2) as [I1 I2].
  assert (Hit : ~ In nl (tflat it) /\ ~ In nul (tflat it)).
  { destruct it as [x|x|x]; simpl in *.
    - apply cleanb_spec, Hc1.
    - apply forallb_plain_no, H1.
    - apply forallb_plain_no, inert_plain, H1. }
  destruct Hit as [J1 J2]. rewrite flat_cons.
  split; intros Hin; apply in_app_or in Hin as [Hin|Hin]; auto.
Qed.

Lemma enc_pre_clean u : wf_head u -> ~ In nl (enc_pre u) /\ ~ In nul (enc_pre u).
Proof.
  intros Hw. apply flat_clean; [apply pre_tpl_wf, Hw|].
  destruct u as [rc ix pd [pv|]]; vm_compute; reflexivity.
Qed.

Lemma enc_rest_clean e : wf_ext e ->
  ~ In nl (quote :: enc_rest e) /\ ~ In nul (quote :: enc_rest e).
Proof.
  intros Hw. destruct (flat_clean (rest_tpl e) (rest_tpl_wf e Hw)) as [H1 H2].
  { destruct e as [[[[|] i] h]|]; vm_compute; reflexivity. }
  unfold enc_rest.
  split; intros [Hin|Hin]; try discriminate; apply in_app_or in Hin as [Hin|[Hin|[]]]; auto;
    discriminate.
Qed.

(** The two texts of a commit are of the shape the byte-level theorems speak about. *)
Lemma encode_old_shape u : encode_ub u None None = c_ot (enc_pre u).
Proof. reflexivity. Qed.

Lemma encode_new_shape u h e :
  encode_ub u (Some h) e = c_nt (enc_pre u) h (quote :: enc_rest e).
Proof.
  unfold encode_ub, c_nt. f_equal.
  change (flat (opt_tpl (Some h))) with (quote :: h ++ [quote]).
  rewrite <- app_comm_cons, <- app_assoc. reflexivity.
Qed.

(** The classification of every torn state of a commit's user-block write, for the blocks
    the encoder produces: no premise about the texts is left but well-formed fields, a
    hashsum of at least 19 characters and the block size. *)
Theorem commit_torn_classes_enc u h e m
  (loads : bytes -> option ublock) :
  wf_head u -> forallb plainb h = true -> 19 <= List.length h -> wf_ext e ->
  let ot := encode_ub u None None in
  let nt := encode_ub u (Some h) e in
  let old := head1024 ++ ot ++ repeat nul m in
  let new := head1024 ++ nt ++ [nul] in
  List.length nt < List.length ot + m -> List.length nt < 1011 ->
  (forall t x, loads t = Some x -> json_nec t = true) ->
  forall k u1, loads nt = Some u1 ->
  (k <= 13 + List.length (enc_pre u) ->
   parse_block loads (torn k old new) = parse_block loads old) /\
  (13 + List.length (enc_pre u) < k -> k < 13 + List.length nt ->
   parse_block loads (torn k old new) = None) /\
  (13 + List.length nt <= k -> parse_block loads (torn k old new) = Some u1).
Proof.
  intros Hu Hh Hl He ot nt old new Hfit Hshort Hnec k u1 Hload.
  unfold old, new, ot, nt in *. rewrite encode_old_shape, encode_new_shape in *.
  destruct (enc_pre_clean u Hu) as [P1 P2]. destruct (enc_rest_clean e He) as [R1 R2].
  apply (commit_torn_classes (enc_pre u) h (quote :: enc_rest e) m 1 false); auto.
  - apply enc_pre_state, Hu.
  - rewrite <- encode_new_shape. apply encode_tight; auto.
Qed.

(** ... and of the first write of a user block. *)
Theorem create_tears_enc u M (loads : bytes -> option ublock) :
  wf_head u ->
  let t := encode_ub u None None in
  List.length t < 1011 -> 13 + List.length t < M ->
  (forall x y, loads x = Some y -> json_nec x = true) ->
  forall u0, loads t = Some u0 ->
  tears_ok None u0 (tears_of (parse_block loads) (z_old M) (z_new t)).
Proof.
  intros Hu t H1 H2 Hn u0 Hl.
  assert (Hc : ~ In nl t /\ ~ In nul t).
  { unfold t. rewrite encode_old_shape. unfold c_ot. destruct (enc_pre_clean u Hu) as [P1 P2].
    split; intros Hin; apply in_app_or in Hin as [Hin|Hin]; auto; vm_compute in Hin;
      intuition discriminate. }
  destruct Hc. apply create_tears_ok; auto. apply encode_tight; simpl; auto.
Qed.

Corollary crash_committed_opens_good mfm C rs n : good mfm C -> hist_ok mfm C rs ->
  open_dir mfm (firstn (List.length (committed_at mfm C rs n)) (crash_state mfm C rs n))
  = Some (committed_at mfm C rs n).
Proof.
  intros Hg Hh. apply crash_committed_opens; auto; [right; exact Hg|].
  destruct (committed_at_extends mfm rs C n) as (l & ->).
  pose proof (good_nonempty _ _ Hg). destruct C; [congruence | discriminate].
Qed.

(** Tactics for closed instances of the side conditions (used by the non-vacuity examples). *)
Ltac tears_tac :=
  unfold tears_ok; simpl;
  repeat (apply Forall_cons;
          [first [left; reflexivity | right; left; reflexivity | right; right; reflexivity]|]);
  apply Forall_nil.
Ltac parts_tac := simpl; repeat (apply Forall_cons; [discriminate|]); apply Forall_nil.
Ltac round_ok_tac :=
  unfold round_ok;
  split; [simpl; first [solve [intros []] | solve [intros [H|[]]; discriminate]
                       | solve [intros [H|[H|[]]]; discriminate]]|];
  split; [tears_tac|]; split; [tears_tac|]; parts_tac.
