(** * The JSON text grammar of RFC 8259 (property C11).

    [Json t]: [t] is a JSON text — [ws value ws] with
    - [value = false / null / true / object / array / number / string],
    - [object = "{" ws [ member *( ws "," ws member ) ] ws "}"], [member = string ws ":" ws value],
    - [array = "[" ws [ value *( ws "," ws value ) ] ws "]"],
    - [number = [ "-" ] int [ frac ] [ exp ]], [int = "0" / ( digit1-9 *DIGIT )],
      [frac = "." 1*DIGIT], [exp = ( "e" / "E" ) [ "-" / "+" ] 1*DIGIT],
    - [string = quote *char quote], [char = unescaped / "\" ( quote / "\" / "/" / b f n r t /
      u 4HEXDIG )], [unescaped] = any byte from 0x20 on except quote and backslash (bytes from
      0x80 on stand for the UTF-8 encoding of the code points above 0x7F),
    - [ws = *( space / tab / line feed / carriage return )].
    [JsonStruct t]: the top-level value is an object or an array (what
    [IH5UserBlock.parse_obj] needs: it refuses anything that is not a mapping).

    [json_okb] is a total recogniser of the same language (recursive descent with fuel), run
    by the check on every torn user-block text and compared with the verdict of the real
    [json.loads].  Definitions only; [JsonGrammarProofs.v] proves [json_okb] sound for [Json]
    and [JsonStruct t -> json_nec t = true].

    Python's [json.loads] accepts RFC 8259 texts and, as documented extensions, the tokens
    [NaN], [Infinity], [-Infinity]; they contain the capital letters [N] / [I], which do not
    occur in any user-block text the code writes (lower-case keys, UUIDs, hex digests), hence
    in no torn mixture of two of them: [no_NI] is the carve-out, checked on every text met. *)
From Coq Require Import List String Ascii NArith Bool Arith.
From MV Require Import Base.Sx Rec.Chain Rec.Crash.
Import ListNotations.

Local Open Scope char_scope.

(** ** The grammar *)

Inductive Ws : bytes -> Prop :=
| ws_nil : Ws []
| ws_cons : forall c w, is_ws c = true -> Ws w -> Ws (c :: w).

Definition Digit (c : ascii) : Prop := In c (B "0123456789").
Definition Digit19 (c : ascii) : Prop := In c (B "123456789").
Definition HexDig (c : ascii) : Prop := In c (B "0123456789abcdefABCDEF").
(** [quote], backslash, [/], [b f n r t] *)
Definition Escapable (c : ascii) : Prop := In c (B """\/bfnrt").
Definition Unescaped (c : ascii) : Prop :=
  (32 <=? N_of_ascii c)%N = true /\ c <> quote /\ c <> "\".

Inductive Digits : bytes -> Prop :=
| ds_nil : Digits []
| ds_cons : forall c r, Digit c -> Digits r -> Digits (c :: r).

(** [1*DIGIT] *)
Definition Digits1 (b : bytes) : Prop := exists c r, b = c :: r /\ Digit c /\ Digits r.

Inductive IntPart : bytes -> Prop :=
| int_zero : IntPart ["0"]
| int_pos : forall c r, Digit19 c -> Digits r -> IntPart (c :: r).

Definition Sign (b : bytes) : Prop := b = [] \/ b = ["-"].
Definition Frac (b : bytes) : Prop := b = [] \/ exists ds, b = "." :: ds /\ Digits1 ds.
Definition Exp (b : bytes) : Prop :=
  b = [] \/ exists e sg ds, b = e :: sg ++ ds /\ (e = "e" \/ e = "E") /\
                            (sg = [] \/ sg = ["-"] \/ sg = ["+"]) /\ Digits1 ds.

Definition Num (b : bytes) : Prop :=
  exists s i f e, b = s ++ i ++ f ++ e /\ Sign s /\ IntPart i /\ Frac f /\ Exp e.

(** The characters between the quotes of a string. *)
Inductive SBody : bytes -> Prop :=
| sb_nil : SBody []
| sb_char : forall c r, Unescaped c -> SBody r -> SBody (c :: r)
| sb_esc : forall c r, Escapable c -> SBody r -> SBody ("\" :: c :: r)
| sb_uni : forall h1 h2 h3 h4 r, HexDig h1 -> HexDig h2 -> HexDig h3 -> HexDig h4 -> SBody r ->
    SBody ("\" :: "u" :: h1 :: h2 :: h3 :: h4 :: r).

Definition Str (s : bytes) : Prop := exists b, s = quote :: b ++ [quote] /\ SBody b.

Definition Lit (l : bytes) : Prop := l = B "true" \/ l = B "false" \/ l = B "null".

Inductive Value : bytes -> Prop :=
| v_lit : forall l, Lit l -> Value l
| v_num : forall n, Num n -> Value n
| v_str : forall s, Str s -> Value s
| v_obj_empty : forall w, Ws w -> Value ("{" :: w ++ ["}"])
| v_obj : forall ms, Members ms -> Value ("{" :: ms ++ ["}"])
| v_arr_empty : forall w, Ws w -> Value ("[" :: w ++ ["]"])
| v_arr : forall es, Elements es -> Value ("[" :: es ++ ["]"])
with Members : bytes -> Prop :=
| m_one : forall w1 k w2 w3 v w4, Ws w1 -> Str k -> Ws w2 -> Ws w3 -> Value v -> Ws w4 ->
    Members (w1 ++ k ++ w2 ++ ":" :: w3 ++ v ++ w4)
| m_more : forall w1 k w2 w3 v w4 ms, Ws w1 -> Str k -> Ws w2 -> Ws w3 -> Value v -> Ws w4 ->
    Members ms -> Members (w1 ++ k ++ w2 ++ ":" :: w3 ++ v ++ w4 ++ "," :: ms)
with Elements : bytes -> Prop :=
| e_one : forall w1 v w2, Ws w1 -> Value v -> Ws w2 -> Elements (w1 ++ v ++ w2)
| e_more : forall w1 v w2 es, Ws w1 -> Value v -> Ws w2 -> Elements es ->
    Elements (w1 ++ v ++ w2 ++ "," :: es).

(** Objects and arrays. *)
Definition Struct (v : bytes) : Prop :=
  Value v /\ exists r, v = "{" :: r \/ v = "[" :: r.

Definition Json (t : bytes) : Prop :=
  exists w1 v w2, t = w1 ++ v ++ w2 /\ Ws w1 /\ Value v /\ Ws w2.

Definition JsonStruct (t : bytes) : Prop :=
  exists w1 v w2, t = w1 ++ v ++ w2 /\ Ws w1 /\ Struct v /\ Ws w2.

(** The carve-out for Python's non-RFC number tokens. *)
Definition no_NI (t : bytes) : bool :=
  forallb (fun c => negb ((c =? "N") || (c =? "I"))) t.

(** ** The recogniser *)

Fixpoint memb (c : ascii) (l : bytes) : bool :=
  match l with [] => false | x :: r => (c =? x) || memb c r end.

Definition digitb (c : ascii) : bool := memb c (B "0123456789").
Definition digit19b (c : ascii) : bool := memb c (B "123456789").
Definition hexb (c : ascii) : bool := memb c (B "0123456789abcdefABCDEF").
Definition escapableb (c : ascii) : bool := memb c (B """\/bfnrt").
Definition unescapedb (c : ascii) : bool :=
  (32 <=? N_of_ascii c)%N && negb (c =? quote) && negb (c =? "\").

Fixpoint skip_ws (t : bytes) : bytes :=
  match t with
  | c :: r => if is_ws c then skip_ws r else t
  | [] => []
  end.

Fixpoint skip_digits (t : bytes) : bytes :=
  match t with
  | c :: r => if digitb c then skip_digits r else t
  | [] => []
  end.

(** After the opening quote: the rest after the closing quote. *)
Fixpoint pstr_body (t : bytes) : option bytes :=
  match t with
  | [] => None
  | c :: r =>
      if c =? quote then Some r
      else if c =? "\" then
        match r with
        | e :: r1 =>
            if escapableb e then pstr_body r1
            else if e =? "u" then
              match r1 with
              | h1 :: h2 :: h3 :: h4 :: r2 =>
                  if hexb h1 && hexb h2 && hexb h3 && hexb h4 then pstr_body r2 else None
              | _ => None
              end
            else None
        | [] => None
        end
      else if unescapedb c then pstr_body r else None
  end.

(** [1*DIGIT] then the continuation. *)
Definition pdigits1 (t : bytes) : option bytes :=
  match t with
  | c :: r => if digitb c then Some (skip_digits r) else None
  | [] => None
  end.

Definition pexp (t : bytes) : option bytes :=
  match t with
  | e :: r =>
      if (e =? "e") || (e =? "E") then
        match r with
        | s :: r1 => if (s =? "-") || (s =? "+") then pdigits1 r1 else pdigits1 r
        | [] => None
        end
      else Some t
  | [] => Some t
  end.

Definition pfrac (t : bytes) : option bytes :=
  match t with
  | d :: r =>
      if d =? "." then match pdigits1 r with Some r1 => pexp r1 | None => None end
      else pexp t
  | [] => Some t
  end.

Definition pint (t : bytes) : option bytes :=
  match t with
  | c :: r =>
      if c =? "0" then pfrac r
      else if digit19b c then pfrac (skip_digits r) else None
  | [] => None
  end.

Definition pnum (t : bytes) : option bytes :=
  match t with
  | c :: r => if c =? "-" then pint r else pint t
  | [] => None
  end.

Fixpoint strip_prefix (p t : bytes) : option bytes :=
  match p, t with
  | [], _ => Some t
  | x :: p', y :: t' => if x =? y then strip_prefix p' t' else None
  | _ :: _, [] => None
  end.

Definition plit (t : bytes) : option bytes :=
  match strip_prefix (B "true") t with
  | Some r => Some r
  | None =>
      match strip_prefix (B "false") t with
      | Some r => Some r
      | None => strip_prefix (B "null") t
      end
  end.

(** [pvalue f t]: [t] starts with a value; the rest after it.  [pmembers f t]: [t] starts
    with the key of a member (white space skipped); the rest after the closing brace.
    [pelements] likewise after the closing bracket. *)
Fixpoint pvalue (fuel : nat) (t : bytes) : option bytes :=
  match fuel with
  | 0 => None
  | S f =>
      match t with
      | [] => None
      | c :: r =>
          if c =? "{" then
            match skip_ws r with
            | x :: r2 => if x =? "}" then Some r2 else pmembers f (x :: r2)
            | [] => None
            end
          else if c =? "[" then
            match skip_ws r with
            | x :: r2 => if x =? "]" then Some r2 else pelements f (x :: r2)
            | [] => None
            end
          else if c =? quote then pstr_body r
          else match plit t with
               | Some r1 => Some r1
               | None => pnum t
               end
      end
  end
with pmembers (fuel : nat) (t : bytes) : option bytes :=
  match fuel with
  | 0 => None
  | S f =>
      match t with
      | q :: r =>
          if q =? quote then
            match pstr_body r with
            | Some r1 =>
                match skip_ws r1 with
                | c :: r2 =>
                    if c =? ":" then
                      match pvalue f (skip_ws r2) with
                      | Some r3 =>
                          match skip_ws r3 with
                          | x :: r4 =>
                              if x =? "," then pmembers f (skip_ws r4)
                              else if x =? "}" then Some r4 else None
                          | [] => None
                          end
                      | None => None
                      end
                    else None
                | [] => None
                end
            | None => None
            end
          else None
      | [] => None
      end
  end
with pelements (fuel : nat) (t : bytes) : option bytes :=
  match fuel with
  | 0 => None
  | S f =>
      match pvalue f t with
      | Some r1 =>
          match skip_ws r1 with
          | x :: r2 =>
              if x =? "," then pelements f (skip_ws r2)
              else if x =? "]" then Some r2 else None
          | [] => None
          end
      | None => None
      end
  end.

Definition json_okb (t : bytes) : bool :=
  match pvalue (S (List.length t)) (skip_ws t) with
  | Some r => match skip_ws r with [] => true | _ :: _ => false end
  | None => false
  end.

(** The loader of the user block needs an object. *)
Definition json_objb (t : bytes) : bool :=
  json_okb t && match skip_ws t with c :: _ => c =? "{" | [] => false end.

(** ** Runner entry point: [(text)] (pieces as in [run_c11]) ->
    [(json_okb json_nec no_NI)]. *)
Definition run_c11j (x : sx) : sx :=
  match sx_bytes x with
  | Some t => L [of_bool (json_okb t); of_bool (json_nec t); of_bool (no_NI t)]
  | None => sx_bad "c11j"
  end.
