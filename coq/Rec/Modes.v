(** * Open modes, patch life cycle and the directory of a record (property C03).

    Transcribes [IH5Record.__init__] (mode dispatch), [_create], [_open] (sort by patch
    index, chain check, re-opening of an incomplete newest container), [create_patch],
    [commit_patch], [discard_patch], [close] of [metador_core/ih5/record.py].

    - A directory is a list of container files.  A file carries its name and the user-block
      fields the code looks at: record id, patch index, patch id, predecessor id,
      "committed" (= [hdf5_hashsum] present), and an opaque payload [P] (what the HDF5 part
      holds; its meaning is the business of the overlay model).  Byte-level tampering is
      C04's subject and not represented: a present hashsum is taken to be the right one.
    - A handle ([state]) splits the directory into the files it has open ([mine], kept
      NEWEST FIRST, i.e. the reverse of [__files__]) and all others ([rest]); the directory
      is the union of both.  [writable] is [_has_writable] (newest file open "r+"),
      [patching] is [_allow_patching], [closed] is [_closed].
    - Fresh UUIDs ([uuid1()]) are arguments of the functions that create containers.
    - [view] is the list of payloads of the open files: every observation of the overlay is
      a function of it.

    Exception classes are the [err] enumeration.  Definitions only; the proofs are in
    [ModesProofs.v]. *)
From Coq Require Import List String Ascii NArith Bool.
From MV Require Import Base.Sx Rec.Names.
Import ListNotations.
Local Open Scope string_scope.

Inductive mode : Type := MR | MRp | MA | MW | MWm | MX.     (* r r+ a w w- x *)

Inductive err : Type :=
| ENotFound      (* FileNotFoundError *)
| EExists        (* FileExistsError *)
| EValue         (* ValueError *)
| EKey.          (* KeyError: access through a closed record *)

Inductive outcome : Type := Ok | Err (e : err).

(** How the record is named in the constructor call: a path prefix or an explicit list. *)
Inductive target : Type :=
| ByName (n : string)
| ByList (l : list string).

Definition is_r (m : mode) : bool := match m with MR => true | _ => false end.
Definition is_a (m : mode) : bool := match m with MA => true | _ => false end.

Definition opt_N_eqb (a b : option N) : bool :=
  match a, b with
  | Some x, Some y => N.eqb x y
  | None, None => true
  | _, _ => false
  end.

Fixpoint nodup_N (l : list N) : bool :=
  match l with
  | [] => true
  | x :: r => negb (existsb (N.eqb x) r) && nodup_N r
  end.

Section Model.
  Context {P : Type}.
  Variable empty : P.                     (* payload of a freshly created container *)

  Record file : Type := mkfile {
    fname : string;
    frec : N;                             (* record_uuid *)
    fidx : N;                             (* patch_index *)
    fid : N;                              (* patch_uuid *)
    fprev : option N;                     (* prev_patch *)
    fcommitted : bool;                    (* hdf5_hashsum is not None *)
    fpay : P
  }.

  Definition set_committed (f : file) : file :=
    mkfile (fname f) (frec f) (fidx f) (fid f) (fprev f) true (fpay f).

  Definition set_pay (g : P -> P) (f : file) : file :=
    mkfile (fname f) (frec f) (fidx f) (fid f) (fprev f) (fcommitted f) (g (fpay f)).

  Definition has_name (nm : string) (d : list file) : bool :=
    existsb (fun f => String.eqb (fname f) nm) d.

  Definition files_of (n : string) (d : list file) : list file :=
    filter (fun f => matches n (fname f)) d.

  Definition others (n : string) (d : list file) : list file :=
    filter (fun f => negb (matches n (fname f))) d.

  (** ** [_open]: sort, check the chain *)

  (** [__files__.sort(key=patch_index)], stable; the model keeps the result reversed
      (descending index).  [ins f l]: [f] stood in front of all of [l] in the argument. *)
  Fixpoint ins (f : file) (l : list file) : list file :=
    match l with
    | [] => [f]
    | g :: r => if (fidx g <? fidx f)%N then f :: l else g :: ins f r
    end.

  Fixpoint sort_desc (l : list file) : list file :=
    match l with
    | [] => []
    | f :: r => ins f (sort_desc r)
    end.

  (** The checks of [_open]/[_check_ublock] on the sorted list (newest first): every
      container with a successor is committed, has the record id of its successor (hence
      all have the base's), a smaller index, and is the successor's [prev_patch]; the
      oldest has no [prev_patch]; patch ids are pairwise distinct. *)
  Fixpoint chain_links (l : list file) : bool :=
    match l with
    | [] => false
    | [b] => opt_N_eqb (fprev b) None
    | f :: (g :: _) as r =>
        N.eqb (frec f) (frec g) && fcommitted g && (fidx g <? fidx f)%N
        && opt_N_eqb (fprev f) (Some (fid g)) && chain_links r
    end.

  Definition chain_ok (l : list file) : bool :=
    chain_links l && nodup_N (map fid l).

  (** ** Handle state *)

  Record state : Type := mkstate {
    rest : list file;
    mine : list file;                     (* newest first *)
    hname : string;                       (* [_infer_name(__files__[0].filename)] *)
    writable : bool;
    patching : bool;
    closed : bool
  }.

  Definition dir_of (s : state) : list file := rest s ++ mine s.
  Definition view (s : state) : list P := map fpay (mine s).

  Inductive result : Type :=
  | Opened (s : state)
  | Refused (e : err) (d : list file).    (* [d]: the directory after the refusal *)

  (** ** Patch life cycle *)

  Definition new_patch (nm : string) (l : file) (u : N) : file :=
    mkfile nm (frec l) (fidx l + 1) u (Some (fid l)) false empty.

  Definition create_patch (u : N) (s : state) : state * outcome :=
    if closed s then (s, Err EValue)
    else if negb (patching s) then (s, Err EValue)
    else if writable s then (s, Err EValue)
    else match mine s with
         | [] => (s, Err EValue)
         | l :: _ =>
             let nm := patch_filename (hname s) (fidx l + 1) in
             if has_name nm (dir_of s) then (s, Err EExists)      (* h5py mode "x" *)
             else (mkstate (rest s) (new_patch nm l u :: mine s) (hname s) true
                           (patching s) (closed s), Ok)
         end.

  Definition commit_patch (s : state) : state * outcome :=
    if closed s then (s, Err EValue)
    else if negb (patching s) then (s, Err EValue)
    else if negb (writable s) then (s, Err EValue)
    else match mine s with
         | [] => (s, Err EValue)
         | l :: older =>
             (mkstate (rest s) (set_committed l :: older) (hname s) false
                      (patching s) (closed s), Ok)
         end.

  Definition discard_patch (s : state) : state * outcome :=
    if closed s then (s, Err EValue)
    else if negb (patching s) then (s, Err EValue)
    else if negb (writable s) then (s, Err EValue)
    else match mine s with
         | _ :: (_ :: _) as older =>
             (mkstate (rest s) older (hname s) false (patching s) (closed s), Ok)
         | _ => (s, Err EValue)          (* "Cannot discard base container!" *)
         end.

  (** Any modification through the overlay: allowed only on the writable newest file. *)
  Definition write (g : P -> P) (s : state) : state * outcome :=
    if closed s then (s, Err EKey)
    else if negb (writable s) then (s, Err EValue)
    else match mine s with
         | [] => (s, Err EValue)
         | l :: older =>
             (mkstate (rest s) (set_pay g l :: older) (hname s) (writable s)
                      (patching s) (closed s), Ok)
         end.

  Definition close (commit : bool) (s : state) : state * outcome :=
    if closed s then (s, Ok)
    else
      let s1 := if writable s && commit then fst (commit_patch s) else s in
      (mkstate (rest s1) (mine s1) (hname s1) false (patching s1) true, Ok).

  (** ** [_create] *)

  Definition create (n : string) (truncate : bool) (d : list file) (r u : N) : result :=
    if negb (valid_name n) then Refused EValue d
    else
      let path := base_filename n in
      let d' := if truncate && has_name path d then others n d else d in   (* delete_files *)
      if has_name path d' then Refused EExists d'                           (* h5py mode "x" *)
      else Opened (mkstate d' [mkfile path r 0 u None false empty] (infer_name path)
                           true true false).

  (** ** [_open] + the tail of [__init__] *)

  Definition open_existing (m : mode) (sel oth d : list file) (u : N) : result :=
    let want_rw := negb (is_r m) in
    let s := sort_desc sel in
    if chain_ok s then
      match s with
      | [] => Refused EValue d
      | newest :: _ =>
          let w := want_rw && negb (fcommitted newest) in    (* reopen_incomplete_patch *)
          let st := mkstate oth s (infer_name (fname (last s newest))) w want_rw false in
          if want_rw && negb w then
            match create_patch u st with
            | (st', Ok) => Opened st'
            | (_, Err e) => Refused e d
            end
          else Opened st
      end
    else Refused EValue d.

  Fixpoint lookup_all (l : list string) (d : list file) : option (list file) :=
    match l with
    | [] => Some []
    | nm :: r =>
        match find (fun f => String.eqb (fname f) nm) d, lookup_all r d with
        | Some f, Some fs => Some (f :: fs)
        | _, _ => None
        end
    end.

  (** [IH5Record(record, mode)].  [r]: fresh record id, [u]: fresh patch id (used only when
      a container is created).  An empty explicit list is outside the modelled domain (the
      pinned code fails with an unbound local there); the model answers [EValue]. *)
  Definition open_mode (m : mode) (t : target) (d : list file) (r u : N) : result :=
    match t with
    | ByList l =>
        match m with
        | MW | MWm | MX => Refused EValue d
        | _ =>
            match l with
            | [] => Refused EValue d
            | _ =>
                match lookup_all l d with
                | None => Refused ENotFound d
                | Some sel =>
                    open_existing m sel
                      (filter (fun f => negb (mem_str (fname f) l)) d) d u
                end
            end
        end
    | ByName n =>
        match m with
        | MW => create n true d r u
        | MWm | MX => create n false d r u
        | _ =>
            if negb (valid_name n) then Refused EValue d
            else match files_of n d with
                 | [] => if is_a m then create n false d r u else Refused ENotFound d
                 | sel => open_existing m sel (others n d) d u
                 end
        end
    end.

  (** ** On-disk situations of the mode table *)

  Inductive situation : Type :=
  | SAbsent | SUBase | SCBase | SPatched | SUPatch | SOther.

  (** The situation of record [n] in directory [d]: a predicate on the directory, for
      arbitrary contents.  The valid situations require a coherent chain whose oldest file
      carries the canonical base name. *)
  Definition classify (n : string) (d : list file) : situation :=
    match files_of n d with
    | [] => SAbsent
    | sel =>
        match sort_desc sel with
        | [] => SOther
        | (newest :: older) as s =>
            if chain_ok s && String.eqb (fname (last s newest)) (base_filename n) then
              match older with
              | [] => if fcommitted newest then SCBase else SUBase
              | _ => if fcommitted newest then SPatched else SUPatch
              end
            else SOther
        end
    end.

  (** ** The states the mode table speaks about *)

  Definition fresh_base (n : string) (r u : N) : file :=
    mkfile (base_filename n) r 0 u None false empty.

  (** A new record: one uncommitted writable base next to the untouched files [d]. *)
  Definition created (n : string) (d : list file) (r u : N) : state :=
    mkstate d [fresh_base n r u] n true true false.

  (** All files of the record open, nothing writable / newest one writable. *)
  Definition opened_ro (n : string) (d : list file) : state :=
    mkstate (others n d) (sort_desc (files_of n d)) n false false false.

  Definition opened_rw (n : string) (d : list file) : state :=
    mkstate (others n d) (sort_desc (files_of n d)) n true true false.

  (** All files open plus a new writable patch on top. *)
  Definition opened_new (n : string) (d : list file) (u : N) : state :=
    match sort_desc (files_of n d) with
    | newest :: _ =>
        mkstate (others n d)
          (new_patch (patch_filename n (fidx newest + 1)) newest u :: sort_desc (files_of n d))
          n true true false
    | [] => opened_rw n d
    end.

  (** The name the next patch would get is not taken by some file of the directory. *)
  Definition next_patch_free (n : string) (d : list file) : bool :=
    match sort_desc (files_of n d) with
    | newest :: _ => negb (has_name (patch_filename n (fidx newest + 1)) d)
    | [] => true
    end.

  (** ** Sequences of steps on an open handle *)

  Inductive op : Type :=
  | OCreatePatch (u : N)
  | OCommit
  | ODiscard
  | OWrite (g : P -> P)
  | OClose (commit : bool).

  Definition step (o : op) (s : state) : state * outcome :=
    match o with
    | OCreatePatch u => create_patch u s
    | OCommit => commit_patch s
    | ODiscard => discard_patch s
    | OWrite g => write g s
    | OClose c => close c s
    end.

  Fixpoint run (ops : list op) (s : state) : state :=
    match ops with
    | [] => s
    | o :: r => run r (fst (step o s))
    end.

End Model.

Arguments file : clear implicits.
Arguments state : clear implicits.
Arguments result : clear implicits.
Arguments op : clear implicits.

(** ** Runner entry: a script over one directory with at most one handle *)

Definition pay : Type := list string.      (* tokens written into the container *)

Inductive world : Type :=
| WDir (d : list (file pay))
| WHandle (s : state pay).

Definition mode_of_string (s : string) : option mode :=
  match s with
  | "r" => Some MR | "r+" => Some MRp | "a" => Some MA
  | "w" => Some MW | "w-" => Some MWm | "x" => Some MX
  | _ => None
  end.

Definition sx_err (e : err) : sx :=
  A match e with
    | ENotFound => "FileNotFoundError" | EExists => "FileExistsError"
    | EValue => "ValueError" | EKey => "KeyError"
    end.

Definition sx_outcome (o : outcome) : sx :=
  match o with Ok => A "ok" | Err e => sx_err e end.

Definition sx_file (f : file pay) : sx :=
  L [A (fname f); of_N (frec f); of_N (fidx f); of_N (fid f); of_opt of_N (fprev f);
     of_bool (fcommitted f); of_strings (fpay f)].

Definition sx_world (w : world) : sx :=
  match w with
  | WDir d => L [of_list sx_file d; L []]
  | WHandle s =>
      L [of_list sx_file (dir_of s);
         L [L [of_strings (map fname (mine s)); of_bool (writable s);
               of_bool (patching s); of_bool (closed s); A (hname s);
               of_list of_strings (view s)]]]
  end.

Definition sx_target (x : sx) : option target :=
  match x with
  | L [A "name"; A n] => Some (ByName n)
  | L [A "list"; l] => option_map ByList (sx_strings l)
  | _ => None
  end.

Definition sx_classify (n : string) (w : world) : sx :=
  match w with
  | WDir d =>
      A match classify n d with
        | SAbsent => "absent" | SUBase => "ubase" | SCBase => "cbase"
        | SPatched => "patched" | SUPatch => "upatch" | SOther => "other"
        end
  | WHandle _ => A "open"
  end.

(** One command; [None] = malformed case. *)
Definition exec_handle (cmd : string) (args : list sx) (s : state pay) : option (world * sx) :=
  let fin (r : state pay * outcome) := Some (WHandle (fst r), sx_outcome (snd r)) in
  if String.eqb cmd "cp" then
    match args with
    | [u] => match sx_N u with Some u' => fin (create_patch (@nil string) u' s) | None => None end
    | _ => None
    end
  else if String.eqb cmd "commit" then fin (commit_patch s)
  else if String.eqb cmd "discard" then fin (discard_patch s)
  else if String.eqb cmd "write" then
    match args with
    | [A tok] => fin (write (fun p : pay => (p ++ [tok])%list) s)
    | _ => None
    end
  else if String.eqb cmd "close" then
    match args with
    | [c] => match sx_bool c with Some c' => fin (close c' s) | None => None end
    | _ => None
    end
  else if String.eqb cmd "drop" then
    if closed s then Some (WDir (dir_of s), A "ok") else None
  else None.

Definition exec_dir (cmd : string) (args : list sx) (d : list (file pay)) : option (world * sx) :=
  if String.eqb cmd "open" then
    match args with
    | [A m; t; r; u] =>
        match mode_of_string m, sx_target t, sx_N r, sx_N u with
        | Some m', Some t', Some r', Some u' =>
            match open_mode (@nil string) m' t' d r' u' with
            | Opened s => Some (WHandle s, A "ok")
            | Refused e d' => Some (WDir d', sx_err e)
            end
        | _, _, _, _ => None
        end
    | _ => None
    end
  else None.

Definition exec (c : sx) (w : world) : option (world * sx) :=
  match c with
  | L (A cmd :: args) =>
      if String.eqb cmd "classify" then
        match args with
        | [A n] => Some (w, sx_classify n w)
        | _ => None
        end
      else match w with
           | WDir d => exec_dir cmd args d
           | WHandle s => exec_handle cmd args s
           end
  | _ => None
  end.

Fixpoint exec_all (cs : list sx) (w : world) : list sx :=
  match cs with
  | [] => []
  | c :: r =>
      match exec c w with
      | Some (w', o) => L [o; sx_world w'] :: exec_all r w'
      | None => [sx_bad "command"]
      end
  end.

(** [run_c03]: [("script" cmds)] runs a script from the empty directory;
    everything else is the names part. *)
Definition run_c03 (c : sx) : sx :=
  match c with
  | L [A "script"; L cmds] => L (exec_all cmds (WDir []))
  | _ => run_names c
  end.
