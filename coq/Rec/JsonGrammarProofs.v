(** * Proofs about the JSON grammar [Rec/JsonGrammar.v] (property C11):
    the necessary condition [json_nec] really is necessary for RFC 8259 texts whose top-level
    value is an object or an array, and the recogniser [json_okb] is sound for the grammar. *)
From Coq Require Import List String Ascii NArith Bool Arith Lia.
From MV Require Import Base.Sx Rec.Chain Rec.Crash Rec.CrashProofs Rec.JsonGrammar.
Import ListNotations.
Local Open Scope char_scope.

(** ** [Json] texts pass the scan *)

Lemma scan_ws d sk lk f w : Ws w ->
  scan (MkS d false false sk lk f) w = Some (MkS d false false sk lk f).
Proof.
  induction 1 as [|c w Hc Hw IH]; [reflexivity|].
  simpl. unfold sstep. simpl. rewrite Hc. exact IH.
Qed.

Ltac in_cases H := simpl in H; repeat (destruct H as [<-|H]; [|]); [..|destruct H].

Lemma hex_plain h : HexDig h -> (h =? "\") = false /\ (h =? quote) = false.
Proof. intros H. unfold HexDig in H. in_cases H; split; reflexivity. Qed.

Lemma unescaped_plain c : Unescaped c -> (c =? "\") = false /\ (c =? quote) = false.
Proof.
  intros (_ & H1 & H2). split; apply Ascii.eqb_neq; assumption.
Qed.

Lemma instr_step d sk lk f c : (c =? "\") = false -> (c =? quote) = false ->
  sstep (MkS d true false sk lk f) c = Some (MkS d true false sk lk f).
Proof. intros H1 H2. unfold sstep. simpl. unfold quote in H2. rewrite H1, H2. reflexivity. Qed.

Lemma sbody_scan b : SBody b -> forall d sk lk f,
  scan (MkS d true false sk lk f) b = Some (MkS d true false sk lk f).
Proof.
  induction 1 as [|c r Hc Hr IH|c r Hc Hr IH|h1 h2 h3 h4 r H1 H2 H3 H4 Hr IH]; intros d sk lk f.
  - reflexivity.
  - destruct (unescaped_plain c Hc) as [E1 E2]. simpl. rewrite instr_step by assumption. apply IH.
  - simpl. apply IH.
  - destruct (hex_plain _ H1) as [A1 A2]. destruct (hex_plain _ H2) as [B1 B2].
    destruct (hex_plain _ H3) as [C1 C2]. destruct (hex_plain _ H4) as [D1 D2].
    change (scan (MkS d true false sk lk f) ("\" :: "u" :: h1 :: h2 :: h3 :: h4 :: r))
      with (scan (MkS d true false sk lk f) (h1 :: h2 :: h3 :: h4 :: r)).
    simpl. rewrite !instr_step by assumption. apply IH.
Qed.

Lemma str_scan k : Str k -> forall d sk lk,
  scan (MkS d false false sk lk false) k =
  Some (MkS d false false false (if is_colon_tok lk then KVal else KOther) false).
Proof.
  intros (b & -> & Hb) d sk lk.
  change (scan (MkS d false false sk lk false) (quote :: b ++ [quote]))
    with (scan (MkS d true false (is_colon_tok lk) lk false) (b ++ [quote])).
  rewrite scan_app, sbody_scan by exact Hb. reflexivity.
Qed.

Lemma digit_inert c : Digit c -> inertb c = true.
Proof. intros H. unfold Digit in H. in_cases H; reflexivity. Qed.

Lemma digits_inert ds : Digits ds -> forallb inertb ds = true.
Proof.
  induction 1 as [|c r Hc Hr IH]; [reflexivity|]. simpl. rewrite (digit_inert c Hc). exact IH.
Qed.

Lemma digits1_inert ds : Digits1 ds -> forallb inertb ds = true.
Proof.
  intros (c & r & -> & Hc & Hr). simpl. rewrite (digit_inert c Hc). apply digits_inert, Hr.
Qed.

Lemma num_inert n : Num n -> forallb inertb n = true /\ n <> [].
Proof.
  intros (s & i & f & e & -> & Hs & Hi & Hf & He).
  assert (Is : forallb inertb s = true) by (destruct Hs as [->| ->]; reflexivity).
  assert (Ii : forallb inertb i = true /\ i <> []).
  { destruct Hi as [|c r Hc Hr]; [split; [reflexivity | discriminate]|].
    split; [|discriminate]. simpl. rewrite digits_inert by exact Hr.
    unfold Digit19 in Hc. in_cases Hc; reflexivity. }
  assert (If : forallb inertb f = true).
  { destruct Hf as [->|(ds & -> & Hd)]; [reflexivity|]. simpl. apply digits1_inert, Hd. }
  assert (Ie : forallb inertb e = true).
  { destruct He as [->|(x & sg & ds & -> & Hx & Hsg & Hd)]; [reflexivity|].
    simpl. rewrite forallb_app, (digits1_inert ds Hd).
    destruct Hx as [-> | ->], Hsg as [-> | [-> | ->]]; reflexivity. }
  destruct Ii as [Ii Ine]. split.
  - rewrite !forallb_app, Is, Ii, If, Ie. reflexivity.
  - destruct s; [destruct i; [congruence | discriminate] | discriminate].
Qed.

(** Whether the scan has finished after the value [v] read at depth [d]. *)
Definition vfin (v : bytes) (d : nat) : bool :=
  match v with
  | c :: _ => ((c =? "{") || (c =? "[")) && (d =? 0)%nat
  | [] => false
  end.

Lemma inert_not_bracket c : inertb c = true -> (c =? "{") || (c =? "[") = false.
Proof. intros H. apply inertb_spec in H as (_ & _ & H1 & H2 & _). rewrite H1, H2. reflexivity. Qed.

Definition PV (v : bytes) : Prop := forall d sk lk, exists sk' lk',
  scan (MkS d false false sk lk false) v = Some (MkS d false false sk' lk' (vfin v d)).
Definition PM (ms : bytes) : Prop := forall d sk lk, is_colon_tok lk = false -> exists sk' lk',
  scan (MkS (S d) false false sk lk false) ms = Some (MkS (S d) false false sk' lk' false).
Definition PE (es : bytes) : Prop := forall d sk lk, exists sk' lk',
  scan (MkS (S d) false false sk lk false) es = Some (MkS (S d) false false sk' lk' false).

Scheme Value_min := Minimality for Value Sort Prop
  with Members_min := Minimality for Members Sort Prop
  with Elements_min := Minimality for Elements Sort Prop.
Combined Scheme json_min from Value_min, Members_min, Elements_min.

Lemma vfin_nested v d : vfin v (S d) = false.
Proof. destruct v; simpl; [reflexivity | apply andb_false_r]. Qed.

(** One member / one element, up to what follows. *)
Lemma member_scan w1 k w2 w3 v w4 d sk lk : Ws w1 -> Str k -> Ws w2 -> Ws w3 -> PV v -> Ws w4 ->
  is_colon_tok lk = false -> forall rest, exists sk' lk',
  scan (MkS (S d) false false sk lk false) (w1 ++ k ++ w2 ++ ":" :: w3 ++ v ++ w4 ++ rest) =
  scan (MkS (S d) false false sk' lk' false) rest.
Proof.
  intros H1 Hk H2 H3 Hv H4 Hlk rest.
  rewrite scan_app, scan_ws by exact H1.
  rewrite scan_app, str_scan by exact Hk. rewrite Hlk.
  rewrite scan_app, scan_ws by exact H2.
  change (scan (MkS (S d) false false false KOther false) (":" :: w3 ++ v ++ w4 ++ rest))
    with (scan (MkS (S d) false false false KColon false) (w3 ++ v ++ w4 ++ rest)).
  rewrite scan_app, scan_ws by exact H3.
  destruct (Hv (S d) false KColon) as (sk1 & lk1 & E). rewrite scan_app, E, vfin_nested.
  rewrite scan_app, scan_ws by exact H4. eauto.
Qed.

Lemma element_scan w1 v w2 d sk lk : Ws w1 -> PV v -> Ws w2 -> forall rest, exists sk' lk',
  scan (MkS (S d) false false sk lk false) (w1 ++ v ++ w2 ++ rest) =
  scan (MkS (S d) false false sk' lk' false) rest.
Proof.
  intros H1 Hv H2 rest.
  rewrite scan_app, scan_ws by exact H1.
  destruct (Hv (S d) sk lk) as (sk1 & lk1 & E). rewrite scan_app, E, vfin_nested.
  rewrite scan_app, scan_ws by exact H2. eauto.
Qed.

Lemma json_scan :
  (forall v, Value v -> PV v) /\ (forall ms, Members ms -> PM ms) /\ (forall es, Elements es -> PE es).
Proof.
  apply json_min.
  - (* literal *)
    intros l Hl d sk lk. exists false, KOther. destruct Hl as [-> | [-> | ->]]; reflexivity.
  - (* number *)
    intros n Hn d sk lk. destruct (num_inert n Hn) as [Hi Hne].
    destruct (scan_inert n d sk lk Hi Hne) as [E _]. exists false, KOther. rewrite E.
    destruct n as [|c n']; [congruence|]. simpl in Hi. apply andb_true_iff in Hi as [Hc _].
    simpl. rewrite (inert_not_bracket c Hc). reflexivity.
  - (* string *)
    intros s Hs d sk lk. rewrite (str_scan s Hs). destruct Hs as (b & -> & _). simpl. eauto.
  - (* {} *)
    intros w Hw d sk lk. exists false, KOther.
    change (scan (MkS d false false sk lk false) ("{" :: w ++ ["}"]))
      with (scan (MkS (S d) false false false KOther false) (w ++ ["}"])).
    rewrite scan_app, scan_ws by exact Hw. reflexivity.
  - (* object *)
    intros ms _ IH d sk lk.
    change (scan (MkS d false false sk lk false) ("{" :: ms ++ ["}"]))
      with (scan (MkS (S d) false false false KOther false) (ms ++ ["}"])).
    destruct (IH d false KOther eq_refl) as (sk1 & lk1 & E). rewrite scan_app, E.
    exists false, KOther. reflexivity.
  - (* [] *)
    intros w Hw d sk lk. exists false, KOther.
    change (scan (MkS d false false sk lk false) ("[" :: w ++ ["]"]))
      with (scan (MkS (S d) false false false KOther false) (w ++ ["]"])).
    rewrite scan_app, scan_ws by exact Hw. reflexivity.
  - (* array *)
    intros es _ IH d sk lk.
    change (scan (MkS d false false sk lk false) ("[" :: es ++ ["]"]))
      with (scan (MkS (S d) false false false KOther false) (es ++ ["]"])).
    destruct (IH d false KOther) as (sk1 & lk1 & E). rewrite scan_app, E.
    exists false, KOther. reflexivity.
  - (* one member *)
    intros w1 k w2 w3 v w4 H1 Hk H2 H3 _ Hv H4 d sk lk Hlk.
    destruct (member_scan w1 k w2 w3 v w4 d sk lk H1 Hk H2 H3 Hv H4 Hlk []) as (sk1 & lk1 & E).
    rewrite app_nil_r in E. rewrite E. simpl. eauto.
  - (* member, more *)
    intros w1 k w2 w3 v w4 ms H1 Hk H2 H3 _ Hv H4 _ IH d sk lk Hlk.
    destruct (member_scan w1 k w2 w3 v w4 d sk lk H1 Hk H2 H3 Hv H4 Hlk ("," :: ms))
      as (sk1 & lk1 & E). rewrite E.
    change (scan (MkS (S d) false false sk1 lk1 false) ("," :: ms))
      with (scan (MkS (S d) false false false KOther false) ms).
    apply IH. reflexivity.
  - (* one element *)
    intros w1 v w2 H1 _ Hv H2 d sk lk.
    destruct (element_scan w1 v w2 d sk lk H1 Hv H2 []) as (sk1 & lk1 & E).
    rewrite app_nil_r in E. rewrite E. simpl. eauto.
  - (* element, more *)
    intros w1 v w2 es H1 _ Hv H2 _ IH d sk lk.
    destruct (element_scan w1 v w2 d sk lk H1 Hv H2 ("," :: es)) as (sk1 & lk1 & E). rewrite E.
    change (scan (MkS (S d) false false sk1 lk1 false) ("," :: es))
      with (scan (MkS (S d) false false false KOther false) es).
    apply IH.
Qed.

(** A JSON text whose top-level value is an object or an array satisfies the necessary
    condition: terminated string literals, brackets balanced and closed at the end, nothing
    but white space after the value, no colon after a member value. *)
Theorem json_struct_nec t : JsonStruct t -> json_nec t = true.
Proof.
  intros (w1 & v & w2 & -> & H1 & (Hv & r & Hr) & H2).
  unfold json_nec, st0. rewrite scan_app, scan_ws by exact H1.
  destruct (proj1 json_scan v Hv 0 false KNone) as (sk1 & lk1 & E). rewrite scan_app, E.
  rewrite scan_ws by exact H2.
  destruct Hr as [-> | ->]; reflexivity.
Qed.

(** Any JSON text passes the scan alive; it is accepting unless the top-level value is a
    scalar (which no loader of an object can use). *)
Theorem json_alive t : Json t -> exists s, scan st0 t = Some s.
Proof.
  intros (w1 & v & w2 & -> & H1 & Hv & H2).
  unfold st0. rewrite scan_app, scan_ws by exact H1.
  destruct (proj1 json_scan v Hv 0 false KNone) as (sk1 & lk1 & E). rewrite scan_app, E.
  rewrite scan_ws by exact H2. eauto.
Qed.

(** ** The recogniser is sound *)

Lemma skip_ws_spec t : exists w, t = w ++ skip_ws t /\ Ws w.
Proof.
  induction t as [|c t IH]; [exists []; split; [reflexivity | constructor]|].
  simpl. destruct (is_ws c) eqn:E.
  - destruct IH as (w & Et & Hw). exists (c :: w). split; [simpl; congruence | constructor; auto].
  - exists []. split; [reflexivity | constructor].
Qed.

Lemma memb_In c l : memb c l = true -> In c l.
Proof.
  induction l as [|x l IH]; simpl; [discriminate|].
  rewrite orb_true_iff, Ascii.eqb_eq. intros [->|H]; auto.
Qed.

Lemma skip_digits_spec t : exists ds, t = ds ++ skip_digits t /\ Digits ds.
Proof.
  induction t as [|c t IH]; [exists []; split; [reflexivity | constructor]|].
  simpl. destruct (digitb c) eqn:E.
  - destruct IH as (w & Et & Hw). exists (c :: w).
    split; [simpl; congruence | constructor; auto; apply memb_In, E].
  - exists []. split; [reflexivity | constructor].
Qed.

Lemma pdigits1_spec t r : pdigits1 t = Some r -> exists ds, t = ds ++ r /\ Digits1 ds.
Proof.
  destruct t as [|c t]; simpl; [discriminate|]. destruct (digitb c) eqn:E; [|discriminate].
  intros [= <-]. destruct (skip_digits_spec t) as (ds & Et & Hd).
  exists (c :: ds). split; [simpl; congruence|]. exists c, ds. repeat split; auto. apply memb_In, E.
Qed.

Lemma pexp_spec t r : pexp t = Some r -> exists e, t = e ++ r /\ Exp e.
Proof.
  destruct t as [|x t]; simpl.
  - intros [= <-]. exists []. split; [reflexivity | left; reflexivity].
  - destruct ((x =? "e") || (x =? "E")) eqn:Ex.
    + assert (Hx : x = "e" \/ x = "E").
      { apply orb_true_iff in Ex as [E|E]; apply Ascii.eqb_eq in E; auto. }
      destruct t as [|s t1]; [discriminate|].
      destruct ((s =? "-") || (s =? "+")) eqn:Es.
      * intros H. apply pdigits1_spec in H as (ds & -> & Hd).
        exists (x :: [s] ++ ds). split; [reflexivity|]. right. exists x, [s], ds.
        repeat split; auto.
        apply orb_true_iff in Es as [E|E]; apply Ascii.eqb_eq in E; subst; auto.
      * intros H. apply pdigits1_spec in H as (ds & Et & Hd).
        exists (x :: ds). split; [simpl; congruence|]. right. exists x, [], ds. repeat split; auto.
    + intros [= <-]. exists []. split; [reflexivity | left; reflexivity].
Qed.

Lemma pfrac_spec t r : pfrac t = Some r ->
  exists f e, t = f ++ e ++ r /\ Frac f /\ Exp e.
Proof.
  destruct t as [|x t]; unfold pfrac.
  - intros [= <-]. exists [], []. repeat split; left; reflexivity.
  - destruct (x =? ".") eqn:Ex.
    + apply Ascii.eqb_eq in Ex. subst x.
      destruct (pdigits1 t) as [r1|] eqn:Ed; [|discriminate].
      apply pdigits1_spec in Ed as (ds & -> & Hd). intros H.
      apply pexp_spec in H as (e & -> & He).
      exists ("." :: ds), e. split; [reflexivity|].
      split; [right; eauto | exact He].
    + intros H. apply pexp_spec in H as (e & Et & He).
      exists [], e. repeat split; auto. left; reflexivity.
Qed.

Lemma pint_spec t r : pint t = Some r ->
  exists i f e, t = i ++ f ++ e ++ r /\ IntPart i /\ Frac f /\ Exp e.
Proof.
  destruct t as [|c t]; unfold pint; [discriminate|].
  destruct (c =? "0") eqn:E0.
  - apply Ascii.eqb_eq in E0. subst c. intros H.
    apply pfrac_spec in H as (f & e & -> & Hf & He).
    exists ["0"], f, e. repeat split; auto. constructor.
  - destruct (digit19b c) eqn:E1; [|discriminate]. intros H.
    apply pfrac_spec in H as (f & e & Et & Hf & He).
    destruct (skip_digits_spec t) as (ds & Ed & Hd).
    exists (c :: ds), f, e. repeat split; auto.
    + simpl. rewrite <- Et. f_equal. exact Ed.
    + constructor; auto. apply memb_In, E1.
Qed.

Lemma pnum_spec t r : pnum t = Some r -> exists n, t = n ++ r /\ Num n.
Proof.
  destruct t as [|c t]; unfold pnum; [discriminate|].
  destruct (c =? "-") eqn:E.
  - apply Ascii.eqb_eq in E. subst c. intros H.
    apply pint_spec in H as (i & f & e & -> & Hi & Hf & He).
    exists ("-" :: i ++ f ++ e). split; [simpl; rewrite <- !app_assoc; reflexivity|].
    exists ["-"], i, f, e. repeat split; auto. right; reflexivity.
  - intros H. apply pint_spec in H as (i & f & e & Et & Hi & Hf & He).
    exists (i ++ f ++ e). split; [rewrite <- !app_assoc; exact Et|].
    exists [], i, f, e. repeat split; auto. left; reflexivity.
Qed.

Lemma strip_prefix_spec p : forall t r, strip_prefix p t = Some r -> t = p ++ r.
Proof.
  induction p as [|x p IH]; intros t r; simpl; [intros [= <-]; reflexivity|].
  destruct t as [|y t]; [discriminate|]. destruct (x =? y) eqn:E; [|discriminate].
  apply Ascii.eqb_eq in E. subst y. intros H. apply IH in H. simpl. congruence.
Qed.

Lemma plit_spec t r : plit t = Some r -> exists l, t = l ++ r /\ Lit l.
Proof.
  unfold plit.
  destruct (strip_prefix (B "true") t) as [r1|] eqn:E1.
  { intros [= <-]. apply strip_prefix_spec in E1. exists (B "true"). split; auto. left; reflexivity. }
  destruct (strip_prefix (B "false") t) as [r2|] eqn:E2.
  { intros [= <-]. apply strip_prefix_spec in E2. exists (B "false"). split; auto.
    right; left; reflexivity. }
  intros E3. apply strip_prefix_spec in E3. exists (B "null"). split; auto. right; right; reflexivity.
Qed.

Lemma pstr_body_spec n : forall t, List.length t <= n -> forall r,
  pstr_body t = Some r -> exists b, t = b ++ quote :: r /\ SBody b.
Proof.
  induction n as [|n IH]; intros t Hl r.
  - destruct t; [discriminate | simpl in Hl; lia].
  - destruct t as [|c t]; [discriminate|]. simpl in Hl. simpl.
    destruct (c =? quote) eqn:Eq.
    { apply Ascii.eqb_eq in Eq. subst c. intros [= <-]. exists []. split; [reflexivity | constructor]. }
    destruct (c =? "\") eqn:Eb.
    + apply Ascii.eqb_eq in Eb. subst c. destruct t as [|e t1]; [discriminate|]. simpl in Hl.
      destruct (escapableb e) eqn:Ee.
      * intros H. apply IH in H as (b & -> & Hb); [|lia].
        exists ("\" :: e :: b). split; [reflexivity|]. apply sb_esc; auto. apply memb_In, Ee.
      * destruct (e =? "u") eqn:Eu; [|discriminate]. apply Ascii.eqb_eq in Eu. subst e.
        destruct t1 as [|h1 [|h2 [|h3 [|h4 t2]]]]; try discriminate. simpl in Hl.
        destruct (hexb h1 && hexb h2 && hexb h3 && hexb h4) eqn:Eh; [|discriminate].
        apply andb_true_iff in Eh as [Eh E4]. apply andb_true_iff in Eh as [Eh E3].
        apply andb_true_iff in Eh as [E1 E2].
        intros H. apply IH in H as (b & -> & Hb); [|lia].
        exists ("\" :: "u" :: h1 :: h2 :: h3 :: h4 :: b). split; [reflexivity|].
        apply sb_uni; auto; apply memb_In; assumption.
    + destruct (unescapedb c) eqn:Eu; [|discriminate].
      intros H. apply IH in H as (b & -> & Hb); [|lia].
      exists (c :: b). split; [reflexivity|]. apply sb_char; auto.
      unfold unescapedb in Eu. apply andb_true_iff in Eu as [Eu E3].
      apply andb_true_iff in Eu as [E1 E2].
      repeat split; auto.
      * apply Ascii.eqb_neq. unfold quote in *. exact Eq.
      * apply Ascii.eqb_neq. exact Eb.
Qed.

Lemma pstr_spec t r : pstr_body t = Some r -> exists s, quote :: t = s ++ r /\ Str s.
Proof.
  intros H. apply (pstr_body_spec (List.length t) t (le_n _)) in H as (b & -> & Hb).
  exists (quote :: b ++ [quote]). split; [simpl; rewrite <- app_assoc; reflexivity|].
  exists b. auto.
Qed.

Lemma ws_app a b : Ws a -> Ws b -> Ws (a ++ b).
Proof. induction 1; simpl; auto. constructor; auto. Qed.

Lemma members_ws w ms : Ws w -> Members ms -> Members (w ++ ms).
Proof.
  intros Hw Hm. destruct Hm as [w1 k w2 w3 v w4 H1|w1 k w2 w3 v w4 ms H1]; rewrite app_assoc;
    [apply m_one | apply m_more]; auto; apply ws_app; auto.
Qed.

Lemma elements_ws w es : Ws w -> Elements es -> Elements (w ++ es).
Proof.
  intros Hw He. destruct He as [w1 v w2 H1|w1 v w2 es H1]; rewrite app_assoc;
    [apply e_one | apply e_more]; auto; apply ws_app; auto.
Qed.

Lemma pvalue_sound f :
  (forall t r, pvalue f t = Some r -> exists v, t = v ++ r /\ Value v) /\
  (forall t r, pmembers f t = Some r -> exists ms, t = ms ++ "}" :: r /\ Members ms) /\
  (forall t r, pelements f t = Some r -> exists es, t = es ++ "]" :: r /\ Elements es).
Proof.
  induction f as [|f (IHv & IHm & IHe)]; [repeat split; intros; discriminate|].
  split; [|split].
  - (* value *)
    intros t r. simpl. destruct t as [|c t]; [discriminate|].
    destruct (c =? "{") eqn:Eo.
    { apply Ascii.eqb_eq in Eo. subst c. destruct (skip_ws_spec t) as (w & Et & Hw).
      destruct (skip_ws t) as [|x r2]; [discriminate|].
      destruct (x =? "}") eqn:Ex.
      - apply Ascii.eqb_eq in Ex. subst x. intros [= <-].
        exists ("{" :: w ++ ["}"]). split; [simpl; rewrite <- app_assoc, Et; reflexivity|].
        apply v_obj_empty, Hw.
      - intros H. apply IHm in H as (ms & Em & Hm).
        exists ("{" :: (w ++ ms) ++ ["}"]).
        split; [simpl; rewrite <- !app_assoc; simpl; rewrite Et, Em; reflexivity|].
        apply v_obj, members_ws; auto. }
    destruct (c =? "[") eqn:Ea.
    { apply Ascii.eqb_eq in Ea. subst c. destruct (skip_ws_spec t) as (w & Et & Hw).
      destruct (skip_ws t) as [|x r2]; [discriminate|].
      destruct (x =? "]") eqn:Ex.
      - apply Ascii.eqb_eq in Ex. subst x. intros [= <-].
        exists ("[" :: w ++ ["]"]). split; [simpl; rewrite <- app_assoc, Et; reflexivity|].
        apply v_arr_empty, Hw.
      - intros H. apply IHe in H as (es & Ee & He).
        exists ("[" :: (w ++ es) ++ ["]"]).
        split; [simpl; rewrite <- !app_assoc; simpl; rewrite Et, Ee; reflexivity|].
        apply v_arr, elements_ws; auto. }
    destruct (c =? quote) eqn:Eq.
    { apply Ascii.eqb_eq in Eq. subst c. intros H. apply pstr_spec in H as (s & Es & Hs).
      exists s. split; [exact Es | apply v_str, Hs]. }
    destruct (plit (c :: t)) as [r1|] eqn:El.
    { intros [= <-]. apply plit_spec in El as (l & E & Hl). exists l. split; [exact E | apply v_lit, Hl]. }
    intros H. apply pnum_spec in H as (n & E & Hn). exists n. split; [exact E | apply v_num, Hn].
  - (* members *)
    intros t r. simpl. destruct t as [|q t]; [discriminate|].
    destruct (q =? quote) eqn:Eq; [|discriminate]. apply Ascii.eqb_eq in Eq. subst q.
    destruct (pstr_body t) as [r1|] eqn:Ek; [|discriminate].
    apply pstr_spec in Ek as (k & Ek & Hk).
    destruct (skip_ws_spec r1) as (w2 & E2 & H2).
    destruct (skip_ws r1) as [|c r2]; [discriminate|].
    destruct (c =? ":") eqn:Ec; [|discriminate]. apply Ascii.eqb_eq in Ec. subst c.
    destruct (skip_ws_spec r2) as (w3 & E3 & H3).
    set (s2 := skip_ws r2) in *.
    destruct (pvalue f s2) as [r3|] eqn:Ev; [|discriminate].
    apply IHv in Ev as (v & Ev & Hv).
    destruct (skip_ws_spec r3) as (w4 & E4 & H4).
    destruct (skip_ws r3) as [|x r4]; [discriminate|].
    assert (Et : quote :: t = k ++ w2 ++ ":" :: w3 ++ v ++ w4 ++ x :: r4).
    { rewrite Ek, E2, E3, Ev, E4. reflexivity. }
    destruct (x =? ",") eqn:Ex.
    + apply Ascii.eqb_eq in Ex. subst x.
      destruct (skip_ws_spec r4) as (w5 & E5 & H5).
      set (s4 := skip_ws r4) in *. intros H.
      apply IHm in H as (ms & Em & Hm).
      exists (([] ++ k ++ w2 ++ ":" :: w3 ++ v ++ w4 ++ "," :: (w5 ++ ms))).
      split.
      * rewrite Et, E5, Em. simpl. repeat (rewrite <- app_assoc; simpl). reflexivity.
      * apply m_more; auto; [constructor | apply members_ws; auto].
    + destruct (x =? "}") eqn:Ey; [|discriminate]. apply Ascii.eqb_eq in Ey. subst x.
      intros [= <-].
      exists ([] ++ k ++ w2 ++ ":" :: w3 ++ v ++ w4). split.
      * rewrite Et. simpl. repeat (rewrite <- app_assoc; simpl). reflexivity.
      * apply m_one; auto. constructor.
  - (* elements *)
    intros t r. simpl.
    destruct (pvalue f t) as [r1|] eqn:Ev; [|discriminate].
    apply IHv in Ev as (v & Ev & Hv).
    destruct (skip_ws_spec r1) as (w2 & E2 & H2).
    destruct (skip_ws r1) as [|x r2]; [discriminate|].
    destruct (x =? ",") eqn:Ex.
    + apply Ascii.eqb_eq in Ex. subst x.
      destruct (skip_ws_spec r2) as (w5 & E5 & H5).
      set (s2 := skip_ws r2) in *. intros H.
      apply IHe in H as (es & Ee & He).
      exists ([] ++ v ++ w2 ++ "," :: (w5 ++ es)). split.
      * rewrite Ev, E2, E5, Ee. simpl. repeat (rewrite <- app_assoc; simpl). reflexivity.
      * apply e_more; auto; [constructor | apply elements_ws; auto].
    + destruct (x =? "]") eqn:Ey; [|discriminate]. apply Ascii.eqb_eq in Ey. subst x.
      intros [= <-].
      exists ([] ++ v ++ w2). split.
      * rewrite Ev, E2. simpl. repeat (rewrite <- app_assoc; simpl). reflexivity.
      * apply e_one; auto. constructor.
Qed.

Lemma skip_ws_nil_ws r : skip_ws r = [] -> Ws r.
Proof.
  intros H. destruct (skip_ws_spec r) as (w & E & Hw). rewrite H, app_nil_r in E. congruence.
Qed.

Theorem json_okb_sound t : json_okb t = true -> Json t.
Proof.
  unfold json_okb. destruct (skip_ws_spec t) as (w1 & E1 & H1).
  destruct (pvalue (S (List.length t)) (skip_ws t)) as [r|] eqn:Ev; [|discriminate].
  apply (proj1 (pvalue_sound _)) in Ev as (v & Ev & Hv).
  destruct (skip_ws r) eqn:Er; [|discriminate]. intros _.
  exists w1, v, r. split; [rewrite E1 at 1; rewrite Ev; reflexivity|].
  repeat split; auto. apply skip_ws_nil_ws, Er.
Qed.

Lemma value_nonempty v : Value v -> v <> [].
Proof.
  intros H. destruct H as [l Hl|n Hn|s Hs| | | | ]; try discriminate.
  - destruct Hl as [-> | [-> | ->]]; discriminate.
  - apply num_inert, Hn.
  - destruct Hs as (b & -> & _). discriminate.
Qed.

Theorem json_objb_sound t : json_objb t = true -> JsonStruct t.
Proof.
  unfold json_objb. rewrite andb_true_iff. intros [Hok Hc].
  unfold json_okb in Hok. destruct (skip_ws_spec t) as (w1 & E1 & H1).
  destruct (pvalue (S (List.length t)) (skip_ws t)) as [r|] eqn:Ev; [|discriminate].
  apply (proj1 (pvalue_sound _)) in Ev as (v & Ev & Hv).
  destruct (skip_ws r) eqn:Er; [|discriminate].
  exists w1, v, r. split; [rewrite E1 at 1; rewrite Ev; reflexivity|].
  split; [exact H1|]. split; [|apply skip_ws_nil_ws, Er].
  split; [exact Hv|]. destruct (skip_ws t) as [|c t']; [discriminate|].
  apply Ascii.eqb_eq in Hc. subst c.
  pose proof (value_nonempty v Hv) as Hne. destruct v as [|c v']; [congruence|].
  injection Ev as <- _. exists v'. left. reflexivity.
Qed.

(** What the executable recogniser accepts as an object text satisfies the necessary
    condition. *)
Corollary json_objb_nec t : json_objb t = true -> json_nec t = true.
Proof. intros H. apply json_struct_nec, json_objb_sound, H. Qed.

(** ** The torn-write theorems for every loader that accepts only RFC 8259 object texts *)

Section Loader.
  Variable loads : bytes -> option ublock.
  (** the residual premise about the loader ([json.loads] + [parse_obj]) *)
  Hypothesis loads_rfc : forall t u, loads t = Some u -> JsonStruct t.

  Lemma loads_rfc_nec : forall t u, loads t = Some u -> json_nec t = true.
  Proof. intros t u H. apply json_struct_nec, (loads_rfc t u H). Qed.

  Theorem commit_torn_classes_rfc u h e m :
    wf_head u -> forallb plainb h = true -> 19 <= List.length h -> wf_ext e ->
    let ot := encode_ub u None None in
    let nt := encode_ub u (Some h) e in
    let old := (head1024 ++ ot ++ repeat nul m)%list in
    let new := (head1024 ++ nt ++ [nul])%list in
    List.length nt < List.length ot + m -> List.length nt < 1011 ->
    forall k u1, loads nt = Some u1 ->
    (k <= 13 + List.length (enc_pre u) ->
     parse_block loads (torn k old new) = parse_block loads old) /\
    (13 + List.length (enc_pre u) < k -> k < 13 + List.length nt ->
     parse_block loads (torn k old new) = None) /\
    (13 + List.length nt <= k -> parse_block loads (torn k old new) = Some u1).
  Proof.
    intros Hu Hh Hl He ot nt old new H1 H2 k u1 Hload.
    apply (commit_torn_classes_enc u h e m loads); auto. exact loads_rfc_nec.
  Qed.

  Theorem create_tears_rfc u M :
    wf_head u ->
    let t := encode_ub u None None in
    List.length t < 1011 -> 13 + List.length t < M ->
    forall u0, loads t = Some u0 ->
    tears_ok None u0 (tears_of (parse_block loads) (z_old M) (z_new t)).
  Proof.
    intros Hu t H1 H2 u0 Hl. apply (create_tears_enc u M loads); auto. exact loads_rfc_nec.
  Qed.

  Theorem classify_sound_rfc k old new :
    match classify k old new with
    | TOld => parse_block loads (torn k old new) = parse_block loads old
    | TNew => parse_block loads (torn k old new)
              = parse_block loads (torn (List.length new) old new)
    | TBad => parse_block loads (torn k old new) = None
    | TUnknown => True
    end.
  Proof. apply classify_sound. exact loads_rfc_nec. Qed.
End Loader.
