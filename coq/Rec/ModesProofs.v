(** Proofs about [Rec/Modes.v]: mode table, read-only mode, refusals, replacement,
    permutation invariance of the file list, discard, close/reopen. *)
From Coq Require Import List String Ascii NArith Bool Arith Lia Permutation Sorted.
From MV Require Import Base.Sx Rec.Names Rec.NamesProofs Rec.Modes.
Import ListNotations.
Local Open Scope string_scope.

Arguments matches : simpl never.
Arguments base_filename : simpl never.
Arguments patch_filename : simpl never.
Arguments infer_name : simpl never.
Arguments valid_name : simpl never.

Section Proofs.
  Context {P : Type}.
  Variable empty : P.
  Notation file := (file P).
  Notation state := (state P).

  (** ** Sorting *)

  Definition ge_idx (a b : file) : Prop := (fidx b <= fidx a)%N.
  Definition gt_idx (a b : file) : Prop := (fidx b < fidx a)%N.

  Lemma ins_perm : forall (f : file) l, Permutation (f :: l) (ins f l).
  Proof.
    intros f l. induction l as [|g l IH]; simpl; [apply Permutation_refl|].
    destruct (fidx g <? fidx f)%N; [apply Permutation_refl|].
    eapply perm_trans; [apply perm_swap|]. apply perm_skip. exact IH.
  Qed.

  Lemma sort_perm : forall l : list file, Permutation l (sort_desc l).
  Proof.
    induction l as [|f l IH]; simpl; [constructor|].
    eapply perm_trans; [apply perm_skip; exact IH|]. apply ins_perm.
  Qed.

  Lemma ins_sorted : forall (f : file) l, StronglySorted ge_idx l -> StronglySorted ge_idx (ins f l).
  Proof.
    intros f l H. induction H as [|g l Hs IH Hall]; simpl.
    - constructor; constructor.
    - destruct (fidx g <? fidx f)%N eqn:E.
      + apply N.ltb_lt in E. constructor; [constructor; assumption|].
        constructor; [unfold ge_idx; lia|].
        eapply Forall_impl; [|exact Hall]. unfold ge_idx. intros a Ha. lia.
      + apply N.ltb_ge in E. constructor; [exact IH|].
        eapply Permutation_Forall; [apply ins_perm|]. constructor; [exact E|exact Hall].
  Qed.

  Lemma sort_sorted : forall l : list file, StronglySorted ge_idx (sort_desc l).
  Proof. induction l; simpl; [constructor|apply ins_sorted; assumption]. Qed.

  (** A strictly descending list is the only weakly descending arrangement of its
      elements. *)
  Lemma sorted_perm_unique : forall l1 l2 : list file,
    StronglySorted gt_idx l1 -> StronglySorted ge_idx l2 -> Permutation l1 l2 -> l1 = l2.
  Proof.
    induction l1 as [|h1 t1 IH]; intros l2 H1 H2 Hp.
    - apply Permutation_nil in Hp. subst. reflexivity.
    - destruct l2 as [|h2 t2]; [apply Permutation_sym, Permutation_nil in Hp; discriminate|].
      apply StronglySorted_inv in H1. destruct H1 as [H1t H1h].
      apply StronglySorted_inv in H2. destruct H2 as [H2t H2h].
      assert (E : h1 = h2).
      { assert (I1 : In h1 (h2 :: t2)) by (eapply Permutation_in; [exact Hp|left; reflexivity]).
        assert (I2 : In h2 (h1 :: t1)) by (eapply Permutation_in; [apply Permutation_sym; exact Hp|left; reflexivity]).
        destruct I1 as [I1|I1]; [auto|]. destruct I2 as [I2|I2]; [auto|].
        rewrite Forall_forall in H1h, H2h. specialize (H1h _ I2). specialize (H2h _ I1).
        unfold gt_idx, ge_idx in *. lia. }
      subst h2. f_equal. apply IH; auto. eapply Permutation_cons_inv. exact Hp.
  Qed.

  (** ** The chain check yields strictly descending indices *)

  Lemma chain_links_cons2 : forall (f g : file) l,
    chain_links (f :: g :: l) =
    (N.eqb (frec f) (frec g) && fcommitted g && (fidx g <? fidx f)%N
     && opt_N_eqb (fprev f) (Some (fid g)) && chain_links (g :: l)).
  Proof. reflexivity. Qed.

  Lemma chain_links_sorted : forall l : list file, chain_links l = true -> StronglySorted gt_idx l.
  Proof.
    induction l as [|f l IH]; intros H; [constructor|].
    destruct l as [|g l']; [constructor; constructor|].
    rewrite chain_links_cons2 in H.
    apply andb_true_iff in H. destruct H as [H Hl].
    apply andb_true_iff in H. destruct H as [H _].
    apply andb_true_iff in H. destruct H as [_ Hi].
    specialize (IH Hl). apply N.ltb_lt in Hi.
    constructor; [exact IH|].
    apply StronglySorted_inv in IH. destruct IH as [_ Hall].
    constructor; [exact Hi|].
    eapply Forall_impl; [|exact Hall]. unfold gt_idx in *. intros a Ha. lia.
  Qed.

  Lemma chain_ok_sorted : forall l : list file, chain_ok l = true -> StronglySorted gt_idx l.
  Proof.
    intros l H. unfold chain_ok in H. apply andb_true_iff in H. destruct H as [H _].
    apply chain_links_sorted. exact H.
  Qed.

  Lemma chain_ok_nonempty : forall l : list file, chain_ok l = true -> l <> [].
  Proof. intros [|f l] H; [discriminate|discriminate]. Qed.

  Lemma sort_fixed : forall l : list file, StronglySorted gt_idx l -> sort_desc l = l.
  Proof.
    intros l H. symmetry. apply sorted_perm_unique; [exact H|apply sort_sorted|apply sort_perm].
  Qed.

  (** [sort_desc] then [chain_ok] does not depend on the order of the argument. *)
  Lemma sort_chain_perm : forall l1 l2 : list file, Permutation l1 l2 ->
    chain_ok (sort_desc l1) = true -> sort_desc l2 = sort_desc l1.
  Proof.
    intros l1 l2 Hp Hc. symmetry. apply sorted_perm_unique.
    - apply chain_ok_sorted. exact Hc.
    - apply sort_sorted.
    - eapply perm_trans; [apply Permutation_sym, sort_perm|].
      eapply perm_trans; [exact Hp|apply sort_perm].
  Qed.

  Lemma open_existing_perm : forall m sel sel' oth d u,
    Permutation sel sel' ->
    open_existing empty m sel oth d u = open_existing empty m sel' oth d u.
  Proof.
    intros m sel sel' oth d u Hp. unfold open_existing.
    destruct (chain_ok (sort_desc sel)) eqn:C1.
    - rewrite (sort_chain_perm sel sel' Hp C1). rewrite C1. reflexivity.
    - destruct (chain_ok (sort_desc sel')) eqn:C2; [|reflexivity].
      rewrite (sort_chain_perm sel' sel (Permutation_sym Hp) C2) in C1. congruence.
  Qed.

  (** ** Names and directories *)

  Lemma has_name_In : forall nm (d : list file), has_name nm d = true <-> exists f, In f d /\ fname f = nm.
  Proof.
    intros nm d. unfold has_name. rewrite existsb_exists.
    split; intros [f [Hin H]]; exists f; split; auto.
    - apply String.eqb_eq. exact H.
    - apply String.eqb_eq. exact H.
  Qed.

  Lemma has_name_perm : forall nm (d d' : list file), Permutation d d' -> has_name nm d = has_name nm d'.
  Proof.
    intros nm d d' Hp.
    destruct (has_name nm d) eqn:E1; destruct (has_name nm d') eqn:E2; auto.
    - apply has_name_In in E1. destruct E1 as [f [Hin Hf]].
      assert (has_name nm d' = true).
      { apply has_name_In. exists f. split; [eapply Permutation_in; eauto|exact Hf]. }
      congruence.
    - apply has_name_In in E2. destruct E2 as [f [Hin Hf]].
      assert (has_name nm d = true).
      { apply has_name_In. exists f. split; [eapply Permutation_in; [apply Permutation_sym|]; eauto|exact Hf]. }
      congruence.
  Qed.

  Lemma partition_perm : forall n (d : list file), Permutation d (others n d ++ files_of n d).
  Proof.
    intros n d. unfold others, files_of. induction d as [|f d IH]; simpl; [constructor|].
    destruct (matches n (fname f)); simpl.
    - apply Permutation_cons_app. exact IH.
    - apply perm_skip. exact IH.
  Qed.

  Lemma dir_perm : forall n (d : list file), Permutation d (others n d ++ sort_desc (files_of n d)).
  Proof.
    intros n d. eapply perm_trans; [apply partition_perm|].
    apply Permutation_app_head. apply sort_perm.
  Qed.

  Lemma matches_base : forall n, valid_name n = true -> matches n (base_filename n) = true.
  Proof. intros n H. apply (find_files_exact n n None H H). reflexivity. Qed.

  Lemma matches_patch : forall n i, valid_name n = true -> matches n (patch_filename n i) = true.
  Proof. intros n i H. apply (find_files_exact n n (Some i) H H). reflexivity. Qed.

  Lemma infer_base : forall n, valid_name n = true -> infer_name (base_filename n) = n.
  Proof. intros n H. apply (infer_name_file_of n None H). Qed.

  Lemma has_name_others : forall n nm (d : list file), matches n nm = true -> has_name nm (others n d) = false.
  Proof.
    intros n nm d Hm. destruct (has_name nm (others n d)) eqn:E; [|reflexivity].
    apply has_name_In in E. destruct E as [f [Hin Hf]]. unfold others in Hin.
    apply filter_In in Hin. destruct Hin as [_ Hn]. subst nm. rewrite Hm in Hn. discriminate.
  Qed.

  Lemma has_name_files_of : forall n nm (d : list file), matches n nm = true -> has_name nm d = true ->
    files_of n d <> [].
  Proof.
    intros n nm d Hm Hh. apply has_name_In in Hh. destruct Hh as [f [Hin Hf]].
    assert (In f (files_of n d)). { unfold files_of. apply filter_In. split; [exact Hin|]. subst. exact Hm. }
    intros E. rewrite E in H. exact H.
  Qed.

  Lemma files_of_others : forall n (d : list file), files_of n (others n d) = [].
  Proof.
    intros n d. unfold files_of, others. induction d as [|f d IH]; simpl; [reflexivity|].
    destruct (matches n (fname f)) eqn:E; simpl; [exact IH|]. rewrite E. exact IH.
  Qed.

  Lemma others_others : forall n (d : list file), others n (others n d) = others n d.
  Proof.
    intros n d. unfold others. induction d as [|f d IH]; simpl; [reflexivity|].
    destruct (matches n (fname f)) eqn:E; simpl; [exact IH|]. rewrite E. simpl. f_equal. exact IH.
  Qed.

  Lemma last_In : forall (l : list file) x, l <> [] -> In (last l x) l.
  Proof.
    induction l as [|a l IH]; intros x H; [contradiction|].
    destruct l as [|b l']; [left; reflexivity|].
    right. apply IH. discriminate.
  Qed.

  (** ** The mode table *)

  (** What [classify] says about the directory. *)
  Definition valid_sit (n : string) (d : list file) (newest : file) (older : list file) : Prop :=
    files_of n d <> [] /\ sort_desc (files_of n d) = newest :: older /\
    chain_ok (newest :: older) = true /\
    fname (last (newest :: older) newest) = base_filename n.

  Lemma classify_absent : forall n (d : list file), classify n d = SAbsent -> files_of n d = [].
  Proof.
    intros n d H. unfold classify in H. destruct (files_of n d) as [|f l] eqn:E; [reflexivity|].
    exfalso. destruct (sort_desc (f :: l)) as [|nw ol]; [discriminate|].
    destruct (chain_ok (nw :: ol) && (fname (last (nw :: ol) nw) =? base_filename n)); [|discriminate].
    destruct ol; destruct (fcommitted nw); discriminate.
  Qed.

  Lemma classify_valid : forall n (d : list file) s,
    classify n d = s -> s <> SAbsent -> s <> SOther ->
    exists newest older, valid_sit n d newest older /\
      match s with
      | SUBase => older = [] /\ fcommitted newest = false
      | SCBase => older = [] /\ fcommitted newest = true
      | SPatched => older <> [] /\ fcommitted newest = true
      | SUPatch => older <> [] /\ fcommitted newest = false
      | _ => False
      end.
  Proof.
    intros n d s H Hna Hno. unfold classify in H.
    destruct (files_of n d) as [|f l] eqn:E; [congruence|].
    destruct (sort_desc (f :: l)) as [|nw ol] eqn:Es; [congruence|].
    destruct (chain_ok (nw :: ol) && (fname (last (nw :: ol) nw) =? base_filename n)) eqn:Ec; [|congruence].
    apply andb_true_iff in Ec. destruct Ec as [Ec En]. apply String.eqb_eq in En.
    exists nw, ol. split.
    - unfold valid_sit. rewrite E. repeat split; auto. discriminate.
    - destruct ol; destruct (fcommitted nw) eqn:Ecm; subst s; repeat split; auto; discriminate.
  Qed.

  Lemma valid_sit_has_base : forall n d newest older,
    valid_sit n d newest older -> has_name (base_filename n) d = true.
  Proof.
    intros n d nw ol [Hne [Hs [Hc Hn]]]. apply has_name_In.
    exists (last (nw :: ol) nw). split; [|exact Hn].
    assert (In (last (nw :: ol) nw) (nw :: ol)) by (apply last_In; discriminate).
    rewrite <- Hs in H. eapply Permutation_in in H; [|apply Permutation_sym, sort_perm].
    unfold files_of in H. apply filter_In in H. destruct H as [H _].
    fold (files_of n d) in H. rewrite Hs in H. exact H.
  Qed.

  Lemma open_absent : forall n d r u, valid_name n = true -> files_of n d = [] ->
    open_mode empty MR (ByName n) d r u = Refused ENotFound d /\
    open_mode empty MRp (ByName n) d r u = Refused ENotFound d /\
    open_mode empty MA (ByName n) d r u = Opened (created empty n d r u) /\
    open_mode empty MW (ByName n) d r u = Opened (created empty n d r u) /\
    open_mode empty MWm (ByName n) d r u = Opened (created empty n d r u) /\
    open_mode empty MX (ByName n) d r u = Opened (created empty n d r u).
  Proof.
    intros n d r u Hn Hf.
    assert (Hb : has_name (base_filename n) d = false).
    { destruct (has_name (base_filename n) d) eqn:E; [|reflexivity].
      exfalso. eapply has_name_files_of; [apply matches_base; exact Hn|exact E|exact Hf]. }
    unfold open_mode, create. rewrite Hn, Hf, Hb. simpl. rewrite Hb.
    rewrite (infer_base n Hn). unfold created, fresh_base. repeat split; reflexivity.
  Qed.

  (** The common part of [r], [r+], [a] on a valid situation. *)
  Lemma open_existing_valid : forall m n d newest older u,
    valid_name n = true -> valid_sit n d newest older ->
    open_existing empty m (files_of n d) (others n d) d u =
      if is_r m then Opened (opened_ro n d)
      else if negb (fcommitted newest) then Opened (opened_rw n d)
      else if next_patch_free n d then Opened (opened_new empty n d u)
      else Refused EExists d.
  Proof.
    intros m n d nw ol u Hn [Hne [Hs [Hc Hb]]].
    unfold open_existing. rewrite Hs, Hc, Hb, (infer_base n Hn).
    unfold opened_ro, opened_rw, opened_new, next_patch_free. rewrite Hs.
    destruct (is_r m) eqn:Er; simpl; [reflexivity|].
    destruct (fcommitted nw) eqn:Ecm; simpl; [|reflexivity].
    unfold create_patch. simpl.
    assert (Hh : has_name (patch_filename n (fidx nw + 1)) (dir_of (mkstate (others n d) (nw :: ol) n false true false))
                 = has_name (patch_filename n (fidx nw + 1)) d).
    { symmetry. apply has_name_perm. unfold dir_of. simpl. rewrite <- Hs. apply dir_perm. }
    rewrite Hh. destruct (has_name (patch_filename n (fidx nw + 1)) d); reflexivity.
  Qed.

  Lemma open_valid : forall n d newest older r u,
    valid_name n = true -> valid_sit n d newest older ->
    open_mode empty MR (ByName n) d r u = Opened (opened_ro n d) /\
    (forall m, m = MRp \/ m = MA ->
       open_mode empty m (ByName n) d r u =
         if negb (fcommitted newest) then Opened (opened_rw n d)
         else if next_patch_free n d then Opened (opened_new empty n d u)
         else Refused EExists d) /\
    open_mode empty MW (ByName n) d r u = Opened (created empty n (others n d) r u) /\
    open_mode empty MWm (ByName n) d r u = Refused EExists d /\
    open_mode empty MX (ByName n) d r u = Refused EExists d.
  Proof.
    intros n d nw ol r u Hn Hv.
    pose proof (valid_sit_has_base _ _ _ _ Hv) as Hb.
    pose proof (open_existing_valid MR n d nw ol u Hn Hv) as HR.
    pose proof (open_existing_valid MRp n d nw ol u Hn Hv) as HRp.
    pose proof (open_existing_valid MA n d nw ol u Hn Hv) as HA.
    destruct Hv as [Hne [Hs [Hc Hl]]].
    unfold open_mode, create. rewrite Hn, Hb. simpl. rewrite ?Hb.
    destruct (files_of n d) as [|f l] eqn:Ef; [contradiction Hne; reflexivity|].
    rewrite (has_name_others n (base_filename n) d (matches_base n Hn)).
    rewrite (infer_base n Hn).
    split; [exact HR|]. split; [intros m [E|E]; subst m; assumption|].
    repeat split; reflexivity.
  Qed.

  (** ** Mode 'x' / 'w-' refuse an existing record and touch nothing; 'w' replaces it *)

  Lemma x_refuses_existing : forall n d r u,
    valid_name n = true -> has_name (base_filename n) d = true ->
    open_mode empty MX (ByName n) d r u = Refused EExists d /\
    open_mode empty MWm (ByName n) d r u = Refused EExists d.
  Proof.
    intros n d r u Hn Hb. unfold open_mode, create. rewrite Hn. simpl. rewrite Hb. split; reflexivity.
  Qed.

  Lemma w_replaces_all : forall n d r u,
    valid_name n = true ->
    has_name (base_filename n) d = true \/ files_of n d = [] ->
    exists s, open_mode empty MW (ByName n) d r u = Opened s /\
      files_of n (dir_of s) = [fresh_base empty n r u] /\
      others n (dir_of s) = others n d /\
      view s = [empty] /\ writable s = true.
  Proof.
    intros n d r u Hn Hcase.
    assert (Hfb : matches n (base_filename n) = true) by (apply matches_base; exact Hn).
    destruct (has_name (base_filename n) d) eqn:Hb.
    - exists (created empty n (others n d) r u). unfold open_mode, create. rewrite Hn, Hb. simpl.
      rewrite (has_name_others n (base_filename n) d (matches_base n Hn)). rewrite (infer_base n Hn).
      split; [reflexivity|]. unfold created, dir_of. simpl.
      unfold files_of, others. rewrite !filter_app. simpl. rewrite Hfb. simpl.
      fold (others n d). fold (files_of n (others n d)). fold (others n (others n d)).
      rewrite files_of_others, others_others, app_nil_r. repeat split; reflexivity.
    - destruct Hcase as [Hc|Hc]; [discriminate|].
      exists (created empty n d r u).
      destruct (open_absent n d r u Hn Hc) as [_ [_ [_ [Hw _]]]]. split; [exact Hw|].
      unfold created, dir_of. simpl. unfold files_of, others. rewrite !filter_app. simpl. rewrite Hfb. simpl.
      fold (files_of n d). rewrite Hc, app_nil_r. repeat split; reflexivity.
  Qed.

  (** ** Mode 'r' is read-only *)

  Lemma step_ro : forall o (s : state),
    patching s = false -> writable s = false ->
    let s' := fst (step empty o s) in
    dir_of s' = dir_of s /\ view s' = view s /\ patching s' = false /\ writable s' = false /\
    ((forall c, o <> OClose c) -> snd (step empty o s) <> Ok).
  Proof.
    intros o s Hp Hw. destruct o as [u| | |g|c]; simpl;
      unfold create_patch, commit_patch, discard_patch, write, close;
      rewrite ?Hp, ?Hw; destruct (closed s); simpl; repeat split; auto; try discriminate;
      intros Hc; exfalso; apply (Hc c); reflexivity.
  Qed.

  Lemma run_ro : forall ops (s : state),
    patching s = false -> writable s = false ->
    dir_of (run empty ops s) = dir_of s /\ view (run empty ops s) = view s.
  Proof.
    induction ops as [|o ops IH]; intros s Hp Hw; simpl; [split; reflexivity|].
    destruct (step_ro o s Hp Hw) as [Hd [Hv [Hp' [Hw' _]]]].
    destruct (IH _ Hp' Hw') as [Hd2 Hv2]. split; congruence.
  Qed.

  Lemma open_existing_r : forall sel oth d u s,
    open_existing empty MR sel oth d u = Opened s ->
    rest s = oth /\ mine s = sort_desc sel /\ patching s = false /\ writable s = false.
  Proof.
    intros sel oth d u s. unfold open_existing. cbn [is_r negb andb].
    destruct (chain_ok (sort_desc sel)); [|discriminate].
    destruct (sort_desc sel) as [|nw ol] eqn:Es; [discriminate|].
    intros H. inversion H; subst s; simpl. repeat split; reflexivity.
  Qed.

  Lemma open_r_flags : forall t d r u s,
    open_mode empty MR t d r u = Opened s -> patching s = false /\ writable s = false.
  Proof.
    intros t d r u s H. destruct t as [n|l]; cbn [open_mode is_a] in H.
    - destruct (valid_name n); cbn [negb] in H; [|discriminate].
      destruct (files_of n d) as [|f fs] eqn:Ef; [discriminate|].
      apply open_existing_r in H. tauto.
    - destruct l as [|nm l]; [discriminate|].
      destruct (lookup_all (nm :: l) d) as [sel|] eqn:El; [|discriminate].
      apply open_existing_r in H. tauto.
  Qed.

  Lemma open_r_dir : forall n d r u s,
    open_mode empty MR (ByName n) d r u = Opened s ->
    rest s = others n d /\ mine s = sort_desc (files_of n d) /\ Permutation d (dir_of s).
  Proof.
    intros n d r u s H. cbn [open_mode is_a] in H.
    destruct (valid_name n); cbn [negb] in H; [|discriminate].
    destruct (files_of n d) as [|f fs] eqn:Ef; [discriminate|].
    apply open_existing_r in H. destruct H as [Hr [Hm _]].
    split; [exact Hr|]. split; [exact Hm|]. unfold dir_of. rewrite Hr, Hm, <- Ef. apply dir_perm.
  Qed.

  (** After open 'r' no sequence of steps changes the directory or the view, and every
      step other than [close] is refused. *)
  Lemma r_is_readonly : forall t d r u s ops,
    open_mode empty MR t d r u = Opened s ->
    dir_of (run empty ops s) = dir_of s /\ view (run empty ops s) = view s.
  Proof.
    intros t d r u s ops H. destruct (open_r_flags t d r u s H) as [Hp Hw].
    apply run_ro; assumption.
  Qed.

  Lemma r_refuses_steps : forall t d r u s o,
    open_mode empty MR t d r u = Opened s -> (forall c, o <> OClose c) ->
    snd (step empty o s) <> Ok.
  Proof.
    intros t d r u s o H Hc. destruct (open_r_flags t d r u s H) as [Hp Hw].
    destruct (step_ro o s Hp Hw) as [_ [_ [_ [_ Hs]]]].
    apply Hs. exact Hc.
  Qed.

  (** ** [discard_patch] returns to the last commit *)

  Definition pending (s s' : state) : Prop :=
    exists x, s' = mkstate (rest s) (x :: mine s) (hname s) true (patching s) false.

  Lemma write_pending : forall g (s s' : state), pending s s' -> pending s (fst (write g s')).
  Proof.
    intros g s s' [x E]. subst s'. unfold write. simpl. exists (set_pay g x). reflexivity.
  Qed.

  Lemma writes_pending : forall gs (s s' : state),
    pending s s' -> pending s (run empty (map (@OWrite P) gs) s').
  Proof.
    induction gs as [|g gs IH]; intros s s' H; simpl; [exact H|].
    apply IH. apply write_pending. exact H.
  Qed.

  Lemma discard_restores : forall u (s s1 : state) gs,
    create_patch empty u s = (s1, Ok) ->
    exists s3, discard_patch (run empty (map (@OWrite P) gs) s1) = (s3, Ok) /\
      view s3 = view s /\ dir_of s3 = dir_of s /\ writable s3 = false /\
      mine s3 = mine s /\ rest s3 = rest s.
  Proof.
    intros u s s1 gs H. unfold create_patch in H.
    destruct (closed s) eqn:Ec; [inversion H|].
    destruct (patching s) eqn:Ep; simpl in H; [|inversion H].
    destruct (writable s) eqn:Ew; [inversion H|].
    destruct (mine s) as [|l older] eqn:Em; [inversion H|].
    destruct (has_name (patch_filename (hname s) (fidx l + 1)) (dir_of s)); [inversion H|].
    inversion H; subst s1; clear H.
    assert (Hp : pending s (mkstate (rest s) (new_patch empty (patch_filename (hname s) (fidx l + 1)) l u :: l :: older)
                                    (hname s) true true false)).
    { exists (new_patch empty (patch_filename (hname s) (fidx l + 1)) l u). rewrite Em, Ep. reflexivity. }
    destruct (writes_pending gs _ _ Hp) as [x Ex]. rewrite Ex. rewrite Em, Ep.
    unfold discard_patch. simpl.
    eexists. split; [reflexivity|]. unfold view, dir_of. simpl. rewrite Em. repeat split; reflexivity.
  Qed.

  (** ** The explicit file list may be given in any order *)

  Lemma lookup_all_perm : forall l l' (d : list file), Permutation l l' ->
    match lookup_all l d, lookup_all l' d with
    | Some a, Some b => Permutation a b
    | None, None => True
    | _, _ => False
    end.
  Proof.
    intros l l' d Hp. induction Hp as [|x l l' Hp IH|x y l|l l' l'' Hp1 IH1 Hp2 IH2]; simpl.
    - constructor.
    - destruct (find (fun f => fname f =? x) d); [|exact I].
      destruct (lookup_all l d), (lookup_all l' d); auto.
    - destruct (find (fun f => fname f =? x) d), (find (fun f => fname f =? y) d),
        (lookup_all l d); auto. apply perm_swap.
    - destruct (lookup_all l d), (lookup_all l' d), (lookup_all l'' d); auto;
        try contradiction. eapply perm_trans; eassumption.
  Qed.

  Lemma open_perm : forall m l l' d r u, Permutation l l' ->
    open_mode empty m (ByList l) d r u = open_mode empty m (ByList l') d r u.
  Proof.
    intros m l l' d r u Hp.
    assert (Hf : filter (fun f : file => negb (mem_str (fname f) l)) d
               = filter (fun f : file => negb (mem_str (fname f) l')) d).
    { apply filter_ext. intros f. f_equal.
      destruct (mem_str (fname f) l) eqn:E1; destruct (mem_str (fname f) l') eqn:E2; auto.
      - apply mem_str_In in E1. eapply Permutation_in in E1; [|exact Hp].
        apply mem_str_In in E1. congruence.
      - apply mem_str_In in E2. eapply Permutation_in in E2; [|apply Permutation_sym; exact Hp].
        apply mem_str_In in E2. congruence. }
    pose proof (lookup_all_perm l l' d Hp) as Hl.
    unfold open_mode. destruct m; try reflexivity;
      (destruct l as [|a l0]; [apply Permutation_nil in Hp; subst l'; reflexivity|];
       destruct l' as [|a' l0']; [apply Permutation_sym, Permutation_nil in Hp; discriminate|];
       rewrite Hf;
       destruct (lookup_all (a :: l0) d), (lookup_all (a' :: l0') d); try contradiction;
       [apply open_existing_perm; exact Hl|reflexivity]).
  Qed.

  (** ** Well-formed handles, preserved by every step *)

  Definition wf (s : state) : Prop :=
    valid_name (hname s) = true /\ chain_ok (mine s) = true /\
    Forall (fun f => matches (hname s) (fname f) = true) (mine s) /\
    Forall (fun f => matches (hname s) (fname f) = false) (rest s) /\
    (writable s = false -> patching s = true -> closed s = false ->
     forall h t, mine s = h :: t -> fcommitted h = true).

  Lemma chain_ok_head_irrelevant : forall (h h' : file) t,
    frec h' = frec h -> fidx h' = fidx h -> fid h' = fid h -> fprev h' = fprev h ->
    chain_ok (h :: t) = true -> chain_ok (h' :: t) = true.
  Proof.
    intros h h' t E1 E2 E3 E4 H. unfold chain_ok in *. simpl map in *. rewrite E3.
    apply andb_true_iff in H. destruct H as [Hl Hn]. rewrite Hn, andb_true_r.
    destruct t as [|g t']; [simpl in *; rewrite E4; exact Hl|].
    rewrite chain_links_cons2 in *. rewrite E1, E2, E4. exact Hl.
  Qed.

  Lemma chain_ok_tail : forall (h g : file) t,
    chain_ok (h :: g :: t) = true -> chain_ok (g :: t) = true /\ fcommitted g = true.
  Proof.
    intros h g t H. unfold chain_ok in *. apply andb_true_iff in H. destruct H as [Hl Hn].
    rewrite chain_links_cons2 in Hl.
    apply andb_true_iff in Hl. destruct Hl as [Hl Ht].
    apply andb_true_iff in Hl. destruct Hl as [Hl _].
    apply andb_true_iff in Hl. destruct Hl as [Hl _].
    apply andb_true_iff in Hl. destruct Hl as [_ Hc].
    simpl map in Hn. cbn [nodup_N] in Hn. apply andb_true_iff in Hn. destruct Hn as [_ Hn].
    rewrite Ht. simpl map. cbn [nodup_N]. rewrite Hn. auto.
  Qed.

  Lemma existsb_N_In : forall x l, existsb (N.eqb x) l = true <-> In x l.
  Proof.
    intros x l. rewrite existsb_exists. split.
    - intros [y [Hin E]]. apply N.eqb_eq in E. subst. exact Hin.
    - intros Hin. exists x. split; [exact Hin|apply N.eqb_refl].
  Qed.

  Lemma wf_step : forall o (s : state),
    wf s ->
    (forall u, o = OCreatePatch u -> ~ In u (map fid (mine s))) ->
    wf (fst (step empty o s)).
  Proof.
    intros o s Hwf Hfresh. pose proof Hwf as [Hv [Hc [Hm [Hr Hi]]]].
    destruct o as [u| | |g|c]; simpl.
    - (* create_patch *)
      unfold create_patch.
      destruct (closed s) eqn:Ecl; [exact Hwf|].
      destruct (patching s) eqn:Ep; simpl; [|exact Hwf].
      destruct (writable s) eqn:Ew; [exact Hwf|].
      destruct (mine s) as [|l older] eqn:Em; [exact Hwf|].
      destruct (has_name (patch_filename (hname s) (fidx l + 1)) (dir_of s)); [exact Hwf|].
      unfold wf. simpl. split; [exact Hv|]. split; [|split; [|split; [exact Hr|discriminate]]].
      + unfold chain_ok in *. apply andb_true_iff in Hc. destruct Hc as [Hl Hn].
        rewrite chain_links_cons2.
        cbn [new_patch frec fidx fid fprev fcommitted opt_N_eqb map nodup_N existsb].
        rewrite !N.eqb_refl, Hl.
        rewrite (Hi eq_refl eq_refl eq_refl l older eq_refl).
        assert (Hlt : (fidx l <? fidx l + 1)%N = true) by (apply N.ltb_lt; lia). rewrite Hlt.
        cbn [map nodup_N] in Hn. rewrite Hn. cbn [andb].
        assert (Hf : ~ In u (map fid (l :: older))) by (apply (Hfresh u eq_refl)).
        cbn [map In] in Hf.
        destruct (u =? fid l)%N eqn:E1; [apply N.eqb_eq in E1; exfalso; apply Hf; left; congruence|].
        destruct (existsb (N.eqb u) (map fid older)) eqn:E2; [|reflexivity].
        apply existsb_N_In in E2. exfalso. apply Hf. right. exact E2.
      + constructor; [simpl; apply matches_patch; exact Hv|exact Hm].
    - (* commit *)
      unfold commit_patch.
      destruct (closed s) eqn:Ecl; [exact Hwf|].
      destruct (patching s) eqn:Ep; simpl; [|exact Hwf].
      destruct (writable s) eqn:Ew; simpl; [|exact Hwf].
      destruct (mine s) as [|l older] eqn:Em; [exact Hwf|].
      unfold wf. simpl. split; [exact Hv|]. split; [|split; [|split; [exact Hr|]]].
      + eapply chain_ok_head_irrelevant; [| | | |exact Hc]; reflexivity.
      + inversion Hm; subst. constructor; assumption.
      + intros _ _ _ h t E. inversion E. reflexivity.
    - (* discard *)
      unfold discard_patch.
      destruct (closed s) eqn:Ecl; [exact Hwf|].
      destruct (patching s) eqn:Ep; simpl; [|exact Hwf].
      destruct (writable s) eqn:Ew; simpl; [|exact Hwf].
      destruct (mine s) as [|l [|g older]] eqn:Em; try exact Hwf.
      destruct (chain_ok_tail _ _ _ Hc) as [Hc' Hg].
      unfold wf. simpl. split; [exact Hv|]. split; [exact Hc'|]. split; [inversion Hm; assumption|].
      split; [exact Hr|]. intros _ _ _ h t E. inversion E; subst. exact Hg.
    - (* write *)
      unfold write.
      destruct (closed s) eqn:Ecl; [exact Hwf|].
      destruct (writable s) eqn:Ew; simpl; [|exact Hwf].
      destruct (mine s) as [|l older] eqn:Em; [exact Hwf|].
      unfold wf. simpl. split; [exact Hv|]. split; [|split; [|split; [exact Hr|]]].
      + eapply chain_ok_head_irrelevant; [| | | |exact Hc]; reflexivity.
      + inversion Hm; subst. constructor; assumption.
      + discriminate.
    - (* close *)
      unfold close.
      destruct (closed s) eqn:Ecl; [exact Hwf|].
      destruct (writable s && c) eqn:Ewc.
      + apply andb_true_iff in Ewc. destruct Ewc as [Ew _].
        unfold commit_patch. rewrite Ecl, Ew.
        destruct (patching s) eqn:Ep; simpl; [|repeat split; try assumption; discriminate].
        destruct (mine s) as [|l older] eqn:Em; simpl; [repeat split; try assumption; try discriminate; rewrite Em; assumption|].
        unfold wf. simpl. split; [exact Hv|]. split; [|split; [|split; [exact Hr|discriminate]]].
        * eapply chain_ok_head_irrelevant; [| | | |exact Hc]; reflexivity.
        * inversion Hm; subst. constructor; assumption.
      + unfold wf. simpl. repeat split; try assumption. discriminate.
  Qed.

  Definition new_id (o : op P) : list N :=
    match o with OCreatePatch u => [u] | _ => [] end.

  Lemma step_ids : forall o (s : state),
    incl (map fid (mine (fst (step empty o s)))) (new_id o ++ map fid (mine s)).
  Proof.
    intros o s.
    assert (T1 : forall (a : N) l, incl l (a :: l)) by (intros; apply incl_tl, incl_refl).
    destruct o as [u| | |g|c]; simpl;
      unfold create_patch, commit_patch, discard_patch, write, close, commit_patch;
      destruct (closed s); simpl; try apply incl_refl; try apply T1;
      destruct (patching s); simpl; try apply incl_refl; try apply T1;
      destruct (writable s); simpl; try apply incl_refl; try apply T1;
      try (destruct c; simpl; try apply incl_refl);
      destruct (mine s) as [|l [|g' older]] eqn:Em; simpl; rewrite ?Em; simpl;
      try apply incl_refl; try apply T1;
      try (destruct (has_name _ _); simpl; rewrite ?Em; simpl; try apply incl_refl; try apply T1).
  Qed.

  (** Every reachable state is well-formed, provided the ids handed to [create_patch] are
      fresh (what [uuid1()] promises). *)
  Lemma wf_run : forall ops (s : state),
    wf s ->
    NoDup (flat_map new_id ops) ->
    (forall u, In u (flat_map new_id ops) -> ~ In u (map fid (mine s))) ->
    wf (run empty ops s).
  Proof.
    induction ops as [|o ops IH]; intros s Hwf Hnd Hfr; simpl; [exact Hwf|].
    simpl in Hnd, Hfr. apply IH.
    - apply wf_step; [exact Hwf|]. intros u E. subst o. apply Hfr. simpl. left. reflexivity.
    - destruct o; simpl in Hnd; try exact Hnd. inversion Hnd; assumption.
    - intros u Hu Hin. apply step_ids in Hin. apply in_app_or in Hin. destruct Hin as [Hin|Hin].
      + destruct o; simpl in Hin; try contradiction. destruct Hin as [E|[]]. subst u0.
        simpl in Hnd. inversion Hnd. contradiction.
      + apply (Hfr u); [apply in_or_app; right; exact Hu|exact Hin].
  Qed.

  (** ** Close and reopen: the same view *)

  Lemma filter_all_true : forall (f : file -> bool) l, Forall (fun x => f x = true) l -> filter f l = l.
  Proof.
    intros f l H. induction H as [|x l Hx _ IH]; simpl; [reflexivity|]. rewrite Hx, IH. reflexivity.
  Qed.

  Lemma filter_all_false : forall (f : file -> bool) l, Forall (fun x => f x = false) l -> filter f l = [].
  Proof.
    intros f l H. induction H as [|x l Hx _ IH]; simpl; [reflexivity|]. rewrite Hx, IH. reflexivity.
  Qed.

  (** What [close] leaves behind: the same files, the newest possibly committed. *)
  Lemma close_shape : forall c (s : state),
    let s1 := fst (close c s) in
    rest s1 = rest s /\ hname s1 = hname s /\
    map fpay (mine s1) = map fpay (mine s) /\ map fname (mine s1) = map fname (mine s) /\
    (chain_ok (mine s) = true -> chain_ok (mine s1) = true).
  Proof.
    intros c s. unfold close.
    destruct (closed s) eqn:Ecl; simpl; [repeat split; auto|].
    destruct (writable s && c) eqn:Ewc; simpl; [|repeat split; auto].
    apply andb_true_iff in Ewc. destruct Ewc as [Ew _].
    unfold commit_patch. rewrite Ecl, Ew.
    destruct (patching s); simpl; [|repeat split; auto].
    destruct (mine s) as [|l older] eqn:Em; simpl; rewrite ?Em; [repeat split; auto|].
    split; [reflexivity|]. split; [reflexivity|]. split; [reflexivity|]. split; [reflexivity|].
    intros Hc. eapply chain_ok_head_irrelevant; [| | | |exact Hc]; reflexivity.
  Qed.

  Lemma Forall_map_eq : forall (Q : string -> Prop) (l l' : list file),
    map fname l = map fname l' -> Forall (fun f => Q (fname f)) l -> Forall (fun f => Q (fname f)) l'.
  Proof.
    intros Q l. induction l as [|a l IH]; intros l' E H; destruct l' as [|a' l']; try discriminate; [constructor|].
    simpl in E. inversion E. inversion H; subst. constructor; [congruence|]. apply IH; assumption.
  Qed.

  Lemma reopen_view : forall (s : state) c r u,
    wf s ->
    exists s', open_mode empty MR (ByName (hname s)) (dir_of (fst (close c s))) r u = Opened s' /\
      view s' = view s /\ dir_of s' = dir_of (fst (close c s)) /\
      writable s' = false /\ patching s' = false.
  Proof.
    intros s c r u [Hv [Hc [Hm [Hr _]]]].
    destruct (close_shape c s) as [Er [Eh [Ep [En Hc']]]].
    set (s1 := fst (close c s)) in *. specialize (Hc' Hc).
    assert (Hm1 : Forall (fun f => matches (hname s) (fname f) = true) (mine s1)).
    { apply (Forall_map_eq (fun nm => matches (hname s) nm = true) (mine s) (mine s1)); [symmetry; exact En|exact Hm]. }
    assert (Hfo : files_of (hname s) (dir_of s1) = mine s1).
    { unfold files_of, dir_of. rewrite filter_app, Er.
      rewrite (filter_all_false _ _ Hr). simpl. apply filter_all_true. exact Hm1. }
    assert (Hot : others (hname s) (dir_of s1) = rest s).
    { unfold others, dir_of. rewrite filter_app, Er.
      rewrite (filter_all_true (fun f => negb (matches (hname s) (fname f))) (rest s)).
      - rewrite (filter_all_false (fun f => negb (matches (hname s) (fname f))) (mine s1)); [apply app_nil_r|].
        eapply Forall_impl; [|exact Hm1]. intros a Ha. simpl in Ha. rewrite Ha. reflexivity.
      - eapply Forall_impl; [|exact Hr]. intros a Ha. simpl in Ha. rewrite Ha. reflexivity. }
    cbn [open_mode is_a]. rewrite Hv. cbn [negb]. rewrite Hfo, Hot.
    destruct (mine s1) as [|nw ol] eqn:Em1; [discriminate|].
    unfold open_existing. cbn [is_r negb andb].
    rewrite (sort_fixed (nw :: ol) (chain_ok_sorted _ Hc')). rewrite Hc'.
    eexists. split; [reflexivity|]. unfold view, dir_of. simpl. rewrite Em1, Er.
    repeat split; auto.
  Qed.

  (** ** Reopening by explicit file list, in any order *)

  Lemma find_unique : forall (d : list file) f,
    NoDup (map fname d) -> In f d -> find (fun g => fname g =? fname f) d = Some f.
  Proof.
    induction d as [|a d IH]; intros f Hnd Hin; [contradiction|].
    simpl in Hnd. inversion Hnd as [|x l Hni Hnd']; subst. simpl.
    destruct (fname a =? fname f) eqn:E.
    - apply String.eqb_eq in E. destruct Hin as [Hin|Hin]; [subst; reflexivity|].
      exfalso. apply Hni. rewrite E. apply in_map. exact Hin.
    - destruct Hin as [Hin|Hin]; [subst; rewrite String.eqb_refl in E; discriminate|].
      apply IH; assumption.
  Qed.

  Lemma lookup_all_self : forall (d fs : list file),
    NoDup (map fname d) -> incl fs d -> lookup_all (map fname fs) d = Some fs.
  Proof.
    intros d fs Hnd. induction fs as [|f fs IH]; intros Hin; [reflexivity|].
    simpl. rewrite (find_unique d f Hnd (Hin f (or_introl eq_refl))).
    rewrite IH; [reflexivity|]. intros x Hx. apply Hin. right. exact Hx.
  Qed.

  Lemma reopen_view_list : forall (s : state) c r u l,
    wf s -> NoDup (map fname (dir_of s)) -> Permutation l (map fname (mine s)) ->
    exists s', open_mode empty MR (ByList l) (dir_of (fst (close c s))) r u = Opened s' /\
      view s' = view s /\ writable s' = false /\ patching s' = false.
  Proof.
    intros s c r u l [Hv [Hc [Hm [Hr _]]]] Hnd Hp.
    destruct (close_shape c s) as [Er [Eh [Ep [En Hc']]]].
    set (s1 := fst (close c s)) in *. specialize (Hc' Hc).
    rewrite (open_perm MR l (map fname (mine s1)) (dir_of s1) r u) by (rewrite En; exact Hp).
    assert (Hnd1 : NoDup (map fname (dir_of s1))).
    { unfold dir_of in *. rewrite map_app, Er, En, <- map_app. exact Hnd. }
    cbn [open_mode].
    destruct (mine s1) as [|nw ol] eqn:Em1; [discriminate|].
    rewrite <- Em1. rewrite (lookup_all_self (dir_of s1) (mine s1) Hnd1)
      by (unfold dir_of; apply incl_appr, incl_refl).
    rewrite Em1. cbn [map].
    unfold open_existing. cbn [is_r negb andb].
    rewrite (sort_fixed (nw :: ol) (chain_ok_sorted _ Hc')). rewrite Hc'.
    eexists. split; [reflexivity|]. unfold view. cbn [mine writable patching]. split; [exact Ep|split; reflexivity].
  Qed.

  (** ** Opening by name yields a well-formed handle *)

  Lemma files_of_nil_Forall : forall n (d : list file),
    files_of n d = [] -> Forall (fun f => matches n (fname f) = false) d.
  Proof.
    intros n d. unfold files_of. induction d as [|f d IH]; simpl; intros H; [constructor|].
    destruct (matches n (fname f)) eqn:E; [discriminate|]. constructor; [exact E|apply IH; exact H].
  Qed.

  Lemma others_Forall : forall n (d : list file),
    Forall (fun f => matches n (fname f) = false) (others n d).
  Proof.
    intros n d. apply Forall_forall. intros f Hin. unfold others in Hin. apply filter_In in Hin.
    destruct Hin as [_ H]. apply negb_true_iff in H. exact H.
  Qed.

  Lemma wf_created : forall n (d' : list file) r u,
    valid_name n = true -> Forall (fun f => matches n (fname f) = false) d' ->
    wf (mkstate d' [mkfile (base_filename n) r 0 u None false empty] (infer_name (base_filename n))
                true true false).
  Proof.
    intros n d' r u Hn Hd. unfold wf. simpl. rewrite (infer_base n Hn).
    split; [exact Hn|]. split; [reflexivity|]. split; [constructor; [apply matches_base; exact Hn|constructor]|].
    split; [exact Hd|discriminate].
  Qed.

  Lemma wf_create : forall n trunc (d : list file) r u s,
    valid_name n = true ->
    (has_name (base_filename n) d = true \/ files_of n d = []) ->
    create empty n trunc d r u = Opened s -> wf s /\ hname s = n.
  Proof.
    intros n trunc d r u s Hn Hcase H. unfold create in H. rewrite Hn in H. cbn [negb] in H.
    destruct (trunc && has_name (base_filename n) d) eqn:Et.
    - rewrite (has_name_others n (base_filename n) d (matches_base n Hn)) in H.
      inversion H; subst s. split; [apply wf_created; [exact Hn|apply others_Forall]|].
      simpl. apply infer_base. exact Hn.
    - destruct (has_name (base_filename n) d) eqn:Hb; [discriminate|].
      destruct Hcase as [Hc|Hc]; [discriminate|].
      inversion H; subst s. split; [apply wf_created; [exact Hn|apply files_of_nil_Forall; exact Hc]|].
      simpl. apply infer_base. exact Hn.
  Qed.

  Lemma create_patch_hname : forall u (s s' : state) o, create_patch empty u s = (s', o) -> hname s' = hname s.
  Proof.
    intros u s s' o H. unfold create_patch in H.
    destruct (closed s); [inversion H; reflexivity|].
    destruct (negb (patching s)); [inversion H; reflexivity|].
    destruct (writable s); [inversion H; reflexivity|].
    destruct (mine s) as [|l older]; [inversion H; reflexivity|].
    destruct (has_name _ _); inversion H; reflexivity.
  Qed.

  Lemma wf_open : forall m n (d : list file) r u s,
    valid_name n = true ->
    (has_name (base_filename n) d = true \/ files_of n d = []) ->
    Forall (fun f => matches n (fname f) = true -> infer_name (fname f) = n) d ->
    ~ In u (map fid (files_of n d)) ->
    open_mode empty m (ByName n) d r u = Opened s -> wf s /\ hname s = n.
  Proof.
    intros m n d r u s Hn Hcase Hstd Hfresh H.
    assert (Hex : forall m', open_existing empty m' (files_of n d) (others n d) d u = Opened s ->
                             files_of n d <> [] -> wf s /\ hname s = n).
    { clear H. intros m' H Hne. unfold open_existing in H.
      destruct (chain_ok (sort_desc (files_of n d))) eqn:Hc; [|discriminate].
      destruct (sort_desc (files_of n d)) as [|nw ol] eqn:Es; [discriminate|].
      assert (Hin : forall f, In f (nw :: ol) -> In f d /\ matches n (fname f) = true).
      { intros f Hf. rewrite <- Es in Hf. eapply Permutation_in in Hf; [|apply Permutation_sym, sort_perm].
        unfold files_of in Hf. apply filter_In in Hf. exact Hf. }
      assert (Hh : infer_name (fname (last (nw :: ol) nw)) = n).
      { destruct (Hin (last (nw :: ol) nw)) as [Hd Hmt]; [apply last_In; discriminate|].
        rewrite Forall_forall in Hstd. apply (Hstd _ Hd Hmt). }
      rewrite Hh in H.
      set (st := mkstate (others n d) (nw :: ol) n
                         (negb (is_r m') && negb (fcommitted nw)) (negb (is_r m')) false) in *.
      assert (Hwf : wf st).
      { unfold wf, st. simpl. split; [exact Hn|]. split; [exact Hc|].
        split; [apply Forall_forall; intros f Hf; apply (Hin f Hf)|].
        split; [apply others_Forall|].
        intros Hw Hp _ h t E. inversion E; subst h t. rewrite Hp in Hw. simpl in Hw.
        apply negb_false_iff in Hw. exact Hw. }
      destruct (negb (is_r m') && negb (negb (is_r m') && negb (fcommitted nw))).
      - destruct (create_patch empty u st) as [st' o] eqn:Ecp. destruct o; [|discriminate].
        inversion H; subst s. split.
        + change st' with (fst (st', Ok)). rewrite <- Ecp.
          apply (wf_step (OCreatePatch u) st Hwf). intros u0 E. inversion E; subst u0.
          unfold st. cbn [mine]. intros Hu. apply Hfresh.
          eapply Permutation_in; [|exact Hu]. apply Permutation_map. rewrite <- Es.
          apply Permutation_sym, sort_perm.
        + rewrite (create_patch_hname u st st' Ok Ecp). reflexivity.
      - inversion H; subst s. split; [exact Hwf|reflexivity]. }
    assert (Hre : forall m', (m' = MR \/ m' = MRp \/ m' = MA) ->
              (if negb (valid_name n) then Refused EValue d
               else match files_of n d with
                    | [] => if is_a m' then create empty n false d r u else Refused ENotFound d
                    | _ :: _ => open_existing empty m' (files_of n d) (others n d) d u
                    end) = Opened s -> wf s /\ hname s = n).
    { intros m' Hm' H'. rewrite Hn in H'. cbn [negb] in H'.
      destruct (files_of n d) as [|f fs] eqn:Ef.
      - destruct (is_a m'); [|discriminate].
        eapply wf_create; [exact Hn|right; exact Ef|exact H'].
      - apply (Hex m' H'). discriminate. }
    destruct m; cbn [open_mode] in H.
    - apply (Hre MR); [auto|]. destruct (files_of n d); exact H.
    - apply (Hre MRp); [auto|]. destruct (files_of n d); exact H.
    - apply (Hre MA); [auto|]. destruct (files_of n d); exact H.
    - eapply wf_create; eassumption.
    - eapply wf_create; eassumption.
    - eapply wf_create; eassumption.
  Qed.

  (** ** The 30 cells, one lemma per on-disk situation *)

  Lemma table_absent : forall n (d : list file) r u,
    valid_name n = true -> classify n d = SAbsent ->
    open_mode empty MR (ByName n) d r u = Refused ENotFound d /\
    open_mode empty MRp (ByName n) d r u = Refused ENotFound d /\
    open_mode empty MA (ByName n) d r u = Opened (created empty n d r u) /\
    open_mode empty MW (ByName n) d r u = Opened (created empty n d r u) /\
    open_mode empty MWm (ByName n) d r u = Opened (created empty n d r u) /\
    open_mode empty MX (ByName n) d r u = Opened (created empty n d r u).
  Proof.
    intros n d r u Hn Hc. apply open_absent; [exact Hn|apply classify_absent; exact Hc].
  Qed.

  (** Newest container uncommitted (base or patch): 'r+'/'a' continue it. *)
  Lemma table_uncommitted : forall n (d : list file) r u,
    valid_name n = true -> classify n d = SUBase \/ classify n d = SUPatch ->
    open_mode empty MR (ByName n) d r u = Opened (opened_ro n d) /\
    open_mode empty MRp (ByName n) d r u = Opened (opened_rw n d) /\
    open_mode empty MA (ByName n) d r u = Opened (opened_rw n d) /\
    open_mode empty MW (ByName n) d r u = Opened (created empty n (others n d) r u) /\
    open_mode empty MWm (ByName n) d r u = Refused EExists d /\
    open_mode empty MX (ByName n) d r u = Refused EExists d.
  Proof.
    intros n d r u Hn Hc.
    assert (Hx : exists nw ol, valid_sit n d nw ol /\ fcommitted nw = false).
    { destruct Hc as [Hc|Hc];
        destruct (classify_valid n d _ Hc) as [nw [ol [Hv Hs]]]; try discriminate;
        exists nw, ol; tauto. }
    destruct Hx as [nw [ol [Hv Hcm]]].
    destruct (open_valid n d nw ol r u Hn Hv) as [H1 [H2 [H3 [H4 H5]]]].
    rewrite Hcm in H2. cbn [negb] in H2.
    split; [exact H1|]. split; [apply H2; left; reflexivity|]. split; [apply H2; right; reflexivity|].
    split; [exact H3|]. split; [exact H4|exact H5].
  Qed.

  (** All containers committed (base alone or with patches): 'r+'/'a' put a new patch on top. *)
  Lemma table_committed : forall n (d : list file) r u,
    valid_name n = true -> classify n d = SCBase \/ classify n d = SPatched ->
    open_mode empty MR (ByName n) d r u = Opened (opened_ro n d) /\
    (next_patch_free n d = true ->
       open_mode empty MRp (ByName n) d r u = Opened (opened_new empty n d u) /\
       open_mode empty MA (ByName n) d r u = Opened (opened_new empty n d u)) /\
    open_mode empty MW (ByName n) d r u = Opened (created empty n (others n d) r u) /\
    open_mode empty MWm (ByName n) d r u = Refused EExists d /\
    open_mode empty MX (ByName n) d r u = Refused EExists d.
  Proof.
    intros n d r u Hn Hc.
    assert (Hx : exists nw ol, valid_sit n d nw ol /\ fcommitted nw = true).
    { destruct Hc as [Hc|Hc];
        destruct (classify_valid n d _ Hc) as [nw [ol [Hv Hs]]]; try discriminate;
        exists nw, ol; tauto. }
    destruct Hx as [nw [ol [Hv Hcm]]].
    destruct (open_valid n d nw ol r u Hn Hv) as [H1 [H2 [H3 [H4 H5]]]].
    rewrite Hcm in H2. cbn [negb] in H2.
    split; [exact H1|]. split; [|split; [exact H3|split; [exact H4|exact H5]]].
    intros Hf. rewrite Hf in H2. split; apply H2; [left|right]; reflexivity.
  Qed.

  (** What the table's states are, in terms of directory and view. *)
  Lemma table_states : forall n (d : list file) r u,
    Permutation d (dir_of (opened_ro n d)) /\ Permutation d (dir_of (opened_rw n d)) /\
    view (opened_rw n d) = view (opened_ro n d) /\
    view (opened_ro n d) = map fpay (sort_desc (files_of n d)) /\
    (sort_desc (files_of n d) <> [] ->
       view (opened_new empty n d u) = empty :: view (opened_ro n d) /\
       exists f, Permutation (f :: d) (dir_of (opened_new empty n d u)) /\ fcommitted f = false) /\
    dir_of (created empty n (others n d) r u) = (others n d ++ [fresh_base empty n r u])%list /\
    view (created empty n (others n d) r u) = [empty].
  Proof.
    intros n d r u. unfold opened_ro, opened_rw, opened_new, created, dir_of, view. simpl.
    split; [apply dir_perm|]. split; [apply dir_perm|]. split; [reflexivity|]. split; [reflexivity|].
    split; [|split; reflexivity].
    intros Hne. destruct (sort_desc (files_of n d)) as [|nw ol] eqn:Es; [contradiction|]. simpl.
    split; [reflexivity|].
    exists (new_patch empty (patch_filename n (fidx nw + 1)) nw u). split; [|reflexivity].
    eapply perm_trans; [apply perm_skip; apply (dir_perm n d)|]. rewrite Es.
    apply Permutation_cons_app. apply Permutation_refl.
  Qed.

End Proofs.
