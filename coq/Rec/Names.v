(** * Record names and container file names (property C03, shared model B).

    Transcribes, on Coq strings, the purely syntactic part of
    [metador_core/ih5/record.py]:

    - [_ALLOWED_NAME_CHARS = "A-Za-z0-9\-"], [_PATCH_INFIX = ".p"], [_FILE_EXT = ".ih5"];
    - [_is_valid_record_name]: the whole name is a non-empty run of alphabet characters.
      (The pinned code writes [re.match("^[..]+$", name)]; Python's [$] also matches in
      front of one trailing newline, so the pinned check accepts ["foo\n"].  That rule is
      kept as [valid_name_pinned]; the model's [valid_name] is the repaired full match.)
    - [_base_filename]: [NAME ++ ".ih5"];
    - [_next_patch_filepath]: [infer_name(base file) ++ ".p" ++ decimal index ++ ".ih5"];
    - [_infer_name]: [name.split(".ih5")[0].split(".p")[0]];
    - [find_files]: [glob(NAME ++ "*" ++ ".ih5")] filtered by
      [re.match("^" ++ NAME ++ "[^A-Za-z0-9\-]", file)];
    - [list_records]: for every file matching [glob("*.ih5")],
      [re.match("[A-Za-z0-9\-]+(?=[^A-Za-z0-9\-])", file)], the set of matched prefixes.

    A directory is represented by the list of its file names.  Definitions only. *)
From Coq Require Import List String Ascii NArith Bool.
From MV Require Import Base.Sx.
Import ListNotations.
Local Open Scope string_scope.

(** ** Alphabet *)

Definition name_char (c : ascii) : bool :=
  let n := N_of_ascii c in
  ((65 <=? n) && (n <=? 90) || (97 <=? n) && (n <=? 122) || (48 <=? n) && (n <=? 57)
   || (n =? 45))%N.

Fixpoint all_name (s : string) : bool :=
  match s with
  | EmptyString => true
  | String c r => name_char c && all_name r
  end.

(** [re.fullmatch("[A-Za-z0-9\-]+", name)] — the repaired check. *)
Definition valid_name (s : string) : bool :=
  match s with EmptyString => false | _ => all_name s end.

(** [re.match("^[A-Za-z0-9\-]+$", name)] — the pinned check: [$] tolerates one final
    newline (code 10). *)
Fixpoint strip_final_nl (s : string) : string :=
  match s with
  | EmptyString => EmptyString
  | String c EmptyString => if (N_of_ascii c =? 10)%N then EmptyString else s
  | String c r => String c (strip_final_nl r)
  end.

Definition valid_name_pinned (s : string) : bool := valid_name (strip_final_nl s).

(** ** File names *)

Definition file_ext : string := ".ih5".
Definition patch_infix : string := ".p".

Definition base_filename (n : string) : string := n ++ file_ext.

Definition patch_filename (n : string) (i : N) : string :=
  n ++ patch_infix ++ string_of_N i ++ file_ext.

(** [None]: the base container; [Some i]: the patch with index [i]. *)
Definition file_of (n : string) (k : option N) : string :=
  match k with None => base_filename n | Some i => patch_filename n i end.

(** [strip p s = Some r] iff [s = p ++ r]. *)
Fixpoint strip (p s : string) : option string :=
  match p with
  | EmptyString => Some s
  | String a p' =>
      match s with
      | EmptyString => None
      | String b s' => if Ascii.eqb a b then strip p' s' else None
      end
  end.

(** [s.split(sep)[0]]: the part in front of the first occurrence of [sep]. *)
Fixpoint before (sep s : string) : string :=
  match strip sep s with
  | Some _ => EmptyString
  | None =>
      match s with
      | EmptyString => EmptyString
      | String c r => String c (before sep r)
      end
  end.

Definition infer_name (fname : string) : string :=
  before patch_infix (before file_ext fname).

(** ** Matching *)

Fixpoint ends_with (sfx s : string) : bool :=
  String.eqb s sfx ||
  match s with
  | EmptyString => false
  | String _ r => ends_with sfx r
  end.

(** [fnmatch(file, NAME ++ "*.ih5")]: [file = NAME ++ anything ++ ".ih5"]. *)
Definition glob_ok (n f : string) : bool :=
  match strip n f with
  | Some r => ends_with file_ext r
  | None => false
  end.

(** [re.match("^NAME[^A-Za-z0-9\-]", file)]. *)
Definition regex_ok (n f : string) : bool :=
  match strip n f with
  | Some (String c _) => negb (name_char c)
  | _ => false
  end.

Definition matches (n f : string) : bool := glob_ok n f && regex_ok n f.

(** [find_files]: [None] stands for [ValueError("Invalid record name")]. *)
Definition find_files (n : string) (dir : list string) : option (list string) :=
  if valid_name n then Some (filter (matches n) dir) else None.

(** Longest prefix of alphabet characters. *)
Fixpoint name_prefix (s : string) : string :=
  match s with
  | EmptyString => EmptyString
  | String c r => if name_char c then String c (name_prefix r) else EmptyString
  end.

(** The record a file is attributed to by [list_records]: the file matches [*.ih5]; the
    greedy run [p] is non-empty; the look-ahead needs one more character, which by
    maximality of [p] is outside the alphabet (if the file name is exhausted, backtracking
    to a shorter run never helps: its next character is in the alphabet). *)
Definition record_of (f : string) : option string :=
  let p := name_prefix f in
  if ends_with file_ext f && negb (String.eqb p EmptyString)
     && Nat.ltb (String.length p) (String.length f)
  then Some p else None.

Fixpoint mem_str (x : string) (l : list string) : bool :=
  match l with
  | [] => false
  | y :: r => String.eqb x y || mem_str x r
  end.

Fixpoint dedup (l : list string) : list string :=
  match l with
  | [] => []
  | x :: r => if mem_str x r then dedup r else x :: dedup r
  end.

Fixpoint filter_some {X : Type} (l : list (option X)) : list X :=
  match l with
  | [] => []
  | Some x :: r => x :: filter_some r
  | None :: r => filter_some r
  end.

(** [list_records]: a set, here a duplicate-free list in directory order. *)
Definition list_records (dir : list string) : list string :=
  dedup (filter_some (map record_of dir)).

(** ** Runner entry (names part of [run_c03]) *)

Definition run_names (c : sx) : sx :=
  match c with
  | L [A "valid"; A s] => L [of_bool (valid_name s); of_bool (valid_name_pinned s)]
  | L [A "fname"; A n; k] =>
      match sx_opt sx_N k with
      | Some k' => A (file_of n k')
      | None => sx_bad "fname"
      end
  | L [A "infer"; A f] => A (infer_name f)
  | L [A "find"; A n; fs] =>
      match sx_strings fs with
      | Some dir => of_opt of_strings (find_files n dir)
      | None => sx_bad "find"
      end
  | L [A "list"; fs] =>
      match sx_strings fs with
      | Some dir => of_strings (list_records dir)
      | None => sx_bad "list"
      end
  | _ => sx_bad "names"
  end.
