(** Proofs about [Rec/Frozen.v]: committed containers and their sidecars are never
    modified again; a snapshot taken at a commit stays a valid record. *)
From Coq Require Import List String Ascii NArith Bool Arith Lia Permutation.
From MV Require Import Base.Sx Rec.Names Rec.NamesProofs Rec.Modes Rec.ModesProofs Rec.Frozen.
Import ListNotations.
Local Open Scope string_scope.

(** ** Sidecar table *)

Lemma side_of_set_same : forall nm m sd, side_of nm (set_side nm m sd) = Some m.
Proof. intros. unfold set_side. simpl. rewrite String.eqb_refl. reflexivity. Qed.

Lemma side_of_filter_other : forall nm nm' sd, nm' <> nm ->
  side_of nm' (filter (fun km : string * N => negb (String.eqb (fst km) nm)) sd) = side_of nm' sd.
Proof.
  intros nm nm' sd Hne. induction sd as [|[k m] sd IH]; simpl; [reflexivity|].
  destruct (String.eqb k nm) eqn:E; simpl.
  - apply String.eqb_eq in E. subst k.
    destruct (String.eqb nm nm') eqn:E2; [apply String.eqb_eq in E2; congruence|exact IH].
  - destruct (String.eqb k nm'); [reflexivity|exact IH].
Qed.

Lemma side_of_set_other : forall nm nm' m sd, nm' <> nm ->
  side_of nm' (set_side nm m sd) = side_of nm' sd.
Proof.
  intros nm nm' m sd Hne. unfold set_side. simpl.
  destruct (String.eqb nm nm') eqn:E; [apply String.eqb_eq in E; congruence|].
  apply side_of_filter_other. exact Hne.
Qed.

Section Proofs.
  Context {P : Type}.
  Variable empty : P.
  Variable mergepay : list P -> P.
  Notation cont := (@cont P).
  Notation cfile := (file cont).
  Notation cstate := (state cont).
  Notation world := (world P).
  Notation handle := (handle P).
  Notation fop := (fop P).
  Notation step := (step empty mergepay).
  Notation run := (run empty mergepay).
  Notation cempty := (cempty empty).

  (** ** Directories with pairwise distinct file names *)

  Definition names (d : list cfile) : list string := map fname d.

  Lemma has_name_false : forall nm (d : list cfile), has_name nm d = false -> ~ In nm (names d).
  Proof.
    intros nm d H Hin. unfold names in Hin. apply in_map_iff in Hin. destruct Hin as [f [Hf Hin]].
    assert (has_name nm d = true) by (apply has_name_In; exists f; auto). congruence.
  Qed.

  Lemma has_name_true : forall (f : cfile) d, In f d -> has_name (fname f) d = true.
  Proof. intros f d H. apply has_name_In. exists f. auto. Qed.

  Lemma names_inj : forall (d : list cfile) f g,
    NoDup (names d) -> In f d -> In g d -> fname f = fname g -> f = g.
  Proof.
    induction d as [|a d IH]; intros f g Hnd Hf Hg E; [contradiction|].
    unfold names in Hnd. simpl in Hnd. inversion Hnd as [|x l Hni Hnd']; subst.
    destruct Hf as [Hf|Hf], Hg as [Hg|Hg].
    - congruence.
    - subst a. exfalso. apply Hni. rewrite E. apply in_map. exact Hg.
    - subst a. exfalso. apply Hni. rewrite <- E. apply in_map. exact Hf.
    - apply IH; assumption.
  Qed.

  Lemma file_at_In : forall (d : list cfile) f,
    NoDup (names d) -> In f d -> file_at (fname f) d = Some f.
  Proof. intros d f Hnd Hin. unfold file_at. apply find_unique; assumption. Qed.

  Lemma file_at_Some : forall nm (d : list cfile) f, file_at nm d = Some f -> In f d /\ fname f = nm.
  Proof.
    intros nm d f H. unfold file_at in H. apply find_some in H. destruct H as [Hin E].
    apply String.eqb_eq in E. auto.
  Qed.

  Lemma NoDup_names_filter : forall (p : cfile -> bool) d, NoDup (names d) -> NoDup (names (filter p d)).
  Proof.
    intros p d. unfold names. induction d as [|a d IH]; simpl; intros H; [constructor|].
    inversion H as [|x l Hni Hnd]; subst. destruct (p a); simpl; [|apply IH; exact Hnd].
    constructor; [|apply IH; exact Hnd].
    intros Hin. apply Hni. apply in_map_iff in Hin. destruct Hin as [g [Eg Hg]].
    apply filter_In in Hg. destruct Hg as [Hg _]. rewrite <- Eg. apply in_map. exact Hg.
  Qed.

  Lemma NoDup_names_snoc : forall (d : list cfile) x,
    NoDup (names d) -> has_name (fname x) d = false -> NoDup (names (d ++ [x])).
  Proof.
    intros d x Hnd Hn. unfold names. rewrite map_app. simpl.
    eapply Permutation_NoDup; [apply Permutation_cons_append|].
    constructor; [apply has_name_false; exact Hn|exact Hnd].
  Qed.

  Lemma NoDup_names_perm : forall (d d' : list cfile), Permutation d d' -> NoDup (names d) -> NoDup (names d').
  Proof. intros d d' Hp H. eapply Permutation_NoDup; [apply Permutation_map; exact Hp|exact H]. Qed.

  Lemma NoDup_names_NoDup : forall d : list cfile, NoDup (names d) -> NoDup d.
  Proof. intros d H. eapply NoDup_map_inv. exact H. Qed.

  (** ** What one step of a handle does to its files *)

  (** A pending ("writable") patch is the newest file of the handle and is uncommitted. *)
  Definition hinv (s : cstate) : Prop :=
    writable s = true -> exists l older, mine s = l :: older /\ fcommitted l = false.

  Inductive hstep (s s' : cstate) : Prop :=
  | hs_flags : rest s' = rest s -> mine s' = mine s -> (writable s' = true -> writable s = true) ->
      hstep s s'
  | hs_push : forall x, rest s' = rest s -> mine s' = x :: mine s -> fcommitted x = false ->
      has_name (fname x) (dir_of s) = false -> hstep s s'
  | hs_head : forall l l' older, writable s = true -> mine s = l :: older -> rest s' = rest s ->
      mine s' = l' :: older -> fname l' = fname l -> (writable s' = true -> fcommitted l' = false) ->
      hstep s s'
  | hs_pop : forall l older, writable s = true -> mine s = l :: older -> rest s' = rest s ->
      mine s' = older -> writable s' = false -> hstep s s'.

  Lemma hstep_refl : forall s, hstep s s.
  Proof. intros s. apply hs_flags; auto. Qed.

  Lemma hstep_hinv : forall s s', hinv s -> hstep s s' -> hinv s'.
  Proof.
    intros s s' Hi H. unfold hinv in *. destruct H as [Hr Hm Hw|x Hr Hm Hx Hn|l l' older Hw Hm Hr Hm' Hn Hc|l older Hw Hm Hr Hm' Hw'].
    - intros W. rewrite Hm. apply Hi. apply Hw. exact W.
    - intros _. exists x, (mine s). auto.
    - intros W. exists l', older. auto.
    - intros W. congruence.
  Qed.

  Lemma head_uncommitted : forall s l older, hinv s -> writable s = true -> mine s = l :: older -> fcommitted l = false.
  Proof. intros s l older Hi Hw Hm. destruct (Hi Hw) as [l0 [o0 [E Hc]]]. rewrite Hm in E. inversion E; subst. exact Hc. Qed.

  Lemma hstep_nodup : forall s s', hinv s -> hstep s s' -> NoDup (names (dir_of s)) -> NoDup (names (dir_of s')).
  Proof.
    intros s s' Hi H Hnd. unfold dir_of, names in *.
    destruct H as [Hr Hm Hw|x Hr Hm Hx Hn|l l' older Hw Hm Hr Hm' Hn Hc|l older Hw Hm Hr Hm' Hw'].
    - rewrite Hr, Hm. exact Hnd.
    - rewrite Hr, Hm. rewrite map_app. simpl.
      eapply Permutation_NoDup; [apply Permutation_middle|]. rewrite <- map_app.
      constructor; [apply has_name_false; exact Hn|exact Hnd].
    - rewrite Hr, Hm'. rewrite Hm in Hnd. rewrite map_app in *. simpl in *. rewrite Hn. exact Hnd.
    - rewrite Hr, Hm'. rewrite Hm in Hnd. rewrite map_app in *. simpl in Hnd.
      eapply NoDup_remove_1. exact Hnd.
  Qed.

  Lemma hstep_keeps : forall s s' f, hinv s -> hstep s s' ->
    In f (dir_of s) -> fcommitted f = true -> In f (dir_of s').
  Proof.
    intros s s' f Hi H Hin Hc. unfold dir_of in *.
    destruct H as [Hr Hm Hw|x Hr Hm Hx Hn|l l' older Hw Hm Hr Hm' Hn Hc'|l older Hw Hm Hr Hm' Hw'].
    - rewrite Hr, Hm. exact Hin.
    - rewrite Hr, Hm. apply in_app_or in Hin. apply in_or_app. destruct Hin; [left|right; right]; assumption.
    - pose proof (head_uncommitted s l older Hi Hw Hm) as Hl.
      rewrite Hr, Hm'. rewrite Hm in Hin. apply in_app_or in Hin. apply in_or_app.
      destruct Hin as [Hin|[Hin|Hin]]; [left; exact Hin|subst; congruence|right; right; exact Hin].
    - pose proof (head_uncommitted s l older Hi Hw Hm) as Hl.
      rewrite Hr, Hm'. rewrite Hm in Hin. apply in_app_or in Hin. apply in_or_app.
      destruct Hin as [Hin|[Hin|Hin]]; [left; exact Hin|subst; congruence|right; exact Hin].
  Qed.

  (** The five steps of [Modes.v]. *)

  Lemma create_patch_hstep : forall u (s : cstate), hstep s (fst (create_patch cempty u s)).
  Proof.
    intros u s. unfold create_patch.
    destruct (closed s); [apply hstep_refl|].
    destruct (negb (patching s)); [apply hstep_refl|].
    destruct (writable s); [apply hstep_refl|].
    destruct (mine s) as [|l older] eqn:Em; [apply hstep_refl|].
    destruct (has_name _ (dir_of s)) eqn:Eh; [apply hstep_refl|].
    apply (hs_push _ _ (new_patch cempty (patch_filename (hname s) (fidx l + 1)) l u)).
    - reflexivity.
    - cbn [fst mine]. rewrite Em. reflexivity.
    - reflexivity.
    - exact Eh.
  Qed.

  Lemma commit_patch_hstep : forall (s : cstate), hstep s (fst (commit_patch s)).
  Proof.
    intros s. unfold commit_patch.
    destruct (closed s); [apply hstep_refl|].
    destruct (negb (patching s)); [apply hstep_refl|].
    destruct (writable s) eqn:Ew; simpl; [|apply hstep_refl].
    destruct (mine s) as [|l older] eqn:Em; [apply hstep_refl|].
    simpl. eapply hs_head; simpl; eauto; try discriminate.
  Qed.

  Lemma discard_patch_hstep : forall (s : cstate), hstep s (fst (discard_patch s)).
  Proof.
    intros s. unfold discard_patch.
    destruct (closed s); [apply hstep_refl|].
    destruct (negb (patching s)); [apply hstep_refl|].
    destruct (writable s) eqn:Ew; simpl; [|apply hstep_refl].
    destruct (mine s) as [|l [|g older]] eqn:Em; try apply hstep_refl.
    simpl. eapply hs_pop; simpl; eauto.
  Qed.

  Lemma write_hstep : forall g (s : cstate), hinv s -> hstep s (fst (write g s)).
  Proof.
    intros g s Hi. unfold write.
    destruct (closed s); [apply hstep_refl|].
    destruct (writable s) eqn:Ew; simpl; [|apply hstep_refl].
    destruct (mine s) as [|l older] eqn:Em; [apply hstep_refl|].
    simpl. eapply hs_head; simpl; eauto. intros _. apply (head_uncommitted s l older Hi Ew Em).
  Qed.

  Lemma close_false_hstep : forall (s : cstate), hstep s (fst (close false s)).
  Proof.
    intros s. unfold close. destruct (closed s); [apply hstep_refl|].
    rewrite andb_false_r. simpl. apply hs_flags; simpl; auto. discriminate.
  Qed.

  (** When [commit_patch] accepts. *)
  Lemma commit_ok_inv : forall (s s' : cstate), commit_patch s = (s', Ok) ->
    closed s = false /\ patching s = true /\ writable s = true /\
    exists l older, mine s = l :: older /\
      s' = mkstate (rest s) (set_committed l :: older) (hname s) false (patching s) (closed s).
  Proof.
    intros s s' H. unfold commit_patch in H.
    destruct (closed s) eqn:Ec; [inversion H|].
    destruct (patching s) eqn:Ep; simpl in H; [|inversion H].
    destruct (writable s) eqn:Ew; simpl in H; [|inversion H].
    destruct (mine s) as [|l older] eqn:Em; [inversion H|].
    inversion H. repeat split; auto. exists l, older. auto.
  Qed.

  (** The manifest-aware commit: extension set, then committed — one rewrite of the head. *)
  Lemma mf_commit_state : forall m (s s' : cstate), commit_patch s = (s', Ok) ->
    exists l older, mine s = l :: older /\ writable s = true /\
      fst (commit_patch (fst (write (set_ext m) s))) =
        mkstate (rest s) (set_committed (set_pay (set_ext m) l) :: older) (hname s) false (patching s) (closed s).
  Proof.
    intros m s s' H. destruct (commit_ok_inv s s' H) as [Ec [Ep [Ew [l [older [Em _]]]]]].
    exists l, older. split; [exact Em|]. split; [exact Ew|].
    unfold write. rewrite Ec, Ew, Em. simpl. unfold commit_patch. simpl. rewrite Ep. simpl. reflexivity.
  Qed.

  (** ** Worlds *)

  Definition good (w : world) : Prop :=
    NoDup (names (wdir w)) /\ NoDup (names (other w)) /\
    match here w with POpen h => hinv (hs h) | PDir _ => True end.

  (** What a step (or a run) keeps, for the committed files whose name satisfies [K], and
      for everything in the other directory: the file itself (name and all content) and its
      sidecar. *)
  Definition frel (K : string -> Prop) (w w' : world) : Prop :=
    (forall f, In f (wdir w) -> fcommitted f = true -> K (fname f) ->
       In f (wdir w') /\ side_of (fname f) (hsides w') = side_of (fname f) (hsides w)) /\
    (forall f, In f (other w) ->
       In f (other w') /\ side_of (fname f) (osides w') = side_of (fname f) (osides w)).

  Lemma frel_refl : forall K w, frel K w w.
  Proof. intros K w. split; intros; auto. Qed.

  Lemma frel_trans : forall K w1 w2 w3, frel K w1 w2 -> frel K w2 w3 -> frel K w1 w3.
  Proof.
    intros K w1 w2 w3 [A1 B1] [A2 B2]. split.
    - intros f Hin Hc Hk. destruct (A1 f Hin Hc Hk) as [Hin2 E2].
      destruct (A2 f Hin2 Hc Hk) as [Hin3 E3]. split; [exact Hin3|congruence].
    - intros f Hin. destruct (B1 f Hin) as [Hin2 E2]. destruct (B2 f Hin2) as [Hin3 E3].
      split; [exact Hin3|congruence].
  Qed.

  Lemma frel_weaken : forall (K K' : string -> Prop) w w',
    (forall nm, K' nm -> K nm) -> frel K w w' -> frel K' w w'.
  Proof. intros K K' w w' Hk [A B]. split; [intros f Hin Hc Hk'; apply A; auto|exact B]. Qed.

  Lemma frel_same : forall K w w', wdir w' = wdir w -> hsides w' = hsides w ->
    other w' = other w -> osides w' = osides w -> frel K w w'.
  Proof. intros K w w' E1 E2 E3 E4. split; intros; rewrite ?E1, ?E2, ?E3, ?E4; auto. Qed.

  (** A handle step, possibly together with sidecar writes that concern no committed file. *)
  Lemma handle_update : forall K w h h' sd',
    good w -> here w = POpen h -> hstep (hs h) (hs h') ->
    (forall f, In f (dir_of (hs h)) -> fcommitted f = true -> side_of (fname f) sd' = side_of (fname f) (hsides w)) ->
    let w' := mkworld (POpen h') sd' (other w) (osides w) in
    good w' /\ frel K w w'.
  Proof.
    intros K w h h' sd' [Hnd [Hno Hi]] Hh Hst Hsd w'. rewrite Hh in Hi.
    assert (Ed : wdir w = dir_of (hs h)) by (unfold wdir; rewrite Hh; reflexivity).
    rewrite Ed in Hnd. split.
    - unfold good, w', wdir. simpl. split; [eapply hstep_nodup; eauto|]. split; [exact Hno|].
      eapply hstep_hinv; eauto.
    - split.
      + intros f Hin Hc _. rewrite Ed in Hin. unfold w', wdir. simpl. split.
        * eapply hstep_keeps; eauto.
        * apply Hsd; assumption.
      + intros f Hin. unfold w'. simpl. auto.
  Qed.

  Lemma put_spec : forall K w h s', good w -> here w = POpen h -> hstep (hs h) s' ->
    good (put w h s') /\ frel K w (put w h s').
  Proof.
    intros K w h s' Hg Hh Hst. unfold put.
    apply (handle_update K w h (mkhandle s' (hmf h) (hman h)) (hsides w) Hg Hh Hst). auto.
  Qed.

  Lemma do_commit_spec : forall K m w h, good w -> here w = POpen h ->
    let w' := fst (do_commit m w h) in
    good w' /\ frel K w w' /\ exists h', here w' = POpen h'.
  Proof.
    intros K m w h Hg Hh. unfold do_commit.
    destruct (hmf h) eqn:Emf.
    - destruct (commit_patch (hs h)) as [s' [|e]] eqn:Ec; simpl.
      + destruct (mf_commit_state m (hs h) s' Ec) as [l [older [Em [Ew Es2]]]].
        rewrite Em. simpl.
        pose proof Hg as [Hnd [_ Hi]]. rewrite Hh in Hi.
        assert (Ed : wdir w = dir_of (hs h)) by (unfold wdir; rewrite Hh; reflexivity). rewrite Ed in Hnd.
        pose proof (head_uncommitted (hs h) l older Hi Ew Em) as Hl.
        split; [|split; [|eexists; reflexivity]];
          apply (handle_update K w h (mkhandle _ true (Some m)) (set_side (fname l) m (hsides w)) Hg Hh).
        1,3: simpl; rewrite Es2; eapply hs_head; simpl; eauto; discriminate.
        all: intros f Hin Hc; apply side_of_set_other; intros E;
          assert (f = l) by (apply (names_inj (dir_of (hs h))); auto; unfold dir_of; rewrite Em;
                             apply in_or_app; right; left; reflexivity);
          subst f; congruence.
      + split; [exact Hg|]. split; [apply frel_refl|]. exists h. exact Hh.
    - unfold via. simpl.
      destruct (put_spec K w h (fst (commit_patch (hs h))) Hg Hh (commit_patch_hstep (hs h))) as [A B].
      split; [exact A|]. split; [exact B|]. eexists. reflexivity.
  Qed.

  Lemma do_close_spec : forall K c m w h, good w -> here w = POpen h ->
    let w' := fst (do_close c m w h) in good w' /\ frel K w w'.
  Proof.
    intros K c m w h Hg Hh. unfold do_close.
    destruct (closed (hs h)); simpl; [split; [exact Hg|apply frel_refl]|].
    set (w1 := if writable (hs h) && c then fst (do_commit m w h) else w).
    assert (H1 : good w1 /\ frel K w w1 /\ exists h1, here w1 = POpen h1).
    { unfold w1. destruct (writable (hs h) && c).
      - apply do_commit_spec; assumption.
      - split; [exact Hg|]. split; [apply frel_refl|]. exists h. exact Hh. }
    destruct H1 as [Hg1 [Hf1 [h1 Hh1]]]. rewrite Hh1. unfold via. simpl.
    destruct (put_spec K w1 h1 (fst (close false (hs h1))) Hg1 Hh1 (close_false_hstep (hs h1))) as [A B].
    split; [exact A|]. eapply frel_trans; eassumption.
  Qed.

  Lemma do_merge_spec : forall K ew t m w h, good w -> here w = POpen h ->
    let w' := fst (do_merge mergepay ew t m w h) in good w' /\ frel K w w'.
  Proof.
    intros K ew t m w h Hg Hh. unfold do_merge.
    assert (Hsame : good w /\ frel K w w) by (split; [exact Hg|apply frel_refl]).
    destruct (closed (hs h)); [exact Hsame|].
    destruct (hmf h && existsb fstub (mine (hs h))); [exact Hsame|].
    destruct (writable (hs h)) eqn:Ew; [exact Hsame|].
    destruct (negb (valid_name t)); [exact Hsame|].
    destruct (mine (hs h)) as [|nw older] eqn:Em; [exact Hsame|].
    pose proof Hg as [Hnd [Hno Hi]]. rewrite Hh in Hi.
    assert (Ed : wdir w = dir_of (hs h)) by (unfold wdir; rewrite Hh; reflexivity).
    destruct ew.
    - destruct (has_name (base_filename t) (other w)) eqn:Eh; [exact Hsame|]. simpl.
      split.
      + unfold good, wdir. simpl. rewrite Hh. split; [rewrite <- Ed; exact Hnd|].
        split; [apply NoDup_names_snoc; [exact Hno|exact Eh]|exact Hi].
      + split.
        * intros f Hin Hc _. unfold wdir. simpl. rewrite Hh. rewrite Ed in Hin. auto.
        * intros f Hin. simpl. split; [apply in_or_app; left; exact Hin|].
          destruct (hmf h); [|reflexivity]. apply side_of_set_other. intros E.
          apply (has_name_false _ _ Eh). unfold names. rewrite <- E. apply in_map. exact Hin.
    - destruct (has_name (base_filename t) (dir_of (hs h))) eqn:Eh; [exact Hsame|]. simpl.
      set (f0 := merged_file mergepay t (hs h) nw).
      assert (Hnd' : NoDup (names ((rest (hs h) ++ [f0]) ++ mine (hs h)))).
      { rewrite <- app_assoc. simpl.
        eapply NoDup_names_perm; [apply Permutation_middle|].
        unfold names. simpl. constructor; [apply has_name_false; exact Eh|].
        rewrite Ed in Hnd. exact Hnd. }
      split.
      + unfold good, wdir, dir_of. simpl. split; [rewrite <- Em; exact Hnd'|]. split; [exact Hno|].
        unfold hinv. simpl. intros W. congruence.
      + split.
        * intros f Hin Hc _. rewrite Ed in Hin. unfold wdir. simpl. split.
          -- unfold dir_of in *. simpl. rewrite <- app_assoc. apply in_app_or in Hin. apply in_or_app.
             destruct Hin as [Hin|Hin]; [left; assumption|right; right; rewrite <- Em; assumption].
          -- destruct (hmf h); [|reflexivity]. apply side_of_set_other. intros E.
             apply (has_name_false _ _ Eh). unfold names. rewrite <- E. apply in_map. exact Hin.
        * intros f Hin. simpl. auto.
  Qed.

  (** ** Opening *)

  Lemma nodup_N_NoDup : forall l, nodup_N l = true -> NoDup l.
  Proof.
    induction l as [|x l IH]; intros H; [constructor|].
    simpl in H. apply andb_true_iff in H. destruct H as [H1 H2]. constructor; [|apply IH; exact H2].
    intros Hin. apply existsb_N_In in Hin. rewrite Hin in H1. discriminate.
  Qed.

  Lemma chain_ok_NoDup : forall l : list cfile, chain_ok l = true -> NoDup l.
  Proof.
    intros l H. unfold chain_ok in H. apply andb_true_iff in H. destruct H as [_ H].
    apply nodup_N_NoDup in H. eapply NoDup_map_inv. exact H.
  Qed.

  Lemma filter_partition_perm : forall (p : cfile -> bool) d,
    Permutation d (filter (fun f => negb (p f)) d ++ filter p d).
  Proof.
    intros p d. induction d as [|a d IH]; simpl; [constructor|].
    destruct (p a); simpl; [apply Permutation_cons_app; exact IH|apply perm_skip; exact IH].
  Qed.

  Lemma lookup_all_In : forall l (d sel : list cfile), lookup_all l d = Some sel ->
    forall g, In g sel -> In g d /\ In (fname g) l.
  Proof.
    induction l as [|nm l IH]; intros d sel H g Hg; simpl in H.
    - inversion H; subst. contradiction.
    - destruct (find (fun f : cfile => fname f =? nm) d) as [f|] eqn:Ef; [|discriminate].
      destruct (lookup_all l d) as [fs|] eqn:El; [|discriminate].
      inversion H; subst. destruct Hg as [Hg|Hg].
      + subst g. apply find_some in Ef. destruct Ef as [Hin E]. apply String.eqb_eq in E.
        split; [exact Hin|left; auto].
      + destruct (IH d fs El g Hg). split; [assumption|right; assumption].
  Qed.

  Lemma lookup_all_complete : forall l (d sel : list cfile), NoDup (names d) ->
    lookup_all l d = Some sel -> forall f, In f d -> In (fname f) l -> In f sel.
  Proof.
    induction l as [|nm l IH]; intros d sel Hnd H f Hf Hl; [contradiction|]. simpl in H.
    destruct (find (fun f : cfile => fname f =? nm) d) as [g|] eqn:Eg; [|discriminate].
    destruct (lookup_all l d) as [fs|] eqn:El; [|discriminate].
    inversion H; subst. destruct Hl as [Hl|Hl].
    - subst nm. rewrite (find_unique d f Hnd Hf) in Eg. inversion Eg. left. reflexivity.
    - right. eapply IH; eauto.
  Qed.

  Lemma list_sel_perm : forall l (d sel : list cfile), NoDup (names d) ->
    lookup_all l d = Some sel -> NoDup sel ->
    Permutation d (filter (fun f => negb (mem_str (fname f) l)) d ++ sel).
  Proof.
    intros l d sel Hnd Hl Hs.
    eapply perm_trans; [apply (filter_partition_perm (fun f => mem_str (fname f) l))|].
    apply Permutation_app_head. apply NoDup_Permutation.
    - apply NoDup_filter. apply NoDup_names_NoDup. exact Hnd.
    - exact Hs.
    - intros f. rewrite filter_In. split.
      + intros [Hin Hm]. apply mem_str_In in Hm. eapply lookup_all_complete; eauto.
      + intros Hin. destruct (lookup_all_In _ _ _ Hl f Hin). split; [assumption|apply mem_str_In; assumption].
  Qed.

  (** A successful non-creating open leaves the directory as it is or adds one new file. *)
  Definition opened_ok (d : list cfile) (s : cstate) : Prop :=
    hinv s /\ (Permutation (dir_of s) d \/
              exists x, Permutation (dir_of s) (x :: d) /\ has_name (fname x) d = false).

  Lemma create_patch_cases : forall u (s : cstate),
    let s' := fst (create_patch cempty u s) in
    s' = s \/ exists x, rest s' = rest s /\ mine s' = x :: mine s /\ fcommitted x = false /\
                       has_name (fname x) (dir_of s) = false.
  Proof.
    intros u s. unfold create_patch.
    destruct (closed s); [left; reflexivity|].
    destruct (negb (patching s)); [left; reflexivity|].
    destruct (writable s); [left; reflexivity|].
    destruct (mine s) as [|l older] eqn:Em; [left; reflexivity|].
    destruct (has_name _ (dir_of s)) eqn:Eh; [left; reflexivity|].
    right. exists (new_patch cempty (patch_filename (hname s) (fidx l + 1)) l u).
    cbn [fst rest mine]. split; [reflexivity|]. split; [reflexivity|]. split; [reflexivity|exact Eh].
  Qed.

  Lemma open_existing_spec : forall m sel oth (d : list cfile) u s,
    (chain_ok (sort_desc sel) = true -> Permutation d (oth ++ sel)) ->
    open_existing cempty m sel oth d u = Opened s -> opened_ok d s.
  Proof.
    intros m sel oth d u s Hp H. unfold open_existing in H.
    destruct (chain_ok (sort_desc sel)) eqn:Hc; [|discriminate]. specialize (Hp eq_refl).
    destruct (sort_desc sel) as [|nw ol] eqn:Es; [discriminate|].
    remember (mkstate oth (nw :: ol) (infer_name (fname (last (nw :: ol) nw)))
                      (negb (is_r m) && negb (fcommitted nw)) (negb (is_r m)) false) as st eqn:Est.
    assert (Hd : Permutation (dir_of st) d).
    { rewrite Est. unfold dir_of. simpl. rewrite <- Es. apply Permutation_sym.
      eapply perm_trans; [exact Hp|]. apply Permutation_app_head. apply sort_perm. }
    assert (Hi : hinv st).
    { rewrite Est. unfold hinv. simpl. intros W. apply andb_true_iff in W. destruct W as [_ W].
      apply negb_true_iff in W. exists nw, ol. auto. }
    destruct (negb (is_r m) && negb (negb (is_r m) && negb (fcommitted nw))).
    - destruct (create_patch cempty u st) as [st' o] eqn:Ecp. destruct o; [|discriminate].
      inversion H; subst s.
      pose proof (create_patch_hstep u st) as Hst. pose proof (create_patch_cases u st) as Hcs.
      rewrite Ecp in Hst, Hcs. simpl in Hst, Hcs.
      split; [eapply hstep_hinv; eauto|].
      destruct Hcs as [E|[x [Hr [Hm [Hx Hn]]]]].
      + left. rewrite E. exact Hd.
      + right. exists x. split.
        * unfold dir_of. rewrite Hr, Hm. eapply perm_trans; [apply Permutation_sym, Permutation_middle|].
          apply perm_skip. exact Hd.
        * rewrite <- Hn. apply has_name_perm. apply Permutation_sym. exact Hd.
    - inversion H; subst s. split; [exact Hi|left; exact Hd].
  Qed.

  Lemma create_spec : forall n tr (d : list cfile) r u s, create cempty n tr d r u = Opened s ->
    hinv s /\ exists (d' : list cfile) x, dir_of s = (d' ++ [x])%list /\ has_name (fname x) d' = false /\
                          (d' = d \/ (tr = true /\ d' = others n d)).
  Proof.
    intros n tr d r u s. unfold create. destruct (negb (valid_name n)); [discriminate|].
    remember (if tr && has_name (base_filename n) d then others n d else d) as d' eqn:Ed.
    destruct (has_name (base_filename n) d') eqn:Eh; [discriminate|]. intros H; inversion H; subst s.
    split.
    - unfold hinv. simpl. intros _. eexists. exists []. split; reflexivity.
    - exists d'. eexists. unfold dir_of. simpl. split; [reflexivity|]. split; [exact Eh|].
      rewrite Ed. destruct tr; simpl; [|left; reflexivity].
      destruct (has_name (base_filename n) d); [right; auto|left; reflexivity].
  Qed.

  Lemma create_refused : forall n tr (d : list cfile) r u e d', create cempty n tr d r u = Refused e d' ->
    d' = d \/ (tr = true /\ d' = others n d).
  Proof.
    intros n tr d r u e d'. unfold create. destruct (negb (valid_name n)); [intros H; inversion H; auto|].
    remember (if tr && has_name (base_filename n) d then others n d else d) as d1 eqn:Ed.
    destruct (has_name (base_filename n) d1); [|discriminate]. intros H; inversion H; subst d'.
    rewrite Ed. destruct tr; simpl; [|left; reflexivity].
    destruct (has_name (base_filename n) d); [right; auto|left; reflexivity].
  Qed.

  Lemma open_existing_refused : forall m sel oth (d : list cfile) u e d',
    open_existing cempty m sel oth d u = Refused e d' -> d' = d.
  Proof.
    intros m sel oth d u e d'. unfold open_existing.
    destruct (chain_ok (sort_desc sel)); [|intros H; inversion H; reflexivity].
    destruct (sort_desc sel) as [|nw ol]; [intros H; inversion H; reflexivity|].
    destruct (negb (is_r m) && negb (negb (is_r m) && negb (fcommitted nw))); [|discriminate].
    destruct (create_patch _ _ _) as [st' o]. destruct o; [discriminate|]. intros H; inversion H; reflexivity.
  Qed.

  (** What any open does to a directory with distinct names: files other than those of a
      record opened with mode 'w' stay, names stay distinct. *)
  Definition kept_by_open (m : mode) (t : target) (f : cfile) : Prop :=
    match m, t with MW, ByName n => matches n (fname f) = false | _, _ => True end.

  Lemma open_mode_opened : forall m t (d : list cfile) r u s,
    NoDup (names d) -> open_mode cempty m t d r u = Opened s ->
    hinv s /\ NoDup (names (dir_of s)) /\ forall f, In f d -> kept_by_open m t f -> In f (dir_of s).
  Proof.
    intros m t d r u s Hnd H.
    assert (Hok : forall s, opened_ok d s ->
              hinv s /\ NoDup (names (dir_of s)) /\ forall f, In f d -> In f (dir_of s)).
    { intros s0 [Hi [Hp|[x [Hp Hn]]]]; (split; [exact Hi|]); split.
      - eapply NoDup_names_perm; [apply Permutation_sym; exact Hp|exact Hnd].
      - intros f Hf. eapply Permutation_in; [apply Permutation_sym; exact Hp|exact Hf].
      - eapply NoDup_names_perm; [apply Permutation_sym; exact Hp|]. unfold names. simpl.
        constructor; [apply has_name_false; exact Hn|exact Hnd].
      - intros f Hf. eapply Permutation_in; [apply Permutation_sym; exact Hp|right; exact Hf]. }
    assert (Hcr : forall n tr, create cempty n tr d r u = Opened s ->
              hinv s /\ NoDup (names (dir_of s)) /\
              forall f, In f d -> (tr = true -> matches n (fname f) = false) -> In f (dir_of s)).
    { intros n tr Hc. destruct (create_spec n tr d r u s Hc) as [Hi [d' [x [Ed [Hn Hd']]]]].
      split; [exact Hi|]. rewrite Ed. destruct Hd' as [Hd'|[Htr Hd']]; subst d'.
      - split; [apply NoDup_names_snoc; assumption|]. intros f Hf _. apply in_or_app. left. exact Hf.
      - split; [apply NoDup_names_snoc; [apply NoDup_names_filter; exact Hnd|exact Hn]|].
        intros f Hf Hm. apply in_or_app. left. unfold others. apply filter_In. split; [exact Hf|].
        rewrite (Hm Htr). reflexivity. }
    destruct t as [n|l]; cbn [open_mode] in H.
    - assert (Hex : forall m', open_existing cempty m' (files_of n d) (others n d) d u = Opened s ->
                hinv s /\ NoDup (names (dir_of s)) /\ forall f, In f d -> In f (dir_of s)).
      { intros m' He. apply Hok. eapply open_existing_spec; [|exact He].
        intros _. apply partition_perm. }
      assert (Hre : forall m', (m' = MR \/ m' = MRp \/ m' = MA) ->
                (if negb (valid_name n) then Refused EValue d
                 else match files_of n d with
                      | [] => if is_a m' then create cempty n false d r u else Refused ENotFound d
                      | _ :: _ => open_existing cempty m' (files_of n d) (others n d) d u
                      end) = Opened s ->
                hinv s /\ NoDup (names (dir_of s)) /\ forall f, In f d -> In f (dir_of s)).
      { intros m' _ H'. destruct (negb (valid_name n)); [discriminate|].
        destruct (files_of n d) as [|f0 fs] eqn:Ef.
        - destruct (is_a m'); [|discriminate]. destruct (Hcr n false H') as [A [B C]].
          split; [exact A|]. split; [exact B|]. intros f Hf. apply C; [exact Hf|discriminate].
        - apply (Hex m' H'). }
      destruct m.
      + destruct (Hre MR) as [A [B C]]; [auto|destruct (files_of n d); exact H|]. repeat split; auto.
      + destruct (Hre MRp) as [A [B C]]; [auto|destruct (files_of n d); exact H|]. repeat split; auto.
      + destruct (Hre MA) as [A [B C]]; [auto|destruct (files_of n d); exact H|]. repeat split; auto.
      + destruct (Hcr n true H) as [A [B C]]. split; [exact A|]. split; [exact B|].
        intros f Hf Hk. simpl in Hk. apply C; auto.
      + destruct (Hcr n false H) as [A [B C]]. split; [exact A|]. split; [exact B|].
        intros f Hf _. apply C; [exact Hf|discriminate].
      + destruct (Hcr n false H) as [A [B C]]. split; [exact A|]. split; [exact B|].
        intros f Hf _. apply C; [exact Hf|discriminate].
    - assert (Hls : forall m', match l with
                        | [] => Refused EValue d
                        | _ :: _ => match lookup_all l d with
                                    | None => Refused ENotFound d
                                    | Some sel => open_existing cempty m' sel
                                        (filter (fun f : cfile => negb (mem_str (fname f) l)) d) d u
                                    end
                        end = Opened s ->
                hinv s /\ NoDup (names (dir_of s)) /\ forall f, In f d -> In f (dir_of s)).
      { intros m' H'. destruct l as [|a l0]; [discriminate|].
        destruct (lookup_all (a :: l0) d) as [sel|] eqn:El; [|discriminate].
        apply Hok. eapply open_existing_spec; [|exact H'].
        intros Hc. apply list_sel_perm; [exact Hnd|exact El|].
        eapply Permutation_NoDup; [apply Permutation_sym, sort_perm|]. apply chain_ok_NoDup. exact Hc. }
      destruct m; try discriminate; destruct (Hls _ H) as [A [B C]]; repeat split; auto.
  Qed.

  Lemma open_mode_refused : forall m t (d : list cfile) r u e d',
    NoDup (names d) -> open_mode cempty m t d r u = Refused e d' ->
    NoDup (names d') /\ forall f, In f d -> kept_by_open m t f -> In f d'.
  Proof.
    intros m t d r u e d' Hnd H.
    assert (Hsame : d' = d -> NoDup (names d') /\ forall f, In f d -> kept_by_open m t f -> In f d').
    { intros E. subst d'. auto. }
    destruct t as [n|l]; cbn [open_mode] in H.
    - assert (Hre : (if negb (valid_name n) then Refused EValue d
                     else match files_of n d with
                          | [] => if is_a m then create cempty n false d r u else Refused ENotFound d
                          | _ :: _ => open_existing cempty m (files_of n d) (others n d) d u
                          end) = Refused e d' -> d' = d).
      { intros H'. destruct (negb (valid_name n)); [inversion H'; reflexivity|].
        destruct (files_of n d) as [|f0 fs] eqn:Ef.
        - destruct (is_a m); [|inversion H'; reflexivity].
          destruct (create_refused _ _ _ _ _ _ _ H') as [E|[E _]]; [exact E|discriminate].
        - eapply open_existing_refused. exact H'. }
      destruct m; try (apply Hsame; apply Hre; destruct (files_of n d); exact H).
      + destruct (create_refused _ _ _ _ _ _ _ H) as [E|[_ E]]; [apply Hsame; exact E|]. subst d'.
        split; [apply NoDup_names_filter; exact Hnd|].
        intros f Hf Hk. simpl in Hk. unfold others. apply filter_In. split; [exact Hf|]. rewrite Hk. reflexivity.
      + destruct (create_refused _ _ _ _ _ _ _ H) as [E|[E _]]; [apply Hsame; exact E|discriminate].
      + destruct (create_refused _ _ _ _ _ _ _ H) as [E|[E _]]; [apply Hsame; exact E|discriminate].
    - apply Hsame.
      assert (Hls : forall m', match l with
                        | [] => Refused EValue d
                        | _ :: _ => match lookup_all l d with
                                    | None => Refused ENotFound d
                                    | Some sel => open_existing cempty m' sel
                                        (filter (fun f : cfile => negb (mem_str (fname f) l)) d) d u
                                    end
                        end = Refused e d' -> d' = d).
      { intros m' H'. destruct l as [|a l0]; [inversion H'; reflexivity|].
        destruct (lookup_all (a :: l0) d) as [sel|]; [|inversion H'; reflexivity].
        eapply open_existing_refused. exact H'. }
      destruct m; try (inversion H; reflexivity); apply (Hls _ H).
  Qed.

  Lemma open_cls_cases : forall mf m t (d : list cfile) sd r u,
    open_cls empty mf m t d sd r u = Refused EValue d \/
    open_cls empty mf m t d sd r u = open_mode cempty m t d r u.
  Proof.
    intros mf m t d sd r u. unfold open_cls.
    destruct m; auto; destruct (newest_of t d); auto;
      destruct (mf && chain_ok (sort_desc (sel_of t d)) && negb (mf_check sd f)); auto.
  Qed.

  (** ** One step, any number of steps *)

  Lemma kept_by_open_touches : forall mf m t r u (f : cfile),
    touches (FOpen mf m t r u : fop) (fname f) = false -> kept_by_open m t f.
  Proof. intros mf m t r u f H. destruct m, t; simpl in *; auto. Qed.

  Lemma step_spec : forall o w, good w ->
    good (fst (step o w)) /\ frel (fun nm => touches o nm = false) w (fst (step o w)).
  Proof.
    intros o w Hg. set (K := fun nm => touches o nm = false).
    assert (Hsame : good w /\ frel K w w) by (split; [exact Hg|apply frel_refl]).
    unfold step. destruct (here w) as [d|h] eqn:Hh.
    - pose proof Hg as [Hnd [Hno _]].
      assert (Ed : wdir w = d) by (unfold wdir; rewrite Hh; reflexivity). rewrite Ed in Hnd.
      destruct o as [mf m t r u|u|m| |g| |c m|ew t m| |n|ew t srcn m]; try exact Hsame.
      + assert (Href : forall (e : err) d', NoDup (names d') ->
                  (forall f, In f d -> kept_by_open m t f -> In f d') ->
                  good (mkworld (PDir d') (hsides w) (other w) (osides w)) /\
                  frel K w (mkworld (PDir d') (hsides w) (other w) (osides w))).
        { intros e d' Hnd' Hk. split; [unfold good, wdir; simpl; auto|].
          split.
          - intros f Hin Hc Hkf. rewrite Ed in Hin. unfold wdir. simpl. split; [|reflexivity].
            apply Hk; [exact Hin|]. eapply kept_by_open_touches. exact Hkf.
          - intros f Hin. simpl. auto. }
        destruct (open_cls_cases mf m t d (hsides w) r u) as [E|E]; rewrite E.
        * simpl. apply (Href EValue d); auto.
        * destruct (open_mode cempty m t d r u) as [s|e d'] eqn:Eo; simpl.
          -- destruct (open_mode_opened m t d r u s Hnd Eo) as [Hi [Hnd' Hk]].
             split; [unfold good, wdir; simpl; auto|]. split.
             ++ intros f Hin Hc Hkf. rewrite Ed in Hin. unfold wdir. simpl. split; [|reflexivity].
                apply Hk; [exact Hin|]. eapply kept_by_open_touches. exact Hkf.
             ++ intros f Hin. simpl. auto.
          -- destruct (open_mode_refused m t d r u e d' Hnd Eo) as [Hnd' Hk]. apply (Href e d'); auto.
      + destruct (valid_name n); [|exact Hsame]. simpl.
        split; [unfold good, wdir; simpl; split; [apply NoDup_names_filter; exact Hnd|auto]|].
        split.
        * intros f Hin Hc Hkf. rewrite Ed in Hin. unfold wdir. simpl. split; [|reflexivity].
          unfold others. apply filter_In. split; [exact Hin|]. unfold K in Hkf. simpl in Hkf. rewrite Hkf. reflexivity.
        * intros f Hin. simpl. auto.
      + unfold do_stub.
        destruct (side_of srcn (hsides w)); [|exact Hsame].
        destruct (find (fun f : cfile => fname f =? srcn) d) as [src|]; [|exact Hsame].
        destruct (negb (valid_name t)); [exact Hsame|].
        destruct ew.
        * destruct (has_name (base_filename t) (other w)) eqn:Eh; [exact Hsame|]. simpl. split.
          -- unfold good, wdir. simpl. split; [exact Hnd|]. split; [apply NoDup_names_snoc; [exact Hno|exact Eh]|exact I].
          -- split.
             ++ intros f Hin Hc _. rewrite Ed in Hin. unfold wdir. simpl. auto.
             ++ intros f Hin. simpl. split; [apply in_or_app; left; exact Hin|].
                apply side_of_set_other. intros E. apply (has_name_false _ _ Eh).
                unfold names. rewrite <- E. apply in_map. exact Hin.
        * destruct (has_name (base_filename t) d) eqn:Eh; [exact Hsame|]. simpl. split.
          -- unfold good, wdir. simpl. split; [apply NoDup_names_snoc; [exact Hnd|exact Eh]|]. split; [exact Hno|exact I].
          -- split.
             ++ intros f Hin Hc _. rewrite Ed in Hin. unfold wdir. simpl. split; [apply in_or_app; left; exact Hin|].
                apply side_of_set_other. intros E. apply (has_name_false _ _ Eh).
                unfold names. rewrite <- E. apply in_map. exact Hin.
             ++ intros f Hin. simpl. auto.
    - destruct o as [mf m t r u|u|m| |g| |c m|ew t m| |n|ew t srcn m]; try exact Hsame.
      + unfold via. simpl. apply put_spec; [exact Hg|exact Hh|apply create_patch_hstep].
      + destruct (do_commit_spec K m w h Hg Hh) as [A [B _]]. split; assumption.
      + unfold via. simpl. apply put_spec; [exact Hg|exact Hh|apply discard_patch_hstep].
      + unfold via. simpl. apply put_spec; [exact Hg|exact Hh|]. apply write_hstep.
        destruct Hg as [_ [_ Hi]]. rewrite Hh in Hi. exact Hi.
      + apply do_close_spec; assumption.
      + apply do_merge_spec; assumption.
      + simpl. pose proof Hg as [Hnd [Hno _]].
        assert (Ed : wdir w = dir_of (hs h)) by (unfold wdir; rewrite Hh; reflexivity).
        split; [unfold good, wdir; simpl; rewrite <- Ed; auto|].
        apply frel_same; simpl; auto; unfold wdir; simpl; rewrite Hh; reflexivity.
  Qed.

  Definition safe_for (ops : list fop) (nm : string) : Prop :=
    Forall (fun o => touches o nm = false) ops.

  Lemma run_spec : forall ops w, good w ->
    good (run ops w) /\ frel (safe_for ops) w (run ops w).
  Proof.
    induction ops as [|o ops IH]; intros w Hg; simpl.
    - split; [exact Hg|apply frel_refl].
    - destruct (step_spec o w Hg) as [Hg1 Hf1]. destruct (IH _ Hg1) as [Hg2 Hf2].
      split; [exact Hg2|]. eapply frel_trans.
      + eapply frel_weaken; [|exact Hf1]. intros nm Hs. inversion Hs; assumption.
      + eapply frel_weaken; [|exact Hf2]. intros nm Hs. inversion Hs; assumption.
  Qed.

  Lemma good_empty : good (@empty_world P).
  Proof. unfold good, empty_world, wdir. simpl. repeat split; constructor. Qed.

  (** *** C02, first part: committed files and their sidecars stay as they are *)

  Lemma committed_frozen : forall ops w f,
    good w -> In f (wdir w) -> fcommitted f = true -> safe_for ops (fname f) ->
    In f (wdir (run ops w)) /\
    file_at (fname f) (wdir (run ops w)) = Some f /\
    side_of (fname f) (hsides (run ops w)) = side_of (fname f) (hsides w).
  Proof.
    intros ops w f Hg Hin Hc Hs. destruct (run_spec ops w Hg) as [[Hnd _] [A _]].
    destruct (A f Hin Hc Hs) as [Hin' Hsd]. split; [exact Hin'|]. split; [|exact Hsd].
    apply file_at_In; assumption.
  Qed.

  (** Whatever a merge put into the other directory stays as it is, without any condition
      on the operations. *)
  Lemma other_frozen : forall ops w f,
    good w -> In f (other w) ->
    In f (other (run ops w)) /\
    file_at (fname f) (other (run ops w)) = Some f /\
    side_of (fname f) (osides (run ops w)) = side_of (fname f) (osides w).
  Proof.
    intros ops w f Hg Hin. destruct (run_spec ops w Hg) as [[_ [Hno _]] [_ B]].
    destruct (B f Hin) as [Hin' Hsd]. split; [exact Hin'|]. split; [|exact Hsd].
    apply file_at_In; assumption.
  Qed.

  (** *** C02, second part: a set of committed files keeps opening, with the same view *)

  Lemma lookup_all_ext : forall l (d d' : list cfile),
    (forall nm, In nm l -> file_at nm d' = file_at nm d) -> lookup_all l d' = lookup_all l d.
  Proof.
    induction l as [|nm l IH]; intros d d' H; simpl; [reflexivity|].
    pose proof (H nm (or_introl eq_refl)) as E. unfold file_at in E. rewrite E.
    rewrite (IH d d'); [reflexivity|]. intros x Hx. apply H. right. exact Hx.
  Qed.

  (** The outcome of opening a list read-only, as far as the caller can see it. *)
  Definition same_open (a b : result cont) : Prop :=
    match a, b with
    | Opened s, Opened s' =>
        mine s' = mine s /\ view s' = view s /\ hname s' = hname s /\
        writable s' = writable s /\ patching s' = patching s /\ closed s' = closed s
    | Refused e _, Refused e' _ => e' = e
    | _, _ => False
    end.

  Lemma snapshot_still_valid : forall ops w mf l r u r' u',
    good w ->
    (forall nm, In nm l -> exists f, file_at nm (wdir w) = Some f /\ fcommitted f = true /\ safe_for ops nm) ->
    same_open (open_cls empty mf MR (ByList l) (wdir w) (hsides w) r u)
              (open_cls empty mf MR (ByList l) (wdir (run ops w)) (hsides (run ops w)) r' u').
  Proof.
    intros ops w mf l r u r' u' Hg Hl. set (w' := run ops w).
    pose proof Hg as [Hnd _].
    assert (Hfa : forall nm, In nm l -> file_at nm (wdir w') = file_at nm (wdir w)).
    { intros nm Hin. destruct (Hl nm Hin) as [f [Hf [Hc Hs]]].
      destruct (file_at_Some _ _ _ Hf) as [Hfin En]. subst nm.
      destruct (committed_frozen ops w f Hg Hfin Hc Hs) as [_ [E _]]. unfold w'. rewrite E, Hf. reflexivity. }
    pose proof (lookup_all_ext l _ _ Hfa) as El.
    unfold open_cls, newest_of, sel_of. cbn [open_mode]. rewrite El.
    destruct l as [|a l0]; [unfold same_open; simpl; reflexivity|].
    destruct (lookup_all (a :: l0) (wdir w)) as [sel|] eqn:Es; [|unfold same_open; simpl; reflexivity].
    unfold open_existing. cbn [is_r negb andb].
    destruct (sort_desc sel) as [|nw ol] eqn:Eso; [unfold same_open; simpl; reflexivity|].
    assert (Hmf : mf_check (hsides w') nw = mf_check (hsides w) nw).
    { assert (Hin : In nw sel).
      { eapply Permutation_in; [apply Permutation_sym, sort_perm|]. rewrite Eso. left. reflexivity. }
      destruct (lookup_all_In _ _ _ Es nw Hin) as [Hd Hn].
      destruct (Hl _ Hn) as [f [Hf [Hc Hs]]].
      rewrite (file_at_In _ _ Hnd Hd) in Hf. inversion Hf; subst f.
      destruct (committed_frozen ops w nw Hg Hd Hc Hs) as [_ [_ E]].
      unfold mf_check. fold w' in E. rewrite E. reflexivity. }
    rewrite Hmf.
    destruct (chain_ok (nw :: ol)); simpl.
    - destruct (mf && negb (mf_check (hsides w) nw)) eqn:Eb; rewrite ?andb_true_r, ?Eb; unfold same_open; simpl;
        [reflexivity|]. repeat split; reflexivity.
    - rewrite andb_false_r. unfold same_open. simpl. reflexivity.
  Qed.

  (** At a moment when nothing is pending, the files of the handle form such a set, and
      opening it shows the view of the handle. *)
  Lemma chain_tail_committed : forall (t : list cfile) h,
    chain_ok (h :: t) = true -> Forall (fun f => fcommitted f = true) t.
  Proof.
    induction t as [|g t IH]; intros h H; [constructor|].
    destruct (chain_ok_tail _ _ _ H) as [Ht Hg]. constructor; [exact Hg|]. eapply IH. exact Ht.
  Qed.

  Lemma snapshot_opens : forall w h r u,
    good w -> here w = POpen h -> chain_ok (mine (hs h)) = true ->
    (hmf h = true -> forall nw ol, mine (hs h) = nw :: ol -> mf_check (hsides w) nw = true) ->
    exists s', open_cls empty (hmf h) MR (ByList (map fname (mine (hs h)))) (wdir w) (hsides w) r u = Opened s' /\
               mine s' = mine (hs h) /\ view s' = view (hs h) /\ writable s' = false /\ patching s' = false.
  Proof.
    intros w h r u [Hnd _] Hh Hc Hmf.
    assert (Ed : wdir w = dir_of (hs h)) by (unfold wdir; rewrite Hh; reflexivity). rewrite Ed in *.
    destruct (mine (hs h)) as [|nw ol] eqn:Em; [discriminate|].
    assert (El : lookup_all (map fname (nw :: ol)) (dir_of (hs h)) = Some (nw :: ol)).
    { apply lookup_all_self; [exact Hnd|]. unfold dir_of. rewrite Em. apply incl_appr, incl_refl. }
    unfold open_cls, newest_of, sel_of. rewrite El.
    rewrite (sort_fixed (nw :: ol) (chain_ok_sorted _ Hc)). rewrite Hc.
    assert (Hm : hmf h && true && negb (mf_check (hsides w) nw) = false).
    { destruct (hmf h) eqn:E; [|reflexivity]. rewrite (Hmf eq_refl nw ol eq_refl). reflexivity. }
    rewrite Hm. cbn [open_mode map]. rewrite <- (map_cons fname nw ol), El.
    unfold open_existing. cbn [is_r negb andb].
    rewrite (sort_fixed (nw :: ol) (chain_ok_sorted _ Hc)). rewrite Hc.
    eexists. split; [reflexivity|]. unfold view. simpl. rewrite Em. repeat split; reflexivity.
  Qed.

  (** After a successful commit: all files of the handle are committed, the chain check
      holds if it held before, the manifest clause holds. *)
  Lemma commit_establishes : forall m w h w1,
    good w -> here w = POpen h -> chain_ok (mine (hs h)) = true ->
    step (FCommit m) w = (w1, Ok) ->
    exists h1, here w1 = POpen h1 /\ hmf h1 = hmf h /\
      chain_ok (mine (hs h1)) = true /\
      Forall (fun f => fcommitted f = true) (mine (hs h1)) /\
      map fname (mine (hs h1)) = map fname (mine (hs h)) /\
      map fst (view (hs h1)) = map fst (view (hs h)) /\
      (hmf h1 = true -> forall nw ol, mine (hs h1) = nw :: ol -> mf_check (hsides w1) nw = true).
  Proof.
    intros m w h w1 Hg Hh Hc Hst. unfold step in Hst. rewrite Hh in Hst. unfold do_commit in Hst.
    destruct (hmf h) eqn:Emf.
    - destruct (commit_patch (hs h)) as [s' [|e]] eqn:Ec; [|inversion Hst].
      destruct (mf_commit_state m (hs h) s' Ec) as [l [older [Em [Ew Es2]]]].
      rewrite Em in Hst. rewrite Es2 in Hst. inversion Hst; subst w1. clear Hst.
      eexists. split; [reflexivity|]. cbn [hmf hs mine here hsides]. split; [reflexivity|].
      rewrite Em in Hc.
      assert (Hc' : chain_ok (set_committed (set_pay (set_ext m) l) :: older) = true).
      { eapply chain_ok_head_irrelevant; [| | | |exact Hc]; reflexivity. }
      split; [exact Hc'|]. split; [constructor; [reflexivity|eapply chain_tail_committed; exact Hc]|].
      split; [rewrite Em; reflexivity|]. split; [unfold view; rewrite Em; reflexivity|].
      intros _ nw ol E. inversion E; subst nw ol. unfold mf_check, fext. cbn [fpay set_committed set_pay set_ext snd fst option_map fname].
      rewrite side_of_set_same, N.eqb_refl. reflexivity.
    - unfold via in Hst. destruct (commit_patch (hs h)) as [s' o] eqn:Ec. simpl in Hst. inversion Hst; subst w1 o.
      destruct (commit_ok_inv _ _ Ec) as [_ [_ [_ [l [older [Em Es']]]]]]. subst s'.
      unfold put. eexists. split; [reflexivity|]. cbn [hmf hs mine here hsides]. split; [exact Emf|].
      rewrite Em in Hc.
      assert (Hc' : chain_ok (set_committed l :: older) = true).
      { eapply chain_ok_head_irrelevant; [| | | |exact Hc]; reflexivity. }
      split; [exact Hc'|]. split; [constructor; [reflexivity|eapply chain_tail_committed; exact Hc]|].
      split; [rewrite Em; reflexivity|]. split; [unfold view; rewrite Em; reflexivity|].
      intros E. congruence.
  Qed.

  (** The property's second sentence, end to end: take the set of files of the record right
      after a commit.  After ANY further operations that do not truncate that record, this
      set still opens (with the class that committed it), and shows the view it showed at
      the commit. *)
  Lemma snapshot_after_commit : forall m w h w1 ops r u,
    good w -> here w = POpen h -> chain_ok (mine (hs h)) = true ->
    step (FCommit m) w = (w1, Ok) ->
    exists h1, here w1 = POpen h1 /\
      let l := map fname (mine (hs h1)) in
      (forall nm, In nm l -> safe_for ops nm) ->
      exists s', open_cls empty (hmf h1) MR (ByList l) (wdir (run ops w1)) (hsides (run ops w1)) r u = Opened s' /\
                 mine s' = mine (hs h1) /\ view s' = view (hs h1) /\
                 map fst (view s') = map fst (view (hs h)).
  Proof.
    intros m w h w1 ops r u Hg Hh Hc Hst.
    assert (Hg1 : good w1).
    { pose proof (step_spec (FCommit m) w Hg) as [A _]. rewrite Hst in A. exact A. }
    destruct (commit_establishes m w h w1 Hg Hh Hc Hst) as [h1 [Hh1 [Hmf [Hc1 [Hall [Hn [Hv Hm]]]]]]].
    exists h1. split; [exact Hh1|]. intros l Hsafe.
    destruct (snapshot_opens w1 h1 r u Hg1 Hh1 Hc1 Hm) as [s0 [Ho [Hm0 [Hv0 _]]]].
    assert (Hl : forall nm, In nm l -> exists f, file_at nm (wdir w1) = Some f /\ fcommitted f = true /\ safe_for ops nm).
    { intros nm Hin. unfold l in Hin. apply in_map_iff in Hin. destruct Hin as [f [En Hf]]. exists f.
      assert (Hd : In f (wdir w1)). { unfold wdir. rewrite Hh1. unfold dir_of. apply in_or_app. right. exact Hf. }
      destruct Hg1 as [Hnd1 _]. split; [rewrite <- En; apply file_at_In; assumption|].
      split; [rewrite Forall_forall in Hall; apply Hall; exact Hf|].
      apply Hsafe. unfold l. rewrite <- En. apply in_map. exact Hf. }
    pose proof (snapshot_still_valid ops w1 (hmf h1) l r u r u Hg1 Hl) as Hs.
    fold l in Ho. rewrite Ho in Hs. unfold same_open in Hs.
    destruct (open_cls empty (hmf h1) MR (ByList l) (wdir (run ops w1)) (hsides (run ops w1)) r u) as [s'|e d'];
      [|contradiction].
    destruct Hs as [A [B _]]. exists s'. split; [reflexivity|]. split; [congruence|]. split; [congruence|].
    rewrite B, Hv0. exact Hv.
  Qed.

  (** *** The same for every world that arises from the empty directory *)

  Lemma good_reachable : forall ops, good (run ops (@empty_world P)).
  Proof. intros ops. apply run_spec. apply good_empty. Qed.

  Lemma committed_frozen_reachable : forall before after f,
    let w := run before (@empty_world P) in
    In f (wdir w) -> fcommitted f = true -> safe_for after (fname f) ->
    In f (wdir (run after w)) /\
    file_at (fname f) (wdir (run after w)) = Some f /\
    side_of (fname f) (hsides (run after w)) = side_of (fname f) (hsides w).
  Proof. intros before after f w. apply committed_frozen. apply good_reachable. Qed.

  (** Without the exclusion the statement is false: mode 'w' and [delete_files] remove
      committed files of the record they address. *)
  Lemma delete_removes : forall n (d : list cfile) sd o os f,
    valid_name n = true -> In f d -> matches n (fname f) = true ->
    ~ In f (wdir (fst (step (FDelete n) (mkworld (PDir d) sd o os)))).
  Proof.
    intros n d sd o os f Hn Hin Hm. unfold step. simpl. rewrite Hn. simpl. unfold wdir. simpl.
    unfold others. intros H. apply filter_In in H. destruct H as [_ H]. rewrite Hm in H. discriminate.
  Qed.

  (** ** Coherent chains in every reachable world (fresh uuids)

      [uuid1()] returns an id that no file of the directory carries: [fresh_ok]. *)

  Definition cinv (s : cstate) : Prop :=
    chain_ok (mine s) = true /\
    (writable s = false -> patching s = true -> closed s = false ->
     forall h t, mine s = h :: t -> fcommitted h = true).

  Lemma cinv_create_patch : forall u (s : cstate), cinv s -> ~ In u (map fid (mine s)) ->
    cinv (fst (create_patch cempty u s)).
  Proof.
    intros u s H0 Hf. pose proof H0 as [Hc Hi]. unfold create_patch.
    destruct (closed s) eqn:Ecl; [exact H0|].
    destruct (patching s) eqn:Ep; simpl; [|exact H0].
    destruct (writable s) eqn:Ew; [exact H0|].
    destruct (mine s) as [|l older] eqn:Em; [exact H0|].
    destruct (has_name _ (dir_of s)); [exact H0|].
    unfold cinv. simpl. split; [|discriminate].
    unfold chain_ok in *. apply andb_true_iff in Hc. destruct Hc as [Hl Hn].
    rewrite chain_links_cons2.
    cbn [new_patch frec fidx fid fprev fcommitted opt_N_eqb map nodup_N existsb].
    rewrite !N.eqb_refl, Hl.
    rewrite (Hi eq_refl eq_refl eq_refl l older eq_refl).
    assert (Hlt : (fidx l <? fidx l + 1)%N = true) by (apply N.ltb_lt; lia). rewrite Hlt.
    cbn [map nodup_N] in Hn. rewrite Hn. cbn [andb].
    cbn [map In] in Hf.
    destruct (u =? fid l)%N eqn:E1; [apply N.eqb_eq in E1; exfalso; apply Hf; left; congruence|].
    destruct (existsb (N.eqb u) (map fid older)) eqn:E2; [|reflexivity].
    apply existsb_N_In in E2. exfalso. apply Hf. right. exact E2.
  Qed.

  Lemma cinv_commit : forall (s : cstate), cinv s -> cinv (fst (commit_patch s)).
  Proof.
    intros s H0. pose proof H0 as [Hc Hi]. unfold commit_patch.
    destruct (closed s) eqn:Ecl; [exact H0|].
    destruct (patching s) eqn:Ep; simpl; [|exact H0].
    destruct (writable s) eqn:Ew; simpl; [|exact H0].
    destruct (mine s) as [|l older] eqn:Em; [exact H0|].
    unfold cinv. simpl. split.
    - eapply chain_ok_head_irrelevant; [| | | |exact Hc]; reflexivity.
    - intros _ _ _ h t E. inversion E. reflexivity.
  Qed.

  Lemma cinv_discard : forall (s : cstate), cinv s -> cinv (fst (discard_patch s)).
  Proof.
    intros s H0. pose proof H0 as [Hc Hi]. unfold discard_patch.
    destruct (closed s) eqn:Ecl; [exact H0|].
    destruct (patching s) eqn:Ep; simpl; [|exact H0].
    destruct (writable s) eqn:Ew; simpl; [|exact H0].
    destruct (mine s) as [|l [|g older]] eqn:Em; try exact H0.
    destruct (chain_ok_tail _ _ _ Hc) as [Hc' Hg].
    unfold cinv. simpl. split; [exact Hc'|]. intros _ _ _ h t E. inversion E; subst. exact Hg.
  Qed.

  Lemma cinv_write : forall g (s : cstate), cinv s -> cinv (fst (write g s)).
  Proof.
    intros g s H0. pose proof H0 as [Hc Hi]. unfold write.
    destruct (closed s) eqn:Ecl; [exact H0|].
    destruct (writable s) eqn:Ew; simpl; [|exact H0].
    destruct (mine s) as [|l older] eqn:Em; [exact H0|].
    unfold cinv. simpl. split; [|discriminate].
    eapply chain_ok_head_irrelevant; [| | | |exact Hc]; reflexivity.
  Qed.

  Lemma cinv_close_false : forall (s : cstate), cinv s -> cinv (fst (close false s)).
  Proof.
    intros s H0. pose proof H0 as [Hc Hi]. unfold close. destruct (closed s) eqn:Ecl; [exact H0|].
    rewrite andb_false_r. unfold cinv. simpl. split; [exact Hc|discriminate].
  Qed.

  Lemma open_mode_cinv : forall m t (d : list cfile) r u s,
    open_mode cempty m t d r u = Opened s -> ~ In u (map fid d) -> cinv s.
  Proof.
    intros m t d r u s H Hf.
    assert (Hcr : forall n tr, create cempty n tr d r u = Opened s -> cinv s).
    { intros n tr. unfold create. destruct (negb (valid_name n)); [discriminate|].
      destruct (has_name _ _); [discriminate|]. intros E; inversion E. unfold cinv. simpl.
      split; [reflexivity|discriminate]. }
    assert (Hex : forall m' sel oth, (forall g, In g sel -> In g d) ->
              open_existing cempty m' sel oth d u = Opened s -> cinv s).
    { intros m' sel oth Hsub He. unfold open_existing in He.
      destruct (chain_ok (sort_desc sel)) eqn:Hc; [|discriminate].
      destruct (sort_desc sel) as [|nw ol] eqn:Es; [discriminate|].
      remember (mkstate oth (nw :: ol) (infer_name (fname (last (nw :: ol) nw)))
                        (negb (is_r m') && negb (fcommitted nw)) (negb (is_r m')) false) as st eqn:Est.
      assert (Hst : cinv st).
      { rewrite Est. unfold cinv. simpl. split; [exact Hc|].
        intros Hw Hp _ h0 t0 E. inversion E; subst h0 t0. rewrite Hp in Hw. simpl in Hw.
        apply negb_false_iff in Hw. exact Hw. }
      destruct (negb (is_r m') && negb (negb (is_r m') && negb (fcommitted nw))).
      - destruct (create_patch cempty u st) as [st' o] eqn:Ecp. destruct o; [|discriminate].
        inversion He; subst s. change st' with (fst (st', Ok)). rewrite <- Ecp.
        apply cinv_create_patch; [exact Hst|]. rewrite Est. cbn [mine]. intros Hin. apply Hf.
        apply in_map_iff in Hin. destruct Hin as [g [Eg Hg]]. apply in_map_iff. exists g. split; [exact Eg|].
        apply Hsub. eapply Permutation_in; [apply Permutation_sym, sort_perm|]. rewrite Es. exact Hg.
      - inversion He; subst s. exact Hst. }
    destruct t as [n|l]; cbn [open_mode] in H.
    - assert (Hfo : forall g, In g (files_of n d) -> In g d).
      { intros g Hg. unfold files_of in Hg. apply filter_In in Hg. tauto. }
      assert (Hre : forall m', (if negb (valid_name n) then Refused EValue d
                 else match files_of n d with
                      | [] => if is_a m' then create cempty n false d r u else Refused ENotFound d
                      | _ :: _ => open_existing cempty m' (files_of n d) (others n d) d u
                      end) = Opened s -> cinv s).
      { intros m' H'. destruct (negb (valid_name n)); [discriminate|].
        destruct (files_of n d) as [|f0 fs] eqn:Ef.
        - destruct (is_a m'); [|discriminate]. eapply Hcr; exact H'.
        - eapply Hex; [|exact H']. exact Hfo. }
      destruct m; try (eapply Hcr; exact H).
      + apply (Hre MR). destruct (files_of n d); exact H.
      + apply (Hre MRp). destruct (files_of n d); exact H.
      + apply (Hre MA). destruct (files_of n d); exact H.
    - destruct m; try discriminate;
        (destruct l as [|a l0]; [discriminate|];
         destruct (lookup_all (a :: l0) d) as [sel|] eqn:El; [|discriminate];
         eapply Hex; [|exact H]; intros g Hg; apply (lookup_all_In _ _ _ El g Hg)).
  Qed.

  Definition fresh_ok (o : fop) (w : world) : Prop :=
    match o with
    | FCreatePatch u | FOpen _ _ _ _ u => ~ In u (map fid (wdir w))
    | _ => True
    end.

  Fixpoint fresh_run (ops : list fop) (w : world) : Prop :=
    match ops with
    | [] => True
    | o :: r => fresh_ok o w /\ fresh_run r (fst (step o w))
    end.

  Definition ginv (w : world) : Prop :=
    match here w with POpen h => cinv (hs h) | PDir _ => True end.

  Lemma step_ginv : forall o w, ginv w -> fresh_ok o w -> ginv (fst (step o w)).
  Proof.
    intros o w Hg Hf. unfold step. unfold ginv in Hg. destruct (here w) as [d|h] eqn:Hh.
    - assert (Ed : wdir w = d) by (unfold wdir; rewrite Hh; reflexivity).
      destruct o as [mf m t r u|u|m| |g| |c m|ew t m| |n|ew t srcn m]; try (unfold ginv; simpl; rewrite ?Hh; exact I).
      + simpl in Hf. rewrite Ed in Hf.
        destruct (open_cls_cases mf m t d (hsides w) r u) as [E|E]; rewrite E; [unfold ginv; simpl; exact I|].
        destruct (open_mode cempty m t d r u) as [s|e d'] eqn:Eo; unfold ginv; simpl; [|exact I].
        eapply open_mode_cinv; eauto.
      + destruct (valid_name n); unfold ginv; simpl; rewrite ?Hh; exact I.
      + unfold do_stub.
        destruct (side_of srcn (hsides w)); [|unfold ginv; simpl; rewrite Hh; exact I].
        destruct (find (fun f : cfile => fname f =? srcn) d); [|unfold ginv; simpl; rewrite Hh; exact I].
        destruct (negb (valid_name t)); [unfold ginv; simpl; rewrite Hh; exact I|].
        destruct ew; destruct (has_name _ _); unfold ginv; simpl; rewrite ?Hh; exact I.
    - assert (Hsame : ginv w) by (unfold ginv; rewrite Hh; exact Hg).
      assert (Ed : wdir w = dir_of (hs h)) by (unfold wdir; rewrite Hh; reflexivity).
      assert (Hcm : forall m, ginv (fst (do_commit m w h)) /\ exists h', here (fst (do_commit m w h)) = POpen h').
      { intros m. unfold do_commit. destruct (hmf h).
        - destruct (commit_patch (hs h)) as [s' [|e]] eqn:Ec; simpl; [|split; [exact Hsame|eauto]].
          destruct (mine (hs h)) as [|l older] eqn:Em; simpl; [split; [exact Hsame|eauto]|].
          split; [|eauto]. unfold ginv. simpl. apply cinv_commit. apply cinv_write. exact Hg.
        - unfold via, put, ginv. simpl. split; [apply cinv_commit; exact Hg|eauto]. }
      destruct o as [mf m t r u|u|m| |g| |c m|ew t m| |n|ew t srcn m]; try exact Hsame.
      + unfold via, put, ginv. simpl. apply cinv_create_patch; [exact Hg|].
        simpl in Hf. rewrite Ed in Hf. intros Hin. apply Hf. unfold dir_of. rewrite map_app.
        apply in_or_app. right. exact Hin.
      + apply Hcm.
      + unfold via, put, ginv. simpl. apply cinv_discard. exact Hg.
      + unfold via, put, ginv. simpl. apply cinv_write. exact Hg.
      + unfold do_close. destruct (closed (hs h)); [exact Hsame|].
        set (w1 := if writable (hs h) && c then fst (do_commit m w h) else w).
        assert (H1 : ginv w1 /\ exists h1, here w1 = POpen h1).
        { unfold w1. destruct (writable (hs h) && c); [apply Hcm|split; [exact Hsame|eauto]]. }
        destruct H1 as [Hg1 [h1 Hh1]]. rewrite Hh1. unfold via, put, ginv. simpl.
        apply cinv_close_false. unfold ginv in Hg1. rewrite Hh1 in Hg1. exact Hg1.
      + unfold do_merge.
        destruct (closed (hs h)) eqn:Ecl; [exact Hsame|].
        destruct (hmf h && existsb fstub (mine (hs h))); [exact Hsame|].
        destruct (writable (hs h)) eqn:Ewr; [exact Hsame|].
        destruct (negb (valid_name t)); [exact Hsame|].
        destruct (mine (hs h)) as [|nw older] eqn:Em; [exact Hsame|].
        destruct ew.
        * destruct (has_name _ (other w)); [exact Hsame|]. unfold ginv. simpl. rewrite Hh. exact Hg.
        * destruct (has_name _ (dir_of (hs h))); [exact Hsame|]. unfold ginv. simpl.
          destruct Hg as [A B]. unfold cinv. simpl. rewrite <- Em. split; [exact A|].
          intros _ Hp _. apply B; assumption.
      + unfold ginv. simpl. exact I.
  Qed.

  Lemma run_ginv : forall ops w, ginv w -> fresh_run ops w -> ginv (run ops w).
  Proof.
    induction ops as [|o ops IH]; intros w Hg Hf; simpl; [exact Hg|].
    destruct Hf as [Hf1 Hf2]. apply IH; [apply step_ginv; assumption|exact Hf2].
  Qed.

  (** The second sentence of the property for every world that arises from the empty
      directory with fresh uuids: no assumption on the world is left. *)
  Lemma snapshot_reachable : forall before m after w1 r u,
    fresh_run before (@empty_world P) ->
    step (FCommit m) (run before (@empty_world P)) = (w1, Ok) ->
    exists h h1, here (run before (@empty_world P)) = POpen h /\ here w1 = POpen h1 /\
      let l := map fname (mine (hs h1)) in
      (forall nm, In nm l -> safe_for after nm) ->
      exists s', open_cls empty (hmf h1) MR (ByList l) (wdir (run after w1)) (hsides (run after w1)) r u = Opened s' /\
                 mine s' = mine (hs h1) /\ view s' = view (hs h1) /\
                 map fst (view s') = map fst (view (hs h)).
  Proof.
    intros before m after w1 r u Hfr Hst. set (w := run before (@empty_world P)) in *.
    assert (Hg : good w) by apply good_reachable.
    assert (Hgi : ginv w) by (apply run_ginv; [exact I|exact Hfr]).
    destruct (here w) as [d|h] eqn:Hh.
    - exfalso. unfold step in Hst. rewrite Hh in Hst. inversion Hst.
    - unfold ginv in Hgi. rewrite Hh in Hgi. destruct Hgi as [Hc _].
      destruct (snapshot_after_commit m w h w1 after r u Hg Hh Hc Hst) as [h1 [Hh1 Hrest]].
      exists h, h1. split; [reflexivity|]. split; [exact Hh1|exact Hrest].
  Qed.

End Proofs.
