(** * Proofs about the harvest pipeline, ignore_invalid and element identity (C14, part 2). *)
From Coq Require Import List ZArith Bool Lia.
From MV Require Import Base.Sx Schema.Partial Schema.PartialProofs.
Import ListNotations.

(** ** [merge(x1, ..., xn)] as computed is the fold from the empty partial *)

Lemma merge_star_cons ow e x r : merge_star ow e (x :: r) = foldo ow (Some x) r.
Proof. reflexivity. Qed.

Lemma merge_star_fold ow ts xs : Forall (has_ty (TObj ts)) xs ->
  merge_star ow (empty_of ts) xs = merge_all ow (empty_of ts) xs.
Proof.
  intros H. destruct H as [|x r Hx _]; [reflexivity|].
  rewrite merge_star_cons, merge_all_foldo.
  change (foldo ow (Some (empty_of ts)) (x :: r)) with (foldo ow (merge ow (empty_of ts) x) r).
  rewrite (merge_empty_l ow ts x Hx). reflexivity.
Qed.

(** [harvest] returning the partial is the fold of the sources' outputs, in source order,
    from the empty partial, without overwrite permission. *)
Lemma harvest_is_fold ts outs : Forall (has_ty (TObj ts)) outs ->
  harvest ts true outs = merge_all false (empty_of ts) outs.
Proof.
  intros H. unfold harvest. rewrite (merge_star_fold false ts outs H).
  destruct (merge_all false (empty_of ts) outs); reflexivity.
Qed.

Lemma harvest_complete_is_fold ts outs : Forall (has_ty (TObj ts)) outs ->
  harvest ts false outs = obind (merge_all false (empty_of ts) outs) (from_partial (TObj ts)).
Proof.
  intros H. unfold harvest. rewrite (merge_star_fold false ts outs H). reflexivity.
Qed.

(** The result (when there is one) is a partial of the schema. *)
Lemma harvest_typed ts outs m : Forall (has_ty (TObj ts)) outs ->
  harvest ts true outs = Some m -> has_ty (TObj ts) m.
Proof.
  intros H E. rewrite (harvest_is_fold ts outs H), merge_all_foldo in E.
  exact (foldo_closed false (TObj ts) outs H (empty_of ts) m (empty_has_ty ts) E).
Qed.

(** ** Atoms survive a merge without overwrite permission unchanged *)

Lemma atom_kept_l p : forall a b r x, merge false a b = Some r ->
  at_path p a = Some (VAtom x) -> at_path p r = Some (VAtom x).
Proof.
  induction p as [|i p IH]; intros a b r x E Ha.
  - simpl in Ha. inversion Ha; subst. rewrite merge_atom in E. discriminate.
  - simpl in Ha. destruct (fld i a) as [a'|] eqn:Ea; try discriminate.
    apply fld_obj in Ea as (fs & -> & Ea).
    destruct b as [y|m|m|gs];
      try (change (merge false (VObj fs) ?b) with (@None pval) in E; discriminate).
    pose proof (merge_fieldwise false fs gs r E i) as Hi. rewrite Ea in Hi.
    destruct (nth i gs None) as [b'|] eqn:Eb; simpl in Hi.
    + destruct (merge false a' b') as [z|] eqn:Ez; simpl in Hi; inversion Hi as [Hr].
      simpl. rewrite <- Hr. exact (IH a' b' z x Ez Ha).
    + inversion Hi as [Hr]. simpl. rewrite <- Hr. exact Ha.
Qed.

Lemma atom_kept_r p : forall a b r x, merge false a b = Some r ->
  at_path p b = Some (VAtom x) -> at_path p r = Some (VAtom x).
Proof.
  induction p as [|i p IH]; intros a b r x E Hb.
  - simpl in Hb. inversion Hb; subst.
    destruct a as [y|m|m|fs]; discriminate E.
  - simpl in Hb. destruct (fld i b) as [b'|] eqn:Eb; try discriminate.
    apply fld_obj in Eb as (gs & -> & Eb).
    destruct a as [y|m|m|fs]; try discriminate E.
    pose proof (merge_fieldwise false fs gs r E i) as Hi. rewrite Eb in Hi.
    destruct (nth i fs None) as [a'|] eqn:Ea; simpl in Hi.
    + destruct (merge false a' b') as [z|] eqn:Ez; simpl in Hi; inversion Hi as [Hr].
      simpl. rewrite <- Hr. exact (IH a' b' z x Ez Hb).
    + inversion Hi as [Hr]. simpl. rewrite <- Hr. exact Hb.
Qed.

Lemma foldo_cons ow o x xs : foldo ow o (x :: xs) = foldo ow (mstep ow o x) xs.
Proof. reflexivity. Qed.

Lemma foldo_app ow o xs ys : foldo ow o (xs ++ ys) = foldo ow (foldo ow o xs) ys.
Proof. unfold foldo. apply fold_left_app. Qed.

Lemma foldo_atom_start p x : forall xs s r, foldo false (Some s) xs = Some r ->
  at_path p s = Some (VAtom x) -> at_path p r = Some (VAtom x).
Proof.
  induction xs as [|y xs IH]; intros s r E Hs.
  - simpl in E. inversion E; subst. exact Hs.
  - rewrite foldo_cons in E. unfold mstep in E. simpl in E.
    destruct (merge false s y) as [sy|] eqn:Es; [|rewrite foldo_none in E; discriminate].
    exact (IH sy r E (atom_kept_l p s y sy x Es Hs)).
Qed.

Lemma foldo_atom_in p x : forall xs s r a, foldo false (Some s) xs = Some r ->
  In a xs -> at_path p a = Some (VAtom x) -> at_path p r = Some (VAtom x).
Proof.
  induction xs as [|y xs IH]; intros s r a E Hin Ha; [destruct Hin|].
  rewrite foldo_cons in E. unfold mstep in E. simpl in E.
  destruct (merge false s y) as [sy|] eqn:Es; [|rewrite foldo_none in E; discriminate].
  destruct Hin as [->|Hin].
  - exact (foldo_atom_start p x xs sy r E (atom_kept_r p s a sy x Es Ha)).
  - exact (IH sy r a E Hin Ha).
Qed.

(** Every atomic value any source provides is in the harvested partial, unchanged. *)
Lemma harvest_keeps_atoms ts outs m a p x :
  harvest ts true outs = Some m -> In a outs -> at_path p a = Some (VAtom x) ->
  at_path p m = Some (VAtom x).
Proof.
  unfold harvest. intros E Hin Ha.
  destruct (merge_star false (empty_of ts) outs) as [m'|] eqn:Em; simpl in E; inversion E; subst m'.
  destruct outs as [|y r]; [destruct Hin|]. rewrite merge_star_cons in Em.
  destruct Hin as [->|Hin].
  - exact (foldo_atom_start p x r a m Em Ha).
  - exact (foldo_atom_in p x r y m a Em Hin Ha).
Qed.

(** Two sources providing an atomic value for the same place: the pipeline raises, whatever
    the other sources return, and whether or not the result was to be completed. *)
Lemma foldo_conflict p u v a b : forall l2 l3 s,
  at_path p s = Some (VAtom u) -> at_path p b = Some (VAtom v) ->
  a = s -> foldo false (Some s) (l2 ++ b :: l3) = None.
Proof.
  intros l2 l3 s Hs Hb _. rewrite foldo_app.
  destruct (foldo false (Some s) l2) as [acc|] eqn:Eacc; [|apply foldo_none].
  rewrite foldo_cons. unfold mstep. simpl.
  rewrite (conflict_refused p acc b u v (foldo_atom_start p u l2 s acc Eacc Hs) Hb).
  apply foldo_none.
Qed.

Lemma merge_star_conflict e l1 a l2 b l3 p u v :
  at_path p a = Some (VAtom u) -> at_path p b = Some (VAtom v) ->
  merge_star false e (l1 ++ a :: l2 ++ b :: l3) = None.
Proof.
  intros Ha Hb. destruct l1 as [|s l1].
  - simpl app. rewrite merge_star_cons. exact (foldo_conflict p u v a b l2 l3 a Ha Hb eq_refl).
  - simpl app. rewrite merge_star_cons, foldo_app.
    destruct (foldo false (Some s) l1) as [acc|] eqn:Eacc; [|apply foldo_none].
    rewrite foldo_cons. unfold mstep. simpl.
    destruct (merge false acc a) as [acc'|] eqn:Ea; [|apply foldo_none].
    exact (foldo_conflict p u v acc' b l2 l3 acc' (atom_kept_r p acc a acc' u Ea Ha) Hb eq_refl).
Qed.

Lemma harvest_conflict_raises ts rp l1 a l2 b l3 p u v :
  at_path p a = Some (VAtom u) -> at_path p b = Some (VAtom v) ->
  harvest ts rp (l1 ++ a :: l2 ++ b :: l3) = None.
Proof.
  intros Ha Hb. unfold harvest.
  rewrite (merge_star_conflict (empty_of ts) l1 a l2 b l3 p u v Ha Hb). reflexivity.
Qed.

(** Conversely, for outputs of the schema's type a raise of the partial-returning pipeline
    is always such a conflict between the accumulated value and the next output
    (through [refused_only_by_conflict]); the one-step form: *)
Lemma harvest_step_refusal ts acc y : has_ty (TObj ts) acc -> has_ty (TObj ts) y ->
  merge false acc y = None ->
  exists p u v, at_path p acc = Some (VAtom u) /\ at_path p y = Some (VAtom v).
Proof. apply refused_only_by_conflict. Qed.

(** ** ignore_invalid *)

Lemma sanitize_length ts : forall fs, length (sanitize ts fs) = length ts.
Proof. induction ts as [|kt ts IH]; intros fs; simpl; [reflexivity|]. rewrite IH. reflexivity. Qed.

Lemma sanitize_tys ts : forall fs, tys_ok ts (sanitize ts fs) = true.
Proof.
  induction ts as [|kt ts IH]; intros fs; [reflexivity|].
  cbn [sanitize]. apply tys_ok_cons. split; [|apply IH].
  destruct fs as [|[v|] fs]; simpl; auto.
  destruct (has_tyb (snd kt) v) eqn:E; simpl; auto.
Qed.

(** The cast always yields a partial of the class ... *)
Lemma to_partial_ii_typed ts raw v : to_partial_ii ts raw = Some v -> has_ty (TObj ts) v.
Proof.
  destruct raw as [| | |fs]; try discriminate. intros E; inversion E; subst.
  unfold has_ty. rewrite has_tyb_obj. apply sanitize_tys.
Qed.

(** ... leaves a valid object as it is ... *)
Lemma sanitize_id ts : forall fs, tys_ok ts fs = true -> sanitize ts fs = fs.
Proof.
  induction ts as [|kt ts IH]; intros [|f fs]; try discriminate; [reflexivity|].
  rewrite tys_ok_cons. intros [Hf Hfs]. cbn [sanitize tl]. rewrite (IH fs Hfs). f_equal.
  destruct f as [v|]; [|reflexivity]. simpl in Hf. unfold has_ty in Hf. rewrite Hf. reflexivity.
Qed.

Lemma to_partial_ii_valid ts v : has_ty (TObj ts) v -> to_partial_ii ts v = Some v.
Proof.
  intros H. apply has_ty_obj in H as (fs & -> & H). simpl. rewrite (sanitize_id ts fs H). reflexivity.
Qed.

(** ... and keeps exactly the fields whose value is of the field's type. *)
Lemma sanitize_nth ts : forall fs i, i < length ts ->
  nth i (sanitize ts fs) None =
  match nth i fs None with
  | Some v => if has_tyb (snd (nth i ts (Opt, TAtom))) v then Some v else None
  | None => None
  end.
Proof.
  induction ts as [|kt ts IH]; intros fs i Hi; [simpl in Hi; lia|].
  destruct i as [|i].
  - destruct fs as [|[v|] fs]; reflexivity.
  - cbn [sanitize nth]. rewrite IH by (simpl in Hi; lia). destruct fs as [|f fs]; simpl.
    + destruct i; reflexivity.
    + reflexivity.
Qed.

(** With [ignore_invalid] a merge is a merge with the sanitised operand: never refused for
    another reason, and all laws of typed operands apply. *)
Lemma merge_ii_valid ow ts a v : has_ty (TObj ts) v -> merge_ii ow ts a v = merge ow a v.
Proof. intros H. unfold merge_ii. rewrite (to_partial_ii_valid ts v H). reflexivity. Qed.

Lemma merge_ii_closed ow ts a raw r : has_ty (TObj ts) a ->
  merge_ii ow ts a raw = Some r -> has_ty (TObj ts) r.
Proof.
  unfold merge_ii. intros Ha E. destruct (to_partial_ii ts raw) as [v|] eqn:Ev; simpl in E; [|discriminate].
  exact (merge_closed (TObj ts) ow a v r Ha (to_partial_ii_typed ts raw v Ev) E).
Qed.

(** ** Element identity: lists and sets of models

    The elements of lists and sets are opaque to the merge (never merged with each other).
    The model keeps an element as a number; whatever the elements are, if the numbering is
    injective (equal numbers only for elements the code's [==]/[hash] identify), the
    observed union contains exactly the elements of both sides, each once, and a
    concatenation keeps every occurrence in order. *)
Lemma union_by_key (E : Type) (key : E -> Z) :
  (forall e1 e2, key e1 = key e2 -> e1 = e2) ->
  forall l m e, In (key e) (canon (map key l ++ map key m)) <-> In e l \/ In e m.
Proof.
  intros Hinj l m e. rewrite canon_union, !in_map_iff. split.
  - intros [(e' & Hk & Hin)|(e' & Hk & Hin)]; apply Hinj in Hk; subst; auto.
  - intros [H|H]; [left|right]; exists e; auto.
Qed.

Lemma canon_nodup l : NoDup (canon l).
Proof.
  pose proof (canon_sorted l) as H. induction H as [|z r Hr IH Hz]; constructor; auto.
  intros Hin. rewrite Forall_forall in Hz. specialize (Hz z Hin). lia.
Qed.

Lemma concat_by_key (E : Type) (key : E -> Z) (l m : list E) :
  map key l ++ map key m = map key (l ++ m).
Proof. symmetry. apply map_app. Qed.
