(** * JSON Schema (draft-07 fragment) of a Metador schema and its validator (property C20).

    - [jschema]: the fragment of JSON Schema draft-07 that pydantic 1.10 emits for the
      documented field-type grammar of [Schema/RoundTrip.v] and for the installed schema
      plugins: [type], [enum], [const], [anyOf], [items] (schema and tuple form),
      [uniqueItems], [minItems]/[maxItems], [properties] + [additionalProperties],
      [required], [minLength]/[maxLength], [minimum]/[maximum] (inclusive/exclusive, integer
      bounds), [format] and [pattern] (abstract predicates), and metador's
      [$metador_constants] annotation.  A schema object is the conjunction [JSAll] of its
      keywords (draft-07: independent keywords of one schema object are evaluated
      independently); [properties]/[additionalProperties] depend on each other and are one
      keyword here.  Annotation-only keywords ([title], [description], [examples],
      [default], [definitions] after [$ref] inlining) are not represented.
    - [jvalid]: validity of a JSON value against a [jschema] as [jsonschema.Draft7Validator]
      decides it: a float with integral value is an ["integer"]; numbers are compared by
      value ([1] equals [1.0]) in [enum]/[const]/[uniqueItems]; booleans are never numbers;
      objects are compared as maps.
    - [export]: what [MetadataSchema.schema()] ([schema/core.py] [Config.schema_extra] on top
      of pydantic's exporter, by alias, [$ref]s inlined) emits for a type of the grammar
      (determined by experiment on the real exporter; compared with it by the harness):
      strict primitives give [type]; [NonEmptyStr] adds [format] with the phantom regex;
      custom-parser types give [type: string] (their [schema_info] holds annotations only);
      [Literal] gives [enum] + [type], grouped by value type under [anyOf] when mixed;
      [Optional[T]] gives the schema of [T] (and the field is not [required]);
      [Union] gives [anyOf]; [List]/[Set] give [array] + [items] (+ [uniqueItems]);
      a schema gives [object] with one property per field alias, constant names listed with
      the schema [true], [required] = the fields that are neither [Optional] nor defaulted,
      [additionalProperties: false] under [Extra.forbid], and [$metador_constants].

    Model file: definitions only; lemmas are in [Schema/JsonSchemaProofs.v]. *)
From Coq Require Import List String Ascii ZArith NArith Bool.
From MV Require Import Base.Sx Schema.RoundTrip.
Import ListNotations.
Local Open Scope string_scope.

(** ** Numbers: decimal tokens [[-]digits[.digits][e[+-]digits]] as [m * 10^e]. *)
Definition digit_of (c : ascii) : option Z :=
  let n := N_of_ascii c in
  if (N.leb 48 n && N.leb n 57)%N then Some (Z.of_N (n - 48)) else None.

(** Reads a maximal digit prefix: accumulated value, number of digits, rest. *)
Fixpoint read_digits (s : string) (acc cnt : Z) : Z * Z * string :=
  match s with
  | EmptyString => (acc, cnt, s)
  | String c r =>
      match digit_of c with
      | Some d => read_digits r (acc * 10 + d)%Z (cnt + 1)%Z
      | None => (acc, cnt, s)
      end
  end.

Definition is_e (c : ascii) : bool := Ascii.eqb c "e"%char || Ascii.eqb c "E"%char.

Definition parse_dec (tok : string) : option (Z * Z) :=
  let '(neg, s1) := match tok with
                    | String "-"%char r => (true, r)
                    | _ => (false, tok)
                    end in
  let '(ip, n1, s2) := read_digits s1 0%Z 0%Z in
  if Z.eqb n1 0 then None else
  let '(m, nf, s3) := match s2 with
                      | String "."%char r => read_digits r ip 0%Z
                      | _ => (ip, 0%Z, s2)
                      end in
  let sm := if neg then Z.opp m else m in
  match s3 with
  | EmptyString => Some (sm, Z.opp nf)
  | String c r =>
      if is_e c then
        let '(eneg, s4) := match r with
                           | String "-"%char r' => (true, r')
                           | String "+"%char r' => (false, r')
                           | _ => (false, r)
                           end in
        let '(ex, ne, s5) := read_digits s4 0%Z 0%Z in
        match s5 with
        | EmptyString =>
            if Z.eqb ne 0 then None
            else Some (sm, ((if eneg then Z.opp ex else ex) - nf)%Z)
        | _ => None
        end
      else None
  end.

Definition dec_cmp (a b : Z * Z) : comparison :=
  let e := Z.min (snd a) (snd b) in
  Z.compare (fst a * 10 ^ (snd a - e))%Z (fst b * 10 ^ (snd b - e))%Z.

Definition dec_eqb (a b : Z * Z) : bool :=
  match dec_cmp a b with Eq => true | _ => false end.

Definition dec_integral (a : Z * Z) : bool :=
  if Z.leb 0 (snd a) then true else Z.eqb (Z.modulo (fst a) (10 ^ (Z.opp (snd a)))) 0.

Definition num_of (j : jval) : option (Z * Z) :=
  match j with
  | JInt z => Some (z, 0%Z)
  | JFloat t => parse_dec t
  | _ => None
  end.

(** ** JSON equality (draft-07 "instance equality"). *)
Fixpoint jeq (a b : jval) {struct a} : bool :=
  match a, b with
  | JNull, JNull => true
  | JBool x, JBool y => Bool.eqb x y
  | JStr x, JStr y => String.eqb x y
  | JInt x, JInt y => Z.eqb x y
  | JInt x, JFloat t =>
      match parse_dec t with Some d => dec_eqb (x, 0%Z) d | None => false end
  | JFloat s, JInt y =>
      match parse_dec s with Some c => dec_eqb c (y, 0%Z) | None => false end
  | JFloat s, JFloat t =>
      match parse_dec s, parse_dec t with
      | Some c, Some d => dec_eqb c d
      | _, _ => String.eqb s t
      end
  | JArr l, JArr m =>
      (fix all2 (l m : list jval) {struct l} : bool :=
         match l, m with
         | [], [] => true
         | x :: l', y :: m' => jeq x y && all2 l' m'
         | _, _ => false
         end) l m
  | JObj k, JObj m =>
      Nat.eqb (List.length k) (List.length m) &&
      (fix sub (k : list (string * jval)) {struct k} : bool :=
         match k with
         | [] => true
         | (key, v) :: k' =>
             match lookup key m with
             | Some w => jeq v w
             | None => false
             end && sub k'
         end) k
  | _, _ => false
  end.

Fixpoint jnodup (l : list jval) : bool :=
  match l with
  | [] => true
  | x :: r => negb (existsb (jeq x) r) && jnodup r
  end.

(** ** Schemas *)
Inductive jtype : Type := JTnull | JTbool | JTint | JTnum | JTstr | JTarr | JTobj.

Definition jtype_eqb (a b : jtype) : bool :=
  match a, b with
  | JTnull, JTnull | JTbool, JTbool | JTint, JTint | JTnum, JTnum
  | JTstr, JTstr | JTarr, JTarr | JTobj, JTobj => true
  | _, _ => false
  end.

Inductive jschema : Type :=
| JSBool (b : bool)                              (* [true] / [false] *)
| JSAll (kws : list jschema)                     (* a schema object: all its keywords *)
| KType (t : jtype)
| KEnum (vs : list jval)
| KConst (v : jval)
| KAnyOf (ss : list jschema)
| KItems (s : jschema)
| KTuple (ss : list jschema)                     (* [items: [..]], further items free *)
| KUnique
| KMinItems (n : nat)
| KMaxItems (n : nat)
| KProps (ps : list (string * jschema)) (addl : jschema)
| KRequired (rs : list string)
| KMinLength (n : nat)
| KMaxLength (n : nat)
| KMin (excl : bool) (b : Z)
| KMax (excl : bool) (b : Z)
| KFormat (f : string)
| KPattern (p : string)
| KConsts (cs : list (string * jval)).           (* [$metador_constants]: annotation *)

Definition has_type (t : jtype) (j : jval) : bool :=
  match t, j with
  | JTnull, JNull => true
  | JTbool, JBool _ => true
  | JTstr, JStr _ => true
  | JTarr, JArr _ => true
  | JTobj, JObj _ => true
  | JTint, JInt _ => true
  | JTint, JFloat t => match parse_dec t with Some d => dec_integral d | None => false end
  | JTnum, JInt _ => true
  | JTnum, JFloat _ => true
  | _, _ => false
  end.

Definition bound_ok (lower excl : bool) (b : Z) (j : jval) : bool :=
  match num_of j with
  | Some d =>
      match (if lower then dec_cmp (b, 0%Z) d else dec_cmp d (b, 0%Z)) with
      | Lt => true
      | Eq => negb excl
      | Gt => false
      end
  | None => match j with JFloat _ => false | _ => true end
  end.

Section Valid.
  (** [format] (only when a format checker is installed) and [pattern]. *)
  Variable fmt_ok : string -> string -> bool.
  Variable pat_ok : string -> string -> bool.

  Fixpoint jvalid (s : jschema) (j : jval) {struct s} : bool :=
    match s with
    | JSBool b => b
    | JSAll kws =>
        (fix all (l : list jschema) : bool :=
           match l with [] => true | k :: r => jvalid k j && all r end) kws
    | KType t => has_type t j
    | KEnum vs => existsb (jeq j) vs
    | KConst v => jeq j v
    | KAnyOf ss =>
        (fix any (l : list jschema) : bool :=
           match l with [] => false | k :: r => jvalid k j || any r end) ss
    | KItems s' => match j with JArr l => forallb (jvalid s') l | _ => true end
    | KTuple ss =>
        match j with
        | JArr l =>
            (fix go (ss : list jschema) (l : list jval) {struct ss} : bool :=
               match ss, l with
               | s' :: sr, x :: lr => jvalid s' x && go sr lr
               | _, _ => true
               end) ss l
        | _ => true
        end
    | KUnique => match j with JArr l => jnodup l | _ => true end
    | KMinItems n => match j with JArr l => Nat.leb n (List.length l) | _ => true end
    | KMaxItems n => match j with JArr l => Nat.leb (List.length l) n | _ => true end
    | KProps ps addl =>
        match j with
        | JObj kvs =>
            forallb (fun kv =>
                       (fix look (ps : list (string * jschema)) : bool :=
                          match ps with
                          | [] => jvalid addl (snd kv)
                          | (k, s') :: r =>
                              if String.eqb (fst kv) k then jvalid s' (snd kv) else look r
                          end) ps) kvs
        | _ => true
        end
    | KRequired rs =>
        match j with
        | JObj kvs => forallb (fun r => mem_str r (map fst kvs)) rs
        | _ => true
        end
    | KMinLength n => match j with JStr x => Nat.leb n (String.length x) | _ => true end
    | KMaxLength n => match j with JStr x => Nat.leb (String.length x) n | _ => true end
    | KMin excl b => bound_ok true excl b j
    | KMax excl b => bound_ok false excl b j
    | KFormat f => match j with JStr x => fmt_ok f x | _ => true end
    | KPattern p => match j with JStr x => pat_ok p x | _ => true end
    | KConsts _ => true
    end.
End Valid.

(** ** Export *)

(** The regular expression of [NonEmptyStr] as phantom-types publishes it under [format]. *)
Definition ne_format : string := "\s*\S[\S\s]*".

Definition prim_kind (j : jval) : option jtype :=
  match j with
  | JBool _ => Some JTbool
  | JInt _ => Some JTint
  | JStr _ => Some JTstr
  | _ => None
  end.

Definition kind_eqb (a b : option jtype) : bool :=
  match a, b with
  | Some x, Some y => jtype_eqb x y
  | None, None => true
  | _, _ => false
  end.

(** The value classes of a [Literal], in order of first appearance. *)
Fixpoint first_kinds (vs : list jval) (seen : list (option jtype)) : list (option jtype) :=
  match vs with
  | [] => []
  | v :: r =>
      let k := prim_kind v in
      if existsb (kind_eqb k) seen then first_kinds r seen
      else k :: first_kinds r (k :: seen)
  end.

Definition lit_group (vs : list jval) (k : option jtype) : jschema :=
  JSAll (KEnum (filter (fun v => kind_eqb (prim_kind v) k) vs)
         :: match k with Some t => [KType t] | None => [] end).

Definition export_lit (vs : list jval) : jschema :=
  match first_kinds vs [] with
  | [k] => lit_group vs k
  | ks => JSAll [KAnyOf (map (lit_group vs) ks)]
  end.

(** A field is [required] iff it is neither [Optional] nor has a default. *)
Definition is_required (f : fld ty) : bool :=
  negb (is_topt (fty f)) && match fdflt f with None => true | Some _ => false end.

Definition required_of (fs : list (fld ty)) : list string :=
  map falias (filter is_required fs).

Definition const_props (cs : list (string * jval)) : list (string * jschema) :=
  map (fun c => (fst c, JSBool true)) cs.

Fixpoint export (t : ty) : jschema :=
  match t with
  | TInt => JSAll [KType JTint]
  | TFloat => JSAll [KType JTnum]
  | TBool => JSAll [KType JTbool]
  | TStr => JSAll [KType JTstr]
  | TNEStr => JSAll [KType JTstr; KFormat ne_format]
  | TLit vs => export_lit vs
  | TCus _ => JSAll [KType JTstr]
  | TOpt t' => export t'
  | TUnion ts =>
      JSAll [KAnyOf ((fix go (ts : list ty) : list jschema :=
                        match ts with [] => [] | t' :: r => export t' :: go r end) ts)]
  | TList t' => JSAll [KType JTarr; KItems (export t')]
  | TSet t' => JSAll [KType JTarr; KItems (export t'); KUnique]
  | TObj fs cs forbid =>
      let props :=
        (fix go (fs : list (fld ty)) : list (string * jschema) :=
           match fs with
           | [] => []
           | Fld _ a t' _ :: r => (a, export t') :: go r
           end) fs in
      JSAll ([KType JTobj; KProps (props ++ const_props cs) (JSBool (negb forbid))]
             ++ (match required_of fs with [] => [] | rs => [KRequired rs] end)
             ++ (match cs with [] => [] | _ => [KConsts cs] end))
  end.

(** ** Premises of the conformance theorem *)

(** [Optional] occurs only directly as a field type: pydantic exports [Optional[T]] as [T],
    which is sound only where a [None] is dropped from the dump ([exclude_none] drops
    dictionary members, not list items). *)
Fixpoint noopt (t : ty) : bool :=
  match t with
  | TOpt _ => false
  | TUnion ts => (fix all (ts : list ty) : bool :=
                    match ts with [] => true | t' :: r => noopt t' && all r end) ts
  | TList t' | TSet t' => noopt t'
  | TObj fs _ _ =>
      (fix all (fs : list (fld ty)) : bool :=
         match fs with
         | [] => true
         | Fld _ _ t' _ :: r =>
             match t' with TOpt t'' => noopt t'' | _ => noopt t' end && all r
         end) fs
  | _ => true
  end.

Definition okpos (t : ty) : bool :=
  match t with TOpt t' => noopt t' | _ => noopt t end.

(** The members of every set value are pairwise different *as JSON values* (a Python set
    cannot hold [1] and [1.0], or [0.0] and [-0.0], at the same time). *)
Fixpoint juniq (t : ty) (v : tval) {struct t} : bool :=
  match t, v with
  | TOpt t', VSome v' => juniq t' v'
  | TUnion ts, VUn i v' =>
      (fix pick (ts : list ty) (i : nat) {struct ts} : bool :=
         match ts, i with
         | t' :: _, O => juniq t' v'
         | _ :: r, S i' => pick r i'
         | [], _ => true
         end) ts i
  | TList t', VList l => forallb (juniq t') l
  | TSet t', VSet l => forallb (juniq t') l && jnodup (map (dump t') l)
  | TObj fs _ _, VObj vs =>
      (fix go (fs : list (fld ty)) (vs : list tval) {struct fs} : bool :=
         match fs, vs with
         | Fld _ _ t' _ :: fr, v' :: vr => juniq t' v' && go fr vr
         | _, _ => true
         end) fs vs
  | _, _ => true
  end.

(** Set element types for which [juniq] follows from validity alone. *)
Definition plain_elem (t : ty) : bool :=
  match t with
  | TInt | TBool | TStr | TNEStr | TCus _ | TLit _ => true
  | _ => false
  end.

Fixpoint plainsets (t : ty) : bool :=
  match t with
  | TOpt t' | TList t' => plainsets t'
  | TSet t' => plain_elem t'
  | TUnion ts => (fix all (ts : list ty) : bool :=
                    match ts with [] => true | t' :: r => plainsets t' && all r end) ts
  | TObj fs _ _ =>
      (fix all (fs : list (fld ty)) : bool :=
         match fs with [] => true | Fld _ _ t' _ :: r => plainsets t' && all r end) fs
  | _ => true
  end.

(** ** Wire format *)
Definition sx_jtype (x : sx) : option jtype :=
  match x with
  | A "null" => Some JTnull | A "boolean" => Some JTbool | A "integer" => Some JTint
  | A "number" => Some JTnum | A "string" => Some JTstr | A "array" => Some JTarr
  | A "object" => Some JTobj
  | _ => None
  end.

Definition of_jtype (t : jtype) : sx :=
  A (match t with
     | JTnull => "null" | JTbool => "boolean" | JTint => "integer" | JTnum => "number"
     | JTstr => "string" | JTarr => "array" | JTobj => "object"
     end).

Fixpoint sx_of_jschema (s : jschema) : sx :=
  match s with
  | JSBool b => L [A "bool"; of_bool b]
  | JSAll kws => L (A "all" :: map sx_of_jschema kws)
  | KType t => L [A "type"; of_jtype t]
  | KEnum vs => L (A "enum" :: map sx_of_jval vs)
  | KConst v => L [A "const"; sx_of_jval v]
  | KAnyOf ss => L (A "anyOf" :: map sx_of_jschema ss)
  | KItems s' => L [A "items"; sx_of_jschema s']
  | KTuple ss => L (A "tuple" :: map sx_of_jschema ss)
  | KUnique => L [A "uniqueItems"]
  | KMinItems n => L [A "minItems"; of_nat n]
  | KMaxItems n => L [A "maxItems"; of_nat n]
  | KProps ps addl =>
      L [A "props";
         L ((fix go (ps : list (string * jschema)) : list sx :=
               match ps with
               | [] => []
               | (k, s') :: r => L [A k; sx_of_jschema s'] :: go r
               end) ps);
         sx_of_jschema addl]
  | KRequired rs => L (A "required" :: map A rs)
  | KMinLength n => L [A "minLength"; of_nat n]
  | KMaxLength n => L [A "maxLength"; of_nat n]
  | KMin e b => L [A "min"; of_bool e; of_Z b]
  | KMax e b => L [A "max"; of_bool e; of_Z b]
  | KFormat f => L [A "format"; A f]
  | KPattern p => L [A "pattern"; A p]
  | KConsts cs => L (A "consts" :: map (fun kv => L [A (fst kv); sx_of_jval (snd kv)]) cs)
  end.

Fixpoint jschema_of_sx (x : sx) {struct x} : option jschema :=
  match x with
  | L [A "bool"; b] => option_map JSBool (sx_bool b)
  | L (A "all" :: items) => option_map JSAll (opt_list (map jschema_of_sx items))
  | L [A "type"; t] => option_map KType (sx_jtype t)
  | L (A "enum" :: items) => option_map KEnum (opt_list (map jval_of_sx items))
  | L [A "const"; v] => option_map KConst (jval_of_sx v)
  | L (A "anyOf" :: items) => option_map KAnyOf (opt_list (map jschema_of_sx items))
  | L [A "items"; s] => option_map KItems (jschema_of_sx s)
  | L (A "tuple" :: items) => option_map KTuple (opt_list (map jschema_of_sx items))
  | L [A "uniqueItems"] => Some KUnique
  | L [A "minItems"; n] => option_map KMinItems (sx_nat n)
  | L [A "maxItems"; n] => option_map KMaxItems (sx_nat n)
  | L [A "props"; L ps; addl] =>
      match opt_list (map (fun p => match p with
                                    | L [A k; s] => option_map (pair k) (jschema_of_sx s)
                                    | _ => None
                                    end) ps),
            jschema_of_sx addl with
      | Some ps, Some addl => Some (KProps ps addl)
      | _, _ => None
      end
  | L (A "required" :: items) => option_map KRequired (opt_list (map sx_atom items))
  | L [A "minLength"; n] => option_map KMinLength (sx_nat n)
  | L [A "maxLength"; n] => option_map KMaxLength (sx_nat n)
  | L [A "min"; e; b] =>
      match sx_bool e, sx_Z b with Some e, Some b => Some (KMin e b) | _, _ => None end
  | L [A "max"; e; b] =>
      match sx_bool e, sx_Z b with Some e, Some b => Some (KMax e b) | _, _ => None end
  | L [A "format"; A f] => Some (KFormat f)
  | L [A "pattern"; A p] => Some (KPattern p)
  | L (A "consts" :: items) =>
      option_map KConsts
        (opt_list (map (fun kv => match kv with
                                  | L [A k; v] => option_map (pair k) (jval_of_sx v)
                                  | _ => None
                                  end) items))
  | _ => None
  end.

(** Runner-side interpretation of [format]: with [strict] (a format checker that knows
    the [NonEmptyStr] expression is installed) that format is "contains a non-space
    character"; every other format, every [pattern], and everything without [strict]
    (no format checker: the library default) is accepted.  Patterns never occur in
    exported schemas; the harness does not send schemas with [pattern]. *)
Definition run_fmt (strict : bool) (f x : string) : bool :=
  if strict && String.eqb f ne_format then has_nonws x else true.
Definition run_pat (_ _ : string) : bool := true.

(** Cases:
    [(export TY)]               -> the exported schema;
    [(valid STRICT SCHEMA (JSON...))] -> one boolean per JSON value;
    [(conf TAB TY TVAL)]        -> [(wf noopt plainsets wt juniq valid)] for the instance:
        the premises of [C20_stored_validates] and its conclusion on [dump TY TVAL]. *)
Definition run_c20_schema (x : sx) : sx :=
  match x with
  | L [A "export"; t] =>
      match ty_of_sx t with
      | Some t => sx_of_jschema (export t)
      | None => sx_bad "c20 export"
      end
  | L [A "valid"; st; s; L js] =>
      match sx_bool st, jschema_of_sx s, opt_list (map jval_of_sx js) with
      | Some st, Some s, Some js => L (map (fun j => of_bool (jvalid (run_fmt st) run_pat s j)) js)
      | _, _, _ => sx_bad "c20 valid"
      end
  | L [A "conf"; tab; t; v] =>
      match sx_tab tab, ty_of_sx t, tval_of_sx v with
      | Some tab, Some t, Some v =>
          let nm := norm_tab tab in
          L [of_bool (wfb t); of_bool (okpos t); of_bool (plainsets t); of_bool (wtb nm t v);
             of_bool (juniq t v);
             of_bool (jvalid (run_fmt true) run_pat (export t) (dump t v));
             sx_of_jval (dump t v)]
      | _, _, _ => sx_bad "c20 conf"
      end
  | _ => sx_bad "c20 schema"
  end.
