(** * Model of schema field types, pydantic acceptance and the override check (property C13).

    Transcribes, as total Gallina functions:
    - what pydantic 1.10 validation accepts for the field-type grammar of the property
      under metador's [BaseModelPlus.Config] ([anystr_strip_whitespace],
      [min_anystr_length = 1], [allow_inf_nan = False]) — [accepts]; the serialised
      normal forms — [nf];
    - [util/typing.py] [is_subtype] (Annotated / Literal wrapper agreement, then
      runtype 0.3.5 [is_subtype]: [PythonDataType.__le__] = [issubclass],
      [OneOf.__le__] = value subset / [validate_instance] of every value,
      [SumType.__le__] = all, [SumType.__ge__] = any, [GenericType.__le__] covariant,
      [AnyType] top) — [subtype];
    - [schema/core.py] [SchemaMagic.__new__] (extra-field policy, constants),
      [check_overrides], [schema/decorators.py] [@override], [@add_const_fields]
      — [check_child] (repaired) and [check_child_pinned].

    Deviation from runtype, semantically neutral: [SumType.__init__] merges several
    [OneOf] members into one; since [OneOf] comparison is a conjunction over the values
    and [SumType] comparison a conjunction over the members, the merged and the unmerged
    form compare identically, so unions are kept as written.

    Phantom (constrained string) types are an abstract predicate id with the ids of the
    ancestor classes; a phantom instance check evaluates only the class' own predicate
    (phantom 2.1.1 [Phantom.__instancecheck__]).  Floats are multiples of one half
    ([JFloat h] is h/2), enough to tell integral from non-integral floats.
    Strings are ASCII.  Date/time types are outside the property. *)
From Coq Require Import List String Ascii NArith ZArith Bool.
From MV Require Import Base.Sx.
Import ListNotations.
Local Open Scope string_scope.

(** ** JSON values *)
Inductive jval : Type :=
| JNull
| JBool (b : bool)
| JInt (z : Z)
| JFloat (halves : Z)
| JStr (s : string)
| JArr (l : list jval)
| JObj (kvs : list (string * jval)).

(** ** Types *)
Inductive prim : Type := KInt | KFloat | KBool | KStr.
Inductive lit : Type := LBool (b : bool) | LInt (z : Z) | LStr (s : string).
(** a value listed in a runtype [OneOf]: a literal or [None] *)
Inductive lval : Type := VNone | VLit (v : lit).
Inductive extra : Type := EAllow | EIgnore | EForbid.

Inductive ty : Type :=
| TAny
| TPrim (strict : bool) (k : prim)       (* StrictInt/... (true) or int/float/bool/str (false) *)
| TPhantom (chain : list N)              (* own predicate id :: ids of the ancestor classes *)
| TLit (vs : list lit)
| TNone
| TUnion (ts : list ty)                  (* Optional[t] = Union[t, None] *)
| TList (t : ty)
| TSet (t : ty)
| TObj (chain : list N) (ex : extra) (fields : list (string * ty)).

Definition TOpt (t : ty) : ty := TUnion [t; TNone].

Definition prim_eqb (a b : prim) : bool :=
  match a, b with
  | KInt, KInt | KFloat, KFloat | KBool, KBool | KStr, KStr => true
  | _, _ => false
  end.

Definition extra_forbids (e : extra) : bool := match e with EForbid => true | _ => false end.

(** ** Strings *)
Definition is_ws (c : ascii) : bool :=
  let n := N_of_ascii c in
  ((N.leb 9 n && N.leb n 13) || (N.leb 28 n && N.leb n 32))%N.

Fixpoint blank (s : string) : bool :=
  match s with EmptyString => true | String c r => is_ws c && blank r end.

Fixpoint last_char (s : string) (d : ascii) : ascii :=
  match s with EmptyString => d | String c r => last_char r c end.

(** [s.strip() == s] *)
Definition stripped (s : string) : bool :=
  match s with
  | EmptyString => true
  | String c r => negb (is_ws c) && negb (is_ws (last_char r c))
  end.

Fixpoint ltrim (l : list ascii) : list ascii :=
  match l with c :: r => if is_ws c then ltrim r else l | [] => [] end.
Definition trim (l : list ascii) : list ascii := rev (ltrim (rev (ltrim l))).

Definition is_digit (c : ascii) : bool :=
  let n := N_of_ascii c in (N.leb 48 n && N.leb n 57)%N.
Definition is_char (c d : ascii) : bool := N.eqb (N_of_ascii c) (N_of_ascii d).

Fixpoint digs_tail (l : list ascii) : bool :=
  match l with
  | [] => true
  | c :: r =>
      if is_digit c then digs_tail r
      else if is_char c "_" then
        match r with d :: r' => is_digit d && digs_tail r' | [] => false end
      else false
  end.
(** digit (["_"] digit)* *)
Definition digs (l : list ascii) : bool :=
  match l with c :: r => is_digit c && digs_tail r | [] => false end.

Definition unsign (l : list ascii) : list ascii :=
  match l with
  | c :: r => if is_char c "+" || is_char c "-" then r else l
  | [] => []
  end.

(** Python [int(s)] succeeds (ASCII, base 10). *)
Definition int_like (s : string) : bool := digs (unsign (trim (list_ascii_of_string s))).

Fixpoint split_dot (l : list ascii) (acc : list ascii) : option (list ascii * list ascii) :=
  match l with
  | [] => None
  | c :: r => if is_char c "." then Some (rev acc, r) else split_dot r (c :: acc)
  end.

(** Python [float(s)] succeeds with a finite result — modelled for the lexical forms
    [sign? digits], [sign? digits "." digits?], [sign? "." digits] only (no exponent,
    no inf/nan: those are rejected anyway by [allow_inf_nan = False]). *)
Definition float_like (s : string) : bool :=
  let l := unsign (trim (list_ascii_of_string s)) in
  digs l ||
  match split_dot l [] with
  | Some (a, b) =>
      (digs a && (match b with [] => true | _ => digs b end))
      || (match a with [] => digs b | _ => false end)
  | None => false
  end.

Definition lower_char (c : ascii) : ascii :=
  let n := N_of_ascii c in
  if (N.leb 65 n && N.leb n 90)%N then ascii_of_N (n + 32) else c.
Fixpoint lower (s : string) : string :=
  match s with EmptyString => EmptyString | String c r => String (lower_char c) (lower r) end.

Fixpoint mem_str (s : string) (l : list string) : bool :=
  match l with [] => false | x :: r => String.eqb s x || mem_str s r end.

(** pydantic [BOOL_TRUE] / [BOOL_FALSE] string members *)
Definition bool_words : list string :=
  ["0"; "off"; "f"; "false"; "n"; "no"; "1"; "on"; "t"; "true"; "y"; "yes"].

Fixpoint mem_N (n : N) (l : list N) : bool :=
  match l with [] => false | x :: r => N.eqb n x || mem_N n r end.

(** ** Python equality between JSON values, literals and [OneOf] values
    ([True == 1 == 1.0], hashes agree) *)
Definition num_of_bool (b : bool) : Z := if b then 1%Z else 0%Z.

Definition lit_eqb (a b : lit) : bool :=
  match a, b with
  | LStr s, LStr t => String.eqb s t
  | LStr _, _ | _, LStr _ => false
  | LBool x, LBool y => Z.eqb (num_of_bool x) (num_of_bool y)
  | LBool x, LInt z | LInt z, LBool x => Z.eqb (num_of_bool x) z
  | LInt x, LInt y => Z.eqb x y
  end.

Definition lval_eqb (a b : lval) : bool :=
  match a, b with
  | VNone, VNone => true
  | VLit x, VLit y => lit_eqb x y
  | _, _ => false
  end.

(** [j == v] for a parsed JSON value j and a literal v (dict lookup in pydantic's
    literal validator) *)
Definition j_eq_lit (j : jval) (v : lit) : bool :=
  match j, v with
  | JStr s, LStr t => String.eqb s t
  | JBool b, LBool c => Z.eqb (num_of_bool b) (num_of_bool c)
  | JBool b, LInt z => Z.eqb (num_of_bool b) z
  | JInt x, LBool c => Z.eqb x (num_of_bool c)
  | JInt x, LInt z => Z.eqb x z
  | JFloat h, LBool c => Z.eqb h (2 * num_of_bool c)
  | JFloat h, LInt z => Z.eqb h (2 * z)
  | _, _ => false
  end.

(** the JSON value a literal serialises to *)
Definition j_is_lit (j : jval) (v : lit) : bool :=
  match j, v with
  | JStr s, LStr t => String.eqb s t
  | JBool b, LBool c => Bool.eqb b c
  | JInt x, LInt z => Z.eqb x z
  | _, _ => false
  end.

Definition is_null (j : jval) : bool := match j with JNull => true | _ => false end.

(** ** Objects *)
Fixpoint lookup {X : Type} (k : string) (kvs : list (string * X)) : option X :=
  match kvs with
  | [] => None
  | (k', v) :: r => if String.eqb k k' then Some v else lookup k r
  end.

Definition has_key {X : Type} (k : string) (kvs : list (string * X)) : bool :=
  match lookup k kvs with Some _ => true | None => false end.

(** pydantic [Model.validate]: a dict, or anything [dict(value)] converts *)
Definition pair_of (j : jval) : option (string * jval) :=
  match j with
  | JArr [JStr k; v] => Some (k, v)
  | JStr (String a (String b EmptyString)) => Some (String a EmptyString, JStr (String b EmptyString))
  | _ => None
  end.

Definition as_obj (j : jval) : option (list (string * jval)) :=
  match j with
  | JObj kvs => Some kvs
  | JStr EmptyString => Some []
  | JArr l => opt_all (map pair_of l)
  | _ => None
  end.

Definition keys_known {X Y : Type} (fields : list (string * X)) (kvs : list (string * Y)) : bool :=
  forallb (fun kv => has_key (fst kv) fields) kvs.

Section WithPredicates.
  (** interpretation of the phantom predicate ids *)
  Variable pred : N -> string -> bool.

  Definition accepts_prim (strict : bool) (k : prim) (j : jval) : bool :=
    match strict, k, j with
    | true, KInt, JInt _ => true
    | true, KFloat, JFloat _ => true
    | true, KBool, JBool _ => true
    | true, KStr, JStr s => negb (blank s)
    | true, _, _ => false
    | false, KInt, (JInt _ | JBool _ | JFloat _) => true
    | false, KInt, JStr s => int_like s
    | false, KFloat, (JInt _ | JBool _ | JFloat _) => true
    | false, KFloat, JStr s => float_like s
    | false, KBool, JBool _ => true
    | false, KBool, JInt z => Z.eqb z 0 || Z.eqb z 1
    | false, KBool, JFloat h => Z.eqb h 0 || Z.eqb h 2
    | false, KBool, JStr s => mem_str (lower s) bool_words
    | false, KStr, JStr s => negb (blank s)
    | false, KStr, (JInt _ | JBool _ | JFloat _) => true
    | false, _, _ => false
    end.

  Definition accepts_ph (chain : list N) (j : jval) : bool :=
    match chain, j with
    | p :: _, JStr s => pred p s
    | _, _ => false
    end.

  (** fields: a present key is validated, a missing key needs a type allowing [None];
      unknown keys only when extras are not forbidden *)
  Definition obj_ok (acc : ty -> jval -> bool) (skip : list string) (ex : extra)
             (fields : list (string * ty)) (kvs : list (string * jval)) : bool :=
    forallb (fun f => mem_str (fst f) skip ||
                      match lookup (fst f) kvs with
                      | Some v => acc (snd f) v
                      | None => acc (snd f) JNull
                      end) fields
    && (negb (extra_forbids ex) || keys_known fields kvs).

  Fixpoint accepts (t : ty) (j : jval) {struct t} : bool :=
    match t with
    | TAny => true
    | TPrim s k => accepts_prim s k j
    | TPhantom c => accepts_ph c j
    | TLit vs => existsb (j_eq_lit j) vs
    | TNone => is_null j
    | TUnion ts => existsb (fun t' => accepts t' j) ts
    | TList t' => match j with JArr l => forallb (accepts t') l | _ => false end
    | TSet t' => match j with JArr l => forallb (accepts t') l | _ => false end
    | TObj _ ex fields =>
        match as_obj j with
        | Some kvs =>
            forallb (fun f => match lookup (fst f) kvs with
                              | Some v => accepts (snd f) v
                              | None => accepts (snd f) JNull
                              end) fields
            && (negb (extra_forbids ex) || keys_known fields kvs)
        | None => false
        end
    end.

  (** acceptance by an object type, not looking at the fields named in [skip]
      (explicitly declared overrides) *)
  Definition accepts_except (skip : list string) (t : ty) (j : jval) : bool :=
    match t with
    | TObj _ ex fields =>
        match as_obj j with
        | Some kvs => obj_ok accepts skip ex fields kvs
        | None => false
        end
    | _ => accepts t j
    end.

  (** serialised normal forms: what [bytes(obj)] can contain for a field of type t
      ([exclude_none]: no null members in objects) *)
  Definition nf_prim (k : prim) (j : jval) : bool :=
    match k, j with
    | KInt, JInt _ => true
    | KFloat, JFloat _ => true
    | KBool, JBool _ => true
    | KStr, JStr s => negb (blank s) && stripped s
    | _, _ => false
    end.

  Fixpoint nf (t : ty) (j : jval) {struct t} : bool :=
    match t with
    | TAny => true
    | TPrim _ k => nf_prim k j
    | TPhantom c => accepts_ph c j
    | TLit vs => existsb (j_is_lit j) vs
    | TNone => is_null j
    | TUnion ts => existsb (fun t' => nf t' j) ts
    | TList t' => match j with JArr l => forallb (nf t') l | _ => false end
    | TSet t' => match j with JArr l => forallb (nf t') l | _ => false end
    | TObj _ ex fields =>
        match j with
        | JObj kvs =>
            forallb (fun f => match lookup (fst f) kvs with
                              | Some v => negb (is_null v) && nf (snd f) v
                              | None => accepts (snd f) JNull
                              end) fields
            && (match ex with EAllow => true | _ => keys_known fields kvs end)
        | _ => false
        end
    end.

  (** ** runtype: class relation, instance check of literal values *)
  Definition chain_le (c1 c2 : list N) : bool :=
    match c2 with q :: _ => mem_N q c1 | [] => false end.

  (** [issubclass] between the kernels of two [PythonDataType]s *)
  Definition kern_le (a b : ty) : bool :=
    match a, b with
    | TPrim s1 k1, TPrim s2 k2 =>
        (Bool.eqb s1 s2 && prim_eqb k1 k2)
        || (negb s2 && match k1, k2 with
                       | KInt, KInt | KBool, KInt | KFloat, KFloat | KStr, KStr => true
                       | _, _ => false
                       end)
    | TPhantom c1, TPhantom c2 => chain_le c1 c2
    | TPhantom (_ :: _), TPrim false KStr => true
    | TObj c1 _ _, TObj c2 _ _ => chain_le c1 c2
    | _, _ => false
    end.

  (** [isinstance(v, kernel)] for a literal value *)
  Definition isinst (v : lval) (b : ty) : bool :=
    match v, b with
    | VLit (LBool _), TPrim false (KInt | KBool) => true
    | VLit (LInt _), TPrim false KInt => true
    | VLit (LStr _), TPrim false KStr => true
    | VLit (LStr s), TPhantom (p :: _) => pred p s
    | _, _ => false
    end.

  Definition lvals_of (vs : list lit) : list lval := map VLit vs.

  (** runtype [validate_instance] of one [OneOf] value against the canonical form of b *)
  Fixpoint validate (b : ty) (v : lval) {struct b} : bool :=
    match b with
    | TAny => true
    | TPrim _ _ | TPhantom _ | TObj _ _ _ => isinst v b
    | TLit ws => existsb (lval_eqb v) (lvals_of ws)
    | TNone => lval_eqb v VNone
    | TUnion us => existsb (fun u => validate u v) us
    | TList _ | TSet _ => false
    end.

  Definition subset (vs ws : list lval) : bool :=
    forallb (fun v => existsb (lval_eqb v) ws) vs.

  (** [OneOf(vs) <= b] *)
  Definition ole (vs : list lval) (b : ty) : bool :=
    match b with
    | TLit ws => subset vs (lvals_of ws)
    | TNone => subset vs [VNone]
    | _ => forallb (validate b) vs
    end.

  (** [PythonDataType(a) <= b]: [issubclass], else [b.__ge__]: any member of a sum *)
  Fixpoint dle (a : ty) (b : ty) {struct b} : bool :=
    match b with
    | TAny => true
    | TPrim _ _ | TPhantom _ | TObj _ _ _ => kern_le a b
    | TUnion us => existsb (dle a) us
    | TLit _ | TNone | TList _ | TSet _ => false
    end.

  (** runtype [ct1 <= ct2] *)
  Fixpoint cle (a : ty) : ty -> bool :=
    match a with
    | TAny => fun b => match b with TAny => true | _ => false end
    | TPrim _ _ | TPhantom _ | TObj _ _ _ => dle a
    | TLit vs => ole (lvals_of vs)
    | TNone => ole [VNone]
    | TUnion ts => fun b => forallb (fun t => cle t b) ts
    | TList i1 =>
        fix gle (b : ty) : bool :=
          match b with
          | TList i2 => cle i1 i2
          | TUnion us => existsb gle us
          | TAny => true
          | _ => false
          end
    | TSet i1 =>
        fix gle (b : ty) : bool :=
          match b with
          | TSet i2 => cle i1 i2
          | TUnion us => existsb gle us
          | TAny => true
          | _ => false
          end
    end.

  Definition is_lit (t : ty) : bool := match t with TLit _ => true | _ => false end.

  (** [util/typing.py:is_subtype] on a field hint: (annotated?, type) *)
  Definition hint : Type := (bool * ty)%type.

  Definition subtype (a b : ty) : bool :=
    if Bool.eqb (is_lit a) (is_lit b) then cle a b else false.

  Definition subtype_hint (a b : hint) : bool :=
    if Bool.eqb (fst a) (fst b) then subtype (snd a) (snd b) else false.

  (** ** Side conditions under which the check is sound *)
  Definition lit_nonblank (v : lit) : bool :=
    match v with LStr s => negb (blank s) | _ => true end.

  (** no blank string literal anywhere in a (comparison never enters object fields) *)
  Fixpoint lits_nonblank (a : ty) : bool :=
    match a with
    | TLit vs => forallb lit_nonblank vs
    | TUnion ts => forallb lits_nonblank ts
    | TList t | TSet t => lits_nonblank t
    | _ => true
    end.

  Fixpoint pstr_free (b : ty) : bool :=
    match b with
    | TPrim false KStr => false
    | TUnion ts => forallb pstr_free ts
    | TList t | TSet t => pstr_free t
    | _ => true
    end.

  Fixpoint pbool_free (a : ty) : bool :=
    match a with
    | TPrim false KBool => false
    | TUnion ts => forallb pbool_free ts
    | TList t | TSet t => pbool_free t
    | _ => true
    end.

  (** the property's grammar has strict primitives only; with the plain ones the two
      known gaps are excluded explicitly *)
  Definition safe_pair (a b : ty) : bool :=
    pbool_free a && (pstr_free b || lits_nonblank a).

  (** ** Schema classes and the override check *)
  Record schema : Type := mkschema {
    s_chain : list N;                     (* own class id :: ancestors *)
    s_extra : extra;
    s_hints : list (string * hint);       (* resolved public instance fields, constants included *)
    s_consts : list string                (* names of constant fields *)
  }.

  Record childdef : Type := mkchild {
    c_id : N;
    c_extra : extra;                      (* effective Config.extra of the child *)
    c_own : list (string * hint);         (* own annotations *)
    c_declared : list string;             (* @override(...) *)
    c_newconsts : list string             (* @add_const_fields names *)
  }.

  Definition fields_of (hs : list (string * hint)) : list (string * ty) :=
    map (fun h => (fst h, snd (snd h))) hs.

  Definition obj_of (s : schema) : ty := TObj (s_chain s) (s_extra s) (fields_of (s_hints s)).

  Definition names {X : Type} (l : list (string * X)) : list string := map fst l.

  (** hints of the child class: inherited ones, re-typed where overridden, then new ones *)
  Definition merge_hints (base own : list (string * hint)) : list (string * hint) :=
    map (fun b => match lookup (fst b) own with Some h => (fst b, h) | None => b end) base
    ++ filter (fun o => negb (has_key (fst o) base)) own.

  Definition const_hint : hint := (false, TUnion [TAny; TNone]).

  Definition child_schema (p : schema) (c : childdef) : schema :=
    let hs := merge_hints (s_hints p) (c_own c) in
    let newc := filter (fun n => negb (has_key n hs)) (c_newconsts c) in
    mkschema (c_id c :: s_chain p) (c_extra c)
             (map (fun h => if mem_str (fst h) (c_newconsts c) then (fst h, const_hint) else h) hs
              ++ map (fun n => (n, const_hint)) newc)
             (s_consts p ++ c_newconsts c).

  (** [SchemaMagic.__new__] *)
  Definition check_new (p : schema) (c : childdef) : bool :=
    negb (existsb (fun o => mem_str (fst o) (s_consts p)) (c_own c))
    && (negb (extra_forbids (s_extra p))
        || (extra_forbids (c_extra c)
            && forallb (fun o => has_key (fst o) (s_hints p)) (c_own c))).

  (** [@add_const_fields] — repaired: a constant that is no field of a parent forbidding
      extra fields is a new field and refused like one *)
  Definition check_consts (p : schema) (c : childdef) : bool :=
    negb (extra_forbids (s_extra p))
    || forallb (fun n => has_key n (s_hints p)) (c_newconsts c).

  (** [check_overrides] *)
  Definition actual_overrides (p : schema) (c : childdef) : list (string * hint) :=
    filter (fun o => has_key (fst o) (s_hints p) && negb (mem_str (fst o) (c_newconsts c))) (c_own c).

  Definition check_overrides (p : schema) (c : childdef) : bool :=
    let actual := actual_overrides p c in
    forallb (fun d => has_key d (s_hints p)) (c_declared c)
    && forallb (fun d => has_key d actual) (c_declared c)
    && forallb (fun o => mem_str (fst o) (c_declared c) ||
                         match lookup (fst o) (s_hints p) with
                         | Some ph => subtype_hint (snd o) ph
                         | None => false
                         end) actual.

  Definition check_child_pinned (p : schema) (c : childdef) : bool :=
    check_new p c && check_overrides p c.

  Definition check_child (p : schema) (c : childdef) : bool :=
    check_new p c && check_consts p c && check_overrides p c.

  (** ** Inheritance chains: every class is checked against its immediate base
      ([check_types] recurses over [__bases__], plugin or not) *)
  Fixpoint check_chain (p : schema) (cs : list childdef) : bool :=
    match cs with
    | [] => true
    | c :: r => check_child p c && check_chain (child_schema p c) r
    end.

  (** the root and every class derived from it along the chain, root first *)
  Fixpoint chain_schemas (p : schema) (cs : list childdef) : list schema :=
    p :: match cs with
         | [] => []
         | c :: r => chain_schemas (child_schema p c) r
         end.

  Definition leaf_schema (p : schema) (cs : list childdef) : schema :=
    fold_left child_schema cs p.

End WithPredicates.

(** ** Runner entry point.
    Types:   [(any)] [(prim T|F int|float|bool|str)] [(ph (id...))] [(lit (v...))] [(none)]
             [(union (t...))] [(list t)] [(set t)] [(obj (id...) allow|ignore|forbid ((name t)...))]
    Literal: [(b T|F)] [(i z)] [(s str)]
    JSON:    [(null)] [(b T|F)] [(i z)] [(f halves)] [(s str)] [(arr (j...))] [(obj ((k j)...))]
    Phantom predicates are interpreted by a table [((id (accepted strings...))...)]. *)

Definition sx_prim (x : sx) : option prim :=
  match x with
  | A "int" => Some KInt | A "float" => Some KFloat
  | A "bool" => Some KBool | A "str" => Some KStr
  | _ => None
  end.

Definition sx_extra (x : sx) : option extra :=
  match x with
  | A "allow" => Some EAllow | A "ignore" => Some EIgnore | A "forbid" => Some EForbid
  | _ => None
  end.

Definition sx_lit (x : sx) : option lit :=
  match x with
  | L [A "b"; b] => option_map LBool (sx_bool b)
  | L [A "i"; z] => option_map LInt (sx_Z z)
  | L [A "s"; A s] => Some (LStr s)
  | _ => None
  end.

Fixpoint sx_ty (x : sx) : option ty :=
  match x with
  | L [A "any"] => Some TAny
  | L [A "prim"; s; k] =>
      match sx_bool s, sx_prim k with Some s, Some k => Some (TPrim s k) | _, _ => None end
  | L [A "ph"; c] => option_map TPhantom (sx_map sx_N c)
  | L [A "lit"; vs] => option_map TLit (sx_map sx_lit vs)
  | L [A "none"] => Some TNone
  | L [A "union"; L ts] => option_map TUnion (opt_all (map sx_ty ts))
  | L [A "list"; t] => option_map TList (sx_ty t)
  | L [A "set"; t] => option_map TSet (sx_ty t)
  | L [A "obj"; c; e; L fs] =>
      match sx_map sx_N c, sx_extra e,
            opt_all (map (fun f => match f with
                                   | L [A n; t] => option_map (fun t' => (n, t')) (sx_ty t)
                                   | _ => None
                                   end) fs) with
      | Some c, Some e, Some fs => Some (TObj c e fs)
      | _, _, _ => None
      end
  | _ => None
  end.

Fixpoint sx_jval (x : sx) : option jval :=
  match x with
  | L [A "null"] => Some JNull
  | L [A "b"; b] => option_map JBool (sx_bool b)
  | L [A "i"; z] => option_map JInt (sx_Z z)
  | L [A "f"; z] => option_map JFloat (sx_Z z)
  | L [A "s"; A s] => Some (JStr s)
  | L [A "arr"; L l] => option_map JArr (opt_all (map sx_jval l))
  | L [A "obj"; L kvs] =>
      option_map JObj
        (opt_all (map (fun kv => match kv with
                                 | L [A k; v] => option_map (fun v' => (k, v')) (sx_jval v)
                                 | _ => None
                                 end) kvs))
  | _ => None
  end.

Definition ptable : Type := list (N * list string).

Definition sx_ptable (x : sx) : option ptable := sx_map (sx_pair sx_N sx_strings) x.

Fixpoint table_pred (t : ptable) (p : N) (s : string) : bool :=
  match t with
  | [] => false
  | (q, l) :: r => if N.eqb p q then mem_str s l else table_pred r p s
  end.

Definition sx_hint (x : sx) : option hint := sx_pair sx_bool sx_ty x.

Definition sx_hints (x : sx) : option (list (string * hint)) :=
  sx_map (sx_pair sx_atom sx_hint) x.

Definition sx_schema (x : sx) : option schema :=
  match x with
  | L [c; e; hs; cs] =>
      match sx_map sx_N c, sx_extra e, sx_hints hs, sx_strings cs with
      | Some c, Some e, Some hs, Some cs => Some (mkschema c e hs cs)
      | _, _, _, _ => None
      end
  | _ => None
  end.

Definition sx_child (x : sx) : option childdef :=
  match x with
  | L [i; e; own; decl; nc] =>
      match sx_N i, sx_extra e, sx_hints own, sx_strings decl, sx_strings nc with
      | Some i, Some e, Some own, Some decl, Some nc => Some (mkchild i e own decl nc)
      | _, _, _, _, _ => None
      end
  | _ => None
  end.

(** Cases:
    [(sub ptable a b)]            -> [(is_subtype safe_pair)]   (a, b hints [(ann ty)])
    [(subrow ptable a (b...))]    -> [((is_subtype safe_pair)...)]
    [(acc ptable t (j...))]       -> [((accepts nf)...)]
    [(chk ptable parent child (j...))]
        -> [(check_child check_child_pinned ((child-accepts parent-accepts)...))]
    [(chain ptable root (child...) (j...))]
        -> [(check_chain ((leaf-accepts (class-accepts... root first))...))] *)
Definition run_c13 (x : sx) : sx :=
  match x with
  | L [A "sub"; pt; a; b] =>
      match sx_ptable pt, sx_hint a, sx_hint b with
      | Some pt, Some a, Some b =>
          L [of_bool (subtype_hint (table_pred pt) a b); of_bool (safe_pair (snd a) (snd b))]
      | _, _, _ => sx_bad "sub"
      end
  | L [A "subrow"; pt; a; bs] =>
      match sx_ptable pt, sx_hint a, sx_map sx_hint bs with
      | Some pt, Some a, Some bs =>
          of_list (fun b => L [of_bool (subtype_hint (table_pred pt) a b);
                               of_bool (safe_pair (snd a) (snd b))]) bs
      | _, _, _ => sx_bad "subrow"
      end
  | L [A "acc"; pt; t; js] =>
      match sx_ptable pt, sx_ty t, sx_map sx_jval js with
      | Some pt, Some t, Some js =>
          of_list (fun j => L [of_bool (accepts (table_pred pt) t j);
                               of_bool (nf (table_pred pt) t j)]) js
      | _, _, _ => sx_bad "acc"
      end
  | L [A "chk"; pt; p; c; js] =>
      match sx_ptable pt, sx_schema p, sx_child c, sx_map sx_jval js with
      | Some pt, Some p, Some c, Some js =>
          let pr := table_pred pt in
          L [of_bool (check_child pr p c); of_bool (check_child_pinned pr p c);
             of_list (fun j => L [of_bool (accepts pr (obj_of (child_schema p c)) j);
                                  of_bool (accepts pr (obj_of p) j)]) js]
      | _, _, _, _ => sx_bad "chk"
      end
  | L [A "chain"; pt; p; cs; js] =>
      match sx_ptable pt, sx_schema p, sx_map sx_child cs, sx_map sx_jval js with
      | Some pt, Some p, Some cs, Some js =>
          let pr := table_pred pt in
          L [of_bool (check_chain pr p cs);
             of_list (fun j => L [of_bool (accepts pr (obj_of (leaf_schema p cs)) j);
                                  of_list (fun s => of_bool (accepts pr (obj_of s) j))
                                          (chain_schemas p cs)]) js]
      | _, _, _, _ => sx_bad "chain"
      end
  | _ => sx_bad "c13"
  end.
