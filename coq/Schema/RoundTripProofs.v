(** * Proofs about the schema round-trip model (property C12). *)
From Coq Require Import List String Ascii ZArith Bool Lia Permutation.
From MV Require Import Base.Sx Schema.RoundTrip.
Import ListNotations.
Local Open Scope string_scope.
Local Open Scope list_scope.

(** ** Nested induction principle for the type grammar *)
Section TyInd.
  Variable P : ty -> Prop.
  Hypothesis HInt : P TInt.
  Hypothesis HFloat : P TFloat.
  Hypothesis HBool : P TBool.
  Hypothesis HStr : P TStr.
  Hypothesis HNEStr : P TNEStr.
  Hypothesis HLit : forall vs, P (TLit vs).
  Hypothesis HCus : forall c, P (TCus c).
  Hypothesis HOpt : forall t, P t -> P (TOpt t).
  Hypothesis HUnion : forall ts, Forall P ts -> P (TUnion ts).
  Hypothesis HList : forall t, P t -> P (TList t).
  Hypothesis HSet : forall t, P t -> P (TSet t).
  Hypothesis HObj : forall fs cs fb, Forall (fun f => P (fty f)) fs -> P (TObj fs cs fb).

  Fixpoint ty_ind' (t : ty) : P t :=
    match t with
    | TInt => HInt | TFloat => HFloat | TBool => HBool | TStr => HStr | TNEStr => HNEStr
    | TLit vs => HLit vs
    | TCus c => HCus c
    | TOpt t' => HOpt t' (ty_ind' t')
    | TUnion ts =>
        HUnion ts ((fix go (ts : list ty) : Forall P ts :=
                      match ts with
                      | [] => Forall_nil _
                      | t' :: r => Forall_cons _ (ty_ind' t') (go r)
                      end) ts)
    | TList t' => HList t' (ty_ind' t')
    | TSet t' => HSet t' (ty_ind' t')
    | TObj fs cs fb =>
        HObj fs cs fb
          ((fix go (fs : list (fld ty)) : Forall (fun f => P (fty f)) fs :=
              match fs with
              | [] => Forall_nil _
              | f :: r =>
                  Forall_cons _
                    (match f as f0 return P (fty f0) with Fld _ _ t' _ => ty_ind' t' end)
                    (go r)
              end) fs)
    end.
End TyInd.

(** ** Association-list facts *)
Lemma mem_str_In : forall k l, mem_str k l = true <-> In k l.
Proof.
  intros k l. unfold mem_str. rewrite existsb_exists. split.
  - intros [x [Hin He]]. apply String.eqb_eq in He. subst. exact Hin.
  - intros Hin. exists k. split; [exact Hin | apply String.eqb_refl].
Qed.

Lemma mem_str_notIn : forall k l, mem_str k l = false <-> ~ In k l.
Proof.
  intros k l. rewrite <- mem_str_In. destruct (mem_str k l); split; intros; try discriminate; auto.
  exfalso. apply H. reflexivity.
Qed.

Lemma nodup_str_NoDup : forall l, nodup_str l = true -> NoDup l.
Proof.
  induction l as [|x r IH]; simpl; intros H.
  - constructor.
  - apply andb_prop in H. destruct H as [H1 H2]. constructor.
    + apply negb_true_iff in H1. apply mem_str_notIn in H1. exact H1.
    + apply IH. exact H2.
Qed.

Lemma lookup_notin : forall (X : Type) k (l : list (string * X)), ~ In k (map fst l) -> lookup k l = None.
Proof.
  intros X k l. induction l as [|[k' v] r IH]; simpl; intros H; [reflexivity|].
  destruct (String.eqb k k') eqn:E.
  - apply String.eqb_eq in E. subst. exfalso. apply H. left. reflexivity.
  - apply IH. intros Hin. apply H. right. exact Hin.
Qed.

Lemma lookup_app : forall (X : Type) k (l1 l2 : list (string * X)),
  lookup k (l1 ++ l2) = match lookup k l1 with Some v => Some v | None => lookup k l2 end.
Proof.
  intros X k l1 l2. induction l1 as [|[k' v] r IH]; simpl; [reflexivity|].
  destruct (String.eqb k k'); [reflexivity | exact IH].
Qed.

Lemma lookup_None_notin : forall (X : Type) k (l : list (string * X)),
  lookup k l = None -> ~ In k (map fst l).
Proof.
  intros X k l. induction l as [|[k' v] r IH]; simpl; intros H Hin; [exact Hin|].
  destruct (String.eqb k k') eqn:E; [discriminate|].
  destruct Hin as [Hin|Hin].
  - subst. rewrite String.eqb_refl in E. discriminate.
  - exact (IH H Hin).
Qed.

Lemma lookup_In_NoDup : forall (X : Type) k (v : X) l,
  NoDup (map fst l) -> In (k, v) l -> lookup k l = Some v.
Proof.
  intros X k v l. induction l as [|[k' v'] r IH]; simpl; intros Hnd Hin; [contradiction|].
  inversion Hnd as [|? ? Hn Hnd']; subst.
  destruct Hin as [Hin|Hin].
  - inversion Hin; subst. rewrite String.eqb_refl. reflexivity.
  - destruct (String.eqb k k') eqn:E.
    + apply String.eqb_eq in E. subst. exfalso. apply Hn.
      change k' with (fst (k', v)). apply in_map. exact Hin.
    + apply IH; assumption.
Qed.

Lemma lookup_filter_keep : forall (X : Type) k ks (l : list (string * X)),
  mem_str k ks = false ->
  lookup k (filter (fun kv => negb (mem_str (fst kv) ks)) l) = lookup k l.
Proof.
  intros X k ks l Hk. induction l as [|[k' v] r IH]; simpl; [reflexivity|].
  destruct (mem_str k' ks) eqn:E; simpl.
  - destruct (String.eqb k k') eqn:E2; [|exact IH].
    apply String.eqb_eq in E2. subst. rewrite E in Hk. discriminate.
  - destruct (String.eqb k k'); [reflexivity | exact IH].
Qed.

Lemma lookup_upd : forall (X : Type) k (kvs cs : list (string * X)),
  lookup k (upd kvs cs) = match lookup k cs with Some v => Some v | None => lookup k kvs end.
Proof.
  intros X k kvs cs. unfold upd. rewrite lookup_app.
  destruct (lookup k cs) eqn:E; [reflexivity|].
  apply lookup_filter_keep. apply mem_str_notIn. apply lookup_None_notin. exact E.
Qed.

Lemma filter_all : forall (X : Type) (p : X -> bool) l, forallb p l = true -> filter p l = l.
Proof.
  intros X p l. induction l as [|x r IH]; simpl; intros H; [reflexivity|].
  apply andb_prop in H. destruct H as [H1 H2]. rewrite H1. f_equal. apply IH. exact H2.
Qed.

Lemma filter_none : forall (X : Type) (p : X -> bool) l, forallb (fun x => negb (p x)) l = true -> filter p l = [].
Proof.
  intros X p l. induction l as [|x r IH]; simpl; intros H; [reflexivity|].
  apply andb_prop in H. destruct H as [H1 H2]. apply negb_true_iff in H1. rewrite H1. apply IH. exact H2.
Qed.

(** [update] of a dump with its own constants: constants first, then the field entries. *)
Lemma upd_dump : forall (X : Type) (F cs : list (string * X)),
  (forall k, In k (map fst F) -> ~ In k (map fst cs)) ->
  upd (F ++ cs) cs = cs ++ F.
Proof.
  intros X F cs H. unfold upd. rewrite filter_app. f_equal.
  rewrite (filter_none _ _ cs).
  - rewrite app_nil_r. apply filter_all. apply forallb_forall. intros [k v] Hin. simpl.
    apply negb_true_iff. apply mem_str_notIn. apply H. change k with (fst (k, v)). apply in_map. exact Hin.
  - apply forallb_forall. intros [k v] Hin. simpl. rewrite negb_involutive.
    apply mem_str_In. change k with (fst (k, v)). apply in_map. exact Hin.
Qed.

Lemma NoDup_app_comm_local : forall (X : Type) (l1 l2 : list X), NoDup (l1 ++ l2) -> NoDup (l2 ++ l1).
Proof. intros X l1 l2 H. exact (Permutation_NoDup (Permutation_app_comm l1 l2) H). Qed.

(** ** Standalone versions of the local fixpoints of the model *)
Fixpoint udump (ts : list ty) (i : nat) (v' : tval) : jval :=
  match ts, i with
  | t' :: _, O => dump t' v'
  | _ :: r, S i' => udump r i' v'
  | [], _ => JNull
  end.

Fixpoint odump (fs : list (fld ty)) (vs : list tval) : list (string * jval) :=
  match fs, vs with
  | Fld _ a t' _ :: fr, v' :: vr =>
      match v' with
      | VNone => odump fr vr
      | _ => (a, dump t' v') :: odump fr vr
      end
  | _, _ => []
  end.

Lemma dump_union_eq : forall ts i v', dump (TUnion ts) (VUn i v') = udump ts i v'.
Proof. intros ts. induction ts as [|t r IH]; intros [|i] v'; try reflexivity. simpl. apply (IH i v'). Qed.

Lemma dump_obj_eq : forall fs cs fb vs, dump (TObj fs cs fb) (VObj vs) = JObj (odump fs vs ++ cs).
Proof.
  intros fs cs fb vs. cbn [dump].
  match goal with |- JObj (?x ++ _) = _ => assert (E : x = odump fs vs) end.
  { reflexivity. }
  rewrite E. reflexivity.
Qed.

Fixpoint uomits (ts : list ty) (i : nat) (v' : tval) : bool :=
  match ts, i with
  | t' :: _, O => omitsb t' v'
  | _ :: r, S i' => uomits r i' v'
  | [], _ => true
  end.

Lemma omits_union_eq : forall ts i v', omitsb (TUnion ts) (VUn i v') = uomits ts i v'.
Proof. intros ts. induction ts as [|t r IH]; intros [|i] v'; try reflexivity. simpl. apply (IH i v'). Qed.

Definition dflt_ok (d : option tval) : bool :=
  match d with None => true | Some VNone => true | Some _ => false end.

Fixpoint oomits (fs : list (fld ty)) (vs : list tval) : bool :=
  match fs, vs with
  | Fld _ _ t' d :: fr, v' :: vr =>
      match v' with VNone => dflt_ok d | _ => omitsb t' v' end && oomits fr vr
  | _, _ => true
  end.

Lemma omits_obj_eq : forall fs cs fb vs, omitsb (TObj fs cs fb) (VObj vs) = oomits fs vs.
Proof.
  intros fs cs fb vs. simpl. revert vs.
  induction fs as [|[n a t d] fr IH]; intros [|v vr]; try reflexivity.
  all: try (simpl; rewrite IH; destruct v; reflexivity).
Qed.

Fixpoint wf_all (ts : list ty) : bool :=
  match ts with [] => true | t' :: r => wfb t' && wf_all r end.

Fixpoint wf_flds (fs : list (fld ty)) : bool :=
  match fs with [] => true | Fld _ _ t' _ :: r => wfb t' && wf_flds r end.

Lemma wf_union_eq : forall ts, wfb (TUnion ts) = wf_all ts.
Proof. intros ts. reflexivity. Qed.

Definition keys_of (fs : list (fld ty)) (cs : list (string * jval)) : list string :=
  (map falias fs ++ map fst cs)%list.

Lemma wf_obj_eq : forall fs cs fb,
  wfb (TObj fs cs fb) =
  nodup_str (keys_of fs cs)
  && forallb (fun f => String.eqb (fname f) (falias f) || negb (mem_str (fname f) (keys_of fs cs))) fs
  && wf_flds fs.
Proof.
  intros fs cs fb. reflexivity.
Qed.

Section WithNorm.
  Variable norm : cust -> string -> option string.

  Fixpoint ufirst (j : jval) (ts : list ty) (i : nat) : option tval :=
    match ts with
    | [] => None
    | t' :: r =>
        match parse norm t' j with
        | Some v => Some (VUn i v)
        | None => ufirst j r (S i)
        end
    end.

  Lemma parse_union_eq : forall ts j, parse norm (TUnion ts) j = ufirst j ts O.
  Proof.
    intros ts j. simpl. generalize O.
    induction ts as [|t r IH]; intros k; [reflexivity|].
    simpl. destruct (parse norm t j); [reflexivity | apply IH].
  Qed.

  Fixpoint uwt (J : jval) (ts : list ty) (i : nat) (v' : tval) : bool :=
    match ts, i with
    | t' :: _, O => wtb norm t' v'
    | t' :: r, S i' => match parse norm t' J with None => uwt J r i' v' | Some _ => false end
    | [], _ => false
    end.

  Lemma wt_union_eq : forall ts i v',
    wtb norm (TUnion ts) (VUn i v') = uwt (dump (TUnion ts) (VUn i v')) ts i v'.
  Proof.
    intros ts i v'. cbn [wtb]. generalize (dump (TUnion ts) (VUn i v')) as J. intros J.
    revert i. induction ts as [|t r IH]; intros [|i]; try reflexivity.
    simpl. destruct (parse norm t J); [reflexivity | apply IH].
  Qed.

  Definition fwt (t' : ty) (v' : tval) : bool :=
    match v' with VNone => is_topt t' | _ => wtb norm t' v' end.

  Fixpoint owt (fs : list (fld ty)) (vs : list tval) : bool :=
    match fs, vs with
    | [], [] => true
    | Fld _ _ t' _ :: fr, v' :: vr => fwt t' v' && owt fr vr
    | _, _ => false
    end.

  Lemma wt_obj_eq : forall fs cs fb vs, wtb norm (TObj fs cs fb) (VObj vs) = owt fs vs.
  Proof.
    intros fs cs fb vs. simpl. revert vs.
    induction fs as [|[n a t d] fr IH]; intros [|v vr]; try reflexivity.
    all: try (simpl; rewrite IH; destruct v; reflexivity).
  Qed.

  Definition pfield (kvs : list (string * jval)) (f : fld ty) : option tval :=
    match f with
    | Fld n a t' d =>
        match lookup2 a n kvs with
        | Some j' => parse norm t' j'
        | None => match d with
                  | Some dv => Some dv
                  | None => if is_topt t' then Some VNone else None
                  end
        end
    end.

  Fixpoint oparse (kvs : list (string * jval)) (fs : list (fld ty)) : option (list tval) :=
    match fs with
    | [] => Some []
    | f :: fr =>
        match pfield kvs f, oparse kvs fr with
        | Some v, Some vs => Some (v :: vs)
        | _, _ => None
        end
    end.

  Lemma parse_obj_eq : forall fs cs fb kvs0,
    parse norm (TObj fs cs fb) (JObj kvs0) =
    let kvs := upd kvs0 cs in
    if fb && negb (forallb (known fs cs) (map fst kvs)) then None else
    match oparse kvs fs with Some vs => Some (VObj vs) | None => None end.
  Proof.
    intros fs cs fb kvs0. cbn [parse]. cbv zeta.
    destruct (fb && negb (forallb (known fs cs) (map fst (upd kvs0 cs)))); [reflexivity|].
    match goal with |- match ?a with _ => _ end = match ?b with _ => _ end => assert (E : a = b) end.
    { generalize (upd kvs0 cs) as kvs. intros kvs.
      induction fs as [|[n a t d] fr IH]; [reflexivity|].
      simpl. rewrite IH. reflexivity. }
    rewrite E. reflexivity.
  Qed.

  (** ** Lists and sets *)
  Lemma opt_list_map_ok : forall t' l,
    (forall v, wfb t' = true -> wtb norm t' v = true -> omitsb t' v = true ->
               parse norm t' (dump t' v) = Some v) ->
    wfb t' = true -> forallb (wtb norm t') l = true -> forallb (omitsb t') l = true ->
    opt_list (map (parse norm t') (map (dump t') l)) = Some l.
  Proof.
    intros t' l IH Hwf. induction l as [|x r IHl]; simpl; intros Hw Ho; [reflexivity|].
    apply andb_prop in Hw. destruct Hw as [Hw1 Hw2].
    apply andb_prop in Ho. destruct Ho as [Ho1 Ho2].
    rewrite (IH x Hwf Hw1 Ho1). rewrite (IHl Hw2 Ho2). reflexivity.
  Qed.

  Lemma dedup_nodup : forall l, nodupb l = true -> dedup l = l.
  Proof.
    induction l as [|x r IH]; simpl; intros H; [reflexivity|].
    apply andb_prop in H. destruct H as [H1 H2]. rewrite (IH H2).
    apply negb_true_iff in H1. rewrite H1. reflexivity.
  Qed.

  (** ** Unions *)
  Lemma union_ok : forall ts,
    Forall (fun t => wfb t = true -> forall v, wtb norm t v = true -> omitsb t v = true ->
                     parse norm t (dump t v) = Some v) ts ->
    wf_all ts = true ->
    forall i v' k,
      uwt (udump ts i v') ts i v' = true -> uomits ts i v' = true ->
      ufirst (udump ts i v') ts k = Some (VUn (k + i) v').
  Proof.
    intros ts HF. induction HF as [|t r Ht HF IH]; intros Hwf i v' k Hw Ho.
    - destruct i; discriminate.
    - simpl in Hwf. apply andb_prop in Hwf. destruct Hwf as [Hwf1 Hwf2].
      destruct i as [|i]; simpl in *.
      + rewrite (Ht Hwf1 v' Hw Ho). rewrite Nat.add_0_r. reflexivity.
      + destruct (parse norm t (udump r i v')) eqn:E; [discriminate|].
        rewrite (IH Hwf2 i v' (S k) Hw Ho). f_equal. f_equal. lia.
  Qed.

  (** ** Objects *)
  Definition fentry (t' : ty) (v : tval) : option jval :=
    match v with VNone => None | _ => Some (dump t' v) end.

  Fixpoint olook (kvs : list (string * jval)) (fs : list (fld ty)) (vs : list tval) : Prop :=
    match fs, vs with
    | [], [] => True
    | Fld n a t' _ :: fr, v :: vr => lookup2 a n kvs = fentry t' v /\ olook kvs fr vr
    | _, _ => False
    end.

  Lemma oparse_ok : forall kvs fs,
    Forall (fun f => wfb (fty f) = true -> forall v, wtb norm (fty f) v = true ->
                     omitsb (fty f) v = true -> parse norm (fty f) (dump (fty f) v) = Some v) fs ->
    wf_flds fs = true ->
    forall vs, owt fs vs = true -> oomits fs vs = true -> olook kvs fs vs ->
    oparse kvs fs = Some vs.
  Proof.
    intros kvs fs HF. induction HF as [|[n a t d] fr Hf HF IH]; intros Hwf vs Hw Ho Hl.
    - destruct vs; [reflexivity | discriminate].
    - destruct vs as [|v vr]; [discriminate|].
      simpl in Hwf. apply andb_prop in Hwf. destruct Hwf as [Hwf1 Hwf2].
      simpl in Hw. apply andb_prop in Hw. destruct Hw as [Hw1 Hw2].
      simpl in Ho. apply andb_prop in Ho. destruct Ho as [Ho1 Ho2].
      simpl in Hl. destruct Hl as [Hl1 Hl2].
      simpl in Hf.
      cbn [oparse pfield]. rewrite Hl1. rewrite (IH Hwf2 vr Hw2 Ho2 Hl2).
      destruct v; simpl in Hw1, Ho1;
        try (cbn [fentry]; rewrite (Hf Hwf1 _ Hw1 Ho1); reflexivity).
      (* v = VNone *)
      cbn [fentry]. destruct d as [dv|].
      + destruct dv; try discriminate. reflexivity.
      + rewrite Hw1. reflexivity.
  Qed.

  Lemma odump_keys : forall fs vs k, In k (map fst (odump fs vs)) -> In k (map falias fs).
  Proof.
    induction fs as [|[n a t d] fr IH]; intros [|v vr] k; simpl; try contradiction.
    destruct v; simpl; intros H;
      try (destruct H as [H|H]; [left; exact H | right; exact (IH vr k H)]).
    right. exact (IH vr k H).
  Qed.

  Lemma lookup_app_notin : forall (X : Type) k (l1 l2 : list (string * X)),
    ~ In k (map fst l1) -> lookup k (l1 ++ l2) = lookup k l2.
  Proof. intros. rewrite lookup_app. rewrite lookup_notin by assumption. reflexivity. Qed.

  Lemma olook_dump : forall fs vs pre,
    NoDup (map fst pre ++ map falias fs) ->
    (forall f, In f fs -> fname f = falias f \/ ~ In (fname f) (map fst pre ++ map falias fs)) ->
    owt fs vs = true ->
    olook (pre ++ odump fs vs) fs vs.
  Proof.
    induction fs as [|[n a t d] fr IH]; intros vs pre Hnd Hnm Hw.
    - destruct vs; [exact I | discriminate].
    - destruct vs as [|v vr]; [discriminate|].
      simpl in Hw. apply andb_prop in Hw. destruct Hw as [_ Hw2].
      simpl in Hnd.
      assert (Ha_pre : ~ In a (map fst pre)).
      { intros Hin. apply NoDup_remove_2 in Hnd. apply Hnd. apply in_or_app. left. exact Hin. }
      assert (Ha_fr : ~ In a (map falias fr)).
      { intros Hin. apply NoDup_remove_2 in Hnd. apply Hnd. apply in_or_app. right. exact Hin. }
      assert (Hn : n = a \/ ~ In n (map fst pre ++ a :: map falias fr)).
      { apply (Hnm (Fld n a t d)). left. reflexivity. }
      assert (Hnd' : NoDup (map fst pre ++ map falias fr)) by (apply NoDup_remove_1 in Hnd; exact Hnd).
      assert (Hnm' : forall f, In f fr -> fname f = falias f \/ ~ In (fname f) (map fst pre ++ map falias fr)).
      { intros f Hf. destruct (Hnm f (or_intror Hf)) as [H|H]; [left; exact H | right].
        intros Hin. apply H. simpl. apply in_app_or in Hin. apply in_or_app.
        destruct Hin as [Hin|Hin]; [left; exact Hin | right; right; exact Hin]. }
      assert (Hnone : v = VNone -> olook (pre ++ odump fr vr) (Fld n a t d :: fr) (v :: vr)).
      { intros ->. simpl. split; [|apply IH; assumption].
        assert (Hka : lookup a (pre ++ odump fr vr) = None).
        { apply lookup_notin. rewrite map_app. intros Hin. apply in_app_or in Hin.
          destruct Hin as [Hin|Hin]; [exact (Ha_pre Hin) | exact (Ha_fr (odump_keys _ _ _ Hin))]. }
        unfold lookup2. rewrite Hka. destruct Hn as [Hn|Hn]; [subst; exact Hka|].
        apply lookup_notin. rewrite map_app. intros Hin. apply Hn. apply in_app_or in Hin. apply in_or_app.
        destruct Hin as [Hin|Hin]; [left; exact Hin | right; right; exact (odump_keys _ _ _ Hin)]. }
      assert (Hsome : v <> VNone ->
                      olook (pre ++ (a, dump t v) :: odump fr vr) (Fld n a t d :: fr) (v :: vr)).
      { intros Hv. simpl. split.
        - unfold lookup2. rewrite lookup_app_notin by exact Ha_pre. simpl. rewrite String.eqb_refl.
          destruct v; try reflexivity. exfalso. apply Hv. reflexivity.
        - change (pre ++ (a, dump t v) :: odump fr vr) with (pre ++ [(a, dump t v)] ++ odump fr vr).
          rewrite app_assoc. apply IH.
          + rewrite map_app. simpl. rewrite <- app_assoc. simpl. exact Hnd.
          + intros f Hf. destruct (Hnm f (or_intror Hf)) as [H|H]; [left; exact H | right].
            rewrite map_app. simpl. rewrite <- app_assoc. simpl. exact H.
          + exact Hw2. }
      destruct v; try (apply Hsome; discriminate).
      apply Hnone. reflexivity.
  Qed.

  Lemma known_dump : forall fs cs vs,
    forallb (known fs cs) (map fst (cs ++ odump fs vs)) = true.
  Proof.
    intros fs cs vs. apply forallb_forall. intros k Hin. rewrite map_app in Hin.
    unfold known. apply orb_true_iff. apply in_app_or in Hin. destruct Hin as [Hin|Hin].
    - right. apply mem_str_In. exact Hin.
    - left. apply odump_keys in Hin. apply existsb_exists.
      apply in_map_iff in Hin. destruct Hin as [f [Hf Hin]]. exists f. split; [exact Hin|].
      subst. rewrite String.eqb_refl. reflexivity.
  Qed.

  (** ** Round trip on the JSON value *)
  Theorem parse_dump : forall t, wfb t = true ->
    forall v, wtb norm t v = true -> omitsb t v = true ->
    parse norm t (dump t v) = Some v.
  Proof.
    induction t using ty_ind'; intros Hwf v Hw Ho.
    - destruct v; try discriminate. reflexivity.
    - destruct v; try discriminate. reflexivity.
    - destruct v; try discriminate. reflexivity.
    - destruct v; try discriminate. simpl in *.
      apply andb_prop in Hw. destruct Hw as [H1 H2]. apply String.eqb_eq in H1.
      rewrite H1, H2. reflexivity.
    - destruct v; try discriminate. simpl in *. rewrite Hw. reflexivity.
    - destruct v; try discriminate. simpl in *. rewrite Hw. reflexivity.
    - destruct v; try discriminate. simpl in *.
      destruct (norm c s) as [s'|]; [|discriminate]. apply String.eqb_eq in Hw. subst. reflexivity.
    - destruct v; try discriminate; [reflexivity|].
      cbn [wtb] in Hw. apply andb_prop in Hw. destruct Hw as [H1 H2].
      cbn [omitsb] in Ho. cbn [dump]. simpl in Hwf.
      specialize (IHt Hwf v H1 Ho).
      cbn [parse]. destruct (dump t v) eqn:E; try discriminate; rewrite IHt; reflexivity.
    - destruct v; try discriminate.
      rewrite wt_union_eq in Hw. rewrite omits_union_eq in Ho. rewrite wf_union_eq in Hwf.
      rewrite parse_union_eq. rewrite dump_union_eq in *.
      apply (union_ok ts H Hwf i v 0 Hw Ho).
    - destruct v; try discriminate. simpl in Hw, Ho, Hwf. cbn [dump parse].
      rewrite (opt_list_map_ok t l (fun v Hf => IHt Hf v) Hwf Hw Ho). reflexivity.
    - destruct v; try discriminate. simpl in Hw, Ho, Hwf. cbn [dump parse].
      apply andb_prop in Hw. destruct Hw as [Hw1 Hw2].
      rewrite (opt_list_map_ok t l (fun v Hf => IHt Hf v) Hwf Hw1 Ho).
      rewrite (dedup_nodup l Hw2). reflexivity.
    - destruct v; try discriminate.
      rewrite wt_obj_eq in Hw. rewrite omits_obj_eq in Ho. rewrite wf_obj_eq in Hwf.
      apply andb_prop in Hwf. destruct Hwf as [Hwf12 Hwf3].
      apply andb_prop in Hwf12. destruct Hwf12 as [Hwf1 Hwf2].
      apply nodup_str_NoDup in Hwf1. unfold keys_of in *.
      rewrite dump_obj_eq. rewrite parse_obj_eq. cbv zeta.
      assert (Hdisj : forall k, In k (map fst (odump fs vs)) -> ~ In k (map fst cs)).
      { intros k Hk Hc. apply odump_keys in Hk.
        revert Hwf1 Hk Hc. generalize (map falias fs) (map fst cs). intros l1 l2.
        induction l1 as [|x r IHr]; simpl; intros Hnd Hk Hc; [contradiction|].
        inversion Hnd; subst. destruct Hk as [Hk|Hk].
        - subst. apply H2. apply in_or_app. right. exact Hc.
        - apply IHr; assumption. }
      rewrite (upd_dump _ _ _ Hdisj). rewrite known_dump. rewrite andb_false_r.
      assert (Hl : olook (cs ++ odump fs vs) fs vs).
      { apply olook_dump.
        - revert Hwf1. generalize (map falias fs) (map fst cs). intros l1 l2 Hnd.
          apply NoDup_app_comm_local. exact Hnd.
        - intros f Hf. rewrite forallb_forall in Hwf2. specialize (Hwf2 f Hf).
          apply orb_true_iff in Hwf2. destruct Hwf2 as [E|E].
          + left. apply String.eqb_eq in E. exact E.
          + right. apply negb_true_iff in E. apply mem_str_notIn in E. intros Hin. apply E.
            apply in_app_or in Hin. apply in_or_app. destruct Hin; [right|left]; assumption.
        - exact Hw. }
      rewrite (oparse_ok _ fs H Hwf3 vs Hw Ho Hl). reflexivity.
  Qed.
End WithNorm.

(** ** Consequences *)
Section Consequences.
  Variable norm : cust -> string -> option string.

  (** The second round trip gives the same instance and the same dump as the first. *)
  Theorem second_roundtrip_stable : forall t v, wfb t = true -> wtb norm t v = true -> omitsb t v = true ->
    forall v', parse norm t (dump t v) = Some v' ->
    v' = v /\ dump t v' = dump t v /\ parse norm t (dump t v') = Some v'.
  Proof.
    intros t v Hwf Hw Ho v' Hp. rewrite (parse_dump norm t Hwf v Hw Ho) in Hp.
    inversion Hp; subst. repeat split. apply parse_dump; assumption.
  Qed.

  (** Every declared constant is in the dump, under its name, with its value. *)
  Theorem consts_forced : forall fs cs fb vs k j,
    wfb (TObj fs cs fb) = true -> In (k, j) cs ->
    exists kvs, dump (TObj fs cs fb) (VObj vs) = JObj kvs /\ In (k, j) kvs /\ lookup k kvs = Some j.
  Proof.
    intros fs cs fb vs k j Hwf Hin. exists (odump fs vs ++ cs). rewrite dump_obj_eq.
    split; [reflexivity|]. split; [apply in_or_app; right; exact Hin|].
    rewrite wf_obj_eq in Hwf. apply andb_prop in Hwf. destruct Hwf as [Hwf _].
    apply andb_prop in Hwf. destruct Hwf as [Hnd _]. apply nodup_str_NoDup in Hnd. unfold keys_of in Hnd.
    assert (Hk : In k (map fst cs)) by (change k with (fst (k, j)); apply in_map; exact Hin).
    rewrite lookup_app. rewrite lookup_notin.
    - apply lookup_In_NoDup; [|exact Hin].
      revert Hnd. generalize (map falias fs). intros l. induction l as [|x r IH]; simpl; intros H; [exact H|].
      inversion H; subst. apply IH. assumption.
    - intros Hd. apply odump_keys in Hd. revert Hnd Hd Hk. generalize (map falias fs) (map fst cs). intros l1 l2.
      induction l1 as [|x r IH]; simpl; intros Hnd Hd Hk; [contradiction|].
      inversion Hnd; subst. destruct Hd as [Hd|Hd].
      + subst. apply H1. apply in_or_app. right. exact Hk.
      + apply IH; assumption.
  Qed.

  Lemma oparse_ext : forall K1 K2 fs,
    (forall k, lookup k K1 = lookup k K2) -> oparse norm K1 fs = oparse norm K2 fs.
  Proof.
    intros K1 K2 fs H. induction fs as [|[n a t d] fr IH]; [reflexivity|].
    cbn [oparse pfield]. unfold lookup2. rewrite !H. rewrite IH. reflexivity.
  Qed.

  Lemma forallb_ext_In : forall (X : Type) (p : X -> bool) l1 l2,
    (forall x, In x l1 <-> In x l2) -> forallb p l1 = forallb p l2.
  Proof.
    intros X p l1 l2 H.
    destruct (forallb p l1) eqn:E1; destruct (forallb p l2) eqn:E2; try reflexivity.
    - rewrite forallb_forall in E1. assert (forallb p l2 = true) as E.
      { apply forallb_forall. intros x Hx. apply E1. apply H. exact Hx. }
      rewrite E in E2. discriminate.
    - rewrite forallb_forall in E2. assert (forallb p l1 = true) as E.
      { apply forallb_forall. intros x Hx. apply E2. apply H. exact Hx. }
      rewrite E in E1. discriminate.
  Qed.

  Lemma upd_keys : forall (X : Type) (kvs cs : list (string * X)) k,
    In k (map fst (upd kvs cs)) <-> In k (map fst cs) \/ In k (map fst kvs).
  Proof.
    intros X kvs cs k. unfold upd. rewrite map_app, in_app_iff. split.
    - intros [H|H]; [left; exact H|]. right.
      apply in_map_iff in H. destruct H as [[k' v] [E H]]. simpl in E. subst.
      apply filter_In in H. destruct H as [H _]. change k with (fst (k, v)). apply in_map. exact H.
    - intros [H|H]; [left; exact H|].
      destruct (mem_str k (map fst cs)) eqn:E.
      + left. apply mem_str_In. exact E.
      + right. apply in_map_iff in H. destruct H as [[k' v] [E' H]]. simpl in E'. subst.
        apply in_map_iff. exists (k, v). split; [reflexivity|]. apply filter_In. split; [exact H|].
        simpl. rewrite E. reflexivity.
  Qed.

  (** Whatever the input says under the names of constants makes no difference. *)
  Theorem consts_ignored : forall fs cs fb kvs cs',
    (forall k, In k (map fst cs') -> In k (map fst cs)) ->
    parse norm (TObj fs cs fb) (JObj (upd kvs cs')) = parse norm (TObj fs cs fb) (JObj kvs).
  Proof.
    intros fs cs fb kvs cs' Hsub. rewrite !parse_obj_eq. cbv zeta.
    assert (Hl : forall k, lookup k (upd (upd kvs cs') cs) = lookup k (upd kvs cs)).
    { intros k. rewrite !lookup_upd. destruct (lookup k cs) eqn:E; [reflexivity|].
      apply lookup_None_notin in E. rewrite lookup_notin; [reflexivity|].
      intros Hin. apply E. apply Hsub. exact Hin. }
    assert (Hk : forallb (known fs cs) (map fst (upd (upd kvs cs') cs))
                 = forallb (known fs cs) (map fst (upd kvs cs))).
    { apply forallb_ext_In. intros k. rewrite !upd_keys. split.
      - intros [H|[H|H]]; [left; exact H | left; exact (Hsub k H) | right; exact H].
      - intros [H|H]; [left; exact H | right; right; exact H]. }
    rewrite Hk. rewrite (oparse_ext _ _ fs Hl). reflexivity.
  Qed.

  (** The documented exception: an explicit [None] for an optional field that declares
      another default is dumped by omission and reads back as that default. *)
  Theorem explicit_none_default : forall n a t d cs fb,
    d <> VNone -> mem_str a (map fst cs) = false -> mem_str n (map fst cs) = false ->
    wtb norm (TObj [Fld n a (TOpt t) (Some d)] cs fb) (VObj [VNone]) = true /\
    omitsb (TObj [Fld n a (TOpt t) (Some d)] cs fb) (VObj [VNone]) = false /\
    parse norm (TObj [Fld n a (TOpt t) (Some d)] cs fb)
          (dump (TObj [Fld n a (TOpt t) (Some d)] cs fb) (VObj [VNone])) = Some (VObj [d]).
  Proof.
    intros n a t d cs fb Hd Ha Hn. split; [reflexivity|]. split.
    - simpl. destruct d; try reflexivity. exfalso. apply Hd. reflexivity.
    - rewrite dump_obj_eq. rewrite parse_obj_eq. cbv zeta. simpl odump. rewrite app_nil_l.
      assert (E : upd cs cs = cs).
      { unfold upd. rewrite filter_none; [apply app_nil_r|].
        apply forallb_forall. intros [k v] Hin. simpl. rewrite negb_involutive.
        apply mem_str_In. change k with (fst (k, v)). apply in_map. exact Hin. }
      rewrite E.
      assert (Hkn : forallb (known [Fld n a (TOpt t) (Some d)] cs) (map fst cs) = true).
      { apply forallb_forall. intros k Hk. unfold known. apply orb_true_iff. right. apply mem_str_In. exact Hk. }
      rewrite Hkn. rewrite andb_false_r.
      cbn [oparse pfield]. unfold lookup2.
      rewrite (lookup_notin _ a cs) by (apply mem_str_notIn; exact Ha).
      rewrite (lookup_notin _ n cs) by (apply mem_str_notIn; exact Hn).
      reflexivity.
  Qed.

  (** [str.strip] is idempotent; a stripped non-empty string is a valid [Str]. *)
  Lemma rstrip_idem : forall s, rstrip (rstrip s) = rstrip s.
  Proof.
    induction s as [|c r IH]; [reflexivity|]. simpl.
    destruct (rstrip r) as [|c' r'] eqn:E.
    - destruct (is_ws c) eqn:W; [reflexivity|]. simpl. rewrite W. reflexivity.
    - simpl in *. rewrite IH. reflexivity.
  Qed.

  (** ** Text level *)
  Section Text.
    Variable print_json : jval -> string.
    Variable read_json : string -> option jval.
    Variable print_yaml : jval -> string.
    Variable read_yaml : string -> option jval.
    Hypothesis json_rt : forall j, read_json (print_json j) = Some j.
    Hypothesis json_nl_rt : forall j, read_json (print_json j ++ String "010"%char EmptyString)%string = Some j.
    Hypothesis yaml_rt : forall j, read_yaml (print_yaml j) = Some j.
    Hypothesis yaml_as_json : forall j j', read_json (print_yaml j) = Some j' -> j' = j.

    Let praw := parse_raw norm read_json read_yaml.

    Theorem raw_json_roundtrip : forall t v, wfb t = true -> wtb norm t v = true -> omitsb t v = true ->
      praw t (to_json print_json t v) = Some v.
    Proof.
      intros t v Hwf Hw Ho. unfold praw, parse_raw, to_json. rewrite json_rt.
      rewrite (parse_dump norm t Hwf v Hw Ho). reflexivity.
    Qed.

    Theorem raw_bytes_roundtrip : forall t v, wfb t = true -> wtb norm t v = true -> omitsb t v = true ->
      praw t (to_bytes print_json t v) = Some v.
    Proof.
      intros t v Hwf Hw Ho. unfold praw, parse_raw, to_bytes. rewrite json_nl_rt.
      rewrite (parse_dump norm t Hwf v Hw Ho). reflexivity.
    Qed.

    Theorem raw_yaml_roundtrip : forall t v, wfb t = true -> wtb norm t v = true -> omitsb t v = true ->
      praw t (to_yaml print_yaml t v) = Some v.
    Proof.
      intros t v Hwf Hw Ho. unfold praw, parse_raw, to_yaml.
      destruct (read_json (print_yaml (dump t v))) as [j'|] eqn:E.
      - apply yaml_as_json in E. subst. rewrite (parse_dump norm t Hwf v Hw Ho). reflexivity.
      - rewrite yaml_rt. rewrite (parse_dump norm t Hwf v Hw Ho). reflexivity.
    Qed.
  End Text.
End Consequences.

(** ** Custom-parser types accept their own output (needs an idempotent normaliser). *)
Theorem custom_parses_own_output : forall (norm : cust -> string -> option string),
  (forall c s s', norm c s = Some s' -> norm c s' = Some s') ->
  forall c s v, parse norm (TCus c) (JStr s) = Some v ->
  wtb norm (TCus c) v = true /\ parse norm (TCus c) (dump (TCus c) v) = Some v.
Proof.
  intros norm Hid c s v H. simpl in H. destruct (norm c s) as [s'|] eqn:E; [|discriminate].
  inversion H; subst. simpl. rewrite (Hid c s s' E). rewrite String.eqb_refl. split; reflexivity.
Qed.

(** ** The pinned tree refuted: a valid instance that cannot be serialised. *)
Definition ex_norm : cust -> string -> option string := norm_tab [("dur", ("PT1S", "PT1S"))].
Definition ex_schema : ty := TObj [Fld "d" "d" (TOpt (TCus CDuration)) None] [] false.

Lemma dump_pinned_refuted : exists t v,
  wfb t = true /\ wtb ex_norm t v = true /\ omitsb t v = true /\
  dump_pinned t v = None /\ parse ex_norm t (dump t v) = Some v.
Proof.
  exists ex_schema, (VObj [VSome (VCus "PT1S")]). vm_compute. repeat split.
Qed.

Lemma dump_pinned_agrees : forall t v, has_cus v = false -> dump_pinned t v = Some (dump t v).
Proof. intros t v H. unfold dump_pinned. rewrite H. reflexivity. Qed.

(** ** What the parser returns for an atomic type is a valid instance value. *)
Definition no_lead_ws (s : string) : Prop :=
  match s with EmptyString => True | String c _ => is_ws c = false end.

Lemma lstrip_no_lead : forall s, no_lead_ws (lstrip s).
Proof.
  induction s as [|c r IH]; simpl; [exact I|].
  destruct (is_ws c) eqn:W; [exact IH | simpl; exact W].
Qed.

Lemma lstrip_fix : forall s, no_lead_ws s -> lstrip s = s.
Proof. intros [|c r] H; simpl in *; [reflexivity | rewrite H; reflexivity]. Qed.

Lemma rstrip_no_lead : forall s, no_lead_ws s -> no_lead_ws (rstrip s).
Proof.
  intros [|c r] H; simpl in *; [exact I|].
  destruct (rstrip r); [rewrite H; simpl; exact H | simpl; exact H].
Qed.

Lemma strip_idem : forall s, strip (strip s) = strip s.
Proof.
  intros s. unfold strip.
  rewrite (lstrip_fix (rstrip (lstrip s))) by (apply rstrip_no_lead; apply lstrip_no_lead).
  apply rstrip_idem.
Qed.

Definition atomic (t : ty) : bool :=
  match t with
  | TInt | TFloat | TBool | TStr | TNEStr | TLit _ | TCus _ => true
  | _ => false
  end.

Theorem parsed_atoms_valid : forall (norm : cust -> string -> option string),
  (forall c s s', norm c s = Some s' -> norm c s' = Some s') ->
  forall t j v, atomic t = true -> parse norm t j = Some v ->
  wtb norm t v = true /\ omitsb t v = true /\ parse norm t (dump t v) = Some v.
Proof.
  intros norm Hid t j v Ha Hp.
  assert (Hw : wtb norm t v = true /\ omitsb t v = true).
  { destruct t; try discriminate; simpl in Hp.
    - destruct j; inversion Hp; subst; split; reflexivity.
    - destruct j; inversion Hp; subst; split; reflexivity.
    - destruct j; inversion Hp; subst; split; reflexivity.
    - destruct j; try discriminate. destruct (nonempty (strip s)) eqn:E; [|discriminate].
      inversion Hp; subst. simpl. rewrite strip_idem, String.eqb_refl, E. split; reflexivity.
    - destruct j; try discriminate. destruct (has_nonws s) eqn:E; [|discriminate].
      inversion Hp; subst. simpl. rewrite E. split; reflexivity.
    - destruct (memb j vs) eqn:E; [|discriminate]. inversion Hp; subst. simpl. rewrite E. split; reflexivity.
    - destruct j; try discriminate. destruct (norm c s) as [s'|] eqn:E; [|discriminate].
      inversion Hp; subst. simpl. rewrite (Hid c s s' E), String.eqb_refl. split; reflexivity. }
  destruct Hw as [Hw Ho]. split; [exact Hw|]. split; [exact Ho|].
  apply parse_dump; try assumption. destruct t; try discriminate; reflexivity.
Qed.
