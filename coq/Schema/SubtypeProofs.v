(** * Proofs about the schema subtype model (property C13). *)
From Coq Require Import List String Ascii NArith ZArith Bool Lia ZifyBool.
From MV Require Import Base.Sx Schema.Subtype.
Import ListNotations.
Local Open Scope string_scope.

(** ** Induction principle for the nested type [ty] *)
Section TyInd.
  Variable P : ty -> Prop.
  Hypothesis HAny : P TAny.
  Hypothesis HPrim : forall s k, P (TPrim s k).
  Hypothesis HPh : forall c, P (TPhantom c).
  Hypothesis HLit : forall vs, P (TLit vs).
  Hypothesis HNone : P TNone.
  Hypothesis HUnion : forall ts, Forall P ts -> P (TUnion ts).
  Hypothesis HList : forall t, P t -> P (TList t).
  Hypothesis HSet : forall t, P t -> P (TSet t).
  Hypothesis HObj : forall c e fs, Forall (fun f => P (snd f)) fs -> P (TObj c e fs).

  Fixpoint ty_ind' (t : ty) : P t :=
    match t with
    | TAny => HAny
    | TPrim s k => HPrim s k
    | TPhantom c => HPh c
    | TLit vs => HLit vs
    | TNone => HNone
    | TUnion ts =>
        HUnion ts ((fix go (l : list ty) : Forall P l :=
                      match l with
                      | [] => Forall_nil _
                      | x :: r => Forall_cons _ (ty_ind' x) (go r)
                      end) ts)
    | TList t => HList t (ty_ind' t)
    | TSet t => HSet t (ty_ind' t)
    | TObj c e fs =>
        HObj c e fs ((fix go (l : list (string * ty)) : Forall (fun f => P (snd f)) l :=
                        match l with
                        | [] => Forall_nil _
                        | x :: r => Forall_cons _ (ty_ind' (snd x)) (go r)
                        end) fs)
    end.
End TyInd.

(** ** Python equality is transitive where it is used *)
Definition jmatch (j : jval) (v : lval) : bool :=
  match v with VNone => is_null j | VLit l => j_eq_lit j l end.

Lemma jmatch_trans : forall j v w,
  jmatch j v = true -> lval_eqb v w = true -> jmatch j w = true.
Proof.
  intros j [|v] [|w]; cbn -[Z.eqb Z.mul]; try discriminate; auto.
  destruct j, v, w; cbn -[Z.eqb Z.mul]; try discriminate; auto;
    repeat match goal with b : bool |- _ => destruct b end; cbn -[Z.eqb Z.mul];
    rewrite ?Z.eqb_eq, ?String.eqb_eq; intros; subst; auto; try lia.
Qed.

Lemma accepts_lit_jmatch : forall pred vs j,
  accepts pred (TLit vs) j = existsb (jmatch j) (lvals_of vs).
Proof.
  intros; simpl. unfold lvals_of. induction vs; simpl; auto. now rewrite IHvs.
Qed.

Lemma lookup_In : forall {X} k (l : list (string * X)) v, lookup k l = Some v -> In (k, v) l.
Proof.
  induction l as [|[k' v'] l IH]; simpl; intros v H; try discriminate.
  destruct (String.eqb k k') eqn:E.
  - apply String.eqb_eq in E; subst. inversion H; subst. now left.
  - right. now apply IH.
Qed.

Lemma lookup_NoDup : forall {X} k (v : X) (l : list (string * X)),
  NoDup (map fst l) -> In (k, v) l -> lookup k l = Some v.
Proof.
  induction l as [|[k' v'] l IH]; simpl; intros ND HI; [contradiction|].
  inversion ND; subst.
  destruct HI as [E|HI].
  - inversion E; subst. now rewrite String.eqb_refl.
  - destruct (String.eqb k k') eqn:E.
    + apply String.eqb_eq in E; subst. exfalso. apply H1.
      change k' with (fst (k', v)). now apply in_map.
    + now apply IH.
Qed.

Lemma mem_str_In : forall s l, mem_str s l = true <-> In s l.
Proof.
  induction l; simpl; [intuition discriminate|].
  rewrite orb_true_iff, IHl, String.eqb_eq. intuition.
Qed.

Lemma has_key_In : forall {X} k (l : list (string * X)), has_key k l = true <-> In k (map fst l).
Proof.
  unfold has_key. induction l as [|[k' v] l IH]; simpl; [intuition discriminate|].
  destruct (String.eqb k k') eqn:E.
  - apply String.eqb_eq in E; subst. intuition.
  - rewrite IH. apply String.eqb_neq in E. intuition congruence.
Qed.

Section Soundness.
  Variable pred : N -> string -> bool.
  (** the schema classes of the world: every class conforms to the classes it derives from *)
  Variable W : ty -> Prop.
  Hypothesis W_conf : forall c1 e1 f1 c2 e2 f2,
    W (TObj c1 e1 f1) -> W (TObj c2 e2 f2) -> chain_le c1 c2 = true ->
    forall j, accepts pred (TObj c1 e1 f1) j = true -> accepts pred (TObj c2 e2 f2) j = true.

  (** a phantom class' predicate rejects blank strings and implies its ancestors' predicates *)
  Definition ph_ok (c : list N) : Prop :=
    match c with
    | p :: rest =>
        (forall s, pred p s = true -> blank s = false) /\
        (forall q s, mem_N q rest = true -> pred p s = true -> pred q s = true)
    | [] => True
    end.

  Inductive wf : ty -> Prop :=
  | wf_any : wf TAny
  | wf_prim : forall s k, wf (TPrim s k)
  | wf_ph : forall c, ph_ok c -> wf (TPhantom c)
  | wf_lit : forall vs, wf (TLit vs)
  | wf_none : wf TNone
  | wf_union : forall ts, Forall wf ts -> wf (TUnion ts)
  | wf_list : forall t, wf t -> wf (TList t)
  | wf_set : forall t, wf t -> wf (TSet t)
  | wf_obj : forall c e f, W (TObj c e f) -> wf (TObj c e f).

  Definition side (a b : ty) : bool := pstr_free b || lits_nonblank a.

  Definition lval_nonblank (v : lval) : bool :=
    match v with VLit l => lit_nonblank l | VNone => true end.

  (** *** literal values *)
  Lemma validate_sound : forall b v j,
    wf b -> pstr_free b || lval_nonblank v = true ->
    validate pred b v = true -> jmatch j v = true -> accepts pred b j = true.
  Proof.
    induction b using ty_ind'; intros v j Hwf Hside Hv Hj; simpl in *; auto.
    - (* prim *)
      destruct v as [|[c|z|t]]; simpl in *; try discriminate;
        destruct s; try discriminate; destruct k; try discriminate;
        destruct j; simpl in *; try discriminate; auto.
      + destruct c; simpl in Hj; rewrite Z.eqb_eq in Hj; subst; auto.
      + destruct c; simpl in Hj; rewrite Z.eqb_eq in Hj; subst; auto.
      + apply String.eqb_eq in Hj; subst. now rewrite Hside.
    - (* phantom *)
      destruct v as [|[c0|z|t]]; simpl in *; try discriminate.
      destruct c as [|p r]; try discriminate.
      destruct j; simpl in *; try discriminate.
      apply String.eqb_eq in Hj; subst. auto.
    - (* lit *)
      apply existsb_exists in Hv. destruct Hv as [w [Hin Hw]].
      unfold lvals_of in Hin. apply in_map_iff in Hin. destruct Hin as [l [El Hin]]; subst w.
      apply existsb_exists. exists l. split; auto.
      change (jmatch j (VLit l) = true). eapply jmatch_trans; eauto.
    - (* none *)
      destruct v; simpl in *; try discriminate. auto.
    - (* union *)
      apply existsb_exists in Hv. destruct Hv as [u [Hin Hu]].
      apply existsb_exists. exists u. split; auto.
      rewrite Forall_forall in H. inversion Hwf; subst.
      rewrite Forall_forall in H1.
      eapply H; eauto.
      apply orb_true_iff in Hside. destruct Hside as [Hs|Hs]; [|now rewrite Hs, orb_true_r].
      rewrite forallb_forall in Hs. now rewrite (Hs _ Hin).
    - discriminate.
    - discriminate.
    - destruct v as [|[?|?|?]]; discriminate.
  Qed.

  (** *** classes *)
  Lemma prim_le_sound : forall s1 k1 s2 k2 j,
    kern_le (TPrim s1 k1) (TPrim s2 k2) = true -> pbool_free (TPrim s1 k1) = true ->
    accepts_prim s1 k1 j = true -> accepts_prim s2 k2 j = true.
  Proof.
    intros s1 k1 s2 k2 j HK HB HA.
    destruct s1, k1, s2, k2; simpl in *; try discriminate; destruct j; simpl in *; auto; discriminate.
  Qed.

  Lemma mem_N_cons : forall q p r, mem_N q (p :: r) = true -> q = p \/ mem_N q r = true.
  Proof.
    simpl; intros q p r H. apply orb_true_iff in H. destruct H as [H|H]; auto.
    left. now apply N.eqb_eq.
  Qed.

  Lemma kern_sound : forall a b j,
    wf a -> wf b -> pbool_free a = true ->
    kern_le a b = true -> accepts pred a j = true -> accepts pred b j = true.
  Proof.
    intros a b j Wa Wb PB HK HA.
    destruct a as [ |s1 k1|c1|vs| |ts|t|t|c1 e1 f1]; simpl in HK; try discriminate.
    - destruct b; try discriminate. simpl in *. eapply prim_le_sound; eauto.
    - destruct c1 as [|p r];
        destruct b as [ |s2 k2|c2|ws| |us|t|t|c2 e2 f2]; simpl in HK; try discriminate.
      + (* phantom <= plain str *)
        destruct s2; try discriminate. destruct k2; try discriminate.
        simpl in *. destruct j; try discriminate. simpl.
        inversion Wa; subst. destruct H0 as [NB _]. now rewrite (NB _ HA).
      + (* phantom <= phantom *)
        destruct c2 as [|q r0]; simpl in HK; try discriminate.
        simpl in *. destruct j; try discriminate.
        inversion Wa; subst. destruct H0 as [_ NR].
        change (mem_N q (p :: r) = true) in HK.
        apply mem_N_cons in HK. destruct HK as [E|HK]; subst; eauto.
    - (* class <= class *)
      destruct b; try discriminate.
      inversion Wa; subst. inversion Wb; subst.
      apply (W_conf c1 e1 f1 chain ex fields); auto.
  Qed.

  Lemma dle_sound : forall a b j,
    wf a -> wf b -> pbool_free a = true ->
    dle a b = true -> accepts pred a j = true -> accepts pred b j = true.
  Proof.
    intros a b. revert a.
    induction b using ty_ind'; intros a j Wa Wb PB HD HA; simpl in HD; try discriminate.
    - reflexivity.
    - apply (kern_sound a (TPrim s k) j); auto.
    - apply (kern_sound a (TPhantom c) j); auto.
    - simpl. apply existsb_exists in HD. destruct HD as [u [Hin Hu]].
      apply existsb_exists. exists u. split; auto.
      rewrite Forall_forall in H. inversion Wb; subst. rewrite Forall_forall in H1.
      apply (H u Hin a j); auto.
    - apply (kern_sound a (TObj c e fs) j); auto.
  Qed.

  Lemma ole_validate : forall vs b, ole pred vs b = forallb (validate pred b) vs.
  Proof.
    intros vs b. destruct b; try reflexivity.
    unfold ole, subset. induction vs as [|v vs IH]; auto.
    simpl in *. rewrite orb_false_r. now rewrite IH.
  Qed.

  Lemma ole_sound : forall vs b j,
    wf b -> pstr_free b || forallb lval_nonblank vs = true ->
    ole pred vs b = true -> existsb (jmatch j) vs = true -> accepts pred b j = true.
  Proof.
    intros vs b j Wb HS HO HE. rewrite ole_validate in HO.
    apply existsb_exists in HE. destruct HE as [v [Hin Hv]].
    rewrite forallb_forall in HO.
    eapply validate_sound; eauto.
    apply orb_true_iff in HS. destruct HS as [HS|HS]; [now rewrite HS|].
    rewrite forallb_forall in HS. now rewrite (HS _ Hin), orb_true_r.
  Qed.

  Lemma side_union_r : forall a us u, In u us -> side a (TUnion us) = true -> side a u = true.
  Proof.
    unfold side; intros a us u Hin H. apply orb_true_iff in H. destruct H as [H|H].
    - simpl in H. rewrite forallb_forall in H. now rewrite (H _ Hin).
    - now rewrite H, orb_true_r.
  Qed.

  Lemma side_union_l : forall ts t b, In t ts -> side (TUnion ts) b = true -> side t b = true.
  Proof.
    unfold side; intros ts t b Hin H. apply orb_true_iff in H. destruct H as [H|H].
    - now rewrite H.
    - simpl in H. rewrite forallb_forall in H. now rewrite (H _ Hin), orb_true_r.
  Qed.

  Lemma lits_nonblank_lvals : forall vs, forallb lval_nonblank (lvals_of vs) = forallb lit_nonblank vs.
  Proof. induction vs; simpl; auto. now rewrite IHvs. Qed.

  (** covariant containers: one lemma for list and set *)
  Lemma seq_sound : forall (i1 : ty) (mk : ty -> ty)
      (Hmk : mk = TList \/ mk = TSet)
      (IH : forall b, wf b -> side i1 b = true -> cle pred i1 b = true ->
            forall j, accepts pred i1 j = true -> accepts pred b j = true),
    forall b, wf b -> side (mk i1) b = true -> cle pred (mk i1) b = true ->
    forall j, accepts pred (mk i1) j = true -> accepts pred b j = true.
  Proof.
    intros i1 mk Hmk IH.
    induction b using ty_ind'; intros Wb HS HC j HA;
      destruct Hmk; subst mk; simpl in HC; try discriminate; try reflexivity.
    - (* list <= union *)
      simpl. apply existsb_exists in HC. destruct HC as [u [Hin Hu]].
      apply existsb_exists. exists u. split; auto.
      rewrite Forall_forall in H. inversion Wb; subst. rewrite Forall_forall in H1.
      apply H; auto. eapply side_union_r; eauto.
    - (* set <= union *)
      simpl. apply existsb_exists in HC. destruct HC as [u [Hin Hu]].
      apply existsb_exists. exists u. split; auto.
      rewrite Forall_forall in H. inversion Wb; subst. rewrite Forall_forall in H1.
      apply H; auto. eapply side_union_r; eauto.
    - (* list <= list *)
      simpl in *. destruct j; try discriminate.
      rewrite forallb_forall in *. intros x Hx. inversion Wb; subst.
      apply (IH b); auto.
    - (* set <= set *)
      simpl in *. destruct j; try discriminate.
      rewrite forallb_forall in *. intros x Hx. inversion Wb; subst.
      apply (IH b); auto.
  Qed.

  (** *** runtype's [<=] admits only pairs whose accepted values are included *)
  Theorem cle_sound : forall a b,
    wf a -> wf b -> pbool_free a = true -> side a b = true ->
    cle pred a b = true -> forall j, accepts pred a j = true -> accepts pred b j = true.
  Proof.
    induction a using ty_ind'; intros b Wa Wb PB HS HC j HA.
    - simpl in HC. destruct b; try discriminate. reflexivity.
    - apply (dle_sound (TPrim s k) b j); auto.
    - apply (dle_sound (TPhantom c) b j); auto.
    - (* literal *)
      simpl in HC. eapply ole_sound; eauto.
      + unfold side in HS. simpl in HS. now rewrite lits_nonblank_lvals.
      + rewrite <- (accepts_lit_jmatch pred). exact HA.
    - (* None *)
      simpl in HC. apply (ole_sound [VNone] b j); auto; simpl in *;
        try apply orb_true_r; try (now rewrite HA).
    - (* union *)
      simpl in HC, HA. apply existsb_exists in HA. destruct HA as [t [Hin Ht]].
      rewrite forallb_forall in HC. rewrite Forall_forall in H.
      inversion Wa; subst. rewrite Forall_forall in H1.
      simpl in PB. rewrite forallb_forall in PB.
      eapply H; eauto. eapply side_union_l; eauto.
    - (* list *)
      inversion Wa; subst.
      apply (seq_sound a TList (or_introl eq_refl)) with (j := j) (b := b); auto.
    - (* set *)
      inversion Wa; subst.
      apply (seq_sound a TSet (or_intror eq_refl)) with (j := j) (b := b); auto.
    - apply (dle_sound (TObj c e fs) b j); auto.
  Qed.

  Theorem subtype_sound : forall a b,
    wf a -> wf b -> safe_pair a b = true ->
    subtype pred a b = true -> forall j, accepts pred a j = true -> accepts pred b j = true.
  Proof.
    intros a b Wa Wb HS HT. unfold subtype in HT.
    destruct (Bool.eqb (is_lit a) (is_lit b)); try discriminate.
    unfold safe_pair in HS. apply andb_true_iff in HS. destruct HS as [PB HS].
    eapply cle_sound; eauto.
  Qed.


  (** *** serialised forms are accepted again *)
  Lemma nf_accepts : forall t j, nf pred t j = true -> accepts pred t j = true.
  Proof.
    induction t using ty_ind'; intros j HN; simpl in *; auto.
    - destruct k, j; simpl in HN; try discriminate; destruct s; simpl; auto;
        apply andb_true_iff in HN; destruct HN as [HN _]; auto.
    - apply existsb_exists in HN. destruct HN as [v [Hin Hv]].
      apply existsb_exists. exists v. split; auto.
      destruct j, v; simpl in *; try discriminate; auto.
      + destruct b, b0; simpl in *; auto; discriminate.
    - apply existsb_exists in HN. destruct HN as [t [Hin Ht]].
      apply existsb_exists. exists t. split; auto.
      rewrite Forall_forall in H. auto.
    - destruct j; try discriminate. rewrite forallb_forall in *. auto.
    - destruct j; try discriminate. rewrite forallb_forall in *. auto.
    - destruct j; try discriminate. simpl.
      apply andb_true_iff in HN. destruct HN as [HF HX].
      apply andb_true_iff. split.
      + rewrite forallb_forall in *. rewrite Forall_forall in H.
        intros f Hf. specialize (HF f Hf). specialize (H f Hf).
        destruct (lookup (fst f) kvs); auto.
        apply andb_true_iff in HF. destruct HF as [_ HF]. auto.
      + destruct e; simpl in *; auto.
  Qed.

  (** the property in its own terms: what the child serialises, the parent accepts *)
  Corollary subtype_sound_dump : forall a b,
    wf a -> wf b -> safe_pair a b = true -> subtype pred a b = true ->
    forall d, nf pred a d = true -> accepts pred b d = true.
  Proof. intros a b Wa Wb HS HT d HN. apply (subtype_sound a b); auto. now apply nf_accepts. Qed.

  (** contrapositive: a value the child type accepts and the parent type rejects makes
      the check refuse *)
  Corollary subtype_refuses : forall a b,
    wf a -> wf b -> safe_pair a b = true ->
    (exists j, accepts pred a j = true /\ accepts pred b j = false) ->
    subtype pred a b = false.
  Proof.
    intros a b Wa Wb HS [j [Ha Hb]].
    destruct (subtype pred a b) eqn:E; auto.
    rewrite (subtype_sound a b Wa Wb HS E j Ha) in Hb. discriminate.
  Qed.

  (** *** the class-level check *)
  Definition overrides_ok (p : schema) (c : childdef) : Prop :=
    forall n h hp, In (n, h) (c_own c) -> In (n, hp) (s_hints p) ->
      wf (snd h) /\ wf (snd hp) /\ safe_pair (snd h) (snd hp) = true.

  Lemma has_key_fields_of : forall k hs, has_key k (fields_of hs) = has_key k hs.
  Proof.
    unfold has_key. induction hs as [|[n [a t]] hs IH]; simpl; auto.
    destruct (String.eqb k n); auto.
  Qed.

  Lemma child_field_in : forall p c n hp,
    In (n, hp) (s_hints p) -> mem_str n (c_newconsts c) = false ->
    In (n, snd (match lookup n (c_own c) with Some h => h | None => hp end))
       (fields_of (s_hints (child_schema p c))).
  Proof.
    intros p c n hp Hin Hnc. unfold child_schema, fields_of, merge_hints. simpl.
    rewrite map_app. apply in_or_app. left.
    rewrite map_map. rewrite map_app. apply in_or_app. left.
    rewrite map_map. apply in_map_iff. exists (n, hp). split; auto. simpl.
    destruct (lookup n (c_own c)); simpl; now rewrite Hnc.
  Qed.

  Lemma child_names : forall p c k,
    has_key k (fields_of (s_hints (child_schema p c))) = true ->
    has_key k (s_hints p) = true
    \/ (exists h, In (k, h) (c_own c)) \/ In k (c_newconsts c).
  Proof.
    intros p c k H. rewrite has_key_fields_of in H. apply has_key_In in H.
    unfold child_schema, merge_hints in H. simpl in H.
    rewrite map_app, !map_map in H. apply in_app_or in H. destruct H as [H|H].
    - apply in_map_iff in H. destruct H as [x [E Hx]].
      assert (Ek : fst x = k).
      { destruct (mem_str (fst x) (c_newconsts c)); simpl in E; auto. }
      clear E. apply in_app_or in Hx. destruct Hx as [Hx|Hx].
      + apply in_map_iff in Hx. destruct Hx as [b [Eb Hb]]. left.
        apply has_key_In.
        assert (Eq : fst b = k).
        { rewrite <- Ek, <- Eb. now destruct (lookup (fst b) (c_own c)). }
        rewrite <- Eq. now apply in_map.
      + right. left. apply filter_In in Hx. destruct Hx as [Hx _].
        exists (snd x). rewrite <- Ek. now destruct x.
    - right. right. simpl in H. apply in_map_iff in H. destruct H as [x [E Hx]].
      subst. apply filter_In in Hx. tauto.
  Qed.

  Theorem checked_child_sound : forall p c,
    check_child pred p c = true ->
    NoDup (map fst (s_hints p)) ->
    (forall n, In n (c_newconsts c) -> has_key n (s_hints p) = false) ->
    overrides_ok p c ->
    forall j, accepts pred (obj_of (child_schema p c)) j = true ->
              accepts_except pred (c_declared c) (obj_of p) j = true.
  Proof.
    intros p c HC ND HNC OK j HA.
    unfold check_child in HC. apply andb_true_iff in HC. destruct HC as [HC HO].
    apply andb_true_iff in HC. destruct HC as [HN HCo].
    unfold obj_of in *. unfold accepts_except. simpl in HA.
    destruct (as_obj j) as [kvs|]; try discriminate.
    apply andb_true_iff in HA. destruct HA as [HF HX].
    unfold obj_ok. apply andb_true_iff. split.
    - (* every field of the parent *)
      apply forallb_forall. intros f Hf.
      unfold fields_of in Hf. apply in_map_iff in Hf. destruct Hf as [[n hp] [Ef Hin]].
      subst f. simpl.
      destruct (mem_str n (c_declared c)) eqn:D; auto. simpl.
      assert (Hnc : mem_str n (c_newconsts c) = false).
      { destruct (mem_str n (c_newconsts c)) eqn:E; auto.
        apply mem_str_In in E. apply HNC in E.
        assert (has_key n (s_hints p) = true).
        { apply has_key_In. change n with (fst (n, hp)). now apply in_map. }
        congruence. }
      pose proof (child_field_in p c n hp Hin Hnc) as Hc.
      rewrite forallb_forall in HF. specialize (HF _ Hc). simpl in HF.
      destruct (lookup n (c_own c)) as [h|] eqn:EL; auto.
      (* an override *)
      apply lookup_In in EL.
      unfold check_overrides in HO. apply andb_true_iff in HO. destruct HO as [_ HO].
      rewrite forallb_forall in HO.
      assert (Hact : In (n, h) (actual_overrides p c)).
      { unfold actual_overrides. apply filter_In. split; auto. simpl.
        rewrite Hnc. simpl. rewrite andb_true_r.
        apply has_key_In. change n with (fst (n, hp)). now apply in_map. }
      specialize (HO _ Hact). simpl in HO. rewrite D in HO. simpl in HO.
      assert (HL : lookup n (s_hints p) = Some hp) by (apply lookup_NoDup; auto).
      rewrite HL in HO.
      unfold subtype_hint in HO.
      destruct (Bool.eqb (fst h) (fst hp)); try discriminate.
      destruct (OK n h hp EL Hin) as [W1 [W2 SP]].
      destruct (lookup n kvs) as [v|];
        [apply (subtype_sound (snd h) (snd hp) W1 W2 SP HO v HF)
        |apply (subtype_sound (snd h) (snd hp) W1 W2 SP HO JNull HF)].
    - (* extra fields *)
      destruct (extra_forbids (s_extra p)) eqn:EF; auto. simpl.
      unfold check_new in HN. apply andb_true_iff in HN. destruct HN as [_ HN].
      rewrite EF in HN. simpl in HN. apply andb_true_iff in HN. destruct HN as [CF HOwn].
      unfold check_consts in HCo. rewrite EF in HCo. simpl in HCo.
      simpl in HX. rewrite CF in HX. simpl in HX.
      unfold keys_known in *. rewrite forallb_forall in *.
      intros kv Hkv. specialize (HX kv Hkv).
      rewrite has_key_fields_of.
      destruct (child_names p c (fst kv) HX) as [H|[[h H]|H]]; auto;
        try (apply (HOwn (fst kv, h) H)); try (apply (HCo _ H)).
  Qed.


  Lemma accepts_except_nil : forall c e f j,
    accepts_except pred [] (TObj c e f) j = accepts pred (TObj c e f) j.
  Proof. intros. reflexivity. Qed.

  (** without declared overrides the serialised child instance is accepted by the parent
      and by every class of the world the parent derives from *)
  Corollary checked_child_ancestors : forall p c,
    check_child pred p c = true -> c_declared c = [] ->
    NoDup (map fst (s_hints p)) ->
    (forall n, In n (c_newconsts c) -> has_key n (s_hints p) = false) ->
    overrides_ok p c ->
    W (obj_of p) ->
    forall ca ea fa, W (TObj ca ea fa) -> chain_le (s_chain p) ca = true ->
    forall d, nf pred (obj_of (child_schema p c)) d = true ->
              accepts pred (obj_of p) d = true /\ accepts pred (TObj ca ea fa) d = true.
  Proof.
    intros p c HC HD ND HNC OK Wp ca ea fa Wa HL d Hd.
    assert (HP : accepts pred (obj_of p) d = true).
    { pose proof (checked_child_sound p c HC ND HNC OK d (nf_accepts _ _ Hd)) as H.
      rewrite HD in H. exact H. }
    split; auto.
    unfold obj_of in *.
    apply (W_conf (s_chain p) (s_extra p) (fields_of (s_hints p)) ca ea fa); auto.
  Qed.

  (** *** inheritance chains *)
  Definition link_ok (p : schema) (c : childdef) : Prop :=
    c_declared c = [] /\ NoDup (map fst (s_hints p)) /\
    (forall n, In n (c_newconsts c) -> has_key n (s_hints p) = false) /\
    overrides_ok p c.

  Fixpoint chain_ok (p : schema) (cs : list childdef) : Prop :=
    match cs with
    | [] => True
    | c :: r => link_ok p c /\ chain_ok (child_schema p c) r
    end.

  Lemma chain_head : forall cs p, In p (chain_schemas p cs).
  Proof. destruct cs; simpl; auto. Qed.

  Lemma leaf_in_chain : forall cs p, In (leaf_schema p cs) (chain_schemas p cs).
  Proof.
    induction cs as [|c r IH]; intros p; simpl; auto.
  Qed.

  (** a chain in which every link passes the check: whatever the last class accepts is
      accepted by every class of the chain, up to the root *)
  Theorem checked_chain_sound : forall cs p,
    check_chain pred p cs = true -> chain_ok p cs ->
    forall j, accepts pred (obj_of (leaf_schema p cs)) j = true ->
    forall s, In s (chain_schemas p cs) -> accepts pred (obj_of s) j = true.
  Proof.
    induction cs as [|c r IH]; intros p HC HK j HA s Hs.
    - simpl in *. destruct Hs as [E|[]]. now subst.
    - simpl in HC. apply andb_true_iff in HC. destruct HC as [HC1 HC2].
      destruct HK as [[HD [ND [HNC OK]]] HK].
      change (leaf_schema p (c :: r)) with (leaf_schema (child_schema p c) r) in HA.
      pose proof (IH (child_schema p c) HC2 HK j HA) as HI.
      simpl in Hs. destruct Hs as [E|Hs]; [subst s|now apply HI].
      pose proof (HI _ (chain_head r (child_schema p c))) as Hc.
      pose proof (checked_child_sound p c HC1 ND HNC OK j Hc) as HP.
      rewrite HD in HP. exact HP.
  Qed.

  (** a chain passes exactly when each of its links passes *)
  Lemma check_chain_links : forall cs p,
    check_chain pred p cs = true <->
    (forall k, k < List.length cs ->
       check_child pred (leaf_schema p (firstn k cs)) (nth k cs (mkchild 0 EAllow [] [] [])) = true).
  Proof.
    induction cs as [|c r IH]; intros p; simpl.
    - split; auto. intros _ k Hk. inversion Hk.
    - rewrite andb_true_iff, IH. split.
      + intros [H1 H2] k Hk. destruct k as [|k]; simpl; auto. apply H2. auto with arith.
      + intros H. split.
        * apply (H 0). auto with arith.
        * intros k Hk. apply (H (S k)). auto with arith.
  Qed.

End Soundness.

(** ** The two premises are needed, and the pinned class check is too weak *)

(** a blank string literal is admitted below plain [str] although [str] fields strip and
    require one character (outside the property's grammar: plain [str] is not strict) *)
Lemma subtype_unsafe_refuted :
  exists pred a b j,
    subtype pred a b = true /\ nf pred a j = true /\ accepts pred a j = true /\
    accepts pred b j = false /\ safe_pair a b = false.
Proof.
  exists (fun _ _ => false), (TOpt (TLit [LStr " "])), (TOpt (TPrim false KStr)), (JStr " ").
  vm_compute. repeat split.
Qed.

(** a phantom subclass whose own pattern does not imply the pattern of its base class
    (pinned [QualHashsumStr(HashsumStr)]) is admitted below the base class *)
Lemma phantom_narrowing_needed_refuted :
  exists pred a b j,
    subtype pred a b = true /\ safe_pair a b = true /\
    accepts pred a j = true /\ accepts pred b j = false.
Proof.
  exists (fun p _ => N.eqb p 3), (TPhantom [3; 2; 0]%N), (TPhantom [2; 0]%N), (JStr "sha256:ff").
  vm_compute. repeat split.
Qed.

(** the pinned tree lets [@add_const_fields] add a field below a parent that forbids
    extra fields *)
Definition refute_parent : schema :=
  mkschema [1%N] EForbid [("a", (false, TOpt (TPrim true KInt)))] [].
Definition refute_child : childdef := mkchild 2%N EForbid [] [] ["k"].

Lemma check_child_pinned_refuted :
  exists pred p c j,
    check_child_pinned pred p c = true /\ c_declared c = [] /\
    nf pred (obj_of (child_schema p c)) j = true /\
    accepts pred (obj_of (child_schema p c)) j = true /\
    accepts pred (obj_of p) j = false /\
    check_child pred p c = false.
Proof.
  exists (fun _ _ => false), refute_parent, refute_child, (JObj [("k", JStr "v")]).
  vm_compute. repeat split.
Qed.

(** ** Closed forms of the premises, and the property's own grammar *)

(** every class of the world conforms to the classes of the world it derives from *)
Definition conforming (pred : N -> string -> bool) (W : ty -> Prop) : Prop :=
  forall c1 e1 f1 c2 e2 f2,
    W (TObj c1 e1 f1) -> W (TObj c2 e2 f2) -> chain_le c1 c2 = true ->
    forall j, accepts pred (TObj c1 e1 f1) j = true -> accepts pred (TObj c2 e2 f2) j = true.

(** strict primitives, phantom types, Literal, Optional/Union, List, Set, nested schemas *)
Fixpoint strict_ty (t : ty) : bool :=
  match t with
  | TAny => false
  | TPrim s _ => s
  | TUnion ts => forallb strict_ty ts
  | TList t' | TSet t' => strict_ty t'
  | _ => true
  end.

Lemma strict_pbool_free : forall a, strict_ty a = true -> pbool_free a = true.
Proof.
  induction a using ty_ind'; simpl; intros HS; auto.
  - destruct s; try discriminate. reflexivity.
  - rewrite forallb_forall in *. rewrite Forall_forall in H. auto.
Qed.

Lemma strict_pstr_free : forall b, strict_ty b = true -> pstr_free b = true.
Proof.
  induction b using ty_ind'; simpl; intros HS; auto.
  - destruct s; try discriminate. reflexivity.
  - rewrite forallb_forall in *. rewrite Forall_forall in H. auto.
Qed.

Lemma strict_safe : forall a b, strict_ty a = true -> strict_ty b = true -> safe_pair a b = true.
Proof.
  intros a b Ha Hb. unfold safe_pair.
  now rewrite (strict_pbool_free a Ha), (strict_pstr_free b Hb).
Qed.

Theorem subtype_sound_strict : forall pred W, conforming pred W ->
  forall a b, wf pred W a -> wf pred W b -> strict_ty a = true -> strict_ty b = true ->
  subtype pred a b = true ->
  forall d, nf pred a d = true -> accepts pred b d = true.
Proof.
  intros pred W HW a b Wa Wb Sa Sb HT d Hd.
  apply (subtype_sound_dump pred W HW a b Wa Wb (strict_safe a b Sa Sb) HT d Hd).
Qed.

(** the Annotated wrapper of a hint changes nothing about acceptance *)
Theorem subtype_hint_sound : forall pred W, conforming pred W ->
  forall (a b : hint), wf pred W (snd a) -> wf pred W (snd b) -> safe_pair (snd a) (snd b) = true ->
  subtype_hint pred a b = true ->
  forall j, accepts pred (snd a) j = true -> accepts pred (snd b) j = true.
Proof.
  intros pred W HW a b Wa Wb HS HT. unfold subtype_hint in HT.
  destruct (Bool.eqb (fst a) (fst b)); try discriminate.
  apply (subtype_sound pred W HW (snd a) (snd b) Wa Wb HS HT).
Qed.
