(** * C13, deepening: the check decides inclusion on a fragment; worlds built class by
    class are conforming. *)
From Coq Require Import List String Ascii NArith ZArith Bool Lia ZifyBool.
From MV Require Import Base.Sx Schema.Subtype Schema.SubtypeProofs.
Import ListNotations.
Local Open Scope string_scope.

(** ** Part 1: completeness on a fragment *)

(** atoms: strict primitives, Literal, None; fragment types: an atom or a flat union of
    atoms (Optional[t] = Union[t, None]) *)
Definition atom_frag (t : ty) : bool :=
  match t with
  | TPrim true _ | TLit _ | TNone => true
  | _ => false
  end.

Definition frag (t : ty) : bool :=
  match t with
  | TUnion ts => forallb atom_frag ts
  | _ => atom_frag t
  end.

Definition atoms_of (t : ty) : list ty :=
  match t with TUnion ts => ts | _ => [t] end.

Definition is_numlit (v : lit) : bool := match v with LStr _ => false | _ => true end.
Definition is_strlit (v : lit) : bool := match v with LStr _ => true | _ => false end.

Definition a_numlit (u : ty) : bool := match u with TLit vs => existsb is_numlit vs | _ => false end.
Definition a_strlit (u : ty) : bool := match u with TLit vs => existsb is_strlit vs | _ => false end.
Definition a_numprim (u : ty) : bool :=
  match u with TPrim true (KInt | KFloat | KBool) => true | _ => false end.
Definition a_sstr (u : ty) : bool := match u with TPrim true KStr => true | _ => false end.

Definition has (f : ty -> bool) (t : ty) : bool := existsb f (atoms_of t).

(** literals and strict primitives of the same JSON family never face each other *)
Definition apart (a b : ty) : bool :=
  negb (has a_numlit a && has a_numprim b) && negb (has a_strlit a && has a_sstr b)
  && negb (has a_numprim a && has a_numlit b) && negb (has a_sstr a && has a_strlit b).

Definition frag_pair (a b : ty) : bool :=
  frag a && frag b && Bool.eqb (is_lit a) (is_lit b) && apart a b.

(** finitely many candidate witnesses per type *)
Definition json_of (v : lit) : jval :=
  match v with LBool b => JBool b | LInt z => JInt z | LStr s => JStr s end.

Definition cand1 (t : ty) : list jval :=
  match t with
  | TPrim true KInt => [JInt 0]
  | TPrim true KFloat => [JFloat 1]
  | TPrim true KBool => [JBool true]
  | TPrim true KStr => [JStr "a"]
  | TLit vs => map json_of vs
  | TNone => [JNull]
  | _ => []
  end.

Definition cands (t : ty) : list jval := flat_map cand1 (atoms_of t).

Section Complete.
  Variable pred : N -> string -> bool.

  Lemma j_eq_json_of : forall v w, j_eq_lit (json_of v) w = lit_eqb v w.
  Proof.
    intros [b|z|s] [c|y|t]; cbn -[Z.eqb]; auto. apply Z.eqb_sym.
  Qed.

  Lemma cand_accepted : forall t j, atom_frag t = true -> In j (cand1 t) -> accepts pred t j = true.
  Proof.
    intros t j Ha Hj. destruct t; try discriminate.
    - destruct strict; try discriminate. destruct k; simpl in Hj; destruct Hj as [E|[]]; subst; reflexivity.
    - simpl in Hj. apply in_map_iff in Hj. destruct Hj as [v [E Hv]]. subst j.
      simpl. apply existsb_exists. exists v. split; auto.
      rewrite j_eq_json_of. destruct v; cbn -[Z.eqb]; auto using Z.eqb_refl, String.eqb_refl.
    - simpl in Hj. destruct Hj as [E|[]]. subst. reflexivity.
  Qed.

  (** decomposition over the atoms of a fragment type *)
  Lemma accepts_atoms : forall b j, frag b = true ->
    accepts pred b j = existsb (fun u => accepts pred u j) (atoms_of b).
  Proof. intros b j Hb. destruct b; try discriminate; simpl; try reflexivity; now rewrite orb_false_r. Qed.

  Lemma validate_atoms : forall b v, frag b = true ->
    validate pred b v = existsb (fun u => validate pred u v) (atoms_of b).
  Proof. intros b v Hb. destruct b; try discriminate; simpl; try reflexivity; now rewrite orb_false_r. Qed.

  Lemma dle_atoms : forall t b, frag b = true ->
    dle t b = existsb (dle t) (atoms_of b).
  Proof. intros t b Hb. destruct b; try discriminate; simpl; try reflexivity; now rewrite orb_false_r. Qed.

  Lemma frag_atoms : forall b u, frag b = true -> In u (atoms_of b) -> atom_frag u = true.
  Proof.
    intros b u Hb Hu. destruct b; simpl in *; try (destruct Hu as [E|[]]; subst; exact Hb).
    rewrite forallb_forall in Hb. auto.
  Qed.

  Lemma has_false : forall f b u, has f b = false -> In u (atoms_of b) -> f u = false.
  Proof.
    unfold has. intros f b u H Hu. destruct (f u) eqn:E; auto.
    assert (existsb f (atoms_of b) = true) by (apply existsb_exists; eauto). congruence.
  Qed.

  (** one atom of b accepting the candidate of a strict primitive is that primitive *)
  Lemma prim_atom : forall k u j,
    atom_frag u = true -> In j (cand1 (TPrim true k)) -> accepts pred u j = true ->
    (a_numprim (TPrim true k) = true -> a_numlit u = false) ->
    (a_sstr (TPrim true k) = true -> a_strlit u = false) ->
    dle (TPrim true k) u = true.
  Proof.
    intros k u j Hu Hj Ha Hn Hs.
    destruct u as [ |s2 k2| |ws| | | | |]; try discriminate.
    - destruct s2; try discriminate.
      destruct k, k2; simpl in Hj; destruct Hj as [E|[]]; subst j; simpl in Ha; try discriminate; reflexivity.
    - (* a literal atom accepts the candidate: excluded *)
      exfalso. simpl in Ha. apply existsb_exists in Ha. destruct Ha as [w [Hw Hm]].
      destruct k; simpl in Hj; destruct Hj as [E|[]]; subst j.
      + assert (a_numlit (TLit ws) = true).
        { simpl. apply existsb_exists. exists w. split; auto. destruct w; simpl in *; auto; discriminate. }
        rewrite Hn in H; [discriminate|reflexivity].
      + destruct w as [c|z|s]; cbn -[Z.eqb Z.mul] in Hm; try discriminate.
        * destruct c; cbn in Hm; discriminate.
        * apply Z.eqb_eq in Hm. lia.
      + assert (a_numlit (TLit ws) = true).
        { simpl. apply existsb_exists. exists w. split; auto. destruct w; simpl in *; auto; discriminate. }
        rewrite Hn in H; [discriminate|reflexivity].
      + assert (a_strlit (TLit ws) = true).
        { simpl. apply existsb_exists. exists w. split; auto. destruct w; simpl in *; auto; discriminate. }
        rewrite Hs in H; [discriminate|reflexivity].
    - destruct k; simpl in Hj; destruct Hj as [E|[]]; subst j; discriminate.
  Qed.

  (** one atom of b accepting the JSON form of a literal value validates that value *)
  Lemma lit_atom : forall v u,
    atom_frag u = true -> accepts pred u (json_of v) = true ->
    (is_numlit v = true -> a_numprim u = false) ->
    (is_strlit v = true -> a_sstr u = false) ->
    validate pred u (VLit v) = true.
  Proof.
    intros v u Hu Ha Hn Hs.
    destruct u as [ |s2 k2| |ws| | | | |]; try discriminate.
    - exfalso. destruct s2; try discriminate.
      destruct v, k2; simpl in Ha; try discriminate;
        try (rewrite Hn in *; [discriminate|reflexivity]);
        try (specialize (Hn eq_refl); discriminate);
        try (specialize (Hs eq_refl); discriminate).
    - simpl in *. apply existsb_exists in Ha. destruct Ha as [w [Hw Hm]].
      apply existsb_exists. exists (VLit w). split.
      + unfold lvals_of. now apply in_map.
      + simpl. now rewrite <- j_eq_json_of.
    - destruct v; discriminate.
  Qed.

  Lemma none_atom : forall u, atom_frag u = true -> accepts pred u JNull = true ->
    validate pred u VNone = true.
  Proof.
    intros u Hu Ha. destruct u as [ |s2 k2| |ws| | | | |]; try discriminate.
    - destruct s2; try discriminate. destruct k2; discriminate.
    - simpl in Ha. apply existsb_exists in Ha. destruct Ha as [w [_ Hm]]. destruct w; discriminate.
    - reflexivity.
  Qed.

  (** the check admits an atom of a below b as soon as b accepts the atom's candidates *)
  Lemma atom_complete : forall t a b,
    frag a = true -> frag b = true -> apart a b = true -> In t (atoms_of a) ->
    (forall j, In j (cand1 t) -> accepts pred b j = true) ->
    cle pred t b = true.
  Proof.
    intros t a b Fa Fb Hap Ht Hc.
    pose proof (frag_atoms a t Fa Ht) as At.
    unfold apart in Hap. repeat (apply andb_true_iff in Hap; destruct Hap as [Hap ?]).
    rename H into A4, H0 into A3, H1 into A2, Hap into A1.
    assert (Flag : forall f g, negb (has f a && has g b) = true -> f t = true ->
                   forall u, In u (atoms_of b) -> g u = false).
    { intros f g Hn Hf u Hu. apply (has_false g b u); auto.
      assert (has f a = true) by (unfold has; apply existsb_exists; eauto).
      rewrite H in Hn. simpl in Hn. now apply negb_true_iff in Hn. }
    destruct t as [ |s k| |vs| | | | |]; try discriminate.
    - (* strict primitive *)
      destruct s; try discriminate.
      change (dle (TPrim true k) b = true). rewrite dle_atoms by auto.
      assert (Hj : exists j, In j (cand1 (TPrim true k))) by (destruct k; simpl; eauto).
      destruct Hj as [j Hj]. pose proof (Hc j Hj) as Hb.
      rewrite accepts_atoms in Hb by auto. apply existsb_exists in Hb. destruct Hb as [u [Hu Hacc]].
      apply existsb_exists. exists u. split; auto.
      apply (prim_atom k u j); auto.
      + eapply frag_atoms; eauto.
      + intros Hf. apply (Flag a_numprim a_numlit A3 Hf u Hu).
      + intros Hf. apply (Flag a_sstr a_strlit A4 Hf u Hu).
    - (* literal *)
      change (ole pred (lvals_of vs) b = true). rewrite ole_validate.
      apply forallb_forall. intros lv Hlv. unfold lvals_of in Hlv. apply in_map_iff in Hlv.
      destruct Hlv as [v [E Hv]]. subst lv.
      assert (Hb : accepts pred b (json_of v) = true).
      { apply Hc. simpl. now apply in_map. }
      rewrite accepts_atoms in Hb by auto. apply existsb_exists in Hb. destruct Hb as [u [Hu Hacc]].
      rewrite validate_atoms by auto. apply existsb_exists. exists u. split; auto.
      apply lit_atom; auto.
      + eapply frag_atoms; eauto.
      + intros Hf. apply (Flag a_numlit a_numprim A1); auto.
        simpl. apply existsb_exists. eauto.
      + intros Hf. apply (Flag a_strlit a_sstr A2); auto.
        simpl. apply existsb_exists. eauto.
    - (* None *)
      change (ole pred [VNone] b = true). rewrite ole_validate. simpl. rewrite andb_true_r.
      assert (Hb : accepts pred b JNull = true) by (apply Hc; simpl; auto).
      rewrite accepts_atoms in Hb by auto. apply existsb_exists in Hb. destruct Hb as [u [Hu Hacc]].
      rewrite validate_atoms by auto. apply existsb_exists. exists u. split; auto.
      apply none_atom; auto. eapply frag_atoms; eauto.
  Qed.

  Lemma cle_atoms : forall a b, frag a = true ->
    cle pred a b = forallb (fun t => cle pred t b) (atoms_of a).
  Proof. intros a b Fa. destruct a; try discriminate; simpl; try reflexivity; now rewrite andb_true_r. Qed.

  (** inclusion on the finitely many candidates of a already makes the check pass *)
  Theorem subtype_complete_cands : forall a b,
    frag_pair a b = true ->
    (forall j, In j (cands a) -> accepts pred a j = true -> accepts pred b j = true) ->
    subtype pred a b = true.
  Proof.
    intros a b HP Hinc. unfold frag_pair in HP.
    repeat (apply andb_true_iff in HP; destruct HP as [HP ?]).
    rename H into Hap, H0 into Hlit, H1 into Fb, HP into Fa.
    unfold subtype. rewrite Hlit. rewrite cle_atoms by auto.
    apply forallb_forall. intros t Ht.
    apply (atom_complete t a b); auto.
    intros j Hj. apply Hinc.
    - unfold cands. apply in_flat_map. eauto.
    - rewrite accepts_atoms by auto. apply existsb_exists. exists t. split; auto.
      apply cand_accepted; auto. apply (frag_atoms a t); auto.
  Qed.

  Corollary subtype_complete_fragment : forall a b,
    frag_pair a b = true ->
    (forall j, accepts pred a j = true -> accepts pred b j = true) ->
    subtype pred a b = true.
  Proof. intros a b HP H. apply subtype_complete_cands; auto. Qed.

  (** fragment types contain no phantom class, no nested schema, no plain primitive *)
  Lemma frag_wf : forall W t, frag t = true -> wf pred W t.
  Proof.
    intros W t Ft. destruct t; try discriminate; try constructor.
    simpl in Ft. rewrite forallb_forall in Ft. apply Forall_forall. intros u Hu.
    specialize (Ft u Hu). destruct u; try discriminate; constructor.
  Qed.

  Lemma frag_strict : forall t, frag t = true -> strict_ty t = true.
  Proof.
    intros t Ft. destruct t; try discriminate; simpl in *; auto.
    - destruct strict; auto; discriminate.
    - rewrite forallb_forall in *. intros u Hu. specialize (Ft u Hu).
      destruct u; try discriminate; simpl; auto. destruct strict; auto; discriminate.
  Qed.

  (** on the fragment the check refuses exactly the overrides that admit a value the
      parent type rejects *)
  Theorem refused_iff_witness_fragment : forall a b,
    frag_pair a b = true ->
    (subtype pred a b = false <->
     exists j, accepts pred a j = true /\ accepts pred b j = false).
  Proof.
    intros a b HP. split.
    - intros HF.
      destruct (existsb (fun j => accepts pred a j && negb (accepts pred b j)) (cands a)) eqn:E.
      + apply existsb_exists in E. destruct E as [j [_ Hj]].
        apply andb_true_iff in Hj. destruct Hj as [H1 H2]. apply negb_true_iff in H2. eauto.
      + exfalso. rewrite (subtype_complete_cands a b HP) in HF; [discriminate|].
        intros j Hj Ha. destruct (accepts pred b j) eqn:Eb; auto.
        assert (existsb (fun j => accepts pred a j && negb (accepts pred b j)) (cands a) = true).
        { apply existsb_exists. exists j. split; auto. now rewrite Ha, Eb. }
        congruence.
    - intros Hex. unfold frag_pair in HP.
      repeat (apply andb_true_iff in HP; destruct HP as [HP ?]).
      apply (subtype_refuses pred (fun _ => False)).
      + intros c1 e1 f1 c2 e2 f2 [].
      + now apply frag_wf.
      + now apply frag_wf.
      + apply strict_safe; now apply frag_strict.
      + exact Hex.
  Qed.
End Complete.

(** where the conservative check refuses a semantically fine pair (all outside [frag_pair]) *)
Definition nopred : N -> string -> bool := fun _ _ => false.

(** the Literal wrapper must agree: Literal["a"] is refused below Optional[Literal["a"]] *)
Lemma incomplete_literal_wrapper :
  let a := TLit [LStr "a"] in let b := TOpt (TLit [LStr "a"]) in
  frag a = true /\ frag b = true /\ apart a b = true /\ subtype nopred a b = false /\
  cle nopred a b = true.
Proof. vm_compute. repeat split. Qed.

(** a non-blank string literal is refused below StrictStr (inside a union) *)
Lemma incomplete_strlit_strictstr :
  let a := TOpt (TLit [LStr "a"]) in let b := TOpt (TPrim true KStr) in
  frag a = true /\ frag b = true /\ is_lit a = is_lit b /\ apart a b = false /\
  subtype nopred a b = false.
Proof. vm_compute. repeat split. Qed.

(** StrictBool is refused below Optional[Literal[True, False]] *)
Lemma incomplete_bool_literals :
  let a := TOpt (TPrim true KBool) in let b := TOpt (TLit [LBool true; LBool false]) in
  frag a = true /\ frag b = true /\ is_lit a = is_lit b /\ apart a b = false /\
  subtype nopred a b = false.
Proof. vm_compute. repeat split. Qed.

(** Literal[5] is refused below Union[StrictInt, StrictFloat] (5, 5.0 are both accepted) *)
Lemma incomplete_numlit_prims :
  let a := TOpt (TLit [LInt 5]) in let b := TUnion [TPrim true KInt; TPrim true KFloat; TNone] in
  frag a = true /\ frag b = true /\ is_lit a = is_lit b /\ apart a b = false /\
  subtype nopred a b = false /\
  forallb (fun j => implb (accepts nopred a j) (accepts nopred b j))
          [JInt 5; JFloat 10; JNull; JBool true; JStr "5"; JInt 4] = true.
Proof. vm_compute. repeat split. Qed.

(** ... and in each of the four cases every value of a is a value of b *)
Lemma incl_literal_wrapper : forall j,
  accepts nopred (TLit [LStr "a"]) j = true -> accepts nopred (TOpt (TLit [LStr "a"])) j = true.
Proof. intros j H. simpl in *. now rewrite H. Qed.

Lemma incl_strlit_strictstr : forall j,
  accepts nopred (TOpt (TLit [LStr "a"])) j = true -> accepts nopred (TOpt (TPrim true KStr)) j = true.
Proof.
  intros j H. destruct j; simpl in *; auto; try discriminate.
  rewrite !orb_false_r in H. apply String.eqb_eq in H. subst. reflexivity.
Qed.

Lemma incl_bool_literals : forall j,
  accepts nopred (TOpt (TPrim true KBool)) j = true ->
  accepts nopred (TOpt (TLit [LBool true; LBool false])) j = true.
Proof. intros j H. destruct j; simpl in *; auto; try discriminate. now destruct b. Qed.

Lemma incl_numlit_prims : forall j,
  accepts nopred (TOpt (TLit [LInt 5])) j = true ->
  accepts nopred (TUnion [TPrim true KInt; TPrim true KFloat; TNone]) j = true.
Proof. intros j H. destruct j; simpl in *; auto; try discriminate. now destruct b. Qed.

(** ** Part 2: a world built class by class, each class checked when added, is conforming *)

Inductive step : Type :=
| SRoot (s : schema)                      (* a schema deriving directly from MetadataSchema *)
| SDerive (p : schema) (c : childdef).    (* a class deriving from an already present class *)

Definition step_schema (st : step) : schema :=
  match st with SRoot s => s | SDerive p c => child_schema p c end.

(** the world after the steps, newest class first *)
Fixpoint build (w : list schema) (steps : list step) : list schema :=
  match steps with
  | [] => w
  | st :: r => build (step_schema st :: w) r
  end.

Definition W_of (w : list schema) : ty -> Prop :=
  fun o => exists s, In s w /\ o = obj_of s.

Definition fresh (i : N) (w : list schema) : Prop :=
  forall s, In s w -> ~ In i (s_chain s).

Section World.
  Variable pred : N -> string -> bool.

  (** what registration establishes when a class is added: its base is present, its
      class id is new, it passes the check against its base without declared overrides;
      nested schema types in overridden fields are classes already present *)
  Definition step_ok (w : list schema) (st : step) : Prop :=
    match st with
    | SRoot s => exists i, s_chain s = [i] /\ fresh i w
    | SDerive p c =>
        In p w /\ fresh (c_id c) w /\ check_child pred p c = true /\
        link_ok pred (W_of w) p c
    end.

  Fixpoint steps_ok (w : list schema) (steps : list step) : Prop :=
    match steps with
    | [] => True
    | st :: r => step_ok w st /\ steps_ok (step_schema st :: w) r
    end.

  Definition inv (w : list schema) : Prop :=
    (forall s q, In s w -> In q (s_chain s) ->
       exists s', In s' w /\ (exists r, s_chain s' = q :: r) /\
                  forall j, accepts pred (obj_of s) j = true -> accepts pred (obj_of s') j = true)
    /\ (forall s1 s2 q r1 r2, In s1 w -> In s2 w ->
          s_chain s1 = q :: r1 -> s_chain s2 = q :: r2 -> s1 = s2).

  Lemma mem_N_In : forall q l, mem_N q l = true -> In q l.
  Proof.
    induction l; simpl; intros H; try discriminate.
    apply orb_true_iff in H. destruct H as [H|H]; auto. left. symmetry. now apply N.eqb_eq.
  Qed.

  Lemma inv_conforming : forall w, inv w -> conforming pred (W_of w).
  Proof.
    intros w [I1 I2] c1 e1 f1 c2 e2 f2 [s1 [H1 E1]] [s2 [H2 E2]] HL j HA.
    unfold obj_of in E1, E2. inversion E1; subst c1 e1 f1. inversion E2; subst c2 e2 f2.
    unfold chain_le in HL. destruct (s_chain s2) as [|q r2] eqn:Ec; try discriminate.
    apply mem_N_In in HL.
    destruct (I1 s1 q H1 HL) as [s' [Hs' [[r Er] Hincl]]].
    assert (s' = s2) by (eapply I2; eauto). subst s'.
    apply (Hincl j HA).
  Qed.

  Lemma inv_nil : inv [].
  Proof. split; intros; contradiction. Qed.

  Lemma inv_step : forall w st, inv w -> step_ok w st -> inv (step_schema st :: w).
  Proof.
    intros w st Hinv Hok. pose proof (inv_conforming w Hinv) as Hconf.
    destruct Hinv as [I1 I2].
    destruct st as [s|p c]; simpl in *.
    - (* a root *)
      destruct Hok as [i [Ei Hf]]. split.
      + intros s0 q [E|Hin] Hq.
        * subst s0. rewrite Ei in Hq. destruct Hq as [E|[]]. subst q.
          exists s. split; [now left|]. split; [eauto|auto].
        * destruct (I1 s0 q Hin Hq) as [s' [Hs' [Hr Hi]]].
          exists s'. split; [now right|]. split; auto.
      + intros s1 s2 q r1 r2 [E1|H1] [E2|H2] C1 C2; subst; auto.
        * exfalso. rewrite Ei in C1. inversion C1; subst. apply (Hf s2 H2). rewrite C2. now left.
        * exfalso. rewrite Ei in C2. inversion C2; subst. apply (Hf s1 H1). rewrite C1. now left.
        * eapply I2; eauto.
    - (* a derived class *)
      destruct Hok as [Hp [Hf [HC [HD [ND [HNC OK]]]]]].
      assert (Hpar : forall j, accepts pred (obj_of (child_schema p c)) j = true ->
                               accepts pred (obj_of p) j = true).
      { intros j HA.
        pose proof (checked_child_sound pred (W_of w) Hconf p c HC ND HNC OK j HA) as H.
        rewrite HD in H. exact H. }
      split.
      + intros s0 q [E|Hin] Hq.
        * subst s0. simpl in Hq. destruct Hq as [E|Hq].
          -- subst q. exists (child_schema p c). split; [now left|]. split; [simpl; eauto|auto].
          -- destruct (I1 p q Hp Hq) as [s' [Hs' [Hr Hi]]].
             exists s'. split; [now right|]. split; auto.
             intros j HA. apply Hi. now apply Hpar.
        * destruct (I1 s0 q Hin Hq) as [s' [Hs' [Hr Hi]]].
          exists s'. split; [now right|]. split; auto.
      + intros s1 s2 q r1 r2 [E1|H1] [E2|H2] C1 C2; subst; auto.
        * exfalso. simpl in C1. inversion C1; subst. apply (Hf s2 H2). rewrite C2. now left.
        * exfalso. simpl in C2. inversion C2; subst. apply (Hf s1 H1). rewrite C1. now left.
        * eapply I2; eauto.
  Qed.

  Lemma inv_build : forall steps w, inv w -> steps_ok w steps -> inv (build w steps).
  Proof.
    induction steps as [|st r IH]; intros w Hi Hs; simpl; auto.
    destruct Hs as [H1 H2]. apply IH; auto. now apply inv_step.
  Qed.

  Theorem world_checked : forall steps,
    steps_ok [] steps -> conforming pred (W_of (build [] steps)).
  Proof. intros steps H. apply inv_conforming. apply inv_build; auto. apply inv_nil. Qed.

  (** and every class of such a world reads the instances of every class derived from it *)
  Corollary world_ancestors : forall steps s q,
    steps_ok [] steps -> In s (build [] steps) -> In q (s_chain s) ->
    exists s', In s' (build [] steps) /\ (exists r, s_chain s' = q :: r) /\
      forall d, nf pred (obj_of s) d = true -> accepts pred (obj_of s') d = true.
  Proof.
    intros steps s q H Hs Hq.
    destruct (inv_build steps [] inv_nil H) as [I1 _].
    destruct (I1 s q Hs Hq) as [s' [H1 [H2 H3]]].
    exists s'. split; auto. split; auto. intros d Hd. apply H3. now apply nf_accepts.
  Qed.
End World.
