(** * Model of schema instances, their JSON dump and their parser (property C12).

    Transcribes, as total Gallina functions:
    - [schema/base.py]   [BaseModelPlus.dict/json] with the defaults [by_alias=True],
      [exclude_none=True]  -> [dump];  [parse_raw] (JSON first, YAML as fall-back),
      [__bytes__] (JSON + newline), [yaml]  -> [parse_raw], [to_bytes], [to_json], [to_yaml]
      over an abstract printer/parser pair per text format;
    - [schema/core.py]   [SchemaBase.override_consts] (pre root validator:
      [values.update(cls.__constants__)])  -> [upd] inside the object case of [parse];
      constant fields are ordinary fields of the instance, typed [Optional[Any]], always
      holding the constant -> appended by [dump];
    - pydantic 1.10 field validation for the documented field-type grammar
      ([schema/types.py]: strict [Int]/[Float]/[Bool]/[Str], [NonEmptyStr], [Literal],
      [Optional], [Union] (left to right, first success), [List], [Set], nested schemas,
      alias first then field name ([allow_population_by_field_name]), defaults,
      [Extra.forbid]); [Str] under the [BaseModelPlus] config
      ([anystr_strip_whitespace], [min_anystr_length = 1]);
    - [schema/parser.py] + [schema/types.py] custom-parser types [Duration], [PintUnit],
      [PintQuantity] together with their registered JSON encoders ([schema/encoder.py];
      installed on every schema class by the metaclass - the *repaired* behaviour):
      a value of such a type is represented by the string its encoder prints; the
      parser is an abstract normaliser [norm : cust -> string -> option string].

    Floats are opaque tokens (the shortest [repr]).  A set is the duplicate-free list of
    its elements; the harness compares set-typed arrays as sets.

    This file contains definitions only. *)
From Coq Require Import List String Ascii ZArith NArith Bool.
From MV Require Import Base.Sx.
Import ListNotations.
Local Open Scope string_scope.

(** ** JSON values *)
Inductive jval : Type :=
| JNull
| JBool (b : bool)
| JInt (z : Z)
| JFloat (tok : string)
| JStr (s : string)
| JArr (l : list jval)
| JObj (kvs : list (string * jval)).

(** Equality of primitive JSON values ([Literal] members; anything else is unequal). *)
Definition prim_eqb (a b : jval) : bool :=
  match a, b with
  | JBool x, JBool y => Bool.eqb x y
  | JInt x, JInt y => Z.eqb x y
  | JStr x, JStr y => String.eqb x y
  | _, _ => false
  end.

Definition memb (j : jval) (l : list jval) : bool := existsb (prim_eqb j) l.

Definition is_null (j : jval) : bool := match j with JNull => true | _ => false end.

(** ** Typed values *)
Inductive cust : Type := CDuration | CUnit | CQuantity.

Inductive tval : Type :=
| VNone
| VSome (v : tval)
| VInt (z : Z)
| VFloat (tok : string)
| VBool (b : bool)
| VStr (s : string)
| VLit (j : jval)
| VCus (s : string)            (* the canonical printed form of a duration / unit / quantity *)
| VList (l : list tval)
| VSet (l : list tval)
| VUn (i : nat) (v : tval)     (* which alternative of a Union validated the value *)
| VObj (vs : list tval).       (* positional: one entry per declared (non-constant) field *)

Fixpoint tval_eqb (a b : tval) {struct a} : bool :=
  let fix all2 (l m : list tval) {struct l} : bool :=
    match l, m with
    | [], [] => true
    | x :: l', y :: m' => tval_eqb x y && all2 l' m'
    | _, _ => false
    end in
  match a, b with
  | VNone, VNone => true
  | VSome x, VSome y => tval_eqb x y
  | VInt x, VInt y => Z.eqb x y
  | VFloat x, VFloat y => String.eqb x y
  | VBool x, VBool y => Bool.eqb x y
  | VStr x, VStr y => String.eqb x y
  | VLit x, VLit y => prim_eqb x y
  | VCus x, VCus y => String.eqb x y
  | VList l, VList m => all2 l m
  | VSet l, VSet m => all2 l m
  | VUn i x, VUn k y => Nat.eqb i k && tval_eqb x y
  | VObj l, VObj m => all2 l m
  | _, _ => false
  end.

(** [set(...)] of a list: one representative per class of equal elements. *)
Fixpoint dedup (l : list tval) : list tval :=
  match l with
  | [] => []
  | x :: r => let r' := dedup r in if existsb (tval_eqb x) r' then r' else x :: r'
  end.

Fixpoint nodupb (l : list tval) : bool :=
  match l with
  | [] => true
  | x :: r => negb (existsb (tval_eqb x) r) && nodupb r
  end.

(** ** Field types and schemas *)
Inductive fld (T : Type) : Type :=
| Fld (name alias : string) (t : T) (dflt : option tval).
Arguments Fld {T} name alias t dflt.

Inductive ty : Type :=
| TInt | TFloat | TBool
| TStr                         (* StrictStr under the BaseModelPlus config *)
| TNEStr                       (* NonEmptyStr: phantom type, full match of \s*\S[\S\s]* *)
| TLit (vs : list jval)
| TCus (c : cust)
| TOpt (t : ty)
| TUnion (ts : list ty)
| TList (t : ty)
| TSet (t : ty)
| TObj (fs : list (fld ty)) (cs : list (string * jval)) (forbid : bool).

Record schema : Type := mkschema {
  sfields : list (fld ty);
  sconsts : list (string * jval);
  sforbid : bool }.
Definition ty_of (s : schema) : ty := TObj (sfields s) (sconsts s) (sforbid s).

Definition fname {T} (f : fld T) : string := match f with Fld n _ _ _ => n end.
Definition falias {T} (f : fld T) : string := match f with Fld _ a _ _ => a end.
Definition fty {T} (f : fld T) : T := match f with Fld _ _ t _ => t end.
Definition fdflt {T} (f : fld T) : option tval := match f with Fld _ _ _ d => d end.

(** ** Strings: Python whitespace (ASCII part), [str.strip], "contains a non-space". *)
Definition is_ws (c : ascii) : bool :=
  let n := N_of_ascii c in
  ((N.leb 9 n && N.leb n 13) || (N.leb 28 n && N.leb n 32))%N.

Fixpoint lstrip (s : string) : string :=
  match s with
  | String c r => if is_ws c then lstrip r else s
  | EmptyString => EmptyString
  end.

Fixpoint rstrip (s : string) : string :=
  match s with
  | EmptyString => EmptyString
  | String c r =>
      match rstrip r with
      | EmptyString => if is_ws c then EmptyString else String c EmptyString
      | r' => String c r'
      end
  end.

Definition strip (s : string) : string := rstrip (lstrip s).

Fixpoint has_nonws (s : string) : bool :=
  match s with
  | EmptyString => false
  | String c r => negb (is_ws c) || has_nonws r
  end.

Definition nonempty (s : string) : bool := match s with EmptyString => false | _ => true end.

(** ** Association lists (Python dicts with string keys) *)
Fixpoint lookup {X : Type} (k : string) (kvs : list (string * X)) : option X :=
  match kvs with
  | [] => None
  | (k', v) :: r => if String.eqb k k' then Some v else lookup k r
  end.

Definition mem_str (k : string) (l : list string) : bool := existsb (String.eqb k) l.

(** [d.update(cs)]: afterwards every key of [cs] maps to its value in [cs]. *)
Definition upd {X : Type} (kvs cs : list (string * X)) : list (string * X) :=
  cs ++ filter (fun kv => negb (mem_str (fst kv) (map fst cs))) kvs.

(** pydantic: the alias first; the field name only when the alias is absent. *)
Definition lookup2 {X : Type} (a n : string) (kvs : list (string * X)) : option X :=
  match lookup a kvs with
  | Some v => Some v
  | None => lookup n kvs
  end.

Definition known (fs : list (fld ty)) (cs : list (string * jval)) (k : string) : bool :=
  existsb (fun f => String.eqb k (falias f) || String.eqb k (fname f)) fs
  || mem_str k (map fst cs).

Definition is_topt (t : ty) : bool := match t with TOpt _ => true | _ => false end.

(** ** Dump: [json_dict()] of an instance ([by_alias], [exclude_none], constants). *)
Fixpoint dump (t : ty) (v : tval) {struct t} : jval :=
  match t, v with
  | TInt, VInt z => JInt z
  | TFloat, VFloat tok => JFloat tok
  | TBool, VBool b => JBool b
  | TStr, VStr s => JStr s
  | TNEStr, VStr s => JStr s
  | TLit _, VLit j => j
  | TCus _, VCus s => JStr s
  | TOpt _, VNone => JNull
  | TOpt t', VSome v' => dump t' v'
  | TUnion ts, VUn i v' =>
      (fix pick (ts : list ty) (i : nat) {struct ts} : jval :=
         match ts, i with
         | t' :: _, O => dump t' v'
         | _ :: r, S i' => pick r i'
         | [], _ => JNull
         end) ts i
  | TList t', VList l => JArr (map (dump t') l)
  | TSet t', VSet l => JArr (map (dump t') l)
  | TObj fs cs _, VObj vs =>
      JObj ((fix go (fs : list (fld ty)) (vs : list tval) {struct fs} : list (string * jval) :=
               match fs, vs with
               | Fld _ a t' _ :: fr, v' :: vr =>
                   match v' with
                   | VNone => go fr vr                       (* exclude_none *)
                   | _ => (a, dump t' v') :: go fr vr        (* by_alias *)
                   end
               | _, _ => []
               end) fs vs ++ cs)
  | _, _ => JNull
  end.

Fixpoint opt_list {X : Type} (l : list (option X)) : option (list X) :=
  match l with
  | [] => Some []
  | None :: _ => None
  | Some x :: r => match opt_list r with Some r' => Some (x :: r') | None => None end
  end.

Section WithNorm.
  (** The custom parsers of [Duration], [PintUnit], [PintQuantity] composed with their
      JSON encoders: from an input string to the printed form of the parsed object. *)
  Variable norm : cust -> string -> option string.

  (** ** Parse: [S.parse_obj(j)]; [None] = [ValidationError]. *)
  Fixpoint parse (t : ty) (j : jval) {struct t} : option tval :=
    match t with
    | TInt => match j with JInt z => Some (VInt z) | _ => None end
    | TFloat => match j with JFloat tok => Some (VFloat tok) | _ => None end
    | TBool => match j with JBool b => Some (VBool b) | _ => None end
    | TStr =>
        match j with
        | JStr s => let s' := strip s in if nonempty s' then Some (VStr s') else None
        | _ => None
        end
    | TNEStr =>
        match j with
        | JStr s => if has_nonws s then Some (VStr s) else None
        | _ => None
        end
    | TLit vs => if memb j vs then Some (VLit j) else None
    | TCus c =>
        match j with
        | JStr s => match norm c s with Some s' => Some (VCus s') | None => None end
        | _ => None
        end
    | TOpt t' =>
        match j with
        | JNull => Some VNone
        | _ => match parse t' j with Some v => Some (VSome v) | None => None end
        end
    | TUnion ts =>
        (fix first (ts : list ty) (i : nat) {struct ts} : option tval :=
           match ts with
           | [] => None
           | t' :: r =>
               match parse t' j with
               | Some v => Some (VUn i v)
               | None => first r (S i)
               end
           end) ts O
    | TList t' =>
        match j with
        | JArr l => match opt_list (map (parse t') l) with Some vs => Some (VList vs) | None => None end
        | _ => None
        end
    | TSet t' =>
        match j with
        | JArr l => match opt_list (map (parse t') l) with Some vs => Some (VSet (dedup vs)) | None => None end
        | _ => None
        end
    | TObj fs cs forbid =>
        match j with
        | JObj kvs0 =>
            let kvs := upd kvs0 cs in                       (* override_consts *)
            if forbid && negb (forallb (known fs cs) (map fst kvs)) then None else
            match
              (fix go (fs : list (fld ty)) {struct fs} : option (list tval) :=
                 match fs with
                 | [] => Some []
                 | Fld n a t' d :: fr =>
                     let r :=
                       match lookup2 a n kvs with
                       | Some j' => parse t' j'
                       | None =>
                           match d with
                           | Some dv => Some dv
                           | None => if is_topt t' then Some VNone else None
                           end
                       end in
                     match r, go fr with
                     | Some v, Some vs => Some (v :: vs)
                     | _, _ => None
                     end
                 end) fs
            with
            | Some vs => Some (VObj vs)
            | None => None
            end
        | _ => None
        end
    end.

  (** ** Valid instances.  [wtb t v]: [v] is a value an instance can hold for type [t]
      (strings stripped, custom values in printed form, sets duplicate-free, a Union
      value carried by the *first* alternative that accepts its dump, an [Optional]
      payload that does not itself dump to [null]). *)
  Fixpoint wtb (t : ty) (v : tval) {struct t} : bool :=
    match t, v with
    | TInt, VInt _ => true
    | TFloat, VFloat _ => true
    | TBool, VBool _ => true
    | TStr, VStr s => String.eqb (strip s) s && nonempty s
    | TNEStr, VStr s => has_nonws s
    | TLit vs, VLit j => memb j vs
    | TCus c, VCus s => match norm c s with Some s' => String.eqb s' s | None => false end
    | TOpt _, VNone => true
    | TOpt t', VSome v' => wtb t' v' && negb (is_null (dump t' v'))
    | TUnion ts, VUn i v' =>
        let J := dump (TUnion ts) v in
        (fix go (ts : list ty) (i : nat) {struct ts} : bool :=
           match ts, i with
           | t' :: _, O => wtb t' v'
           | t' :: r, S i' => match parse t' J with None => go r i' | Some _ => false end
           | [], _ => false
           end) ts i
    | TList t', VList l => forallb (wtb t') l
    | TSet t', VSet l => forallb (wtb t') l && nodupb l
    | TObj fs _ _, VObj vs =>
        (fix go (fs : list (fld ty)) (vs : list tval) {struct fs} : bool :=
           match fs, vs with
           | [], [] => true
           | Fld _ _ t' d :: fr, v' :: vr =>
               match v' with
               | VNone => is_topt t'
               | _ => wtb t' v'
               end && go fr vr
           | _, _ => false
           end) fs vs
    | _, _ => false
    end.
End WithNorm.

(** "A missing optional value is expressed by omission": a field holds [None] only if
    leaving the key out reads back as [None] (no declared default other than [None]). *)
Fixpoint omitsb (t : ty) (v : tval) {struct t} : bool :=
  match t, v with
  | TOpt t', VSome v' => omitsb t' v'
  | TUnion ts, VUn i v' =>
      (fix pick (ts : list ty) (i : nat) {struct ts} : bool :=
         match ts, i with
         | t' :: _, O => omitsb t' v'
         | _ :: r, S i' => pick r i'
         | [], _ => true
         end) ts i
  | TList t', VList l => forallb (omitsb t') l
  | TSet t', VSet l => forallb (omitsb t') l
  | TObj fs _ _, VObj vs =>
      (fix go (fs : list (fld ty)) (vs : list tval) {struct fs} : bool :=
         match fs, vs with
         | Fld _ _ t' d :: fr, v' :: vr =>
             match v' with
             | VNone => match d with None => true | Some VNone => true | Some _ => false end
             | _ => omitsb t' v'
             end && go fr vr
         | _, _ => true
         end) fs vs
  | _, _ => true
  end.

(** ** Well-formed schemas: the keys an instance can dump (aliases and constant names)
    are pairwise distinct, and a field name that differs from its alias is not one of
    them (pydantic refuses or shadows such declarations). *)
Fixpoint nodup_str (l : list string) : bool :=
  match l with
  | [] => true
  | x :: r => negb (mem_str x r) && nodup_str r
  end.

Fixpoint wfb (t : ty) : bool :=
  match t with
  | TOpt t' | TList t' | TSet t' => wfb t'
  | TUnion ts => (fix all (ts : list ty) : bool :=
                    match ts with [] => true | t' :: r => wfb t' && all r end) ts
  | TObj fs cs _ =>
      let keys := (map falias fs ++ map fst cs)%list in
      nodup_str keys
      && forallb (fun f => String.eqb (fname f) (falias f) || negb (mem_str (fname f) keys)) fs
      && (fix all (fs : list (fld ty)) : bool :=
            match fs with [] => true | Fld _ _ t' _ :: r => wfb t' && all r end) fs
  | _ => true
  end.

(** ** Text level: [json()], [bytes()], [yaml()], [parse_raw] over abstract codecs. *)
Section Text.
  Variable norm : cust -> string -> option string.
  Variable print_json : jval -> string.
  Variable read_json : string -> option jval.
  Variable print_yaml : jval -> string.
  Variable read_yaml : string -> option jval.

  Definition to_json (t : ty) (v : tval) : string := print_json (dump t v).
  Definition to_bytes (t : ty) (v : tval) : string := print_json (dump t v) ++ String "010"%char EmptyString.
  Definition to_yaml (t : ty) (v : tval) : string := print_yaml (dump t v).

  (** [parse_raw]: pydantic's JSON path; on [ValidationError] (which includes a JSON
      syntax error) the YAML path. *)
  Definition parse_raw (t : ty) (txt : string) : option tval :=
    match match read_json txt with Some j => parse norm t j | None => None end with
    | Some v => Some v
    | None => match read_yaml txt with Some j => parse norm t j | None => None end
    end.
End Text.

(** ** The pinned tree.  [SchemaMagic.__init__] does not chain to
    [DynJsonEncoderMetaMixin.__init__], so no schema class gets the dynamic encoder
    lookup: [json()] raises [TypeError] as soon as the instance holds a value of a
    custom-parser type anywhere ([None] below). *)
Fixpoint has_cus (v : tval) : bool :=
  match v with
  | VCus _ => true
  | VSome v' | VUn _ v' => has_cus v'
  | VList l | VSet l | VObj l => existsb has_cus l
  | _ => false
  end.

Definition dump_pinned (t : ty) (v : tval) : option jval :=
  if has_cus v then None else Some (dump t v).

(** ** Runner.  The normaliser is a finite table observed from the real parsers. *)
Definition cust_tag (c : cust) : string :=
  match c with CDuration => "dur" | CUnit => "unit" | CQuantity => "qty" end.

Definition norm_tab (tab : list (string * (string * string))) (c : cust) (s : string) : option string :=
  (fix go (tab : list (string * (string * string))) : option string :=
     match tab with
     | [] => None
     | (k, (i, o)) :: r => if String.eqb k (cust_tag c) && String.eqb i s then Some o else go r
     end) tab.

Fixpoint jval_of_sx (x : sx) {struct x} : option jval :=
  match x with
  | A "null" => Some JNull
  | L [A "b"; b] => option_map JBool (sx_bool b)
  | L [A "i"; z] => option_map JInt (sx_Z z)
  | L [A "f"; A tok] => Some (JFloat tok)
  | L [A "s"; A s] => Some (JStr s)
  | L (A "a" :: items) => option_map JArr (opt_list (map jval_of_sx items))
  | L (A "o" :: items) =>
      option_map JObj
        (opt_list (map (fun kv => match kv with
                                  | L [A k; v] => option_map (pair k) (jval_of_sx v)
                                  | _ => None
                                  end) items))
  | _ => None
  end.

Fixpoint sx_of_jval (j : jval) : sx :=
  match j with
  | JNull => A "null"
  | JBool b => L [A "b"; of_bool b]
  | JInt z => L [A "i"; of_Z z]
  | JFloat tok => L [A "f"; A tok]
  | JStr s => L [A "s"; A s]
  | JArr l => L (A "a" :: map sx_of_jval l)
  | JObj kvs => L (A "o" :: map (fun kv => L [A (fst kv); sx_of_jval (snd kv)]) kvs)
  end.

Fixpoint tval_of_sx (x : sx) {struct x} : option tval :=
  match x with
  | A "none" => Some VNone
  | L [A "some"; v] => option_map VSome (tval_of_sx v)
  | L [A "i"; z] => option_map VInt (sx_Z z)
  | L [A "f"; A tok] => Some (VFloat tok)
  | L [A "b"; b] => option_map VBool (sx_bool b)
  | L [A "s"; A s] => Some (VStr s)
  | L [A "lit"; j] => option_map VLit (jval_of_sx j)
  | L [A "cus"; A s] => Some (VCus s)
  | L (A "list" :: items) => option_map VList (opt_list (map tval_of_sx items))
  | L (A "set" :: items) => option_map VSet (opt_list (map tval_of_sx items))
  | L [A "un"; i; v] =>
      match sx_nat i, tval_of_sx v with Some i, Some v => Some (VUn i v) | _, _ => None end
  | L (A "obj" :: items) => option_map VObj (opt_list (map tval_of_sx items))
  | _ => None
  end.

Fixpoint sx_of_tval (v : tval) : sx :=
  match v with
  | VNone => A "none"
  | VSome v => L [A "some"; sx_of_tval v]
  | VInt z => L [A "i"; of_Z z]
  | VFloat tok => L [A "f"; A tok]
  | VBool b => L [A "b"; of_bool b]
  | VStr s => L [A "s"; A s]
  | VLit j => L [A "lit"; sx_of_jval j]
  | VCus s => L [A "cus"; A s]
  | VList l => L (A "list" :: map sx_of_tval l)
  | VSet l => L (A "set" :: map sx_of_tval l)
  | VUn i v => L [A "un"; of_nat i; sx_of_tval v]
  | VObj l => L (A "obj" :: map sx_of_tval l)
  end.

Definition sx_consts (x : sx) : option (list (string * jval)) :=
  match x with
  | L items => opt_list (map (fun kv => match kv with
                                        | L [A k; v] => option_map (pair k) (jval_of_sx v)
                                        | _ => None
                                        end) items)
  | _ => None
  end.

Fixpoint ty_of_sx (x : sx) {struct x} : option ty :=
  match x with
  | A "int" => Some TInt
  | A "float" => Some TFloat
  | A "bool" => Some TBool
  | A "str" => Some TStr
  | A "nestr" => Some TNEStr
  | A "dur" => Some (TCus CDuration)
  | A "unit" => Some (TCus CUnit)
  | A "qty" => Some (TCus CQuantity)
  | L (A "lit" :: items) => option_map TLit (opt_list (map jval_of_sx items))
  | L [A "opt"; t] => option_map TOpt (ty_of_sx t)
  | L (A "union" :: items) => option_map TUnion (opt_list (map ty_of_sx items))
  | L [A "list"; t] => option_map TList (ty_of_sx t)
  | L [A "set"; t] => option_map TSet (ty_of_sx t)
  | L [A "obj"; fb; L fields; cs] =>
      match sx_bool fb,
            opt_list (map (fun f => match f with
                                    | L [A n; A a; t; d] =>
                                        match ty_of_sx t, sx_opt tval_of_sx d with
                                        | Some t, Some d => Some (Fld n a t d)
                                        | _, _ => None
                                        end
                                    | _ => None
                                    end) fields),
            sx_consts cs with
      | Some fb, Some fs, Some cs => Some (TObj fs cs fb)
      | _, _, _ => None
      end
  | _ => None
  end.

Definition sx_tab (x : sx) : option (list (string * (string * string))) :=
  match x with
  | L items => opt_list (map (fun e => match e with
                                       | L [A k; A i; A o] => Some (k, (i, o))
                                       | _ => None
                                       end) items)
  | _ => None
  end.

(** Cases:
    [(dump TAB TY TVAL)]  -> [(wf wt omits DUMP REPARSED SECOND)] where REPARSED is
        [()] or [(TVAL')] = [parse (dump v)], SECOND is [()] or [(DUMP')] = the dump of
        the re-parsed value;
    [(parse TAB TY JSON)] -> [()] when refused, else [(TVAL wt omits DUMP)]. *)
Definition run_c12 (x : sx) : sx :=
  match x with
  | L [A "dump"; tab; t; v] =>
      match sx_tab tab, ty_of_sx t, tval_of_sx v with
      | Some tab, Some t, Some v =>
          let nm := norm_tab tab in
          let j := dump t v in
          let r := parse nm t j in
          L [of_bool (wfb t); of_bool (wtb nm t v); of_bool (omitsb t v); sx_of_jval j;
             of_opt sx_of_tval r;
             of_opt (fun v' => sx_of_jval (dump t v')) r]
      | _, _, _ => sx_bad "c12 dump"
      end
  | L [A "parse"; tab; t; j] =>
      match sx_tab tab, ty_of_sx t, jval_of_sx j with
      | Some tab, Some t, Some j =>
          let nm := norm_tab tab in
          match parse nm t j with
          | None => L []
          | Some v => L [sx_of_tval v; of_bool (wtb nm t v); of_bool (omitsb t v); sx_of_jval (dump t v)]
          end
      | _, _, _ => sx_bad "c12 parse"
      end
  | _ => sx_bad "c12"
  end.
