(** * Proofs about the JSON Schema export and validator (property C20, schema part). *)
From Coq Require Import List String Ascii ZArith Bool Lia.
From MV Require Import Base.Sx Schema.RoundTrip Schema.RoundTripProofs Schema.JsonSchema.
Import ListNotations.
Local Open Scope string_scope.
Local Open Scope list_scope.

(** ** Standalone versions of the local fixpoints *)
Fixpoint exports (ts : list ty) : list jschema :=
  match ts with [] => [] | t' :: r => export t' :: exports r end.

Fixpoint eprops (fs : list (fld ty)) : list (string * jschema) :=
  match fs with [] => [] | Fld _ a t' _ :: r => (a, export t') :: eprops r end.

Lemma export_union_eq : forall ts, export (TUnion ts) = JSAll [KAnyOf (exports ts)].
Proof. reflexivity. Qed.

Definition obj_tail (fs : list (fld ty)) (cs : list (string * jval)) : list jschema :=
  (match required_of fs with [] => [] | rs => [KRequired rs] end)
  ++ (match cs with [] => [] | _ => [KConsts cs] end).

Lemma export_obj_eq : forall fs cs fb,
  export (TObj fs cs fb) =
  JSAll ([KType JTobj; KProps (eprops fs ++ const_props cs) (JSBool (negb fb))] ++ obj_tail fs cs).
Proof. reflexivity. Qed.

Fixpoint noopt_all (ts : list ty) : bool :=
  match ts with [] => true | t' :: r => noopt t' && noopt_all r end.

Fixpoint okpos_flds (fs : list (fld ty)) : bool :=
  match fs with [] => true | Fld _ _ t' _ :: r => okpos t' && okpos_flds r end.

Lemma noopt_union_eq : forall ts, noopt (TUnion ts) = noopt_all ts.
Proof. reflexivity. Qed.

Lemma noopt_obj_eq : forall fs cs fb, noopt (TObj fs cs fb) = okpos_flds fs.
Proof. reflexivity. Qed.

Fixpoint ujuniq (ts : list ty) (i : nat) (v' : tval) : bool :=
  match ts, i with
  | t' :: _, O => juniq t' v'
  | _ :: r, S i' => ujuniq r i' v'
  | [], _ => true
  end.

Fixpoint ojuniq (fs : list (fld ty)) (vs : list tval) : bool :=
  match fs, vs with
  | Fld _ _ t' _ :: fr, v' :: vr => juniq t' v' && ojuniq fr vr
  | _, _ => true
  end.

Lemma juniq_union_eq : forall ts i v', juniq (TUnion ts) (VUn i v') = ujuniq ts i v'.
Proof. intros ts. induction ts as [|t r IH]; intros [|i] v'; try reflexivity. simpl. apply (IH i v'). Qed.

Lemma juniq_obj_eq : forall fs cs fb vs, juniq (TObj fs cs fb) (VObj vs) = ojuniq fs vs.
Proof.
  intros fs cs fb vs. simpl. revert vs.
  induction fs as [|[n a t d] fr IH]; intros [|v vr]; try reflexivity.
  all: try (simpl; rewrite IH; reflexivity).
Qed.

Fixpoint plainsets_all (ts : list ty) : bool :=
  match ts with [] => true | t' :: r => plainsets t' && plainsets_all r end.

Fixpoint plainsets_flds (fs : list (fld ty)) : bool :=
  match fs with [] => true | Fld _ _ t' _ :: r => plainsets t' && plainsets_flds r end.

Lemma plainsets_union_eq : forall ts, plainsets (TUnion ts) = plainsets_all ts.
Proof. reflexivity. Qed.

Lemma plainsets_obj_eq : forall fs cs fb, plainsets (TObj fs cs fb) = plainsets_flds fs.
Proof. reflexivity. Qed.

(** ** Small facts *)
Lemma noopt_okpos : forall t, noopt t = true -> okpos t = true /\ is_topt t = false.
Proof. intros t H. destruct t; simpl in *; try discriminate; split; auto. Qed.

Lemma okpos_TOpt : forall t, okpos (TOpt t) = noopt t.
Proof. reflexivity. Qed.

Lemma kind_eqb_refl : forall k, kind_eqb k k = true.
Proof. intros [[]|]; reflexivity. Qed.

Lemma kind_eqb_eq : forall a b, kind_eqb a b = true -> a = b.
Proof. intros [[]|] [[]|]; simpl; intros H; try discriminate; reflexivity. Qed.

Lemma prim_eqb_eq : forall a b, prim_eqb a b = true -> a = b /\ prim_kind a <> None.
Proof.
  intros a b H. destruct a, b; simpl in H; try discriminate.
  - apply Bool.eqb_prop in H. subst. split; [reflexivity | discriminate].
  - apply Z.eqb_eq in H. subst. split; [reflexivity | discriminate].
  - apply String.eqb_eq in H. subst. split; [reflexivity | discriminate].
Qed.

Lemma prim_jeq_refl : forall j, prim_kind j <> None -> jeq j j = true.
Proof.
  intros j H. destruct j; simpl in *; try congruence.
  - destruct b; reflexivity.
  - apply Z.eqb_refl.
  - apply String.eqb_refl.
Qed.

Lemma prim_has_type : forall j t, prim_kind j = Some t -> has_type t j = true.
Proof. intros j t H. destruct j; simpl in H; inversion H; reflexivity. Qed.

Lemma prim_jeq_prim_eqb : forall a b, prim_kind a <> None -> prim_kind b <> None ->
  jeq a b = prim_eqb a b.
Proof. intros a b Ha Hb. destruct a, b; simpl in *; try congruence; reflexivity. Qed.

Section Valid.
  Variable norm : cust -> string -> option string.
  Variable fmt_ok : string -> string -> bool.
  Variable pat_ok : string -> string -> bool.
  (** The published format accepts what [NonEmptyStr] accepts. *)
  Hypothesis Hfmt : forall s, has_nonws s = true -> fmt_ok ne_format s = true.

  Notation jv := (jvalid fmt_ok pat_ok).

  Fixpoint vall (l : list jschema) (j : jval) : bool :=
    match l with [] => true | k :: r => jv k j && vall r j end.

  Fixpoint vany (l : list jschema) (j : jval) : bool :=
    match l with [] => false | k :: r => jv k j || vany r j end.

  Fixpoint vlook (ps : list (string * jschema)) (addl : jschema) (kv : string * jval) : bool :=
    match ps with
    | [] => jv addl (snd kv)
    | (k, s') :: r => if String.eqb (fst kv) k then jv s' (snd kv) else vlook r addl kv
    end.

  Lemma jvalid_all_eq : forall kws j, jv (JSAll kws) j = vall kws j.
  Proof. intros kws j. simpl. induction kws as [|k r IH]; [reflexivity|]. simpl. rewrite IH. reflexivity. Qed.

  Lemma jvalid_any_eq : forall ss j, jv (KAnyOf ss) j = vany ss j.
  Proof. intros ss j. simpl. induction ss as [|k r IH]; [reflexivity|]. simpl. rewrite IH. reflexivity. Qed.


  Lemma vlook_eq : forall ps addl kv,
    (fix look (ps : list (string * jschema)) : bool :=
       match ps with
       | [] => jv addl (snd kv)
       | (k, s') :: r => if String.eqb (fst kv) k then jv s' (snd kv) else look r
       end) ps = vlook ps addl kv.
  Proof. intros ps addl kv. induction ps as [|[k s'] r IH]; [reflexivity|]. simpl. rewrite IH. reflexivity. Qed.

  Lemma jvalid_props_eq : forall ps addl kvs,
    jv (KProps ps addl) (JObj kvs) = forallb (vlook ps addl) kvs.
  Proof.
    intros ps addl kvs. simpl. induction kvs as [|kv r IH]; [reflexivity|].
    simpl. rewrite IH. rewrite vlook_eq. reflexivity.
  Qed.

  Lemma vall_app : forall l1 l2 j, vall (l1 ++ l2) j = vall l1 j && vall l2 j.
  Proof. intros l1 l2 j. induction l1 as [|k r IH]; [reflexivity|]. simpl. rewrite IH. apply andb_assoc. Qed.

  Lemma vany_in : forall ss s j, In s ss -> jv s j = true -> vany ss j = true.
  Proof.
    intros ss s j Hin Hv. induction ss as [|k r IH]; [destruct Hin|].
    simpl. destruct Hin as [->|Hin]; [rewrite Hv; reflexivity|].
    rewrite (IH Hin). apply orb_true_r.
  Qed.

  (** *** Literals *)
  Lemma first_kinds_complete : forall vs seen x, In x vs ->
    existsb (kind_eqb (prim_kind x)) seen = true \/ In (prim_kind x) (first_kinds vs seen).
  Proof.
    intros vs. induction vs as [|v r IH]; intros seen x Hin; [destruct Hin|].
    simpl. destruct Hin as [->|Hin].
    - destruct (existsb (kind_eqb (prim_kind x)) seen) eqn:E; [left; reflexivity|].
      right. left. reflexivity.
    - destruct (existsb (kind_eqb (prim_kind v)) seen) eqn:E.
      + apply IH; exact Hin.
      + destruct (IH (prim_kind v :: seen) x Hin) as [H|H].
        * simpl in H. apply orb_true_iff in H. destruct H as [H|H].
          -- right. left. symmetry. apply kind_eqb_eq. exact H.
          -- left. exact H.
        * right. right. exact H.
  Qed.

  Lemma lit_group_valid : forall vs j t, In j vs -> prim_kind j = Some t ->
    jv (lit_group vs (Some t)) j = true.
  Proof.
    intros vs j t Hin Hk. unfold lit_group. rewrite jvalid_all_eq. simpl.
    rewrite (prim_has_type j t Hk). simpl. rewrite andb_true_r.
    apply existsb_exists. exists j. split.
    - apply filter_In. split; [exact Hin|]. rewrite Hk. apply kind_eqb_refl.
    - apply prim_jeq_refl. rewrite Hk. discriminate.
  Qed.

  Lemma lit_valid : forall vs j, memb j vs = true -> jv (export_lit vs) j = true.
  Proof.
    intros vs j H. unfold memb in H. apply existsb_exists in H. destruct H as [x [Hin He]].
    apply prim_eqb_eq in He. destruct He as [<- Hp].
    destruct (prim_kind j) as [t|] eqn:Hk; [|congruence].
    pose proof (lit_group_valid vs j t Hin Hk) as Hg.
    destruct (first_kinds_complete vs [] j Hin) as [Hc|Hc]; [discriminate|].
    rewrite Hk in Hc. unfold export_lit.
    destruct (first_kinds vs []) as [|k1 [|k2 r]] eqn:E.
    - destruct Hc.
    - destruct Hc as [->|[]]. exact Hg.
    - rewrite jvalid_all_eq. cbn [vall]. rewrite andb_true_r. rewrite jvalid_any_eq.
      apply vany_in with (s := lit_group vs (Some t)); [|exact Hg].
      apply in_map. exact Hc.
  Qed.

  (** *** Properties *)
  Lemma vlook_hit : forall ps qs addl k s j,
    NoDup (map fst ps) -> In (k, s) ps -> vlook (ps ++ qs) addl (k, j) = jv s j.
  Proof.
    intros ps qs addl k s j Hnd Hin. induction ps as [|[k' s'] r IH]; [destruct Hin|].
    simpl in *. inversion Hnd as [|? ? Hnot Hnd']; subst.
    destruct Hin as [Heq|Hin].
    - inversion Heq; subst. rewrite String.eqb_refl. reflexivity.
    - destruct (String.eqb k k') eqn:E.
      + apply String.eqb_eq in E. subst. exfalso. apply Hnot.
        apply in_map_iff. exists (k', s). split; [reflexivity | exact Hin].
      + apply IH; assumption.
  Qed.

  Lemma vlook_const : forall ps cs addl k j,
    ~ In k (map fst ps) -> In k (map fst cs) -> vlook (ps ++ const_props cs) addl (k, j) = true.
  Proof.
    intros ps cs addl k j Hnot Hin. induction ps as [|[k' s'] r IH].
    - simpl. induction cs as [|[c w] cr IHc]; [destruct Hin|].
      simpl in *. destruct (String.eqb k c) eqn:E; [reflexivity|].
      destruct Hin as [->|Hin]; [rewrite String.eqb_refl in E; discriminate|].
      apply IHc. exact Hin.
    - simpl in *. destruct (String.eqb k k') eqn:E.
      + apply String.eqb_eq in E. subst. exfalso. apply Hnot. left. reflexivity.
      + apply IH. intros H. apply Hnot. right. exact H.
  Qed.

  Lemma eprops_keys : forall fs, map fst (eprops fs) = map falias fs.
  Proof. induction fs as [|[n a t d] r IH]; [reflexivity|]. simpl. rewrite IH. reflexivity. Qed.

  Lemma eprops_in : forall fs n a t d, In (Fld n a t d) fs -> In (a, export t) (eprops fs).
  Proof.
    induction fs as [|[n' a' t' d'] r IH]; intros n a t d Hin; [destruct Hin|].
    simpl. destruct Hin as [H|H]; [inversion H; subst; left; reflexivity|].
    right. apply (IH n a t d H).
  Qed.

  (** What a dumped field member is. *)
  Lemma odump_in : forall fs vs kv,
    owt norm fs vs = true -> ojuniq fs vs = true -> In kv (odump fs vs) ->
    exists n a t d v', In (Fld n a t d) fs /\ kv = (a, dump t v') /\ v' <> VNone /\
                       wtb norm t v' = true /\ juniq t v' = true.
  Proof.
    induction fs as [|[n a t d] fr IH]; intros [|v vr] kv Hwt Hju Hin; simpl in *; try contradiction.
    apply andb_true_iff in Hwt. destruct Hwt as [Hf Hwt].
    apply andb_true_iff in Hju. destruct Hju as [Hj Hju].
    assert (Hrest : In kv (odump fr vr) ->
                    exists n0 a0 t0 d0 v', (Fld n a t d = Fld n0 a0 t0 d0 \/ In (Fld n0 a0 t0 d0) fr) /\
                      kv = (a0, dump t0 v') /\ v' <> VNone /\ wtb norm t0 v' = true /\ juniq t0 v' = true).
    { intros H. destruct (IH vr kv Hwt Hju H) as [n0 [a0 [t0 [d0 [v' [H1 H2]]]]]].
      exists n0, a0, t0, d0, v'. split; [right; exact H1 | exact H2]. }
    destruct v; try (apply Hrest; exact Hin);
      (destruct Hin as [<-|Hin]; [|apply Hrest; exact Hin]);
      (eexists n, a, t, d, _; split; [left; reflexivity|];
       split; [reflexivity|]; split; [discriminate|]; split; [exact Hf | exact Hj]).
  Qed.

  Lemma odump_has_required : forall fs vs f,
    owt norm fs vs = true -> In f fs -> is_topt (fty f) = false ->
    In (falias f) (map fst (odump fs vs)).
  Proof.
    induction fs as [|[n a t d] fr IH]; intros [|v vr] f Hwt Hin Ht; simpl in *; try contradiction; try discriminate.
    apply andb_true_iff in Hwt. destruct Hwt as [Hf Hwt].
    destruct Hin as [<-|Hin].
    - simpl in *. destruct v; simpl; try (left; reflexivity).
      simpl in Hf. rewrite Ht in Hf. discriminate.
    - pose proof (IH vr f Hwt Hin Ht) as H. destruct v; simpl; try (right; exact H). exact H.
  Qed.

  Lemma wtb_none : forall t, wtb norm t VNone = true -> is_topt t = true.
  Proof. intros t H. destruct t; simpl in H; try discriminate. reflexivity. Qed.

  Lemma wf_flds_in : forall fs f, wf_flds fs = true -> In f fs -> wfb (fty f) = true.
  Proof.
    induction fs as [|[n a t d] r IH]; intros f Hw Hin; [destruct Hin|].
    simpl in Hw. apply andb_true_iff in Hw. destruct Hw as [Ht Hr].
    destruct Hin as [<-|Hin]; [exact Ht | apply IH; assumption].
  Qed.

  Lemma okpos_flds_in : forall fs f, okpos_flds fs = true -> In f fs -> okpos (fty f) = true.
  Proof.
    induction fs as [|[n a t d] r IH]; intros f Hw Hin; [destruct Hin|].
    simpl in Hw. apply andb_true_iff in Hw. destruct Hw as [Ht Hr].
    destruct Hin as [<-|Hin]; [exact Ht | apply IH; assumption].
  Qed.

  Lemma NoDup_app_left : forall (X : Type) (l1 l2 : list X), NoDup (l1 ++ l2) -> NoDup l1.
  Proof.
    intros X l1. induction l1 as [|a r IH]; intros l2 Hnd; [constructor|].
    simpl in Hnd. inversion Hnd as [|? ? Hnot Hnd']; subst. constructor.
    - intros H. apply Hnot. apply in_or_app. left. exact H.
    - apply (IH l2 Hnd').
  Qed.

  Lemma NoDup_app_disjoint : forall (X : Type) (l1 l2 : list X), NoDup (l1 ++ l2) ->
    forall x, In x l1 -> In x l2 -> False.
  Proof.
    intros X l1. induction l1 as [|a r IH]; intros l2 Hnd x H1 H2; [destruct H1|].
    simpl in Hnd. inversion Hnd as [|? ? Hnot Hnd']; subst.
    destruct H1 as [->|H1].
    - apply Hnot. apply in_or_app. right. exact H2.
    - apply (IH l2 Hnd' x H1 H2).
  Qed.

  (** *** Main induction *)
  Definition Pv (t : ty) : Prop :=
    forall v, wfb t = true -> okpos t = true -> wtb norm t v = true -> juniq t v = true ->
              v <> VNone -> jv (export t) (dump t v) = true.

  Lemma not_none_of_noopt : forall t v, noopt t = true -> wtb norm t v = true -> v <> VNone.
  Proof.
    intros t v Hn Hw ->. apply wtb_none in Hw. destruct (noopt_okpos t Hn) as [_ H]. congruence.
  Qed.

  Lemma items_valid : forall t l,
    Pv t -> wfb t = true -> noopt t = true ->
    forallb (wtb norm t) l = true -> forallb (juniq t) l = true ->
    forallb (jv (export t)) (map (dump t) l) = true.
  Proof.
    intros t l HP Hwf Hn. induction l as [|x r IH]; intros Hw Hj; [reflexivity|].
    simpl in *. apply andb_true_iff in Hw. destruct Hw as [Hx Hw].
    apply andb_true_iff in Hj. destruct Hj as [Hjx Hj].
    rewrite IH by assumption. rewrite andb_true_r.
    apply HP; try assumption.
    - apply noopt_okpos. exact Hn.
    - apply (not_none_of_noopt t x Hn Hx).
  Qed.

  Lemma union_valid : forall ts, Forall Pv ts -> forall J i v',
    wf_all ts = true -> noopt_all ts = true -> uwt norm J ts i v' = true ->
    ujuniq ts i v' = true -> vany (exports ts) (udump ts i v') = true.
  Proof.
    intros ts HF. induction HF as [|t r HP HF IH]; intros J i v' Hwf Hn Hw Hj.
    - destruct i; discriminate.
    - simpl in Hwf, Hn. apply andb_true_iff in Hwf. destruct Hwf as [Hwt Hwr].
      apply andb_true_iff in Hn. destruct Hn as [Hnt Hnr].
      destruct i as [|i]; simpl in *.
      + rewrite HP; try assumption; [reflexivity | apply noopt_okpos; exact Hnt |].
        apply (not_none_of_noopt t v' Hnt Hw).
      + destruct (parse norm t J); [discriminate|].
        rewrite (IH J i v' Hwr Hnr Hw Hj). apply orb_true_r.
  Qed.

  Theorem stored_validates_gen : forall t, Pv t.
  Proof.
    induction t using ty_ind'; unfold Pv; intros v Hwf Hok Hwt Hju Hnn.
    - destruct v; try discriminate. reflexivity.
    - destruct v; try discriminate. reflexivity.
    - destruct v; try discriminate. reflexivity.
    - destruct v; try discriminate. reflexivity.
    - destruct v; try discriminate. simpl in *. rewrite (Hfmt s Hwt). reflexivity.
    - destruct v; try discriminate. simpl in *. apply lit_valid. exact Hwt.
    - destruct v; try discriminate. reflexivity.
    - (* Optional *)
      destruct v; try discriminate; [congruence|].
      simpl in Hwt. apply andb_true_iff in Hwt. destruct Hwt as [Hwt _].
      rewrite okpos_TOpt in Hok. simpl in Hwf, Hju. simpl.
      apply IHt; try assumption.
      + apply noopt_okpos. exact Hok.
      + apply (not_none_of_noopt t v Hok Hwt).
    - (* Union *)
      destruct v; try discriminate.
      rewrite wt_union_eq in Hwt. rewrite juniq_union_eq in Hju.
      rewrite dump_union_eq in *. rewrite export_union_eq. rewrite jvalid_all_eq. cbn [vall].
      rewrite andb_true_r. rewrite jvalid_any_eq.
      simpl in Hok. rewrite wf_union_eq in Hwf.
      eapply union_valid; eauto.
    - (* List *)
      destruct v; try discriminate. simpl in Hwf, Hok, Hwt, Hju.
      cbn [export dump]. rewrite jvalid_all_eq. simpl. rewrite andb_true_r.
      apply items_valid; assumption.
    - (* Set *)
      destruct v; try discriminate. simpl in Hwf, Hok, Hwt, Hju.
      apply andb_true_iff in Hwt. destruct Hwt as [Hwt _].
      apply andb_true_iff in Hju. destruct Hju as [Hju Hnd].
      cbn [export dump]. rewrite jvalid_all_eq. simpl. rewrite Hnd.
      rewrite (items_valid t l IHt Hwf Hok Hwt Hju). reflexivity.
    - (* Schema *)
      destruct v; try discriminate.
      rewrite wt_obj_eq in Hwt. rewrite juniq_obj_eq in Hju. rewrite dump_obj_eq.
      rewrite export_obj_eq. rewrite jvalid_all_eq. rewrite vall_app.
      rewrite wf_obj_eq in Hwf. apply andb_true_iff in Hwf. destruct Hwf as [Hwf Hwfl].
      apply andb_true_iff in Hwf. destruct Hwf as [Hnd _].
      apply nodup_str_NoDup in Hnd. unfold keys_of in Hnd.
      unfold okpos in Hok. rewrite noopt_obj_eq in Hok.
      assert (HndA : NoDup (map falias fs)) by (apply (NoDup_app_left _ _ _ Hnd)).
      apply andb_true_iff. split.
      + (* type and properties *)
        cbn [vall]. rewrite jvalid_props_eq. rewrite andb_true_r.
        replace (jv (KType JTobj) (JObj (odump fs vs ++ cs))) with true by reflexivity.
        rewrite andb_true_l. rewrite forallb_app. apply andb_true_iff. split.
        * apply forallb_forall. intros kv Hin.
          destruct (odump_in fs vs kv Hwt Hju Hin) as [n [a [t [d [v' [Hf [-> [Hnn' [Hw' Hj']]]]]]]]].
          rewrite vlook_hit with (s := export t).
          -- rewrite Forall_forall in H. apply (H (Fld n a t d) Hf); try assumption.
             ++ apply (wf_flds_in fs _ Hwfl Hf).
             ++ apply (okpos_flds_in fs _ Hok Hf).
          -- rewrite eprops_keys. exact HndA.
          -- apply (eprops_in fs n a t d Hf).
        * apply forallb_forall. intros [k w] Hin.
          apply vlook_const.
          -- rewrite eprops_keys. intros Ha.
             apply (NoDup_app_disjoint _ _ _ Hnd k Ha).
             apply in_map_iff. exists (k, w). split; [reflexivity | exact Hin].
          -- apply in_map_iff. exists (k, w). split; [reflexivity | exact Hin].
      + unfold obj_tail. rewrite vall_app. apply andb_true_iff. split.
        * destruct (required_of fs) as [|r0 rs] eqn:E; [reflexivity|].
          cbn [vall]. rewrite andb_true_r. rewrite <- E.
          change (jv (KRequired (required_of fs)) (JObj (odump fs vs ++ cs)))
            with (forallb (fun r => mem_str r (map fst (odump fs vs ++ cs))) (required_of fs)).
          apply forallb_forall. intros r Hr. apply mem_str_In.
          unfold required_of in Hr. apply in_map_iff in Hr. destruct Hr as [f [<- Hf]].
          apply filter_In in Hf. destruct Hf as [Hf Hreq].
          unfold is_required in Hreq. apply andb_true_iff in Hreq. destruct Hreq as [Hno _].
          apply negb_true_iff in Hno.
          rewrite map_app. apply in_or_app. left.
          apply (odump_has_required fs vs f Hwt Hf Hno).
        * destruct cs; reflexivity.
  Qed.

  Theorem stored_validates : forall t v,
    wfb t = true -> okpos t = true -> wtb norm t v = true -> juniq t v = true -> v <> VNone ->
    jv (export t) (dump t v) = true.
  Proof. intros t. apply stored_validates_gen. Qed.

  (** The statement for a whole schema (a stored metadata object). *)
  Theorem stored_object_validates : forall s v,
    wfb (ty_of s) = true -> okpos (ty_of s) = true ->
    wtb norm (ty_of s) v = true -> juniq (ty_of s) v = true ->
    jv (export (ty_of s)) (dump (ty_of s) v) = true.
  Proof.
    intros s v Hwf Hok Hwt Hju. apply stored_validates; try assumption.
    intros ->. unfold ty_of in Hwt. simpl in Hwt. discriminate.
  Qed.

  (** *** [juniq] from validity alone when set members are plain atoms *)
  Lemma plain_juniq_true : forall t x, plain_elem t = true -> juniq t x = true.
  Proof. intros t x H. destruct t; try discriminate; destruct x; reflexivity. Qed.

  Lemma plain_inj : forall t x y, plain_elem t = true ->
    wtb norm t x = true -> wtb norm t y = true ->
    jeq (dump t x) (dump t y) = true -> tval_eqb x y = true.
  Proof.
    intros t x y Hp Hx Hy He.
    destruct t; try discriminate; destruct x; try discriminate; destruct y; try discriminate;
      simpl in *; try exact He.
    unfold memb in Hx, Hy.
    apply existsb_exists in Hx. destruct Hx as [x' [_ Hx]]. apply prim_eqb_eq in Hx.
    apply existsb_exists in Hy. destruct Hy as [y' [_ Hy]]. apply prim_eqb_eq in Hy.
    rewrite <- prim_jeq_prim_eqb; [exact He | apply Hx | apply Hy].
  Qed.

  Lemma plain_nodup : forall t l, plain_elem t = true ->
    forallb (wtb norm t) l = true -> nodupb l = true -> jnodup (map (dump t) l) = true.
  Proof.
    intros t l Hp. induction l as [|x r IH]; intros Hw Hn; [reflexivity|].
    simpl in *. apply andb_true_iff in Hw. destruct Hw as [Hx Hw].
    apply andb_true_iff in Hn. destruct Hn as [Hnx Hn].
    rewrite (IH Hw Hn). rewrite andb_true_r. apply negb_true_iff.
    apply negb_true_iff in Hnx.
    destruct (existsb (jeq (dump t x)) (map (dump t) r)) eqn:E; [|reflexivity].
    apply existsb_exists in E. destruct E as [j [Hin He]].
    apply in_map_iff in Hin. destruct Hin as [y [<- Hy]].
    assert (Hwy : wtb norm t y = true) by (rewrite forallb_forall in Hw; apply Hw; exact Hy).
    pose proof (plain_inj t x y Hp Hx Hwy He) as Ht.
    assert (existsb (tval_eqb x) r = true) by (apply existsb_exists; exists y; split; assumption).
    congruence.
  Qed.

  Definition Pu (t : ty) : Prop :=
    forall v, plainsets t = true -> wtb norm t v = true -> juniq t v = true.

  Lemma union_juniq : forall ts, Forall Pu ts -> forall J i v',
    plainsets_all ts = true -> uwt norm J ts i v' = true -> ujuniq ts i v' = true.
  Proof.
    intros ts HF. induction HF as [|t r HP HF IH]; intros J i v' Hp Hw.
    - destruct i; reflexivity.
    - simpl in Hp. apply andb_true_iff in Hp. destruct Hp as [Hpt Hpr].
      destruct i as [|i]; simpl in *.
      + apply HP; assumption.
      + destruct (parse norm t J); [discriminate|]. apply (IH J i v' Hpr Hw).
  Qed.

  Lemma obj_juniq : forall fs, Forall (fun f => Pu (fty f)) fs -> forall vs,
    plainsets_flds fs = true -> owt norm fs vs = true -> ojuniq fs vs = true.
  Proof.
    intros fs HF. induction HF as [|[n a t d] fr HP HF IH]; intros vs Hp Hw.
    - destruct vs; reflexivity.
    - destruct vs as [|v vr]; [reflexivity|].
      simpl in *. apply andb_true_iff in Hp. destruct Hp as [Hpt Hpr].
      apply andb_true_iff in Hw. destruct Hw as [Hf Hw].
      rewrite (IH vr Hpr Hw). rewrite andb_true_r.
      destruct v; try (apply HP; assumption).
      destruct t; reflexivity.
  Qed.

  Theorem wtb_juniq : forall t, Pu t.
  Proof.
    induction t using ty_ind'; unfold Pu; intros v Hp Hw;
      try (destruct v; reflexivity).
    - destruct v; try reflexivity. simpl in *. apply andb_true_iff in Hw. destruct Hw as [Hw _].
      apply IHt; assumption.
    - destruct v; try reflexivity. rewrite juniq_union_eq. rewrite wt_union_eq in Hw.
      rewrite plainsets_union_eq in Hp. eapply union_juniq; eauto.
    - destruct v; try reflexivity. simpl in *.
      apply forallb_forall. intros x Hx. rewrite forallb_forall in Hw. apply IHt; auto.
    - destruct v; try reflexivity. simpl in *.
      apply andb_true_iff in Hw. destruct Hw as [Hw Hn].
      apply andb_true_iff. split.
      + apply forallb_forall. intros x _. apply plain_juniq_true. exact Hp.
      + apply plain_nodup; assumption.
    - destruct v; try reflexivity. rewrite juniq_obj_eq. rewrite wt_obj_eq in Hw.
      rewrite plainsets_obj_eq in Hp. apply obj_juniq; assumption.
  Qed.

  (** Schemas whose sets hold plain atoms: validity of the instance is enough. *)
  Theorem stored_object_validates_plain : forall s v,
    wfb (ty_of s) = true -> okpos (ty_of s) = true -> plainsets (ty_of s) = true ->
    wtb norm (ty_of s) v = true ->
    jv (export (ty_of s)) (dump (ty_of s) v) = true.
  Proof.
    intros s v Hwf Hok Hp Hwt. apply stored_object_validates; try assumption.
    apply wtb_juniq; assumption.
  Qed.
End Valid.
