(** * Proofs about the partial-merge model (C14). *)
From Coq Require Import List ZArith Bool Lia Sorted.
From MV Require Import Base.Sx Schema.Partial.
Import ListNotations.

(** ** Induction principles for the nested types *)

Definition optP (P : pval -> Prop) (o : option pval) : Prop :=
  match o with Some v => P v | None => True end.

Lemma pval_ind' (P : pval -> Prop)
  (HA : forall a, P (VAtom a)) (HL : forall l, P (VList l)) (HS : forall l, P (VSet l))
  (HO : forall fs, Forall (optP P) fs -> P (VObj fs)) : forall v, P v.
Proof.
  fix IH 1. intros [a|l|l|fs]; [apply HA|apply HL|apply HS|]. apply HO.
  induction fs as [|[x|] fs IHfs]; constructor; simpl; solve [apply IH | exact I | exact IHfs].
Qed.

Lemma ty_ind' (P : ty -> Prop)
  (HA : P TAtom) (HL : P TList) (HS : P TSet)
  (HO : forall ts, Forall (fun kt => P (snd kt)) ts -> P (TObj ts)) : forall t, P t.
Proof.
  fix IH 1. intros [| | |ts]; [exact HA|exact HL|exact HS|]. apply HO.
  induction ts as [|[k t] ts IHts]; constructor; simpl; solve [apply IH | exact IHts].
Qed.

(** ** Unfolding lemmas: the nested loops are the standalone ones *)

Lemma merge_obj ow fs gs : merge ow (VObj fs) (VObj gs) = option_map VObj (mgo ow fs gs).
Proof.
  simpl. f_equal. revert gs. induction fs as [|f fs IH]; intros gs; [reflexivity|].
  destruct gs as [|g gs]; [reflexivity|]. simpl. rewrite IH. reflexivity.
Qed.

Lemma has_tyb_obj ts fs : has_tyb (TObj ts) (VObj fs) = tys_ok ts fs.
Proof.
  simpl. revert fs. induction ts as [|kt ts IH]; intros [|f fs]; simpl; auto;
  try (rewrite IH; reflexivity).
Qed.

Lemma leq_obj fs gs : leq (VObj fs) (VObj gs) = leqs fs gs.
Proof.
  simpl. revert gs. induction fs as [|f fs IH]; intros gs; simpl; auto;
  try (rewrite IH; reflexivity).
Qed.

Lemma from_partial_obj ts fs : from_partial (TObj ts) (VObj fs) = option_map VObj (fp_go ts fs).
Proof.
  reflexivity.
Qed.

Lemma complete_obj ts fs : complete (TObj ts) (VObj fs) = complete_go ts fs.
Proof.
  simpl. revert fs. induction ts as [|kt ts IH]; intros [|f fs]; simpl; auto;
  try (rewrite IH; reflexivity).
Qed.


Lemma merge_atom ow a y : merge ow (VAtom a) y = if ow then Some y else None.
Proof. reflexivity. Qed.
Lemma merge_list ow a b : merge ow (VList a) (VList b) = Some (VList (a ++ b)).
Proof. reflexivity. Qed.
Lemma merge_set ow a b : merge ow (VSet a) (VSet b) = Some (VSet (a ++ b)).
Proof. reflexivity. Qed.

Arguments merge : simpl never.
Arguments has_tyb : simpl never.
Arguments from_partial : simpl never.
Arguments complete : simpl never.

(** ** Typing inversion *)

Lemma has_ty_atom v : has_ty TAtom v -> exists a, v = VAtom a.
Proof. destruct v; try discriminate. eauto. Qed.
Lemma has_ty_list v : has_ty TList v -> exists l, v = VList l.
Proof. destruct v; try discriminate. eauto. Qed.
Lemma has_ty_set v : has_ty TSet v -> exists l, v = VSet l.
Proof. destruct v; try discriminate. eauto. Qed.
Lemma has_ty_obj ts v : has_ty (TObj ts) v -> exists fs, v = VObj fs /\ tys_ok ts fs = true.
Proof.
  destruct v as [| | |fs]; try discriminate. intros H. exists fs. split; [reflexivity|].
  unfold has_ty in H. rewrite has_tyb_obj in H. exact H.
Qed.

Definition ofty (t : ty) (o : option pval) : Prop :=
  match o with Some v => has_ty t v | None => True end.

Lemma tys_ok_cons kt ts f fs :
  tys_ok (kt :: ts) (f :: fs) = true <-> ofty (snd kt) f /\ tys_ok ts fs = true.
Proof.
  simpl. rewrite andb_true_iff. destruct f; simpl; unfold has_ty; tauto.
Qed.

Lemma tys_ok_length ts fs : tys_ok ts fs = true -> length fs = length ts.
Proof.
  revert fs. induction ts as [|kt ts IH]; intros [|f fs]; simpl; try discriminate; auto.
  rewrite andb_true_iff. intros [_ H]. f_equal. auto.
Qed.

(** ** Identity *)

Lemma mfield_none_l ow g : mfield ow None g = Some g.
Proof. reflexivity. Qed.

Lemma mfield_none_r ow f : mfield ow f None = Some f.
Proof. destruct f; reflexivity. Qed.

Lemma mgo_nil_r ow fs : mgo ow fs [] = Some fs.
Proof. destruct fs; reflexivity. Qed.

Lemma mgo_none_l ow (ts : list (fkind * ty)) fs :
  length fs = length ts -> mgo ow (map (fun _ => None) ts) fs = Some fs.
Proof.
  revert fs. induction ts as [|kt ts IH]; intros [|f fs]; simpl; try discriminate; auto.
  intros H. rewrite IH by lia. reflexivity.
Qed.

Lemma mgo_none_r ow (ts : list (fkind * ty)) fs :
  length fs = length ts -> mgo ow fs (map (fun _ => None) ts) = Some fs.
Proof.
  revert fs. induction ts as [|kt ts IH]; intros [|f fs]; simpl; try discriminate; auto.
  intros H. rewrite mfield_none_r, IH by lia. reflexivity.
Qed.

Lemma merge_empty_l ow ts x : has_ty (TObj ts) x -> merge ow (empty_of ts) x = Some x.
Proof.
  intros H. apply has_ty_obj in H as (fs & -> & H). unfold empty_of.
  rewrite merge_obj, mgo_none_l; [reflexivity | apply tys_ok_length; exact H].
Qed.

Lemma merge_empty_r ow ts x : has_ty (TObj ts) x -> merge ow x (empty_of ts) = Some x.
Proof.
  intros H. apply has_ty_obj in H as (fs & -> & H). unfold empty_of.
  rewrite merge_obj, mgo_none_r; [reflexivity | apply tys_ok_length; exact H].
Qed.

Lemma empty_has_ty ts : has_ty (TObj ts) (empty_of ts).
Proof.
  unfold has_ty, empty_of. rewrite has_tyb_obj. induction ts as [|kt ts IH]; simpl; auto.
Qed.

(** ** Closure *)

Definition closed_at (t : ty) : Prop :=
  forall ow a b r, has_ty t a -> has_ty t b -> merge ow a b = Some r -> has_ty t r.

Lemma mfield_closed ow t f g h :
  closed_at t -> ofty t f -> ofty t g -> mfield ow f g = Some h -> ofty t h.
Proof.
  intros Ht Hf Hg. destruct f as [x|], g as [y|]; simpl; intros E; inversion E; subst; auto.
  destruct (merge ow x y) as [r|] eqn:Em; simpl in E; inversion E; subst.
  simpl. exact (Ht ow x y r Hf Hg Em).
Qed.

Lemma mgo_closed ow ts : Forall (fun kt => closed_at (snd kt)) ts ->
  forall fs gs rs, tys_ok ts fs = true -> tys_ok ts gs = true ->
  mgo ow fs gs = Some rs -> tys_ok ts rs = true.
Proof.
  induction 1 as [|kt ts Hkt Hts IH]; intros [|f fs] [|g gs] rs; simpl; try discriminate.
  - intros _ _ E; inversion E; reflexivity.
  - change (tys_ok (kt :: ts) (f :: fs) = true -> tys_ok (kt :: ts) (g :: gs) = true ->
            match mfield ow f g with
            | Some h => match mgo ow fs gs with Some r => Some (h :: r) | None => None end
            | None => None end = Some rs -> tys_ok (kt :: ts) rs = true).
    rewrite !tys_ok_cons. intros [Hf Hfs] [Hg Hgs].
    destruct (mfield ow f g) as [h|] eqn:Eh; try discriminate.
    destruct (mgo ow fs gs) as [r|] eqn:Er; try discriminate.
    intros E; inversion E; subst. apply tys_ok_cons. split.
    + exact (mfield_closed ow (snd kt) f g h Hkt Hf Hg Eh).
    + exact (IH fs gs r Hfs Hgs Er).
Qed.

Lemma merge_closed t : closed_at t.
Proof.
  induction t as [| | |ts IH] using ty_ind'; intros ow a b r Ha Hb E.
  - apply has_ty_atom in Ha as [x ->]. apply has_ty_atom in Hb as [y ->].
    rewrite merge_atom in E. destruct ow; inversion E; reflexivity.
  - apply has_ty_list in Ha as [x ->]. apply has_ty_list in Hb as [y ->].
    rewrite merge_list in E. inversion E; reflexivity.
  - apply has_ty_set in Ha as [x ->]. apply has_ty_set in Hb as [y ->].
    rewrite merge_set in E. inversion E; reflexivity.
  - apply has_ty_obj in Ha as (fs & -> & Hfs). apply has_ty_obj in Hb as (gs & -> & Hgs).
    rewrite merge_obj in E. destruct (mgo ow fs gs) as [rs|] eqn:Er; inversion E; subst.
    unfold has_ty. rewrite has_tyb_obj. exact (mgo_closed ow ts IH fs gs rs Hfs Hgs Er).
Qed.

(** ** Associativity (equality of [option] results: "raises" is associative too) *)

Definition assoc_at (t : ty) : Prop :=
  forall ow a b c, has_ty t a -> has_ty t b -> has_ty t c ->
  obind (merge ow b c) (fun bc => merge ow a bc) = obind (merge ow a b) (fun ab => merge ow ab c).

Lemma mfield_assoc ow t f g h :
  assoc_at t -> ofty t f -> ofty t g -> ofty t h ->
  obind (mfield ow g h) (fun gh => mfield ow f gh) = obind (mfield ow f g) (fun fg => mfield ow fg h).
Proof.
  intros Ht Hf Hg Hh.
  destruct f as [x|], g as [y|], h as [z|]; simpl; try reflexivity.
  - specialize (Ht ow x y z Hf Hg Hh).
    destruct (merge ow y z) as [yz|], (merge ow x y) as [xy|]; simpl in *;
      first [rewrite Ht; reflexivity | rewrite <- Ht; reflexivity | reflexivity].
  - destruct (merge ow x y); reflexivity.
  - destruct (merge ow y z); reflexivity.
Qed.

Lemma mgo_assoc ow ts : Forall (fun kt => assoc_at (snd kt)) ts ->
  forall fs gs hs, tys_ok ts fs = true -> tys_ok ts gs = true -> tys_ok ts hs = true ->
  obind (mgo ow gs hs) (fun r => mgo ow fs r) = obind (mgo ow fs gs) (fun r => mgo ow r hs).
Proof.
  induction 1 as [|kt ts Hkt Hts IH]; intros [|f fs] [|g gs] [|h hs]; try discriminate.
  - reflexivity.
  - rewrite !tys_ok_cons. intros [Hf Hfs] [Hg Hgs] [Hh Hhs].
    specialize (IH fs gs hs Hfs Hgs Hhs).
    pose proof (mfield_assoc ow (snd kt) f g h Hkt Hf Hg Hh) as Hd.
    cbn [mgo].
    destruct (mfield ow g h) as [gh|], (mgo ow gs hs) as [r1|],
             (mfield ow f g) as [fg|], (mgo ow fs gs) as [r2|]; cbn [obind mgo] in *;
      try rewrite Hd; try rewrite <- Hd; try rewrite IH; try rewrite <- IH; try reflexivity;
      repeat match goal with |- context [match ?x with _ => _ end] => destruct x end; reflexivity.
Qed.

Lemma obind_map {X Y Z} (o : option X) (f : X -> Y) (g : Y -> option Z) :
  obind (option_map f o) g = obind o (fun x => g (f x)).
Proof. destruct o; reflexivity. Qed.

Lemma merge_assoc t : assoc_at t.
Proof.
  induction t as [| | |ts IH] using ty_ind'; intros ow a b c Ha Hb Hc.
  - apply has_ty_atom in Ha as [x ->]. apply has_ty_atom in Hb as [y ->].
    apply has_ty_atom in Hc as [z ->]. rewrite !merge_atom. destruct ow; reflexivity.
  - apply has_ty_list in Ha as [x ->]. apply has_ty_list in Hb as [y ->].
    apply has_ty_list in Hc as [z ->]. rewrite !merge_list. simpl. rewrite !merge_list.
    rewrite app_assoc. reflexivity.
  - apply has_ty_set in Ha as [x ->]. apply has_ty_set in Hb as [y ->].
    apply has_ty_set in Hc as [z ->]. rewrite !merge_set. simpl. rewrite !merge_set.
    rewrite app_assoc. reflexivity.
  - apply has_ty_obj in Ha as (fs & -> & Hfs). apply has_ty_obj in Hb as (gs & -> & Hgs).
    apply has_ty_obj in Hc as (hs & -> & Hhs).
    rewrite !merge_obj, !obind_map.
    pose proof (mgo_assoc ow ts IH fs gs hs Hfs Hgs Hhs) as H.
    transitivity (option_map VObj (obind (mgo ow gs hs) (fun r => mgo ow fs r))).
    + destruct (mgo ow gs hs); simpl; [apply merge_obj | reflexivity].
    + rewrite H. destruct (mgo ow fs gs); simpl; [symmetry; apply merge_obj | reflexivity].
Qed.

(** ** Field-wise characterisation of the object merge *)

Lemma mgo_nth ow fs : forall gs rs, mgo ow fs gs = Some rs ->
  forall i, mfield ow (nth i fs None) (nth i gs None) = Some (nth i rs None).
Proof.
  induction fs as [|f fs IH]; intros gs rs E i.
  - simpl in E. inversion E; subst. destruct i; reflexivity.
  - destruct gs as [|g gs].
    + simpl in E. inversion E; subst. destruct i; simpl; rewrite ?mfield_none_r; reflexivity.
    + cbn [mgo] in E. destruct (mfield ow f g) as [h|] eqn:Eh; try discriminate.
      destruct (mgo ow fs gs) as [r|] eqn:Er; try discriminate. inversion E; subst.
      destruct i as [|i]; simpl; [exact Eh | apply IH; exact Er].
Qed.

Lemma fld_obj i v x : fld i v = Some x -> exists fs, v = VObj fs /\ nth i fs None = Some x.
Proof. destruct v as [| | |fs]; simpl; try discriminate. eauto. Qed.

Lemma merge_fieldwise ow fs gs r : merge ow (VObj fs) (VObj gs) = Some r ->
  forall i, mfield ow (nth i fs None) (nth i gs None) = Some (fld i r).
Proof.
  rewrite merge_obj. destruct (mgo ow fs gs) as [rs|] eqn:E; simpl; intros H; inversion H; subst.
  simpl. apply mgo_nth. exact E.
Qed.

(** Nested objects are merged recursively, and a refusal inside refuses the whole. *)
Lemma merge_nested_rec ow a b r i x y :
  fld i a = Some x -> fld i b = Some y -> merge ow a b = Some r ->
  exists z, fld i r = Some z /\ merge ow x y = Some z.
Proof.
  intros Ha Hb E. apply fld_obj in Ha as (fs & -> & Ha). apply fld_obj in Hb as (gs & -> & Hb).
  pose proof (merge_fieldwise ow fs gs r E i) as H. rewrite Ha, Hb in H. simpl in H.
  destruct (merge ow x y) as [z|]; simpl in H; inversion H. eauto.
Qed.

Lemma merge_nested_fail ow a b i x y :
  fld i a = Some x -> fld i b = Some y -> merge ow x y = None -> merge ow a b = None.
Proof.
  intros Ha Hb E. destruct (merge ow a b) as [r|] eqn:Er; [|reflexivity].
  destruct (merge_nested_rec ow a b r i x y Ha Hb Er) as (z & _ & Hz). congruence.
Qed.

(** A field only one side provides is taken over unchanged. *)
Lemma merge_field_only_l ow fs gs r i :
  nth i gs None = None -> merge ow (VObj fs) (VObj gs) = Some r -> fld i r = nth i fs None.
Proof.
  intros Hg E. pose proof (merge_fieldwise ow fs gs r E i) as H. rewrite Hg, mfield_none_r in H.
  inversion H; reflexivity.
Qed.

Lemma merge_field_only_r ow fs gs r i :
  nth i fs None = None -> merge ow (VObj fs) (VObj gs) = Some r -> fld i r = nth i gs None.
Proof.
  intros Hf E. pose proof (merge_fieldwise ow fs gs r E i) as H. rewrite Hf, mfield_none_l in H.
  inversion H; reflexivity.
Qed.

(** Lists are concatenated in order (left operand first), also inside objects. *)
Lemma merge_list_concat ow a b r i l m :
  fld i a = Some (VList l) -> fld i b = Some (VList m) -> merge ow a b = Some r ->
  fld i r = Some (VList (l ++ m)).
Proof.
  intros Ha Hb E. destruct (merge_nested_rec ow a b r i _ _ Ha Hb E) as (z & Hz & Hm).
  rewrite merge_list in Hm. congruence.
Qed.

(** Sets are united. *)
Lemma merge_set_union ow a b r i l m :
  fld i a = Some (VSet l) -> fld i b = Some (VSet m) -> merge ow a b = Some r ->
  exists u, fld i r = Some (VSet u) /\ forall z, In z u <-> In z l \/ In z m.
Proof.
  intros Ha Hb E. destruct (merge_nested_rec ow a b r i _ _ Ha Hb E) as (z & Hz & Hm).
  rewrite merge_set in Hm. inversion Hm; subst. exists (l ++ m). split; auto.
  intros z. apply in_app_iff.
Qed.

(** ** Conflicts *)

Lemma conflict_refused p : forall a b x y,
  at_path p a = Some (VAtom x) -> at_path p b = Some (VAtom y) -> merge false a b = None.
Proof.
  induction p as [|i p IH]; intros a b x y Ha Hb.
  - simpl in *. inversion Ha; inversion Hb; subst. reflexivity.
  - simpl in *. destruct (fld i a) as [a'|] eqn:Ea; try discriminate.
    destruct (fld i b) as [b'|] eqn:Eb; try discriminate.
    eapply merge_nested_fail; eauto.
Qed.

Lemma tys_ok_nth ts : forall fs i x, tys_ok ts fs = true -> nth i fs None = Some x ->
  has_ty (snd (nth i ts (Opt, TAtom))) x.
Proof.
  induction ts as [|kt ts IH]; intros [|f fs] i x; try discriminate.
  - destruct i; discriminate.
  - rewrite tys_ok_cons. intros [Hf Hfs]. destruct i as [|i]; simpl.
    + intros ->. exact Hf.
    + apply IH. exact Hfs.
Qed.

(** Without overwrite permission a merge of typed values is refused only because two
    atoms meet at one place. *)
Definition refusal_explained_at (t : ty) : Prop :=
  forall a b, has_ty t a -> has_ty t b -> merge false a b = None ->
  exists p x y, at_path p a = Some (VAtom x) /\ at_path p b = Some (VAtom y).

Lemma mgo_none ow fs : forall gs, mgo ow fs gs = None ->
  exists i x y, nth i fs None = Some x /\ nth i gs None = Some y /\ merge ow x y = None.
Proof.
  induction fs as [|f fs IH]; intros [|g gs]; try discriminate. cbn [mgo]. intros E.
  destruct (mfield ow f g) as [h|] eqn:Eh.
  - destruct (mgo ow fs gs) as [r|] eqn:Er; try discriminate.
    destruct (IH gs Er) as (i & x & y & H1 & H2 & H3). exists (S i), x, y. auto.
  - destruct f as [x|], g as [y|]; try discriminate. simpl in Eh.
    destruct (merge ow x y) eqn:Em; try discriminate. exists 0, x, y. auto.
Qed.

Lemma refused_only_by_conflict t : refusal_explained_at t.
Proof.
  induction t as [| | |ts IH] using ty_ind'; intros a b Ha Hb E.
  - apply has_ty_atom in Ha as [x ->]. apply has_ty_atom in Hb as [y ->].
    exists [], x, y. auto.
  - apply has_ty_list in Ha as [x ->]. apply has_ty_list in Hb as [y ->]. discriminate.
  - apply has_ty_set in Ha as [x ->]. apply has_ty_set in Hb as [y ->]. discriminate.
  - apply has_ty_obj in Ha as (fs & -> & Hfs). apply has_ty_obj in Hb as (gs & -> & Hgs).
    rewrite merge_obj in E. destruct (mgo false fs gs) as [rs|] eqn:Er; try discriminate.
    destruct (mgo_none false fs gs Er) as (i & x & y & Hx & Hy & Hm).
    pose proof (tys_ok_nth ts fs i x Hfs Hx) as Tx. pose proof (tys_ok_nth ts gs i y Hgs Hy) as Ty.
    assert (Hi : refusal_explained_at (snd (nth i ts (Opt, TAtom)))).
    { destruct (nth_in_or_default i ts (Opt, TAtom)) as [Hin|Hd].
      - rewrite Forall_forall in IH. apply IH. exact Hin.
      - rewrite Hd in Tx. simpl in Tx. apply has_ty_atom in Tx as [u ->].
        rewrite Hd in Ty. simpl in Ty. apply has_ty_atom in Ty as [v ->].
        rewrite Hd. simpl. intros a b Ha Hb _.
        apply has_ty_atom in Ha as [u' ->]. apply has_ty_atom in Hb as [v' ->].
        exists [], u', v'. auto. }
    destruct (Hi x y Tx Ty Hm) as (p & u & v & Hu & Hv).
    exists (i :: p), u, v. simpl. rewrite Hx, Hy. auto.
Qed.

(** With overwrite permission a merge of typed values is never refused. *)
Lemma overwrite_total t : forall a b, has_ty t a -> has_ty t b -> merge true a b <> None.
Proof.
  induction t as [| | |ts IH] using ty_ind'; intros a b Ha Hb E.
  - apply has_ty_atom in Ha as [x ->]. apply has_ty_atom in Hb as [y ->]. discriminate.
  - apply has_ty_list in Ha as [x ->]. apply has_ty_list in Hb as [y ->]. discriminate.
  - apply has_ty_set in Ha as [x ->]. apply has_ty_set in Hb as [y ->]. discriminate.
  - apply has_ty_obj in Ha as (fs & -> & Hfs). apply has_ty_obj in Hb as (gs & -> & Hgs).
    rewrite merge_obj in E. destruct (mgo true fs gs) as [rs|] eqn:Er; try discriminate.
    destruct (mgo_none true fs gs Er) as (i & x & y & Hx & Hy & Hm).
    pose proof (tys_ok_nth ts fs i x Hfs Hx) as Tx. pose proof (tys_ok_nth ts gs i y Hgs Hy) as Ty.
    destruct (nth_in_or_default i ts (Opt, TAtom)) as [Hin|Hd].
    + rewrite Forall_forall in IH. exact (IH _ Hin x y Tx Ty Hm).
    + rewrite Hd in Tx. simpl in Tx. apply has_ty_atom in Tx as [u ->]. discriminate.
Qed.

(** ** No provided value is dropped *)

(** Path level, any overwrite mode, typed operands: a place provided by either operand is
    provided by the result. *)
Lemma no_value_dropped p : forall t ow a b r, has_ty t a -> has_ty t b ->
  merge ow a b = Some r -> provided p a \/ provided p b -> provided p r.
Proof.
  unfold provided. induction p as [|i p IH]; intros t ow a b r Ha Hb E H; [discriminate|].
  destruct t as [| | |ts].
  - apply has_ty_atom in Ha as [x ->]. apply has_ty_atom in Hb as [y ->].
    simpl in H. destruct H as [H|H]; congruence.
  - apply has_ty_list in Ha as [x ->]. apply has_ty_list in Hb as [y ->].
    simpl in H. destruct H as [H|H]; congruence.
  - apply has_ty_set in Ha as [x ->]. apply has_ty_set in Hb as [y ->].
    simpl in H. destruct H as [H|H]; congruence.
  - apply has_ty_obj in Ha as (fs & -> & Hfs). apply has_ty_obj in Hb as (gs & -> & Hgs).
    pose proof (merge_fieldwise ow fs gs r E i) as Hi. simpl in *.
    destruct (nth i fs None) as [x|] eqn:Ex, (nth i gs None) as [y|] eqn:Ey; simpl in Hi.
    + destruct (merge ow x y) as [z|] eqn:Ez; simpl in Hi; inversion Hi as [Hr]. 
      exact (IH (snd (nth i ts (Opt, TAtom))) ow x y z (tys_ok_nth ts fs i x Hfs Ex)
                (tys_ok_nth ts gs i y Hgs Ey) Ez H).
    + inversion Hi as [Hr]. destruct H as [H|H]; congruence.
    + inversion Hi as [Hr]. destruct H as [H|H]; congruence.
    + destruct H as [H|H]; congruence.
Qed.

Lemma leq_refl : forall a, leq a a.
Proof.
  induction a as [x|l|l|fs IH] using pval_ind'.
  - reflexivity.
  - exists [], []. simpl. rewrite app_nil_r. reflexivity.
  - apply incl_refl.
  - rewrite leq_obj. induction IH as [|[x|] fs Hx _ IHfs]; simpl; auto.
Qed.

Lemma leqs_refl fs : leqs fs fs.
Proof. rewrite <- leq_obj. apply leq_refl. Qed.

Lemma leqs_nil_r fs : leqs fs [] -> forall gs, leqs fs gs.
Proof.
  induction fs as [|[x|] fs IH]; simpl; auto.
  - intros [[] _].
  - intros [_ H] gs. split; auto.
Qed.

(** Value level.  Whenever a merge succeeds, the later operand is contained in the
    result ("the later value wins"); without overwrite permission so is the earlier one
    (nothing at all is lost). *)
Lemma merge_keeps : forall a ow b r, merge ow a b = Some r ->
  leq b r /\ (ow = false -> leq a r).
Proof.
  induction a as [x|l|l|fs IH] using pval_ind'; intros ow b r E.
  - rewrite merge_atom in E. destruct ow; inversion E; subst. split; [apply leq_refl|discriminate].
  - destruct b as [y|m|m|gs]; try discriminate. rewrite merge_list in E. inversion E; subst.
    split; [exists l, []; rewrite app_nil_r; reflexivity | intros _; exists [], m; reflexivity].
  - destruct b as [y|m|m|gs]; try discriminate. rewrite merge_set in E. inversion E; subst.
    split; [apply incl_appr, incl_refl | intros _; apply incl_appl, incl_refl].
  - destruct b as [y|m|m|gs];
      try (change (merge ow (VObj fs) ?b) with (if ow then Some b else @None pval) in E;
           destruct ow; inversion E; subst; split; [apply leq_refl|discriminate]).
    rewrite merge_obj in E. destruct (mgo ow fs gs) as [rs|] eqn:Er; inversion E; subst. clear E.
    rewrite !leq_obj. revert gs rs Er.
    induction IH as [|f fs Hf _ IHfs]; intros gs rs Er.
    + simpl in Er. inversion Er; subst. split; [apply leqs_refl | simpl; auto].
    + destruct gs as [|g gs].
      * simpl in Er. inversion Er; subst. split; [simpl; auto | intros _; apply leqs_refl].
      * cbn [mgo] in Er. destruct (mfield ow f g) as [h|] eqn:Eh; try discriminate.
        destruct (mgo ow fs gs) as [r|] eqn:Er'; try discriminate. inversion Er; subst.
        destruct (IHfs gs r Er') as [H1 H2]. simpl.
        destruct f as [x|], g as [y|]; simpl in Eh.
        -- destruct (merge ow x y) as [z|] eqn:Ez; inversion Eh; subst.
           destruct (Hf ow y z Ez) as [K1 K2]. split; [split; auto | intros Hw; split; auto].
        -- inversion Eh; subst. split; [split; auto | intros Hw; split; [apply leq_refl | auto]].
        -- inversion Eh; subst. split; [split; [apply leq_refl | auto] | intros Hw; split; auto].
        -- inversion Eh; subst. split; [split; auto | intros Hw; split; auto].
Qed.

Lemma merge_lossless a b r : merge false a b = Some r -> leq a r /\ leq b r.
Proof. intros E. destruct (merge_keeps a false b r E) as [H1 H2]. auto. Qed.

Lemma later_wins ow a b r : merge ow a b = Some r -> leq b r.
Proof. intros E. apply (merge_keeps a ow b r E). Qed.

Lemma later_wins_atom x y : merge true (VAtom x) (VAtom y) = Some (VAtom y).
Proof. reflexivity. Qed.

(** ** Partial <-> complete *)

Lemma fp_go_complete ts : Forall (fun kt => forall o, complete (snd kt) o = true ->
                                            from_partial (snd kt) o = Some o) ts ->
  forall fs, complete_go ts fs = true -> fp_go ts fs = Some fs.
Proof.
  induction 1 as [|kt ts Hkt _ IH]; intros [|f fs]; simpl; try discriminate; auto.
  rewrite andb_true_iff. intros [Hf Hfs]. rewrite (IH fs Hfs).
  destruct f as [x|]; simpl.
  - rewrite (Hkt x Hf). reflexivity.
  - destruct (fst kt); try discriminate. reflexivity.
Qed.

Lemma partial_roundtrip t : forall o, complete t o = true -> from_partial t (to_partial o) = Some o.
Proof.
  unfold to_partial.
  induction t as [| | |ts IH] using ty_ind'; intros [a|l|l|fs] H; try discriminate H; try reflexivity.
  rewrite complete_obj in H. rewrite from_partial_obj, (fp_go_complete ts IH fs H). reflexivity.
Qed.

Lemma complete_go_tys ts : Forall (fun kt => forall o, complete (snd kt) o = true ->
                                             has_ty (snd kt) o) ts ->
  forall fs, complete_go ts fs = true -> tys_ok ts fs = true.
Proof.
  induction 1 as [|kt ts Hkt _ IH]; intros [|f fs]; simpl; try discriminate; auto.
  rewrite !andb_true_iff. intros [Hf Hfs]. split; [|auto].
  destruct f as [x|]; [apply Hkt; exact Hf | reflexivity].
Qed.

Lemma complete_has_ty t : forall o, complete t o = true -> has_ty t o.
Proof.
  induction t as [| | |ts IH] using ty_ind'; intros [a|l|l|fs] H; try discriminate H; try reflexivity.
  rewrite complete_obj in H. unfold has_ty. rewrite has_tyb_obj. exact (complete_go_tys ts IH fs H).
Qed.

(** ** The pinned rule is not a monoid *)

Lemma identity_refuted :
  exists ts x, has_ty (TObj ts) x /\ merge_pinned false (empty_of ts) x <> Some x.
Proof.
  exists [(Opt, TAtom)], (VObj [Some (VAtom 0)]). split; [reflexivity|]. vm_compute. discriminate.
Qed.

Lemma pinned_drops_value :
  merge_pinned false (VObj [None; None; None]) (VObj [Some (VAtom 0); Some (VList []); Some (VSet [])])
  = Some (VObj [None; None; None]).
Proof. vm_compute. reflexivity. Qed.

Lemma pinned_truthy_agrees :
  merge_pinned false (VObj [None; Some (VList [1%Z])]) (VObj [Some (VAtom 5); Some (VList [2%Z])])
  = merge false (VObj [None; Some (VList [1%Z])]) (VObj [Some (VAtom 5); Some (VList [2%Z])]).
Proof. vm_compute. reflexivity. Qed.

(** ** Folding a sequence of partials (what [harvest] does) can be regrouped *)

Definition mstep (ow : bool) (acc : option pval) (x : pval) : option pval :=
  obind acc (fun a => merge ow a x).

Definition foldo (ow : bool) (o : option pval) (xs : list pval) : option pval :=
  fold_left (mstep ow) xs o.

Lemma foldo_none ow xs : foldo ow None xs = None.
Proof. induction xs; simpl; auto. Qed.

Lemma merge_all_foldo ow e xs : merge_all ow e xs = foldo ow (Some e) xs.
Proof. reflexivity. Qed.

Lemma foldo_closed ow t xs : Forall (has_ty t) xs -> forall a r, has_ty t a ->
  foldo ow (Some a) xs = Some r -> has_ty t r.
Proof.
  induction 1 as [|x xs Hx _ IH]; intros a r Ha E; simpl in E.
  - inversion E; subst; exact Ha.
  - destruct (merge ow a x) as [ax|] eqn:Eax.
    + apply (IH ax r); auto. exact (merge_closed t ow a x ax Ha Hx Eax).
    + unfold foldo in E. simpl in E. fold (foldo ow None xs) in E. rewrite foldo_none in E. discriminate.
Qed.

Lemma foldo_shift ow t ys : Forall (has_ty t) ys -> forall a x, has_ty t a -> has_ty t x ->
  obind (merge ow a x) (fun ax => foldo ow (Some ax) ys) = obind (foldo ow (Some x) ys) (merge ow a).
Proof.
  induction 1 as [|y ys Hy _ IH]; intros a x Ha Hx.
  - simpl. destruct (merge ow a x); reflexivity.
  - pose proof (merge_assoc t ow a x y Ha Hx Hy) as Has.
    change (foldo ow (Some x) (y :: ys)) with (foldo ow (merge ow x y) ys).
    destruct (merge ow x y) as [xy|] eqn:Exy; simpl in Has.
    + rewrite <- (IH a xy Ha (merge_closed t ow x y xy Hx Hy Exy)).
      destruct (merge ow a x) as [ax|] eqn:Eax; simpl in *.
      * change (foldo ow (Some ax) (y :: ys)) with (foldo ow (merge ow ax y) ys).
        rewrite <- Has. destruct (merge ow a xy); simpl; [reflexivity | apply foldo_none].
      * rewrite Has. reflexivity.
    + rewrite foldo_none. simpl. destruct (merge ow a x) as [ax|] eqn:Eax; simpl in *; auto.
      change (foldo ow (Some ax) (y :: ys)) with (foldo ow (merge ow ax y) ys).
      rewrite <- Has. apply foldo_none.
Qed.

Lemma merge_all_app ow ts xs ys :
  Forall (has_ty (TObj ts)) xs -> Forall (has_ty (TObj ts)) ys ->
  merge_all ow (empty_of ts) (xs ++ ys) =
  obind (merge_all ow (empty_of ts) xs)
        (fun x => obind (merge_all ow (empty_of ts) ys) (merge ow x)).
Proof.
  intros Hxs Hys. rewrite !merge_all_foldo. unfold foldo at 1. rewrite fold_left_app.
  fold (foldo ow (Some (empty_of ts)) xs). fold (foldo ow (foldo ow (Some (empty_of ts)) xs) ys).
  destruct (foldo ow (Some (empty_of ts)) xs) as [x|] eqn:Ex; simpl; [|apply foldo_none].
  pose proof (foldo_closed ow _ xs Hxs _ _ (empty_has_ty ts) Ex) as Tx.
  rewrite <- (foldo_shift ow _ ys Hys x (empty_of ts) Tx (empty_has_ty ts)).
  rewrite merge_empty_r by exact Tx. reflexivity.
Qed.

(** ** Observation of sets *)

Lemma ins_In x l y : In y (ins x l) <-> y = x \/ In y l.
Proof.
  induction l as [|z l IH]; simpl.
  - intuition.
  - destruct (x ?= z)%Z eqn:E; simpl.
    + apply Z.compare_eq in E. subst. intuition.
    + intuition.
    + rewrite IH. intuition.
Qed.

Lemma canon_In l y : In y (canon l) <-> In y l.
Proof.
  induction l as [|x l IH]; simpl; [tauto|]. rewrite ins_In, IH. intuition.
Qed.

Lemma ins_sorted x l : StronglySorted Z.lt l -> StronglySorted Z.lt (ins x l).
Proof.
  induction 1 as [|z l Hl IH Hz]; simpl.
  - constructor; constructor.
  - destruct (x ?= z)%Z eqn:E.
    + constructor; auto.
    + rewrite Z.compare_lt_iff in E. constructor; [constructor; auto|].
      constructor; auto. rewrite Forall_forall in *. intros u Hu. specialize (Hz u Hu). lia.
    + rewrite Z.compare_gt_iff in E. constructor; auto.
      rewrite Forall_forall in *. intros u Hu. apply ins_In in Hu as [->|Hu]; auto.
Qed.

Lemma canon_sorted l : StronglySorted Z.lt (canon l).
Proof. induction l; simpl; [constructor | apply ins_sorted; auto]. Qed.

Lemma sorted_unique l1 : forall l2, StronglySorted Z.lt l1 -> StronglySorted Z.lt l2 ->
  (forall x, In x l1 <-> In x l2) -> l1 = l2.
Proof.
  induction l1 as [|a l1 IH]; intros [|b l2] H1 H2 H.
  - reflexivity.
  - exfalso. apply (H b). left; reflexivity.
  - exfalso. apply (H a). left; reflexivity.
  - inversion H1 as [|? ? S1 F1]; inversion H2 as [|? ? S2 F2]; subst.
    rewrite Forall_forall in F1, F2.
    assert (a = b).
    { destruct (proj1 (H a) (or_introl eq_refl)) as [->|Ha]; [reflexivity|].
      destruct (proj2 (H b) (or_introl eq_refl)) as [->|Hb]; [reflexivity|].
      specialize (F1 b Hb). specialize (F2 a Ha). lia. }
    subst b. f_equal. apply IH; auto. intros x. split; intros Hx.
    + destruct (proj1 (H x) (or_intror Hx)) as [->|]; auto. specialize (F1 x Hx). lia.
    + destruct (proj2 (H x) (or_intror Hx)) as [->|]; auto. specialize (F2 x Hx). lia.
Qed.

(** Two representations of the same set are observed identically, and the observation
    of a union has exactly the elements of both sides. *)
Lemma canon_unique l1 l2 : (forall x, In x l1 <-> In x l2) -> canon l1 = canon l2.
Proof.
  intros H. apply sorted_unique; try apply canon_sorted.
  intros x. rewrite !canon_In. apply H.
Qed.

Lemma canon_union l m x : In x (canon (l ++ m)) <-> In x l \/ In x m.
Proof. rewrite canon_In. apply in_app_iff. Qed.

(** ** Merging commutes with observation

    The model keeps a set as the list of its elements in union order; the harness hands it
    sorted duplicate-free lists, the code has real sets.  Observing the result of a merge is
    the same whether the operands are given in any representation or in observed form, so
    (with [canon_unique]) the outcome does not depend on how a set is written down. *)

Definition oobs (f : option pval) : option pval :=
  match f with Some x => Some (obs x) | None => None end.

Lemma obs_obj fs : obs (VObj fs) = VObj (map oobs fs).
Proof. reflexivity. Qed.

Lemma canon_idem l : canon (canon l) = canon l.
Proof. apply canon_unique. intros x. apply canon_In. Qed.

Lemma canon_app_canon l m : canon (canon l ++ canon m) = canon (l ++ m).
Proof.
  apply canon_unique. intros x. rewrite !in_app_iff, !canon_In. tauto.
Qed.

Lemma obs_idem : forall v, obs (obs v) = obs v.
Proof.
  induction v as [x|l|l|fs IH] using pval_ind'; try reflexivity.
  - simpl. rewrite canon_idem. reflexivity.
  - rewrite !obs_obj. f_equal. rewrite map_map.
    induction IH as [|[x|] fs Hx _ IHfs]; simpl; try rewrite IHfs; try reflexivity.
    simpl in Hx. rewrite Hx. reflexivity.
Qed.

Definition obs_merge_at (x : pval) : Prop :=
  forall ow y, option_map obs (merge ow x y) = option_map obs (merge ow (obs x) (obs y)).

Lemma mfield_obs ow f g : optP obs_merge_at f ->
  option_map oobs (mfield ow f g) = option_map oobs (mfield ow (oobs f) (oobs g)).
Proof.
  intros Hf. destruct f as [x|], g as [y|]; simpl; try reflexivity.
  - specialize (Hf ow y). simpl in Hf.
    destruct (merge ow x y), (merge ow (obs x) (obs y)); simpl in *; congruence.
  - rewrite obs_idem. reflexivity.
  - rewrite obs_idem. reflexivity.
Qed.

Lemma mgo_obs ow fs : Forall (optP obs_merge_at) fs -> forall gs,
  option_map (map oobs) (mgo ow fs gs) = option_map (map oobs) (mgo ow (map oobs fs) (map oobs gs)).
Proof.
  induction 1 as [|f fs Hf _ IH]; intros gs.
  - simpl. rewrite map_map. f_equal. apply map_ext. intros [x|]; simpl; [rewrite obs_idem|]; reflexivity.
  - destruct gs as [|g gs].
    + simpl. f_equal. f_equal.
      * destruct f; simpl; [rewrite obs_idem|]; reflexivity.
      * rewrite map_map. apply map_ext. intros [x|]; simpl; [rewrite obs_idem|]; reflexivity.
    + cbn [mgo map]. pose proof (mfield_obs ow f g Hf) as Hh. specialize (IH gs).
      destruct (mfield ow f g) as [h|], (mfield ow (oobs f) (oobs g)) as [h'|]; simpl in Hh; try discriminate;
        [|reflexivity].
      destruct (mgo ow fs gs) as [r|], (mgo ow (map oobs fs) (map oobs gs)) as [r'|]; simpl in *; try discriminate;
        [|reflexivity].
      congruence.
Qed.

Lemma obs_merge : forall x, obs_merge_at x.
Proof.
  induction x as [a|l|l|fs IH] using pval_ind'; intros ow y.
  - rewrite !merge_atom. simpl. rewrite merge_atom. destruct ow; simpl; [rewrite obs_idem|]; reflexivity.
  - destruct y as [b|m|m|gs]; reflexivity.
  - destruct y as [b|m|m|gs]; try reflexivity.
    simpl obs. rewrite !merge_set. simpl. rewrite canon_app_canon. reflexivity.
  - destruct y as [b|m|m|gs].
    + rewrite obs_obj. change (merge ow (VObj fs) (VAtom b)) with (if ow then Some (VAtom b) else @None pval).
      change (merge ow (VObj (map oobs fs)) (obs (VAtom b))) with (if ow then Some (VAtom b) else @None pval).
      reflexivity.
    + rewrite obs_obj. change (merge ow (VObj fs) (VList m)) with (if ow then Some (VList m) else @None pval).
      change (merge ow (VObj (map oobs fs)) (obs (VList m))) with (if ow then Some (VList m) else @None pval).
      reflexivity.
    + rewrite obs_obj. change (merge ow (VObj fs) (VSet m)) with (if ow then Some (VSet m) else @None pval).
      change (merge ow (VObj (map oobs fs)) (obs (VSet m))) with (if ow then Some (VSet (canon m)) else @None pval).
      destruct ow; simpl; [rewrite canon_idem|]; reflexivity.
    + 
      rewrite !obs_obj, !merge_obj. pose proof (mgo_obs ow fs IH gs) as H.
      destruct (mgo ow fs gs) as [r|], (mgo ow (map oobs fs) (map oobs gs)) as [r'|];
        cbn [option_map] in *; try discriminate; [|reflexivity].
      rewrite !obs_obj. congruence.
Qed.

(** ** The pinned rule differs from the intended one on falsy values only *)

(** Every value provided inside [v] (at any depth) is truthy. *)
Fixpoint all_truthy (v : pval) : bool :=
  match v with
  | VObj fs =>
      (fix go (fs : list (option pval)) : bool :=
         match fs with
         | [] => true
         | f :: fs' => match f with Some x => all_truthy x | None => true end && go fs'
         end) fs
  | _ => truthy v
  end.

Fixpoint fields_truthy (fs : list (option pval)) : bool :=
  match fs with
  | [] => true
  | f :: fs' => match f with Some x => all_truthy x | None => true end && fields_truthy fs'
  end.

Lemma all_truthy_obj fs : all_truthy (VObj fs) = fields_truthy fs.
Proof. induction fs as [|f fs IH]; simpl; [reflexivity|]. simpl in IH. rewrite IH. reflexivity. Qed.

Lemma all_truthy_truthy v : all_truthy v = true -> truthy v = true.
Proof. destruct v; simpl; auto. Qed.

Definition mfield_pinned (ow : bool) (f g : option pval) : option (option pval) :=
  match f, g with
  | Some x', Some y' => option_map Some (merge_pinned ow x' y')
  | _, None => Some f
  | None, Some _ => Some (por g f)
  end.

Fixpoint mgo_pinned (ow : bool) (fs gs : list (option pval)) {struct fs} : option (list (option pval)) :=
  match fs, gs with
  | [], _ => Some (map (fun g => por g None) gs)
  | _, [] => Some fs
  | f :: fs', g :: gs' =>
      match mfield_pinned ow f g with
      | None => None
      | Some h => match mgo_pinned ow fs' gs' with
                  | None => None
                  | Some r => Some (h :: r)
                  end
      end
  end.

Lemma merge_pinned_obj ow fs gs :
  merge_pinned ow (VObj fs) (VObj gs) = option_map VObj (mgo_pinned ow fs gs).
Proof.
  simpl. f_equal. revert gs. induction fs as [|f fs IH]; intros gs; [reflexivity|].
  destruct gs as [|g gs]; [reflexivity|]. simpl. rewrite IH. reflexivity.
Qed.

Arguments merge_pinned : simpl never.
Arguments all_truthy : simpl never.

Definition pinned_agrees_at (x : pval) : Prop :=
  forall ow y, all_truthy y = true -> merge_pinned ow x y = merge ow x y.

Lemma por_truthy_fields gs : fields_truthy gs = true -> map (fun g => por g None) gs = gs.
Proof.
  induction gs as [|[y|] gs IH]; simpl; auto.
  - rewrite andb_true_iff. intros [Hy Hgs]. rewrite (all_truthy_truthy y Hy), IH by exact Hgs. reflexivity.
  - intros H. rewrite IH by exact H. reflexivity.
Qed.

Lemma mgo_pinned_agrees ow fs : Forall (optP pinned_agrees_at) fs -> forall gs,
  fields_truthy gs = true -> mgo_pinned ow fs gs = mgo ow fs gs.
Proof.
  induction 1 as [|f fs Hf _ IH]; intros gs Hgs.
  - simpl. rewrite por_truthy_fields by exact Hgs. reflexivity.
  - destruct gs as [|g gs]; [reflexivity|]. simpl in Hgs. rewrite andb_true_iff in Hgs. destruct Hgs as [Hg Hgs].
    cbn [mgo_pinned mgo]. rewrite (IH gs Hgs).
    replace (mfield_pinned ow f g) with (mfield ow f g); [reflexivity|].
    destruct f as [x|], g as [y|]; simpl; try reflexivity.
    + rewrite (Hf ow y Hg). reflexivity.
    + rewrite (all_truthy_truthy y Hg). reflexivity.
Qed.

Lemma pinned_agrees : forall x, pinned_agrees_at x.
Proof.
  induction x as [a|l|l|fs IH] using pval_ind'; intros ow y Hy; try reflexivity.
  destruct y as [b|m|m|gs]; try reflexivity.
  rewrite all_truthy_obj in Hy. rewrite merge_pinned_obj, merge_obj, (mgo_pinned_agrees ow fs IH gs Hy).
  reflexivity.
Qed.
