(** * What the parser returns is a valid instance (property C12, deepening).

    - [unambiguous t]: every Union in [t] has members whose accepted JSON forms are
      pairwise disjoint (by JSON constructor: null/bool/int/float/string/array/object),
      recursively;
    - [defaults_ok norm t]: every declared default is itself a valid value, and an
      Optional field declares no default other than [None];
    - [parse_valid]: under these, whatever [parse] returns satisfies [wtb] and [omitsb],
      hence is a fixed point of dump-then-parse: normalisation through the parser is
      idempotent ([parse_idempotent], [dump_parse_dump]);
    - [ambiguous_union_refuted]: for an overlapping Union the statement is false;
    - [set_input_order_irrelevant]: order and multiplicity of a set-typed input array
      do not matter. *)
From Coq Require Import List String Ascii ZArith Bool Lia.
From MV Require Import Base.Sx Schema.RoundTrip Schema.RoundTripProofs.
Import ListNotations.
Local Open Scope string_scope.
Local Open Scope list_scope.

(** ** JSON constructor kinds accepted by a type *)
Inductive kind : Type := KNull | KBool | KInt | KFloat | KStr | KArr | KObj.

Definition kind_eqb (a b : kind) : bool :=
  match a, b with
  | KNull, KNull | KBool, KBool | KInt, KInt | KFloat, KFloat | KStr, KStr | KArr, KArr | KObj, KObj => true
  | _, _ => false
  end.

Lemma kind_eqb_eq : forall a b, kind_eqb a b = true <-> a = b.
Proof. intros [] []; simpl; split; intros H; try reflexivity; try discriminate. Qed.

Definition kind_of (j : jval) : kind :=
  match j with
  | JNull => KNull | JBool _ => KBool | JInt _ => KInt | JFloat _ => KFloat
  | JStr _ => KStr | JArr _ => KArr | JObj _ => KObj
  end.

Fixpoint kinds (t : ty) : list kind :=
  match t with
  | TInt => [KInt] | TFloat => [KFloat] | TBool => [KBool]
  | TStr | TNEStr | TCus _ => [KStr]
  | TLit vs => map kind_of vs
  | TOpt t' => KNull :: kinds t'
  | TUnion ts => (fix go (ts : list ty) : list kind :=
                    match ts with [] => [] | t' :: r => kinds t' ++ go r end) ts
  | TList _ | TSet _ => [KArr]
  | TObj _ _ _ => [KObj]
  end.

Fixpoint ukinds (ts : list ty) : list kind :=
  match ts with [] => [] | t' :: r => kinds t' ++ ukinds r end.

Lemma kinds_union_eq : forall ts, kinds (TUnion ts) = ukinds ts.
Proof. intros ts. reflexivity. Qed.

Definition mem_kind (k : kind) (l : list kind) : bool := existsb (kind_eqb k) l.
Definition disjointb (l1 l2 : list kind) : bool := forallb (fun k => negb (mem_kind k l2)) l1.

Lemma mem_kind_In : forall k l, mem_kind k l = true <-> In k l.
Proof.
  intros k l. unfold mem_kind. rewrite existsb_exists. split.
  - intros [x [Hin He]]. apply kind_eqb_eq in He. subst. exact Hin.
  - intros Hin. exists k. split; [exact Hin | apply kind_eqb_eq; reflexivity].
Qed.

Lemma disjointb_spec : forall l1 l2 k, disjointb l1 l2 = true -> In k l1 -> In k l2 -> False.
Proof.
  intros l1 l2 k H H1 H2. unfold disjointb in H. rewrite forallb_forall in H.
  specialize (H k H1). apply negb_true_iff in H.
  apply mem_kind_In in H2. rewrite H2 in H. discriminate.
Qed.

(** ** Unambiguous types *)
Fixpoint unambiguous (t : ty) : bool :=
  match t with
  | TOpt t' | TList t' | TSet t' => unambiguous t'
  | TUnion ts =>
      (fix go (ts : list ty) : bool :=
         match ts with
         | [] => true
         | t' :: r => unambiguous t' && forallb (fun u => disjointb (kinds t') (kinds u)) r && go r
         end) ts
  | TObj fs _ _ =>
      (fix go (fs : list (fld ty)) : bool :=
         match fs with [] => true | Fld _ _ t' _ :: r => unambiguous t' && go r end) fs
  | _ => true
  end.

Fixpoint uunamb (ts : list ty) : bool :=
  match ts with
  | [] => true
  | t' :: r => unambiguous t' && forallb (fun u => disjointb (kinds t') (kinds u)) r && uunamb r
  end.

Fixpoint ounamb (fs : list (fld ty)) : bool :=
  match fs with [] => true | Fld _ _ t' _ :: r => unambiguous t' && ounamb r end.

Lemma unamb_union_eq : forall ts, unambiguous (TUnion ts) = uunamb ts.
Proof. intros ts. reflexivity. Qed.

Lemma unamb_obj_eq : forall fs cs fb, unambiguous (TObj fs cs fb) = ounamb fs.
Proof. intros fs cs fb. reflexivity. Qed.

Section Valid.
  Variable norm : cust -> string -> option string.
  Hypothesis norm_idem : forall c s s', norm c s = Some s' -> norm c s' = Some s'.

  (** Field-level "omits": a [None] only where leaving the key out reads back as [None]. *)
  Definition fomits (t' : ty) (d : option tval) (v : tval) : bool :=
    match v with VNone => dflt_ok d | _ => omitsb t' v end.

  (** ** Declared defaults are valid; Optional fields default to [None]. *)
  Fixpoint defaults_ok (t : ty) : bool :=
    match t with
    | TOpt t' | TList t' | TSet t' => defaults_ok t'
    | TUnion ts => (fix go (ts : list ty) : bool :=
                      match ts with [] => true | t' :: r => defaults_ok t' && go r end) ts
    | TObj fs _ _ =>
        (fix go (fs : list (fld ty)) : bool :=
           match fs with
           | [] => true
           | Fld _ _ t' d :: r =>
               defaults_ok t'
               && match d with None => true | Some dv => fwt norm t' dv && fomits t' d dv end
               && (negb (is_topt t') || dflt_ok d)
               && go r
           end) fs
    | _ => true
    end.

  Fixpoint udefs (ts : list ty) : bool :=
    match ts with [] => true | t' :: r => defaults_ok t' && udefs r end.

  Fixpoint odefs (fs : list (fld ty)) : bool :=
    match fs with
    | [] => true
    | Fld _ _ t' d :: r =>
        defaults_ok t'
        && match d with None => true | Some dv => fwt norm t' dv && fomits t' d dv end
        && (negb (is_topt t') || dflt_ok d)
        && odefs r
    end.

  Lemma defs_union_eq : forall ts, defaults_ok (TUnion ts) = udefs ts.
  Proof. intros ts. reflexivity. Qed.

  Lemma defs_obj_eq : forall fs cs fb, defaults_ok (TObj fs cs fb) = odefs fs.
  Proof. intros fs cs fb. reflexivity. Qed.

  (** ** Kind facts: a parsed value dumps to the same JSON constructor as the input,
      and that constructor is one the type accepts. *)
  Lemma prim_eqb_kind : forall a b, prim_eqb a b = true -> kind_of a = kind_of b.
  Proof. intros [] []; simpl; intros H; try discriminate; reflexivity. Qed.

  Lemma memb_kind : forall j vs, memb j vs = true -> In (kind_of j) (map kind_of vs).
  Proof.
    intros j vs H. unfold memb in H. apply existsb_exists in H. destruct H as [x [Hin He]].
    apply prim_eqb_kind in He. rewrite He. apply in_map. exact Hin.
  Qed.

  Definition Kfact (t : ty) : Prop :=
    forall j v, parse norm t j = Some v -> kind_of (dump t v) = kind_of j /\ In (kind_of j) (kinds t).

  Lemma ufirst_kind : forall ts, Forall Kfact ts ->
    forall j k w, ufirst norm j ts k = Some w ->
    exists i v, w = VUn (k + i) v /\ kind_of (udump ts i v) = kind_of j /\ In (kind_of j) (ukinds ts).
  Proof.
    intros ts HF. induction HF as [|t r Ht HF IH]; intros j k w H; simpl in H; [discriminate|].
    destruct (parse norm t j) as [v|] eqn:E.
    - inversion H; subst. exists 0, v. destruct (Ht j v E) as [H1 H2].
      rewrite Nat.add_0_r. split; [reflexivity|]. split; [exact H1|].
      simpl. apply in_or_app. left. exact H2.
    - destruct (IH j (S k) w H) as [i [v [Hw [H1 H2]]]]. exists (S i), v.
      split; [rewrite Hw; f_equal; lia|]. split; [exact H1|].
      simpl. apply in_or_app. right. exact H2.
  Qed.

  Lemma kind_fact : forall t, Kfact t.
  Proof.
    induction t using ty_ind'; unfold Kfact; intros j v Hp.
    - destruct j; simpl in Hp; inversion Hp; subst; simpl; auto.
    - destruct j; simpl in Hp; inversion Hp; subst; simpl; auto.
    - destruct j; simpl in Hp; inversion Hp; subst; simpl; auto.
    - destruct j; simpl in Hp; try discriminate.
      destruct (nonempty (strip s)); inversion Hp; subst; simpl; auto.
    - destruct j; simpl in Hp; try discriminate.
      destruct (has_nonws s); inversion Hp; subst; simpl; auto.
    - simpl in Hp. destruct (memb j vs) eqn:E; inversion Hp; subst. simpl.
      split; [reflexivity | apply memb_kind; exact E].
    - destruct j; simpl in Hp; try discriminate.
      destruct (norm c s); inversion Hp; subst; simpl; auto.
    - cbn [parse] in Hp. destruct j; try (inversion Hp; subst; simpl; auto; fail);
        (destruct (parse norm t _) as [v'|] eqn:E; [|discriminate]; inversion Hp; subst;
         destruct (IHt _ v' E) as [H1 H2]; cbn [dump kinds]; split; [exact H1 | right; exact H2]).
    - rewrite parse_union_eq in Hp.
      destruct (ufirst_kind ts H j 0 v Hp) as [i [v' [Hw [H1 H2]]]]. subst. simpl Nat.add.
      rewrite dump_union_eq, kinds_union_eq. split; assumption.
    - cbn [parse] in Hp. destruct j; try discriminate.
      destruct (opt_list _); inversion Hp; subst. simpl. auto.
    - cbn [parse] in Hp. destruct j; try discriminate.
      destruct (opt_list _); inversion Hp; subst. simpl. auto.
    - destruct j; try (simpl in Hp; discriminate).
      rewrite parse_obj_eq in Hp. cbv zeta in Hp.
      destruct (fb && _); [discriminate|].
      destruct (oparse norm _ fs) as [vs|]; inversion Hp; subst.
      rewrite dump_obj_eq. simpl. auto.
  Qed.

  (** [None] is only ever produced for an Optional type. *)
  Lemma parse_none_topt : forall t j, parse norm t j = Some VNone -> is_topt t = true.
  Proof.
    intros t j Hp. destruct t; try reflexivity; exfalso.
    - destruct j; simpl in Hp; discriminate.
    - destruct j; simpl in Hp; discriminate.
    - destruct j; simpl in Hp; discriminate.
    - destruct j; simpl in Hp; try discriminate. destruct (nonempty (strip s)); discriminate.
    - destruct j; simpl in Hp; try discriminate. destruct (has_nonws s); discriminate.
    - simpl in Hp. destruct (memb j vs); discriminate.
    - destruct j; simpl in Hp; try discriminate. destruct (norm c s); discriminate.
    - rewrite parse_union_eq in Hp.
      assert (HF : Forall Kfact ts) by (apply Forall_forall; intros; apply kind_fact).
      destruct (ufirst_kind ts HF j 0 VNone Hp) as [i [v' [Hw _]]]. discriminate.
    - cbn [parse] in Hp. destruct j; try discriminate. destruct (opt_list _); discriminate.
    - cbn [parse] in Hp. destruct j; try discriminate. destruct (opt_list _); discriminate.
    - destruct j; try (simpl in Hp; discriminate).
      rewrite parse_obj_eq in Hp. cbv zeta in Hp.
      destruct (forbid && _); [discriminate|]. destruct (oparse norm _ fs); discriminate.
  Qed.

  (** ** Lists, sets *)
  Lemma opt_list_Some_In : forall (X Y : Type) (f : X -> option Y) l vs,
    opt_list (map f l) = Some vs ->
    (forall x, In x l -> exists v, f x = Some v) /\
    (forall v, In v vs <-> exists x, In x l /\ f x = Some v).
  Proof.
    intros X Y f l. induction l as [|x r IH]; intros vs H; simpl in H.
    - inversion H; subst. split; [intros ? []|]. intros v. split; [intros [] | intros [? [[] _]]].
    - destruct (f x) as [y|] eqn:E; [|discriminate].
      destruct (opt_list (map f r)) as [ys|] eqn:E2; [|discriminate]. inversion H; subst.
      destruct (IH ys eq_refl) as [H1 H2]. split.
      + intros z [Hz|Hz]; [subst; exists y; exact E | apply H1; exact Hz].
      + intros v. split.
        * intros [Hv|Hv]; [subst; exists x; split; [left; reflexivity | exact E]|].
          apply H2 in Hv. destruct Hv as [z [Hz Hf]]. exists z. split; [right; exact Hz | exact Hf].
        * intros [z [[Hz|Hz] Hf]].
          -- subst. rewrite E in Hf. inversion Hf. left. reflexivity.
          -- right. apply H2. exists z. split; assumption.
  Qed.

  Lemma dedup_sub : forall l x, In x (dedup l) -> In x l.
  Proof.
    induction l as [|y r IH]; simpl; intros x H; [exact H|].
    destruct (existsb (tval_eqb y) (dedup r)).
    - right. apply IH. exact H.
    - destruct H as [H|H]; [left; exact H | right; apply IH; exact H].
  Qed.

  Lemma nodupb_dedup : forall l, nodupb (dedup l) = true.
  Proof.
    induction l as [|y r IH]; simpl; [reflexivity|].
    destruct (existsb (tval_eqb y) (dedup r)) eqn:E; [exact IH|].
    simpl. rewrite E, IH. reflexivity.
  Qed.

  Lemma forallb_dedup : forall p l, forallb p l = true -> forallb p (dedup l) = true.
  Proof.
    intros p l H. rewrite forallb_forall in *. intros x Hx. apply H. apply dedup_sub. exact Hx.
  Qed.

  Definition Pvalid (t : ty) : Prop :=
    unambiguous t = true -> defaults_ok t = true ->
    forall j v, parse norm t j = Some v -> wtb norm t v = true /\ omitsb t v = true.

  Lemma list_valid : forall t l vs, Pvalid t -> unambiguous t = true -> defaults_ok t = true ->
    opt_list (map (parse norm t) l) = Some vs ->
    forallb (wtb norm t) vs = true /\ forallb (omitsb t) vs = true.
  Proof.
    intros t l vs HP Hu Hd H. destruct (opt_list_Some_In _ _ _ _ _ H) as [_ H2].
    split; apply forallb_forall; intros v Hv; apply H2 in Hv; destruct Hv as [x [_ Hf]];
      destruct (HP Hu Hd x v Hf); assumption.
  Qed.

  (** ** Unions *)
  Lemma disjoint_all : forall t r k,
    forallb (fun u => disjointb (kinds t) (kinds u)) r = true -> In k (kinds t) -> In k (ukinds r) -> False.
  Proof.
    intros t r k H Hk. induction r as [|u r IH]; simpl; intros Hin; [exact Hin|].
    simpl in H. apply andb_prop in H. destruct H as [H1 H2].
    apply in_app_or in Hin. destruct Hin as [Hin|Hin].
    - exact (disjointb_spec _ _ k H1 Hk Hin).
    - exact (IH H2 Hin).
  Qed.

  Lemma union_valid : forall ts, Forall Pvalid ts -> uunamb ts = true -> udefs ts = true ->
    forall j J k w, kind_of J = kind_of j -> ufirst norm j ts k = Some w ->
    exists i v, w = VUn (k + i) v /\ uwt norm J ts i v = true /\ uomits ts i v = true.
  Proof.
    intros ts HF. induction HF as [|t r Ht HF IH]; intros Hu Hd j J k w HJ H; simpl in H; [discriminate|].
    simpl in Hu, Hd. apply andb_prop in Hu. destruct Hu as [Hu12 Hu3].
    apply andb_prop in Hu12. destruct Hu12 as [Hu1 Hu2].
    apply andb_prop in Hd. destruct Hd as [Hd1 Hd2].
    destruct (parse norm t j) as [v|] eqn:E.
    - inversion H; subst. exists 0, v. rewrite Nat.add_0_r. split; [reflexivity|].
      destruct (Ht Hu1 Hd1 j v E) as [H1 H2]. simpl. split; assumption.
    - destruct (IH Hu3 Hd2 j J (S k) w HJ H) as [i [v [Hw [H1 H2]]]].
      exists (S i), v. split; [rewrite Hw; f_equal; lia|]. simpl. split; [|exact H2].
      destruct (parse norm t J) as [x|] eqn:E2; [|exact H1]. exfalso.
      destruct (kind_fact t J x E2) as [_ HinT].
      assert (HFk : Forall Kfact r) by (apply Forall_forall; intros; apply kind_fact).
      destruct (ufirst_kind r HFk j (S k) w H) as [i' [v' [_ [_ HinR]]]].
      rewrite HJ in HinT. exact (disjoint_all t r _ Hu2 HinT HinR).
  Qed.

  (** ** Objects *)
  Lemma fwt_of_parse : forall t' j' v, parse norm t' j' = Some v -> wtb norm t' v = true -> fwt norm t' v = true.
  Proof.
    intros t' j' v Hp Hw. destruct v; try exact Hw. simpl. exact (parse_none_topt t' j' Hp).
  Qed.

  Lemma obj_valid : forall kvs fs,
    Forall (fun f => Pvalid (fty f)) fs -> ounamb fs = true -> odefs fs = true ->
    forall vs, oparse norm kvs fs = Some vs -> owt norm fs vs = true /\ oomits fs vs = true.
  Proof.
    intros kvs fs HF. induction HF as [|[n a t d] fr Hf HF IH]; intros Hu Hd vs H.
    - simpl in H. inversion H; subst. split; reflexivity.
    - cbn [oparse] in H.
      destruct (pfield norm kvs (Fld n a t d)) as [v|] eqn:E; [|discriminate].
      destruct (oparse norm kvs fr) as [vr|] eqn:E2; [|discriminate]. inversion H; subst.
      simpl in Hu. apply andb_prop in Hu. destruct Hu as [Hu1 Hu2].
      simpl in Hd. apply andb_prop in Hd. destruct Hd as [Hd123 Hd4].
      apply andb_prop in Hd123. destruct Hd123 as [Hd12 Hd3].
      apply andb_prop in Hd12. destruct Hd12 as [Hd1 Hd2].
      destruct (IH Hu2 Hd4 vr eq_refl) as [Hw Ho]. simpl in Hf.
      assert (Hfield : fwt norm t v = true /\ fomits t d v = true).
      { cbn [pfield] in E. destruct (lookup2 a n kvs) as [j'|].
        - destruct (Hf Hu1 Hd1 j' v E) as [H1 H2]. split; [exact (fwt_of_parse t j' v E H1)|].
          destruct v; try exact H2. simpl.
          apply parse_none_topt in E. rewrite E in Hd3. simpl in Hd3. exact Hd3.
        - destruct d as [dv|].
          + inversion E; subst. apply andb_prop in Hd2. exact Hd2.
          + destruct (is_topt t) eqn:T; [|discriminate]. inversion E; subst. simpl. rewrite T. split; reflexivity. }
      destruct Hfield as [F1 F2]. simpl. unfold fwt in F1. unfold fomits in F2.
      split.
      + change (fwt norm t v && owt norm fr vr = true). unfold fwt. rewrite F1, Hw. reflexivity.
      + destruct v; simpl; rewrite ?F2, ?Ho; try reflexivity; simpl in F2; rewrite F2; exact Ho.
  Qed.

  (** ** Main theorem *)
  Theorem parse_valid : forall t, unambiguous t = true -> defaults_ok t = true ->
    forall j v, parse norm t j = Some v -> wtb norm t v = true /\ omitsb t v = true.
  Proof.
    induction t using ty_ind'; intros Hu Hd j v Hp.
    - destruct j; simpl in Hp; inversion Hp; subst; split; reflexivity.
    - destruct j; simpl in Hp; inversion Hp; subst; split; reflexivity.
    - destruct j; simpl in Hp; inversion Hp; subst; split; reflexivity.
    - destruct j; simpl in Hp; try discriminate. destruct (nonempty (strip s)) eqn:E; [|discriminate].
      inversion Hp; subst. simpl. rewrite strip_idem, String.eqb_refl, E. split; reflexivity.
    - destruct j; simpl in Hp; try discriminate. destruct (has_nonws s) eqn:E; [|discriminate].
      inversion Hp; subst. simpl. rewrite E. split; reflexivity.
    - simpl in Hp. destruct (memb j vs) eqn:E; [|discriminate]. inversion Hp; subst. simpl. rewrite E. split; reflexivity.
    - destruct j; simpl in Hp; try discriminate. destruct (norm c s) as [s'|] eqn:E; [|discriminate].
      inversion Hp; subst. simpl. rewrite (norm_idem c s s' E), String.eqb_refl. split; reflexivity.
    - simpl in Hu, Hd. cbn [parse] in Hp.
      destruct j; try (inversion Hp; subst; split; reflexivity; fail);
        (destruct (parse norm t _) as [v'|] eqn:E; [|discriminate]; inversion Hp; subst;
         destruct (IHt Hu Hd _ v' E) as [H1 H2]; destruct (kind_fact t _ v' E) as [K1 _];
         cbn [wtb omitsb]; rewrite H1; split; [|exact H2];
         destruct (dump t v'); simpl in K1; try discriminate; reflexivity).
    - rewrite parse_union_eq in Hp. rewrite unamb_union_eq in Hu. rewrite defs_union_eq in Hd.
      assert (HFk : Forall Kfact ts) by (apply Forall_forall; intros; apply kind_fact).
      destruct (ufirst_kind ts HFk j 0 v Hp) as [i0 [v0 [Hw0 [K1 _]]]].
      assert (HP : Forall Pvalid ts).
      { apply Forall_forall. intros u Hin. rewrite Forall_forall in H. unfold Pvalid. apply H. exact Hin. }
      destruct (union_valid ts HP Hu Hd j (udump ts i0 v0) 0 v K1 Hp) as [i [v' [Hw [H1 H2]]]].
      rewrite Hw in Hw0. inversion Hw0; subst. simpl Nat.add in *.
      rewrite wt_union_eq, omits_union_eq, dump_union_eq. split; assumption.
    - simpl in Hu, Hd. cbn [parse] in Hp. destruct j; try discriminate.
      destruct (opt_list (map (parse norm t) l)) as [vs|] eqn:E; [|discriminate]. inversion Hp; subst.
      destruct (list_valid t l vs IHt Hu Hd E) as [H1 H2]. simpl. split; assumption.
    - simpl in Hu, Hd. cbn [parse] in Hp. destruct j; try discriminate.
      destruct (opt_list (map (parse norm t) l)) as [vs|] eqn:E; [|discriminate]. inversion Hp; subst.
      destruct (list_valid t l vs IHt Hu Hd E) as [H1 H2]. simpl.
      rewrite (forallb_dedup _ _ H1), (forallb_dedup _ _ H2), nodupb_dedup. split; reflexivity.
    - destruct j; try (simpl in Hp; discriminate).
      rewrite parse_obj_eq in Hp. cbv zeta in Hp.
      destruct (fb && _); [discriminate|].
      destruct (oparse norm (upd kvs cs) fs) as [vs|] eqn:E; [|discriminate]. inversion Hp; subst.
      rewrite unamb_obj_eq in Hu. rewrite defs_obj_eq in Hd.
      rewrite wt_obj_eq, omits_obj_eq.
      apply (obj_valid (upd kvs cs) fs); try assumption.
  Qed.

  (** Normalisation through the parser is idempotent. *)
  Theorem parse_idempotent : forall t, wfb t = true -> unambiguous t = true -> defaults_ok t = true ->
    forall j v, parse norm t j = Some v -> parse norm t (dump t v) = Some v.
  Proof.
    intros t Hwf Hu Hd j v Hp. destruct (parse_valid t Hu Hd j v Hp) as [H1 H2].
    apply parse_dump; assumption.
  Qed.

  Theorem dump_parse_dump : forall t, wfb t = true -> unambiguous t = true -> defaults_ok t = true ->
    forall j v v', parse norm t j = Some v -> parse norm t (dump t v) = Some v' ->
    v' = v /\ dump t v' = dump t v.
  Proof.
    intros t Hwf Hu Hd j v v' Hp Hp'. rewrite (parse_idempotent t Hwf Hu Hd j v Hp) in Hp'.
    inversion Hp'; subst. split; reflexivity.
  Qed.
End Valid.

(** ** An overlapping Union refutes the statement: [Union[Duration, Str]] given [" PT1S "]. *)
Lemma ambiguous_union_refuted :
  let t := TUnion [TCus CDuration; TStr] in
  let j := JStr " PT1S " in
  unambiguous t = false /\ wfb t = true /\ defaults_ok ex_norm t = true /\
  exists v v', parse ex_norm t j = Some v /\ wtb ex_norm t v = false /\
               parse ex_norm t (dump t v) = Some v' /\ v' <> v /\
               dump t v = JStr "PT1S" /\ v = VUn 1 (VStr "PT1S") /\ v' = VUn 0 (VCus "PT1S").
Proof.
  cbv zeta. split; [vm_compute; reflexivity|]. split; [vm_compute; reflexivity|]. split; [vm_compute; reflexivity|].
  exists (VUn 1 (VStr "PT1S")), (VUn 0 (VCus "PT1S")).
  repeat split; try (vm_compute; reflexivity). discriminate.
Qed.

(** ** Set-typed input: order and multiplicity are irrelevant. *)
Section TvalInd.
  Variable P : tval -> Prop.
  Hypothesis HNone : P VNone.
  Hypothesis HSome : forall v, P v -> P (VSome v).
  Hypothesis HInt : forall z, P (VInt z).
  Hypothesis HFloat : forall s, P (VFloat s).
  Hypothesis HBool : forall b, P (VBool b).
  Hypothesis HStr : forall s, P (VStr s).
  Hypothesis HLit : forall j, P (VLit j).
  Hypothesis HCus : forall s, P (VCus s).
  Hypothesis HList : forall l, Forall P l -> P (VList l).
  Hypothesis HSet : forall l, Forall P l -> P (VSet l).
  Hypothesis HUn : forall i v, P v -> P (VUn i v).
  Hypothesis HObj : forall l, Forall P l -> P (VObj l).

  Fixpoint tval_ind' (v : tval) : P v :=
    let fix go (l : list tval) : Forall P l :=
      match l with [] => Forall_nil _ | x :: r => Forall_cons _ (tval_ind' x) (go r) end in
    match v with
    | VNone => HNone | VSome v' => HSome v' (tval_ind' v')
    | VInt z => HInt z | VFloat s => HFloat s | VBool b => HBool b | VStr s => HStr s
    | VLit j => HLit j | VCus s => HCus s
    | VList l => HList l (go l) | VSet l => HSet l (go l)
    | VUn i v' => HUn i v' (tval_ind' v')
    | VObj l => HObj l (go l)
    end.
End TvalInd.

Fixpoint all2b (l m : list tval) : bool :=
  match l, m with
  | [], [] => true
  | x :: l', y :: m' => tval_eqb x y && all2b l' m'
  | _, _ => false
  end.

Lemma prim_eqb_sound : forall a b, prim_eqb a b = true -> a = b.
Proof.
  intros [] []; simpl; intros H; try discriminate.
  - apply Bool.eqb_prop in H. subst. reflexivity.
  - apply Z.eqb_eq in H. subst. reflexivity.
  - apply String.eqb_eq in H. subst. reflexivity.
Qed.

Lemma all2b_sound : forall l, Forall (fun a => forall b, tval_eqb a b = true -> a = b) l ->
  forall m, all2b l m = true -> l = m.
Proof.
  intros l HF. induction HF as [|x r Hx HF IH]; intros [|y m] H; simpl in H; try discriminate; [reflexivity|].
  apply andb_prop in H. destruct H as [H1 H2]. rewrite (Hx y H1), (IH m H2). reflexivity.
Qed.

Lemma tval_eqb_sound : forall a b, tval_eqb a b = true -> a = b.
Proof.
  induction a using tval_ind'; intros w Hb; destruct w; simpl in Hb; try discriminate.
  - reflexivity.
  - f_equal. apply IHa. exact Hb.
  - apply Z.eqb_eq in Hb. subst. reflexivity.
  - apply String.eqb_eq in Hb. subst. reflexivity.
  - apply Bool.eqb_prop in Hb. subst. reflexivity.
  - apply String.eqb_eq in Hb. subst. reflexivity.
  - f_equal. apply prim_eqb_sound. exact Hb.
  - apply String.eqb_eq in Hb. subst. reflexivity.
  - f_equal. apply (all2b_sound l H). exact Hb.
  - f_equal. apply (all2b_sound l H). exact Hb.
  - apply andb_prop in Hb. destruct Hb as [H1 H2]. apply Nat.eqb_eq in H1. subst. f_equal. apply IHa. exact H2.
  - f_equal. apply (all2b_sound l H). exact Hb.
Qed.

Lemma dedup_In : forall l x, In x (dedup l) <-> In x l.
Proof.
  induction l as [|y r IH]; simpl; intros x; [tauto|].
  destruct (existsb (tval_eqb y) (dedup r)) eqn:E.
  - rewrite IH. split; [intros H; right; exact H|]. intros [H|H]; [|exact H].
    subst. apply existsb_exists in E. destruct E as [z [Hz He]].
    apply tval_eqb_sound in He. subst. apply IH. exact Hz.
  - simpl. rewrite IH. tauto.
Qed.

Theorem set_input_order_irrelevant : forall (norm : cust -> string -> option string) t xs ys a,
  (forall j, In j xs <-> In j ys) ->
  parse norm (TSet t) (JArr xs) = Some (VSet a) ->
  exists b, parse norm (TSet t) (JArr ys) = Some (VSet b) /\
            (forall x, In x a <-> In x b) /\ nodupb a = true /\ nodupb b = true.
Proof.
  intros norm t xs ys a Hsame Hp. cbn [parse] in Hp.
  destruct (opt_list (map (parse norm t) xs)) as [vs|] eqn:E; [|discriminate]. inversion Hp; subst.
  destruct (opt_list_Some_In _ _ _ _ _ E) as [H1 H2].
  assert (Hys : exists ws, opt_list (map (parse norm t) ys) = Some ws).
  { clear -H1 Hsame. assert (Hall : forall y, In y ys -> exists v, parse norm t y = Some v)
      by (intros y Hy; apply H1; apply Hsame; exact Hy).
    clear H1 Hsame. induction ys as [|y r IH]; simpl; [eexists; reflexivity|].
    destruct (Hall y (or_introl eq_refl)) as [v Hv]. rewrite Hv.
    destruct IH as [ws Hws]; [intros z Hz; apply Hall; right; exact Hz|]. rewrite Hws. eexists; reflexivity. }
  destruct Hys as [ws Hws]. exists (dedup ws). cbn [parse]. rewrite Hws.
  split; [reflexivity|]. destruct (opt_list_Some_In _ _ _ _ _ Hws) as [_ H4].
  split; [|split; apply nodupb_dedup].
  intros x. rewrite !dedup_In, H2, H4. split; intros [z [Hz Hf]]; exists z; (split; [apply Hsame; exact Hz | exact Hf]).
Qed.
