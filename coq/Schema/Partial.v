(** * Model of partial metadata objects and their merge (property C14).

    Transcribes, as total Gallina functions, from [schema/partial.py]:
    - [PartialModel._update_field]  -> [mfield] (one field) / [merge] (two values),
    - [PartialModel.merge_with]     -> the object case of [merge] ([mgo] over the fields),
    - [PartialModel.merge]          -> [merge_all] (left fold, as [harvester.harvest] uses it),
    - [PartialModel.to_partial] / [from_partial] -> [to_partial] / [from_partial],
    - the empty partial [P()]       -> [empty_of].

    Values.  A partial object is the positional list of its fields (field order of the
    most derived class of the inheritance chain found at that position); [None] is "field
    not provided".  Atoms are integers: the harness interns every primitive Python value
    ([0], [False], [0.0], [""] included) to a number, *falsy atoms to numbers <= 0*, truthy
    ones to numbers > 0 - the distinction matters only to [merge_pinned].  A set is kept
    as the list of its elements in union order and is *observed* through [canon]
    (sorted, duplicate-free), so that the algebraic laws are plain equalities.

    [merge] returns [None] where the code raises (the [ValueError] of a refused overwrite;
    also the [TypeError] Python raises for [list + non-list], unreachable for values of one
    field type).  It encodes the rule the docstrings state
    ("None is always overwritten by a non-None value"): [v_new if v_new is not None else
    v_old].  The rule of the pinned tree, [v_new or v_old], is kept as [merge_pinned]. *)
From Coq Require Import List String ZArith Bool.
From MV Require Import Base.Sx.
Import ListNotations.
Local Open Scope string_scope.

Inductive pval : Type :=
| VAtom (a : Z)
| VList (l : list Z)
| VSet (l : list Z)
| VObj (fs : list (option pval)).

(** ** The merge *)

(** [_update_field v_old v_new] for two values that are both not [None]
    (same order of tests as the code: list, set, model, otherwise opaque). *)
Fixpoint merge (ow : bool) (x y : pval) {struct x} : option pval :=
  match x with
  | VList a => match y with VList b => Some (VList (a ++ b)) | _ => None end
  | VSet a => match y with VSet b => Some (VSet (a ++ b)) | _ => None end
  | VObj fs =>
      match y with
      | VObj gs =>
          (* merge_with: copy of self, then every provided field of obj in turn *)
          option_map VObj
            ((fix go (fs gs : list (option pval)) {struct fs} : option (list (option pval)) :=
                match fs, gs with
                | [], _ => Some gs
                | _, [] => Some fs
                | f :: fs', g :: gs' =>
                    match (match f, g with
                           | None, _ => Some g
                           | Some _, None => Some f
                           | Some x', Some y' => option_map Some (merge ow x' y')
                           end) with
                    | None => None
                    | Some h => match go fs' gs' with
                                | None => None
                                | Some r => Some (h :: r)
                                end
                    end
                end) fs gs)
      | _ => if ow then Some y else None
      end
  | VAtom _ => if ow then Some y else None
  end.

(** [_update_field] on possibly missing values: "None -> missing value -> just use the
    other one", with the test the documentation states ([is not None]). *)
Definition mfield (ow : bool) (f g : option pval) : option (option pval) :=
  match f, g with
  | None, _ => Some g
  | Some _, None => Some f
  | Some x, Some y => option_map Some (merge ow x y)
  end.

(** The field loop of [merge_with], standalone (equal to the nested loop of [merge],
    lemma [merge_obj]). *)
Fixpoint mgo (ow : bool) (fs gs : list (option pval)) {struct fs} : option (list (option pval)) :=
  match fs, gs with
  | [], _ => Some gs
  | _, [] => Some fs
  | f :: fs', g :: gs' =>
      match mfield ow f g with
      | None => None
      | Some h => match mgo ow fs' gs' with
                  | None => None
                  | Some r => Some (h :: r)
                  end
      end
  end.

Definition obind {X Y : Type} (o : option X) (f : X -> option Y) : option Y :=
  match o with Some x => f x | None => None end.

(** [PartialModel.merge(objs...)] = [reduce(merge_two, objs)]; [P()] for no arguments. *)
Definition merge_all (ow : bool) (e : pval) (xs : list pval) : option pval :=
  fold_left (fun acc x => obind acc (fun a => merge ow a x)) xs (Some e).

(** [PartialModel.merge (variadic)] exactly as the code computes it: [cls()] for no argument,
    otherwise [reduce(merge_two, objs)] *starting from the first argument* (not from the
    empty partial; that the two agree is lemma [merge_star_fold]). *)
Definition merge_star (ow : bool) (e : pval) (xs : list pval) : option pval :=
  match xs with
  | [] => Some e
  | x :: r => fold_left (fun acc y => obind acc (fun a => merge ow a y)) r (Some x)
  end.

(** ** The rule of the pinned tree: [return v_new or v_old] *)

Definition truthy (v : pval) : bool :=
  match v with
  | VAtom a => (0 <? a)%Z
  | VList l | VSet l => match l with [] => false | _ => true end
  | VObj _ => true
  end.

Definition por (n o : option pval) : option pval :=
  match n with
  | Some v => if truthy v then n else o
  | None => o
  end.

Fixpoint merge_pinned (ow : bool) (x y : pval) {struct x} : option pval :=
  match x with
  | VList a => match y with VList b => Some (VList (a ++ b)) | _ => None end
  | VSet a => match y with VSet b => Some (VSet (a ++ b)) | _ => None end
  | VObj fs =>
      match y with
      | VObj gs =>
          option_map VObj
            ((fix go (fs gs : list (option pval)) {struct fs} : option (list (option pval)) :=
                match fs, gs with
                | [], _ => Some (map (fun g => por g None) gs)
                | _, [] => Some fs
                | f :: fs', g :: gs' =>
                    match (match f, g with
                           | Some x', Some y' => option_map Some (merge_pinned ow x' y')
                           | _, None => Some f       (* obj's None fields are not visited *)
                           | None, Some _ => Some (por g f)
                           end) with
                    | None => None
                    | Some h => match go fs' gs' with
                                | None => None
                                | Some r => Some (h :: r)
                                end
                    end
                end) fs gs)
      | _ => if ow then Some y else None
      end
  | VAtom _ => if ow then Some y else None
  end.

(** ** Field types *)

Inductive fkind : Type :=
| Req                (* required field of the complete class *)
| Opt                (* Optional[...] field, default None *)
| Dflt (d : pval).   (* non-optional field with a default value *)

Inductive ty : Type :=
| TAtom
| TList
| TSet
| TObj (ts : list (fkind * ty)).

Fixpoint has_tyb (t : ty) (v : pval) {struct t} : bool :=
  match t, v with
  | TAtom, VAtom _ => true
  | TList, VList _ => true
  | TSet, VSet _ => true
  | TObj ts, VObj fs =>
      (fix go (ts : list (fkind * ty)) (fs : list (option pval)) {struct ts} : bool :=
         match ts, fs with
         | [], [] => true
         | kt :: ts', f :: fs' =>
             match f with None => true | Some v' => has_tyb (snd kt) v' end && go ts' fs'
         | _, _ => false
         end) ts fs
  | _, _ => false
  end.

Definition has_ty (t : ty) (v : pval) : Prop := has_tyb t v = true.

(** Standalone field-list typing (equal to the nested loop, lemma [has_tyb_obj]). *)
Fixpoint tys_ok (ts : list (fkind * ty)) (fs : list (option pval)) {struct ts} : bool :=
  match ts, fs with
  | [], [] => true
  | kt :: ts', f :: fs' =>
      match f with None => true | Some v' => has_tyb (snd kt) v' end && tys_ok ts' fs'
  | _, _ => false
  end.

(** The empty partial [P()] of a class with field types [ts]. *)
Definition empty_of (ts : list (fkind * ty)) : pval := VObj (map (fun _ => None) ts).

(** ** Paths, provided values, information order *)

Definition fld (i : nat) (v : pval) : option pval :=
  match v with VObj fs => nth i fs None | _ => None end.

Fixpoint at_path (p : list nat) (v : pval) : option pval :=
  match p with
  | [] => Some v
  | i :: p' => match fld i v with Some w => at_path p' w | None => None end
  end.

Definition provided (p : list nat) (v : pval) : Prop := at_path p v <> None.

(** [leq a r]: everything [a] provides is present in [r] at the same place
    (atoms equal, lists as contiguous segments, set elements as elements). *)
Fixpoint leq (a r : pval) {struct a} : Prop :=
  match a, r with
  | VAtom x, VAtom y => x = y
  | VList l, VList m => exists p s : list Z, m = (p ++ l ++ s)%list
  | VSet l, VSet m => incl l m
  | VObj fs, VObj gs =>
      (fix go (fs gs : list (option pval)) {struct fs} : Prop :=
         match fs with
         | [] => True
         | f :: fs' =>
             match f with
             | None => True
             | Some x => match gs with Some y :: _ => leq x y | _ => False end
             end /\ go fs' (tl gs)
         end) fs gs
  | _, _ => False
  end.

Fixpoint leqs (fs gs : list (option pval)) {struct fs} : Prop :=
  match fs with
  | [] => True
  | f :: fs' =>
      match f with
      | None => True
      | Some x => match gs with Some y :: _ => leq x y | _ => False end
      end /\ leqs fs' (tl gs)
  end.

(** ** Partial <-> complete conversion *)

(** [to_partial(obj)] for an instance of the original class is
    [cls.construct] applied to the field dictionary of obj: the same fields under the
    partial class. *)
Definition to_partial (o : pval) : pval := o.

(** [from_partial]: convert nested partials back, then validate against the original
    class: a missing required field is refused, a missing defaulted field is filled. *)
Fixpoint from_partial (t : ty) (v : pval) {struct t} : option pval :=
  match t, v with
  | TAtom, VAtom _ => Some v
  | TList, VList _ => Some v
  | TSet, VSet _ => Some v
  | TObj ts, VObj fs =>
      option_map VObj
        ((fix go (ts : list (fkind * ty)) (fs : list (option pval)) {struct ts}
            : option (list (option pval)) :=
            match ts, fs with
            | [], [] => Some []
            | kt :: ts', f :: fs' =>
                match (match f with
                       | Some x => option_map Some (from_partial (snd kt) x)
                       | None => match fst kt with
                                 | Req => None
                                 | Opt => Some None
                                 | Dflt d => Some (Some d)
                                 end
                       end) with
                | None => None
                | Some h => match go ts' fs' with
                            | None => None
                            | Some r => Some (h :: r)
                            end
                end
            | _, _ => None
            end) ts fs)
  | _, _ => None
  end.

Definition fp_field (kt : fkind * ty) (f : option pval) : option (option pval) :=
  match f with
  | Some x => option_map Some (from_partial (snd kt) x)
  | None => match fst kt with
            | Req => None
            | Opt => Some None
            | Dflt d => Some (Some d)
            end
  end.

Fixpoint fp_go (ts : list (fkind * ty)) (fs : list (option pval)) {struct ts}
  : option (list (option pval)) :=
  match ts, fs with
  | [], [] => Some []
  | kt :: ts', f :: fs' =>
      match fp_field kt f with
      | None => None
      | Some h => match fp_go ts' fs' with
                  | None => None
                  | Some r => Some (h :: r)
                  end
      end
  | _, _ => None
  end.

(** A complete object: typed, every required and every defaulted field present, nested
    objects complete. *)
Fixpoint complete (t : ty) (v : pval) {struct t} : bool :=
  match t, v with
  | TAtom, VAtom _ => true
  | TList, VList _ => true
  | TSet, VSet _ => true
  | TObj ts, VObj fs =>
      (fix go (ts : list (fkind * ty)) (fs : list (option pval)) {struct ts} : bool :=
         match ts, fs with
         | [], [] => true
         | kt :: ts', f :: fs' =>
             match f with
             | Some x => complete (snd kt) x
             | None => match fst kt with Opt => true | _ => false end
             end && go ts' fs'
         | _, _ => false
         end) ts fs
  | _, _ => false
  end.

Fixpoint complete_go (ts : list (fkind * ty)) (fs : list (option pval)) {struct ts} : bool :=
  match ts, fs with
  | [], [] => true
  | kt :: ts', f :: fs' =>
      match f with
      | Some x => complete (snd kt) x
      | None => match fst kt with Opt => true | _ => false end
      end && complete_go ts' fs'
  | _, _ => false
  end.

(** ** The harvest pipeline ([harvester.harvest])

    [outs] are the partials the sources returned, in the order of the sources (a harvester's
    [run()] result or the parsed metadata file), each cast to the partial class of the target
    schema (the identity on values of that class).  They are accumulated with
    [Partial.merge (variadic)] - *without* overwrite permission - and the result is returned
    as it is ([return_partial]) or completed with [from_partial]. *)
Definition harvest (ts : list (fkind * ty)) (return_partial : bool) (outs : list pval) : option pval :=
  obind (merge_star false (empty_of ts) outs)
        (fun m => if return_partial then Some m else from_partial (TObj ts) m).

(** ** [ignore_invalid]

    [to_partial(obj, ignore_invalid=True)] validates the raw fields of [obj] against the
    partial class and keeps the valid ones: a field whose value is not of the field's type is
    dropped as a whole (a nested object with one bad field is dropped entirely, not repaired).
    [merge_with(obj, ignore_invalid=True)] casts [obj] that way before merging. *)
Fixpoint sanitize (ts : list (fkind * ty)) (fs : list (option pval)) {struct ts} : list (option pval) :=
  match ts with
  | [] => []
  | kt :: ts' =>
      match fs with
      | Some v :: _ => if has_tyb (snd kt) v then Some v else None
      | _ => None
      end :: sanitize ts' (tl fs)
  end.

Definition to_partial_ii (ts : list (fkind * ty)) (raw : pval) : option pval :=
  match raw with VObj fs => Some (VObj (sanitize ts fs)) | _ => None end.

Definition merge_ii (ow : bool) (ts : list (fkind * ty)) (a raw : pval) : option pval :=
  obind (to_partial_ii ts raw) (merge ow a).

(** ** Observation: sets as sorted duplicate-free lists *)

Fixpoint ins (x : Z) (l : list Z) : list Z :=
  match l with
  | [] => [x]
  | y :: r => match (x ?= y)%Z with
              | Lt => x :: l
              | Eq => l
              | Gt => y :: ins x r
              end
  end.

Definition canon (l : list Z) : list Z := fold_right ins [] l.

Fixpoint obs (v : pval) : pval :=
  match v with
  | VAtom _ | VList _ => v
  | VSet l => VSet (canon l)
  | VObj fs => VObj (map (fun f => match f with Some x => Some (obs x) | None => None end) fs)
  end.

(** ** Runner entry point *)

Fixpoint sx_pval (x : sx) : option pval :=
  match x with
  | A s => option_map VAtom (Z_of_string s)
  | L [A "l"; xs] => option_map VList (sx_map sx_Z xs)
  | L [A "s"; xs] => option_map VSet (sx_map sx_Z xs)
  | L [A "o"; L fs] =>
      option_map VObj
        ((fix go (l : list sx) : option (list (option pval)) :=
            match l with
            | [] => Some []
            | f :: r =>
                match (match f with
                       | L [] => Some None
                       | L [y] => option_map Some (sx_pval y)
                       | _ => None
                       end), go r with
                | Some a, Some b => Some (a :: b)
                | _, _ => None
                end
            end) fs)
  | _ => None
  end.

Fixpoint of_pval (v : pval) : sx :=
  match v with
  | VAtom a => of_Z a
  | VList l => L [A "l"; of_list of_Z l]
  | VSet l => L [A "s"; of_list of_Z l]
  | VObj fs =>
      L [A "o"; L (map (fun f => match f with Some x => L [of_pval x] | None => L [] end) fs)]
  end.

Definition sx_kind (x : sx) : option fkind :=
  match x with
  | A "r" => Some Req
  | A "o" => Some Opt
  | L [A "d"; d] => option_map Dflt (sx_pval d)
  | _ => None
  end.

Fixpoint sx_ty (x : sx) : option ty :=
  match x with
  | A "a" => Some TAtom
  | A "l" => Some TList
  | A "s" => Some TSet
  | L [A "o"; L ts] =>
      option_map TObj
        ((fix go (l : list sx) : option (list (fkind * ty)) :=
            match l with
            | [] => Some []
            | f :: r =>
                match (match f with
                       | L [k; t] => match sx_kind k, sx_ty t with
                                     | Some k', Some t' => Some (k', t')
                                     | _, _ => None
                                     end
                       | _ => None
                       end), go r with
                | Some a, Some b => Some (a :: b)
                | _, _ => None
                end
            end) ts)
  | _ => None
  end.

Definition of_res (r : option pval) : sx := of_opt of_pval (option_map obs r).

(** Cases:
    [(tri ow t a b c)] -> typing of the three operands, [a.b], [b.c], [(a.b).c], [a.(b.c)],
                          and [a.b] under the pinned rule;
    [(pool ow t (v...))] -> typing of every operand, every [a.b], every [(a.b).c]
                          (equal to [a.(b.c)] by [merge_assoc]), every [a.b] under the pinned rule;
    [(fp t v)]         -> [from_partial], [complete];
    [(fold ow t (v...))] -> [merge_all] from the empty partial of [t];
    [(star ow t (v...))] -> [merge_star] ([PartialModel.merge (variadic)] as computed);
    [(harvest rp t (v...))] -> [harvest];
    [(ii ow t a raw)]  -> [to_partial_ii raw], [merge_ii ow a raw]. *)
Definition run_c14 (x : sx) : sx :=
  match x with
  | L [A "tri"; ow; t; a; b; c] =>
      match sx_bool ow, sx_ty t, sx_pval a, sx_pval b, sx_pval c with
      | Some ow, Some t, Some a, Some b, Some c =>
          let ab := merge ow a b in
          let bc := merge ow b c in
          L [L [of_bool (has_tyb t a); of_bool (has_tyb t b); of_bool (has_tyb t c)];
             of_res ab; of_res bc;
             of_res (obind ab (fun r => merge ow r c));
             of_res (obind bc (fun r => merge ow a r));
             of_res (merge_pinned ow a b)]
      | _, _, _, _, _ => sx_bad "tri"
      end
  | L [A "pool"; ow; t; vs] =>
      match sx_bool ow, sx_ty t, sx_map sx_pval vs with
      | Some ow, Some t, Some vs =>
          let pairs := map (fun a => map (fun b => merge ow a b) vs) vs in
          L [of_list (fun v => of_bool (has_tyb t v)) vs;
             of_list (of_list of_res) pairs;
             of_list (of_list (fun ab => of_list (fun c => of_res (obind ab (fun r => merge ow r c))) vs))
               pairs;
             of_list (fun a => of_list (fun b => of_res (merge_pinned ow a b)) vs) vs]
      | _, _, _ => sx_bad "pool"
      end
  | L [A "fp"; t; v] =>
      match sx_ty t, sx_pval v with
      | Some t, Some v => L [of_res (from_partial t v); of_bool (complete t v)]
      | _, _ => sx_bad "fp"
      end
  | L [A "star"; ow; t; vs] =>
      match sx_bool ow, sx_ty t, sx_map sx_pval vs with
      | Some ow, Some (TObj ts), Some vs => of_res (merge_star ow (empty_of ts) vs)
      | _, _, _ => sx_bad "star"
      end
  | L [A "harvest"; rp; t; vs] =>
      match sx_bool rp, sx_ty t, sx_map sx_pval vs with
      | Some rp, Some (TObj ts), Some vs => of_res (harvest ts rp vs)
      | _, _, _ => sx_bad "harvest"
      end
  | L [A "ii"; ow; t; a; raw] =>
      match sx_bool ow, sx_ty t, sx_pval a, sx_pval raw with
      | Some ow, Some (TObj ts), Some a, Some raw =>
          L [of_res (to_partial_ii ts raw); of_res (merge_ii ow ts a raw)]
      | _, _, _, _ => sx_bad "ii"
      end
  | L [A "fold"; ow; t; vs] =>
      match sx_bool ow, sx_ty t, sx_map sx_pval vs with
      | Some ow, Some (TObj ts), Some vs => of_res (merge_all ow (empty_of ts) vs)
      | _, _, _ => sx_bad "fold"
      end
  | _ => sx_bad "c14"
  end.
