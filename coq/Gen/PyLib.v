(** * PyLib: Gallina meaning of the Python builtins the translator [tools/py2coq.py] emits.

    The translator maps a small, fail-closed subset of Python to Gallina terms over these
    definitions (and over the standard library: [String.eqb], [String.prefix],
    [String.index], [N.*], [Z.*], [List.*]) and over [Base.Cmp] ([scmp]: code-point order of
    ASCII strings; [pcmp]: lexicographic tuples).  This file is the whole "semantics of
    Python builtins" trusted by the generated tie; it is independent of the hand-written
    models.  Bridging lemmas to the primitives of the hand models are in [Gen/PyLibProofs.v].

    Not modelled: exceptions.  Partial operations get a total reading
    ([l[-1]] of an empty list is the type's default, [l.pop()] of [[]] is [[]],
    [s.split("")] is [[s]]); the translator lists every partial operation it emitted.

    Definitions only. *)
From Coq Require Import List String Ascii NArith ZArith Bool.
From MV Require Import Base.Sx Base.Cmp.
Import ListNotations.
Local Open Scope string_scope.

(** ** str *)

(** [s.startswith(p)], [s.endswith(p)]. *)
Definition py_startswith (s p : string) : bool := String.prefix p s.

Fixpoint py_endswith (s p : string) : bool :=
  String.eqb s p ||
  match s with
  | EmptyString => false
  | String _ r => py_endswith r p
  end.

(** [s.find(sub)] (lowest index or -1) and [sub in s]. *)
Definition py_find (s sub : string) : Z :=
  match String.index 0 sub s with Some n => Z.of_nat n | None => (-1)%Z end.

Definition py_contains (s sub : string) : bool :=
  match String.index 0 sub s with Some _ => true | None => false end.

(** [s.split(sep)] for a non-empty separator: leftmost-first, non-overlapping, never empty.
    [skip] counts the characters of a separator occurrence still to be consumed. *)
Fixpoint py_split_go (sep : string) (skip : nat) (s cur : string) : list string :=
  match s with
  | EmptyString => [cur]
  | String c r =>
      match skip with
      | S k => py_split_go sep k r cur
      | O =>
          if String.prefix sep s
          then cur :: py_split_go sep (String.length sep - 1) r EmptyString
          else py_split_go sep 0 r (cur ++ String c EmptyString)
      end
  end.

Definition py_split (s sep : string) : list string :=
  match sep with
  | EmptyString => [s]
  | _ => py_split_go sep 0 s EmptyString
  end.

(** [sep.join(l)]. *)
Fixpoint py_join (sep : string) (l : list string) : string :=
  match l with
  | [] => EmptyString
  | [x] => x
  | x :: r => x ++ sep ++ py_join sep r
  end.

(** Slices [s[lo:hi]] with Python's treatment of negative and out-of-range bounds. *)
Fixpoint str_drop (n : nat) (s : string) : string :=
  match n with
  | O => s
  | S n' => match s with EmptyString => EmptyString | String _ s' => str_drop n' s' end
  end.

Fixpoint str_take (n : nat) (s : string) : string :=
  match n with
  | O => EmptyString
  | S n' => match s with EmptyString => EmptyString | String c s' => String c (str_take n' s') end
  end.

(** [s.split(sep, 1)], [s.rsplit(sep, 1)], [s.partition(sep)], [s.rpartition(sep)]: cut at the
    first / last occurrence of a non-empty separator.  [*_go] return [Some (head, tail)] if the
    separator occurs. *)
Fixpoint py_split1_go (sep s : string) : option (string * string) :=
  match s with
  | EmptyString => None
  | String c r =>
      if String.prefix sep s then Some (EmptyString, str_drop (String.length sep) s)
      else match py_split1_go sep r with
           | Some (h, t) => Some (String c h, t)
           | None => None
           end
  end.

Fixpoint py_rsplit1_go (sep s : string) : option (string * string) :=
  match s with
  | EmptyString => None
  | String c r =>
      match py_rsplit1_go sep r with
      | Some (h, t) => Some (String c h, t)
      | None => if String.prefix sep s then Some (EmptyString, str_drop (String.length sep) s) else None
      end
  end.

Definition py_split1 (s sep : string) : list string :=
  match py_split1_go sep s with Some (h, t) => [h; t] | None => [s] end.
Definition py_rsplit1 (s sep : string) : list string :=
  match py_rsplit1_go sep s with Some (h, t) => [h; t] | None => [s] end.
Definition py_partition (s sep : string) : string * (string * string) :=
  match py_split1_go sep s with Some (h, t) => (h, (sep, t)) | None => (s, (EmptyString, EmptyString)) end.
Definition py_rpartition (s sep : string) : string * (string * string) :=
  match py_rsplit1_go sep s with Some (h, t) => (h, (sep, t)) | None => (EmptyString, (EmptyString, s)) end.

Definition py_clamp (len : nat) (i : Z) : nat :=
  if (i <? 0)%Z then Z.to_nat (Z.max 0 (Z.of_nat len + i)) else Nat.min len (Z.to_nat i).

Definition py_str_slice (s : string) (lo hi : option Z) : string :=
  let n := String.length s in
  let a := match lo with None => O | Some i => py_clamp n i end in
  let b := match hi with None => n | Some j => py_clamp n j end in
  str_take (b - a) (str_drop a s).

(** [s.lstrip(chars)], [s.rstrip(chars)], [s.strip(chars)] with an explicit character set. *)
Fixpoint chr_in (c : ascii) (chars : string) : bool :=
  match chars with
  | EmptyString => false
  | String d r => Ascii.eqb c d || chr_in c r
  end.

Fixpoint py_lstrip (s chars : string) : string :=
  match s with
  | EmptyString => EmptyString
  | String c r => if chr_in c chars then py_lstrip r chars else s
  end.

Fixpoint py_rstrip (s chars : string) : string :=
  match s with
  | EmptyString => EmptyString
  | String c r =>
      match py_rstrip r chars with
      | EmptyString => if chr_in c chars then EmptyString else String c EmptyString
      | r' => String c r'
      end
  end.

Definition py_strip (s chars : string) : string := py_lstrip (py_rstrip s chars) chars.

(** [str(n)] for integers. *)
Definition py_str_of_N (n : N) : string := string_of_N n.
Definition py_str_of_Z (z : Z) : string := string_of_Z z.

(** ** list / tuple equality, [len] *)

Fixpoint py_list_eqb {X : Type} (eq : X -> X -> bool) (l1 l2 : list X) : bool :=
  match l1, l2 with
  | [], [] => true
  | x :: r1, y :: r2 => eq x y && py_list_eqb eq r1 r2
  | _, _ => false
  end.

Definition py_pair_eqb {X Y : Type} (eqx : X -> X -> bool) (eqy : Y -> Y -> bool)
  (p q : X * Y) : bool := eqx (fst p) (fst q) && eqy (snd p) (snd q).

Definition py_is_nil {X : Type} (l : list X) : bool := match l with [] => true | _ :: _ => false end.

Definition py_len_str (s : string) : Z := Z.of_nat (String.length s).
Definition py_len {X : Type} (l : list X) : Z := Z.of_nat (List.length l).

(** ** Binary streams and the read loop

    A stream is its remaining content plus a list of hints that make reads short: [read(n)]
    returns at most [n] bytes ([n < 0]: everything), at least one if any are left and [n > 0],
    and the empty byte string at the end (or for [n = 0]).  The read-loop idioms
    [while True: c = d.read(n); if not c: break; <update>] / [while c := d.read(n): <update>] /
    [for c in iter(lambda: d.read(n), b""): <update>] are one function: [n] is re-evaluated
    from the accumulator before every read, the loop ends at the first empty read. *)
Record py_stream : Type := MkStream { st_rest : list ascii; st_short : list nat }.

Definition py_read (d : py_stream) (n : Z) : list ascii * py_stream :=
  let len := List.length (st_rest d) in
  let full := if (n <? 0)%Z then len else Nat.min (Z.to_nat n) len in
  let k := match st_short d with [] => full | h :: _ => Nat.max (Nat.min h full) (Nat.min 1 full) end in
  (firstn k (st_rest d), MkStream (skipn k (st_rest d)) (List.tl (st_short d))).

Fixpoint py_read_loop_go {S : Type} (fuel : nat) (size : S -> Z) (step : S -> list ascii -> S)
  (d : py_stream) (s : S) : S * py_stream :=
  match fuel with
  | O => (s, d)
  | Datatypes.S f =>
      let '(c, d') := py_read d (size s) in
      match c with
      | [] => (s, d')
      | _ => py_read_loop_go f size step d' (step s c)
      end
  end.

Definition py_read_loop {S : Type} (size : S -> Z) (step : S -> list ascii -> S)
  (d : py_stream) (s : S) : S * py_stream :=
  py_read_loop_go (Datatypes.S (List.length (st_rest d))) size step d s.
