(** * Generated tie, target [diff]: [DiffNode.status] of [src/metador_core/util/diff.py].

    [Gen_diff.v] is written at check time by [tools/py2coq.py]; this committed file is compiled
    against it (NOT part of [_CoqProject]).  The enum members [DiffNode.Status.*] are mapped to
    the constructors of [Diff.status]; [self.prev] / [self.curr] are [nprev] / [nstatus]'s
    optional entries.  Equivalence with [nstatus] of [Util/Diff.v]; C18's statements about the
    status of reported nodes restated for the translated function.

    Not translated (outside the subset): [DiffNode._type] ([isinstance], truthiness of a
    string), [DiffNode.nodes] (loops, [sorted] with a key function, recursion),
    [DiffNode.compare] (recursion over dicts); [util/hashsums.py] [rel_symlink]
    ([try/except], [pathlib] / [os.readlink]). *)
From Coq Require Import List String Bool.
From MV Require Import Util.Diff Properties.C18.
From MV Require Import Gen.PyLib Gen.PyLibProofs.
From Gen Require Import Gen_diff.
Import ListNotations.

Theorem gen_status_equiv : forall d, DiffNode_status d = nstatus d.
Proof. intros d. unfold DiffNode_status, nstatus. destruct (nprev d), (ncurr d); reflexivity. Qed.
Print Assumptions gen_status_equiv.

Theorem gen_node_status_types : forall a b, canone a = true -> canone b = true ->
  forall n, In n (listing (dirdiff a b)) ->
    (leafoke a = true -> (type_of (nprev n) = None <-> DiffNode_status n = Added)) /\
    (leafoke b = true -> (type_of (ncurr n) = None <-> DiffNode_status n = Removed)).
Proof.
  intros a b Ha Hb n Hn. rewrite gen_status_equiv.
  destruct (C18_node_types a b Ha Hb n Hn) as (_ & _ & H3 & H4). split; assumption.
Qed.
Print Assumptions gen_node_status_types.

Theorem gen_reported_status : forall a b, canone a = true -> canone b = true ->
  forall n, In n (listing (dirdiff a b)) ->
    DiffNode_status n = match osub a (npath n), osub b (npath n) with
                        | None, _ => Added
                        | Some _, None => Removed
                        | Some _, Some _ => Modified
                        end.
Proof.
  intros a b Ha Hb n Hn. rewrite gen_status_equiv.
  destruct (C18_reported_iff a b Ha Hb) as (_ & H & _). apply (H n Hn).
Qed.
Print Assumptions gen_reported_status.

Theorem gen_order_safe : forall a b, canone a = true -> canone b = true ->
  forall n k pp, In n (listing (dirdiff a b)) -> npath n = (pp ++ [k])%list ->
  exists j m, nth_error (listing (dirdiff a b)) j = Some m /\ npath m = pp /\
    forall i, nth_error (listing (dirdiff a b)) i = Some n ->
      (DiffNode_status n = Removed -> i < j) /\ (DiffNode_status n = Added -> j < i).
Proof. intros a b Ha Hb n k pp Hn Hp. rewrite gen_status_equiv. exact (C18_order_safe a b Ha Hb n k pp Hn Hp). Qed.
Print Assumptions gen_order_safe.
